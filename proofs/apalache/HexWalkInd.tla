----------------------------- MODULE HexWalkInd -----------------------------
(* UNBOUNDED complement to MC_HexWalk (TLC: ring numbers 1..6): an inductive invariant of the walk of                 *)
(* spec/geometry/HexWalk.tla for EVERY ring number k >= 1, discharged by Apalache (SMT, integers unbounded):           *)
(*     IndInit => IndInv          (length 0)                                                                          *)
(*     IndInv /\ Next => IndInv'  (length 1)                                                                          *)
(* IndInv pins the current cell to a closed form of (k, i, j); OnRing and Cube - the two safety invariants that do     *)
(* not speak about the recorded history - follow from it by linear arithmetic, for all k.                              *)
(* The recorded history itself (NoRepeat, Complete) is left to TLC's bounded exploration.                              *)
EXTENDS Integers

VARIABLES
    \* @type: Int;
    k,
    \* @type: <<Int, Int, Int>>;
    hex,
    \* @type: Int;
    i,
    \* @type: Int;
    j

AbsI(x) == IF x < 0 THEN -x ELSE x
Max2(a, b) == IF a >= b THEN a ELSE b
\* @type: (<<Int, Int, Int>>) => Int;
Dist(h) == Max2(Max2(AbsI(h[1]), AbsI(h[2])), AbsI(h[3]))

\* direction d (0..5) as in lentil.segmented.hex_directions
\* @type: (Int) => <<Int, Int, Int>>;
Dir(d) == IF d = 0 THEN <<1, 0, -1>> ELSE IF d = 1 THEN <<1, -1, 0>> ELSE IF d = 2 THEN <<0, -1, 1>>
          ELSE IF d = 3 THEN <<-1, 0, 1>> ELSE IF d = 4 THEN <<-1, 1, 0>> ELSE <<0, 1, -1>>

\* corner reached after walking k steps in each of the directions 0 .. d-1 from <<-k, k, 0>>
\* @type: (Int, Int) => <<Int, Int, Int>>;
Corner(d, r) == IF d = 0 \/ d = 6 THEN <<-r, r, 0>> ELSE IF d = 1 THEN <<0, r, -r>> ELSE IF d = 2 THEN <<r, 0, -r>>
                ELSE IF d = 3 THEN <<r, -r, 0>> ELSE IF d = 4 THEN <<0, -r, r>> ELSE <<-r, 0, r>>

Init == /\ k \in Nat /\ k >= 1 /\ hex = <<-k, k, 0>> /\ i = 0 /\ j = 0
Step == /\ i <= 5 /\ j < k
        /\ hex' = <<hex[1] + Dir(i)[1], hex[2] + Dir(i)[2], hex[3] + Dir(i)[3]>>
        /\ j' = j + 1 /\ k' = k /\ i' = i
Turn == /\ i <= 5 /\ j = k
        /\ i' = i + 1 /\ j' = 0 /\ k' = k /\ hex' = hex
Next == Step \/ Turn

\* the closed form: j steps in direction i from corner i (at i = 6 the walk is back at the start)
IndInv == /\ k >= 1 /\ i \in 0..6 /\ j >= 0 /\ j <= k /\ (i = 6 => j = 0)
          /\ hex = <<Corner(i, k)[1] + j * Dir(i)[1], Corner(i, k)[2] + j * Dir(i)[2], Corner(i, k)[3] + j * Dir(i)[3]>>
\* any state satisfying the invariant (Apalache wants every variable assigned first: --init=IndInit --inv=IndInv --length=1)
IndInit == /\ k \in Nat /\ i \in 0..6 /\ j \in Nat
           /\ hex = <<Corner(i, k)[1] + j * Dir(i)[1], Corner(i, k)[2] + j * Dir(i)[2], Corner(i, k)[3] + j * Dir(i)[3]>>
           /\ IndInv

\* consequences, for every k (checked as invariants of the inductive set: --init=IndInit --length=0)
OnRing == Dist(hex) = k
Cube == hex[1] + hex[2] + hex[3] = 0
Closed == i = 6 => hex = <<-k, k, 0>>
Safe == OnRing /\ Cube /\ Closed
=============================================================================
