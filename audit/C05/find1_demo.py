"""C05 finding 1: a pupil whose support is a single sample that is not the centre
sample is silently dropped; a normalised amplitude of power p then images to 0.

exit 1 = violation observed, exit 0 = not observed.
"""
import os
import sys
sys.path.insert(0, os.environ.get('LENTIL_REPO', '.'))
import numpy as np
import lentil

z = 10.0                 # focal length
m = n = 5                # pupil grid
os_ = 2                  # oversampling
Ms = Ns = 4              # detector pixels  -> output grid 8 x 8 = one period
M = Ms * os_
dx, du = 1e-3, 5e-6
wl = dx * du * M / (z * os_)          # makes 1/alpha = M = 8 >= 5 exactly
p = 2.5                               # target power

fail = False


def image_total(amp, mask=None):
    pupil = lentil.Pupil(amplitude=amp, mask=mask, pixelscale=dx, focal_length=z)
    w = lentil.Wavefront(wl) * pupil
    n_fields = len(w.data)
    p_field = float(np.sum(np.abs(w.field) ** 2))
    dft = float(lentil.propagate_dft(w, du, shape=(Ms, Ns), oversample=os_).intensity.sum())
    fft = float(lentil.propagate_fft(w, du, oversample=os_).intensity.sum())
    return n_fields, p_field, dft, fft


print('1/alpha = %d samples per axis, pupil %dx%d, output %dx%d (exactly one period)'
      % (M, m, n, M, M))
for pos in [(2, 2), (1, 3), (0, 0), (2, 3)]:
    a = np.zeros((m, n))
    a[pos] = 3.0
    a = lentil.normalize_power(a, p)
    p_amp = float(np.sum(np.abs(a) ** 2))
    nf, pf, dft, fft = image_total(a)
    print('single sample at %s: normalised amplitude power = %.12g, fields in wavefront = %d, '
          'sum|wavefront.field|^2 = %.12g, DFT image total = %.12g, FFT image total = %.12g'
          % (pos, p_amp, nf, pf, dft, fft))
    if abs(dft - p) > 1e-9 * p or abs(fft - p) > 1e-9 * p:
        fail = True

# control: the very same sample plus a (numerically irrelevant) neighbour is imaged correctly
a = np.zeros((m, n))
a[1, 3] = 3.0
a[1, 4] = 1e-300
a = lentil.normalize_power(a, p)
print('control (sample (1,3) plus a 1e-300 neighbour):', image_total(a))

# the same thing happens to a one-sample segment of a segmented pupil
amp = np.zeros((m, n))
amp[1:4, 0:2] = 1.0      # segment 1: 3x2 block
amp[0, 4] = 2.0          # segment 2: a single sample holding most of the power
mask = np.array([(amp == 1.0).astype(int), (amp == 2.0).astype(int)])
amp = lentil.normalize_power(amp, p)
nf, pf, dft, fft = image_total(amp, mask)
print('segmented pupil with a one-sample segment: amplitude power = %.12g, fields = %d, '
      'DFT image total = %.12g, FFT image total = %.12g'
      % (float(np.sum(amp ** 2)), nf, dft, fft))
if abs(dft - p) > 1e-9 * p or abs(fft - p) > 1e-9 * p:
    fail = True

if fail:
    print('VIOLATION: an amplitude normalised to power p = %g does not image to total p on a '
          'full-period grid (DFT and FFT): the one-sample field is discarded by '
          'Field.__mul__ (size == 1 is treated as "scalar").' % p)
    sys.exit(1)
print('no violation observed')
sys.exit(0)
