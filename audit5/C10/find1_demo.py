"""C10 - a Wavefront returned by multiply() keeps a live reference to the Tilt /
DispersiveTilt plane it was multiplied by, so the answer of an identical
propagate_dft(w, ...) call on an untouched wavefront depends on attribute updates
made to that plane AFTER the wavefront was computed (call history).

exit code 1 + explanation when the violation is observed, 0 otherwise.
"""
import os
import sys

sys.path.insert(0, os.environ['LENTIL_REPO'])

import numpy as np
import lentil

assert os.path.abspath(lentil.__file__).startswith(os.path.abspath(os.environ['LENTIL_REPO']))

n = 32
amp = lentil.circle((n, n), 12)
amp.setflags(write=False)
pupil = lentil.Pupil(amplitude=amp, pixelscale=1/n, focal_length=10)


def propagate(w):
    return lentil.propagate_dft(w, pixelscale=5e-6, shape=(32, 32), oversample=2).intensity


def snapshot(w):
    # everything a Wavefront publicly holds
    return ([(f.data.copy(), tuple(f.offset), len(f.tilt)) for f in w.data],
            tuple(w.shape), w.focal_length, w.wavelength, tuple(w.pixelscale), str(w.ptype))


def same_snapshot(a, b):
    return (len(a[0]) == len(b[0])
            and all(np.array_equal(x[0], y[0]) and x[1:] == y[1:] for x, y in zip(a[0], b[0]))
            and a[1:] == b[1:])


failures = []

# ---- 1. Tilt -------------------------------------------------------------------
tilt = lentil.Tilt(x=1e-6, y=0.0)
w = lentil.Wavefront(650e-9) * pupil * tilt      # the result under test
before = snapshot(w)
first = propagate(w)

# The plane is re-used for the next field point (Plane attributes "can be modified
# at any time"); w itself is not passed to any lentil call in between.
tilt.x, tilt.y = 0.0, 6e-6
w_next = lentil.Wavefront(650e-9) * pupil * tilt  # unrelated, interleaved call

second = propagate(w)                             # identical call, identical argument
unchanged = same_snapshot(before, snapshot(w))

# what the first wavefront was computed from
reference = propagate(lentil.Wavefront(650e-9) * pupil * lentil.Tilt(x=1e-6, y=0.0))

if not np.array_equal(first, second):
    failures.append(
        'Tilt: propagate_dft(w) called twice on the same, untouched wavefront gives two\n'
        f'  different images (max |diff| / max = {np.abs(first-second).max()/first.max():.3g}); '
        f'peak moved from {np.unravel_index(first.argmax(), first.shape)} to '
        f'{np.unravel_index(second.argmax(), second.shape)}.\n'
        f'  data/offset/shape of w unchanged in between: {unchanged}; '
        f'first call equals a fresh computation with the original tilt: {np.array_equal(first, reference)}; '
        f'second call equals the wavefront built later for the other tilt: '
        f'{np.array_equal(second, propagate(w_next))}')

# ---- 2. collect-then-propagate loop gives other images than propagate-in-loop ---
tilt = lentil.Tilt(x=0.0, y=0.0)
immediate, collected = [], []
for angle in (0.0, 3e-6, 6e-6):
    tilt.x = angle
    wf = lentil.Wavefront(650e-9) * pupil * tilt
    immediate.append(propagate(wf))
    collected.append(wf)
later = [propagate(wf) for wf in collected]
if not all(np.array_equal(a, b) for a, b in zip(immediate, later)):
    peaks_now = [np.unravel_index(a.argmax(), a.shape) for a in immediate]
    peaks_later = [np.unravel_index(a.argmax(), a.shape) for a in later]
    failures.append('Tilt loop: three wavefronts built for three tilts, propagated at once / afterwards:\n'
                    f'  peaks when propagated immediately {peaks_now}\n'
                    f'  peaks when propagated afterwards  {peaks_later}')

# ---- 3. DispersiveTilt ------------------------------------------------------------
grism = lentil.DispersiveTilt(trace=[1.0, 0.0], dispersion=[2.5e-3, 600e-9])
w = lentil.Wavefront(650e-9) * pupil * grism
first = propagate(w)
grism.dispersion = [5e-3, 600e-9]                 # replace the coefficients (supported)
second = propagate(w)
if not np.array_equal(first, second):
    failures.append('DispersiveTilt: same wavefront, same propagate_dft call, different image after the '
                    'plane\'s dispersion was replaced '
                    f'(peak {np.unravel_index(first.argmax(), first.shape)} -> '
                    f'{np.unravel_index(second.argmax(), second.shape)})')

if failures:
    print('VIOLATION of C10 (result depends on call history, not on the current arguments):\n')
    print('\n\n'.join(failures))
    print('\nCause: TiltInterface.multiply appends the plane object itself (field.tilt.append(self)) to every\n'
          'Field of the wavefront it returns; propagate_dft evaluates tilt.shift() on that live object.')
    sys.exit(1)
print('no violation observed')
sys.exit(0)
