"""Python side of the Optics specification: building optical programs as JSON cases for MC_Optics,
running the same programs on real lentil objects through the public API, and comparing the observations.

Conventions (mirrors spec/optics/Optics.tla):
  rationals are Fractions here and [num, den] in JSON; None/absent is [].
  amplitudes are small real integers given as term lists [[a, 0]] (zero -> []); OPDs are integers e meaning
  e * lambda / N metres, so the phasor is zeta_N^e exactly.
"""
import math
import warnings
from fractions import Fraction as Fr

import numpy as np

from harness.tlc import eval_cases, WORK
from harness.cyclo import phi_file

TOL = 1e-9


def rj(x):
    x = Fr(x)
    return [x.numerator, x.denominator]


def rf(j):
    return Fr(j[0], j[1])


def lcm(*xs):
    r = 1
    for x in xs:
        r = r * x // math.gcd(r, x)
    return r


def is_dyadic(x):
    d = Fr(x).denominator
    return d & (d - 1) == 0


def amp_terms(a):
    a = int(a)
    return [[a, 0]] if a else []


# ------------------------------------------------------------------------------------------ builders
def wf(lam, px=None, z=None, tilt=None, ptype='none'):
    return {'lam': rj(lam), 'px': [] if px is None else [rj(px[0]), rj(px[1])], 'z': [] if z is None else rj(z),
            'tilt': [] if tilt is None else [rj(tilt[0]), rj(tilt[1])], 'ptype': ptype}


def plane(cls='Plane', amp=1, opd=0, mask=None, px=None, z=None, tx=0, ty=0, disp=None, fitted=None, **kw):
    """amp: int or 2-D int array; opd: int or 2-D int array (units lambda/N); mask: None, 2-D or 3-D 0/1 array"""
    amp_a = np.asarray(amp)
    opd_a = np.asarray(opd)
    st = {'op': 'mul', 'cls': cls,
          'amp': {'k': 'a', 'v': [[amp_terms(v) for v in row] for row in amp_a.tolist()]} if amp_a.ndim == 2 else {'k': 's', 'v': amp_terms(amp_a)},
          'opd': {'k': 'a', 'v': [[int(v) for v in row] for row in opd_a.tolist()]} if opd_a.ndim == 2 else {'k': 's', 'v': int(opd_a)},
          'px': [] if px is None else [rj(px[0]), rj(px[1])],
          'z': [] if z is None else rj(z),
          'tx': rj(tx), 'ty': rj(ty),
          'disp': {} if disp is None else {k: rj(v) for k, v in disp.items()},
          'fitted': [] if fitted is None else [[rj(a), rj(b)] for a, b in fitted]}
    if mask is None:
        st['mask'] = {'k': 'none'}
    else:
        m = np.asarray(mask)
        st['mask'] = {'k': '2d' if m.ndim == 2 else '3d', 'm': m.astype(int).tolist()}
    st.update(kw)
    return st


def dft(du, shape, pshape=None, os=1, mask=None):
    shape = [int(shape[0]), int(shape[1])]
    return {'op': 'dft', 'du': [rj(du[0]), rj(du[1])], 'shape': shape,
            'pshape': shape if pshape is None else [int(pshape[0]), int(pshape[1])], 'os': int(os),
            'mask': {'k': 'none'} if mask is None else {'k': '2d', 'm': np.asarray(mask).astype(int).tolist()}}


def fft(du, shape=None, os=1):
    return {'op': 'fft', 'du': [rj(du[0]), rj(du[1])], 'shape': [] if shape is None else [int(shape[0]), int(shape[1])], 'os': int(os)}


def bridging_case(rng):
    """three segments whose propagated chips land side by side so that the LAST-listed one may bridge two mutually
    disjoint earlier ones (all six orders are drawn): exercises the coherent merge of overlapping output fields"""
    from fractions import Fraction as Fr
    N = 32
    lam, z, dx, os_ = Fr(1, 128), Fr(4), (Fr(1, 2), Fr(1, 2)), 1
    du = (lam * z * os_ / (8 * dx[0]),) * 2
    segs = np.zeros((3, 4, 6), dtype=int)
    for k in range(3):
        segs[k, :, 2 * k:2 * k + 2] = 1
    amp = np.array([[rng.choice((1, 2, 3)) for _ in range(6)] for _ in range(4)])
    pist = [rng.randrange(N) for _ in range(3)]
    opd = sum(segs[k] * pist[k] for k in range(3))
    shifts = [-2, 0, 2]
    rng.shuffle(shifts)
    rowshift = rng.choice((0, 0, 1))
    fitted = [(Fr(rowshift) * du[0] / (z * os_), -Fr(sc) * du[1] / (z * os_)) for sc in shifts]
    st = plane('Pupil', amp=amp, opd=opd, mask=segs, px=dx, z=z, fitted=fitted)
    return {'N': N, 'wf': wf(lam), 'steps': [st, dft(du, (2 + rowshift, 8), (2, 3), os_)], 'thm': 'none', 'bridging': shifts}


# ------------------------------------------------------------------------------------------ real run
def _plane_obj(lentil, st, lam, N):
    amp = st['amp']
    if amp['k'] == 'a':
        a = np.array([[(px[0][0] if px else 0) for px in row] for row in amp['v']], dtype=float)
    else:
        a = float(amp['v'][0][0]) if amp['v'] else 0.0
    opd = st.get('opd_real', st['opd'])      # OPD the real plane is built with (before fit_tilt) if different
    unit = float(lam) / N
    if opd['k'] == 'a':
        o = np.array(opd['v'], dtype=float) * unit
    else:
        o = opd['v'] * unit
    mk = st['mask']
    m = None if mk['k'] == 'none' else np.array(mk['m'])
    if st.get('mask_scalar') is not None:
        # the specification's all-ones mask is written as a scalar for the library (mask=1, mask=True, ...)
        m = st['mask_scalar']
    px = None if st['px'] == [] else (float(rf(st['px'][0])), float(rf(st['px'][1])))
    cls = st['cls']
    # arrays may reach the library in any memory layout: Fortran order, a transposed view, a strided view of a larger buffer
    lay = st.get('layout', 'C')
    if lay != 'C':
        def relay(x):
            if not isinstance(x, np.ndarray) or x.ndim != 2:
                return x
            if lay == 'F':
                return np.asfortranarray(x)
            if lay == 'T':
                return np.ascontiguousarray(x.T).T
            big = np.zeros((2 * x.shape[0], 2 * x.shape[1]), dtype=x.dtype)
            big[::2, ::2] = x
            return big[::2, ::2]                       # 'strided'
        a, o = relay(a), relay(o)
    if st.get('opd_dtype') and isinstance(o, np.ndarray):
        # an OPD map stored in single precision (a 32-bit FITS image): used only when every value is exactly representable, so that
        # the map is the SAME map and any difference is arithmetic done in the narrow type
        o_n = o.astype(st['opd_dtype'])
        if np.array_equal(o_n.astype(float), o):
            o = o_n
    if st.get('amp_dtype') and isinstance(a, np.ndarray):
        a_n = a.astype(st['amp_dtype'])
        if np.array_equal(a_n.astype(float), a):
            a = a_n
    if st.get('mask_dtype') and isinstance(m, np.ndarray):
        m = m.astype(st['mask_dtype'])           # a mask is binary: the type it is stored in carries no information
    kw = dict(amplitude=a, opd=o, mask=m, pixelscale=px)
    if cls == 'Pupil':
        p = lentil.Pupil(focal_length=None if st['z'] == [] else float(rf(st['z'])), **kw)
    elif cls == 'Image':
        p = lentil.Image(**kw)
    elif cls == 'Plane':
        p = lentil.Plane(**kw)
    elif cls == 'Tilt':
        p = lentil.Tilt(x=float(rf(st['tx'])), y=float(rf(st['ty'])), **kw)
    elif cls in ('DispersiveTilt', 'Grism'):
        d = st['disp']
        with warnings.catch_warnings():
            warnings.simplefilter('ignore', DeprecationWarning)
            p = getattr(lentil, cls)(trace=[float(rf(d['t1'])), float(rf(d['t0']))],
                                     dispersion=[float(rf(d['d0'])), float(rf(d['d1']))], **kw)
    else:
        raise KeyError(cls)
    if st.get('fit'):
        # the plane obtains its tilt list from lentil's own fit_tilt (the spec step carries base OPD + `fitted`)
        before = np.array(p.opd, copy=True)
        if st['fit'] == 'inplace':
            r = p.fit_tilt(inplace=True)
            p = r
        else:
            r = p.fit_tilt(inplace=False)
            if not np.array_equal(p.opd, before) or p.tilt:
                raise AssertionError('fit_tilt(inplace=False) modified the original plane')
            p = r
        if st.get('refit'):
            # history: the OPD is updated after the first fit (attribute setter) and tilt is fitted again
            p.opd = p.opd + np.array(st['refit'], dtype=float) * unit
            p.fit_tilt(inplace=True)
    elif st['fitted'] != []:
        # tilt carried by the plane itself (what fit_tilt records): one angular element per segment
        p.tilt = [lentil.Tilt(x=float(rf(a)), y=float(rf(b))) for a, b in st['fitted']]
    return p


def observe_real(w):
    o = {'ptype': str(w.ptype), 'lam': w.wavelength, 'z': w.focal_length,
         'px': None if w.pixelscale is None else tuple(float(v) for v in w.pixelscale),
         'shape': tuple(int(v) for v in w.shape), 'err': 'none', 'nfields': len(w.data),
         # a Field of exactly one sample is what lentil treats as an infinite constant (known finding C03/C06/C07)
         'one_elem': any(np.ndim(f.data) == 2 and np.size(f.data) == 1 for f in w.data)}
    if o['shape'] != ():
        o['field'] = np.array(w.field)
        o['intensity'] = np.array(w.intensity)
    return o


def run_real(lentil, case, plane_hook=None):
    """executes the program; returns list of observations (one per step)."""
    N = case['N']
    w0 = case['wf']
    lam = rf(w0['lam'])
    w = lentil.Wavefront(wavelength=float(lam),
                         pixelscale=None if w0['px'] == [] else (float(rf(w0['px'][0])), float(rf(w0['px'][1]))),
                         focal_length=None if w0['z'] == [] else float(rf(w0['z'])),
                         tilt=None if w0['tilt'] == [] else [float(rf(w0['tilt'][0])), float(rf(w0['tilt'][1]))],
                         ptype=w0['ptype'])
    obs = []
    dead = False
    for st in case['steps']:
        if dead:
            obs.append({'err': 'skipped'})
            continue
        try:
            if st['op'] == 'mul':
                p = _plane_obj(lentil, st, lam, N)
                if plane_hook:
                    p = plane_hook(p, st)
                w = w * p
                if st.get('fit'):
                    o = observe_real(w)
                    o['plane_opd'] = np.array(p.opd, dtype=float) / (float(lam) / N)
                    o['plane_ntilt'] = len(p.tilt)
                    obs.append(o)
                    continue
            elif st['op'] == 'dft':
                du = (float(rf(st['du'][0])), float(rf(st['du'][1])))
                kw = {}
                if st['mask']['k'] != 'none':
                    kw['mask'] = np.array(st['mask']['m'])
                    # the mask's VALUES are free (antialiased, weighted, boolean, nested lists): only its support counts
                    form = st.get('mask_form', 'int')
                    if form == 'half':
                        kw['mask'] = kw['mask'] * 0.5
                    elif form == 'quarter-float32':
                        kw['mask'] = (kw['mask'] * 0.25).astype(np.float32)
                    elif form == 'bool':
                        kw['mask'] = kw['mask'].astype(bool)
                    elif form == 'list':
                        kw['mask'] = kw['mask'].tolist()
                sh = tuple(st['shape'])
                psh = tuple(st['pshape'])
                w = lentil.propagate_dft(w, pixelscale=du if du[0] != du[1] or st.get('du_tuple') else du[0],
                                         shape=sh if sh[0] != sh[1] or st.get('shape_tuple') else sh[0],
                                         prop_shape=None if (psh == sh and not st.get('explicit_pshape')) else psh,
                                         oversample=st['os'], **kw)
            elif st['op'] == 'fft':
                du = (float(rf(st['du'][0])), float(rf(st['du'][1])))
                sh = None if st['shape'] == [] else tuple(st['shape'])
                kw = {}
                if 'scratch' in st and st['scratch'] is not None:
                    kw['scratch'] = st['scratch']      # numpy array injected by the driver (not JSON)
                w = lentil.propagate_fft(w, pixelscale=du, shape=sh, oversample=st['os'], **kw)
            o = observe_real(w)
            if st['op'] in ('dft', 'fft'):
                o['_wavefront'] = w          # kept so that a result can be looked at AGAIN after later calls (aliasing of buffers)
            obs.append(o)
        except Exception as ex:
            obs.append({'err': type(ex).__name__, 'msg': repr(ex)[:300]})
            dead = True
    return obs


# ------------------------------------------------------------------------------------------ spec run
def eval_spec(cases, nparts_per_ring=4, timeout=2400, maxjobs=6):
    """cases: list of dicts with 'id' and 'N'.  JSON-unfriendly keys (numpy scratch buffers) are stripped."""
    from concurrent.futures import ThreadPoolExecutor

    def clean(c):
        c2 = dict(c)
        c2['steps'] = [{k: v for k, v in st.items() if k not in ('scratch',)} for st in c['steps']]
        c2.setdefault('thm', 'none')
        return c2
    byN = {}
    for c in cases:
        byN.setdefault(c['N'], []).append(clean(c))
    jobs = [(N, cs, max(1, min(nparts_per_ring * 3, len(cs) // 60 + 1))) for N, cs in sorted(byN.items())]
    out = {}
    results = []

    def do(job):
        N, cs, nparts = job
        return N, eval_cases('MC_Optics', cs, nparts=nparts, env={'RING_N': N, 'PHI_FILE': phi_file(N, WORK)}, timeout=timeout)
    with ThreadPoolExecutor(max_workers=maxjobs) as ex:
        for N, (e, res) in ex.map(do, jobs):
            out.update(e)
            results.append((N, res))
    return out, results


def ring_field(obs, N):
    """spec observation -> expected complex field (sqrt(nsq) * ring part) and evaluated-window mask"""
    if obs['field'] == []:
        return None
    w = np.exp(2j * np.pi * np.arange(N) / N)
    a = np.asarray(obs['field'], dtype=float) @ w
    nonzero = np.any(np.asarray(obs['field']) != 0, axis=-1)
    return a * math.sqrt(obs['nsq'][0] / obs['nsq'][1]), nonzero


def one_element_involved(real_obs):
    """True if at some step the real wavefront held a one-sample Field (the known one-element quirk)"""
    return any(o.get('one_elem') for o in real_obs)


def compare(case, spec_obs, real_obs, check_meta=True):
    """returns list of (step, kind, detail) discrepancies"""
    N = case['N']
    out = []
    for k, (so, ro) in enumerate(zip(spec_obs, real_obs)):
        if so['err'] == 'RingTooSmall':
            raise RuntimeError(f"case {case.get('id')}: ring order {N} too small for step {k}")
        if ro.get('err') == 'skipped':
            break
        if so['err'] != 'none' or ro['err'] != 'none':
            if so['err'] != ro['err']:
                out.append((k, 'outcome', {'expected': so['err'], 'observed': ro['err'], 'msg': ro.get('msg')}))
            break
        if check_meta:
            if so['ptype'] != ro['ptype']:
                out.append((k, 'ptype', {'expected': so['ptype'], 'observed': ro['ptype']}))
            exp_shape = tuple(so['shape'])
            if exp_shape != ro['shape']:
                out.append((k, 'shape', {'expected': exp_shape, 'observed': ro['shape']}))
                break
            if abs(ro['lam'] - float(rf(so['lam']))) > 1e-12 * float(rf(so['lam'])):
                out.append((k, 'wavelength', {'expected': float(rf(so['lam'])), 'observed': ro['lam']}))
            ez = math.inf if so['z'] == [] else float(rf(so['z']))
            oz = ro['z']
            if not (ez == oz or (oz is not None and math.isfinite(ez) and abs(ez - oz) <= 1e-12 * abs(ez))):
                out.append((k, 'focal_length', {'expected': ez, 'observed': oz}))
            if so['px'] == []:
                if ro['px'] is not None:
                    out.append((k, 'pixelscale', {'expected': None, 'observed': ro['px']}))
            else:
                ep = (float(rf(so['px'][0])), float(rf(so['px'][1])))
                if ro['px'] is None or any(abs(a - b) > 1e-12 * abs(a) for a, b in zip(ep, ro['px'])):
                    out.append((k, 'pixelscale', {'expected': ep, 'observed': ro['px']}))
        if 'plane_opd' in ro:
            st = case['steps'][k]
            base = np.array(st['opd']['v'], dtype=float)
            m = st['mask']
            sup = np.array(m['m']).reshape((-1,) + base.shape).sum(axis=0) != 0 if m['k'] != 'none' else np.ones(base.shape, bool)
            d = np.abs(ro['plane_opd'] - base)[sup].max()
            if not d <= 1e-7 * (1 + np.abs(base).max()):
                out.append((k, 'opd-after-fit_tilt', {'max_abs_error_in_units_of_lambda_over_N': float(d),
                                                    'expected': base, 'observed': ro['plane_opd']}))
            if ro['plane_ntilt'] != len(st['fitted']) and not st.get('refit'):
                out.append((k, 'tilt-list-after-fit_tilt', {'expected': len(st['fitted']), 'observed': ro['plane_ntilt']}))
        if so['field'] == [] or 'field' not in ro:
            continue
        expected, nonzero = ring_field(so, N)
        got = ro['field']
        if got.shape != expected.shape:
            out.append((k, 'shape', {'expected': expected.shape, 'observed': got.shape}))
            break
        scale = 1 + np.abs(expected).sum()
        err = np.abs(got - expected)
        if not err.max() <= TOL * scale:
            idx = np.unravel_index(np.argmax(err), err.shape)
            out.append((k, 'field', {'max_abs_error': float(err.max()), 'at': [int(i) for i in idx],
                                     'expected': expected, 'observed': got}))
            break
        if so.get('evald', []) != []:
            ev = np.asarray(so['evald'], dtype=bool)
            if np.any(got[~ev] != 0):
                out.append((k, 'nonzero-outside-window', {'window': ev.astype(int), 'observed': got}))
        inten = ro['intensity']
        ei = np.abs(expected) ** 2
        if not np.abs(inten - ei).max() <= TOL * (1 + ei.sum()):
            out.append((k, 'intensity', {'max_abs_error': float(np.abs(inten - ei).max()), 'expected': ei, 'observed': inten}))
        if np.any(inten < 0):
            out.append((k, 'negative-intensity', {'min': float(inten.min())}))
    return out


def binding_selftest(ctx, lentil, case, spec):
    """spec -> code binding: perturb ONE coefficient of the expected final field - the comparison must flag it; and perturb
    nothing - it must not.  Recorded in the evidence; a failure is a machinery error."""
    import copy
    real = run_real(lentil, case)
    clean = compare(case, spec['obs'], real)
    bad = copy.deepcopy(spec)
    last = [k for k, o in enumerate(bad['obs']) if o.get('field') not in ([], None)]
    ok = False
    if last:
        f = bad['obs'][last[-1]]['field']
        f[0][0][0] += 1
        ok = any(kind in ('field', 'intensity', 'nonzero-outside-window') for (_, kind, _) in compare(case, bad['obs'], real))
    ctx.extra['binding_selftest'] = {'unperturbed_case_accepted': clean == [], 'perturbed_expected_coefficient_flagged': ok}
    if clean == [] and not ok:
        ctx.machinery_errors.append('binding self-test: a perturbed expected field was not flagged')
