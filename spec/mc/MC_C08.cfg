SPECIFICATION Spec
INVARIANT TypeOK
INVARIANT Closure
PROPERTY RefusedUnchanged
CONSTRAINT Emit
