"""C14 finding 2: Spectrum.to() refuses the documented wavelength-unit names
'meter', 'micron' and 'nanometer', although Unit(), the Spectrum constructor,
planck_radiance/planck_exitance, vegaflux and the <Unit>.to() factor tables all
accept them, and Spectrum.to's docstring says 'as accepted by Unit'.  Because
sample(), bin() and resample() convert through to(), they fail as well - even
when the requested name denotes the unit the spectrum is already in.
"""
import os, sys
sys.path.insert(0, os.environ.get('LENTIL_REPO', '.'))
import numpy as np
import lentil
from lentil import radiometry as r
print('lentil from', lentil.__file__)

bad = []
w_um = np.linspace(0.4, 0.9, 11)
v = np.linspace(1., 2., 11)

# the names are accepted everywhere else ...
s = r.Spectrum(w_um, v, waveunit='micron', valueunit='photlam')      # constructor: fine
assert s.waveunit == 'um'
assert r.Unit('micron').to('nanometer') == 1e3                       # factor table: fine
assert np.allclose(r.planck_radiance(0.5, 5000, 'micron'),           # Planck: fine
                   r.planck_radiance(0.5, 5000, 'um'))
assert r.vegaflux('V', 'nanometer') == r.vegaflux('V', 'nm')         # Vega: fine

# ... but not by Spectrum.to and what is built on it
ref = s.copy(); ref.to('nm')
I0 = s.integrate()
for alias, short in (('meter', 'm'), ('micron', 'um'), ('nanometer', 'nm')):
    t = s.copy()
    try:
        t.to(alias)
        u = s.copy(); u.to(short)
        ok = np.allclose(t.value, u.value, rtol=1e-12) and abs(t.integrate()/I0 - 1) < 1e-12
        print('to(%r): converted, consistent with to(%r): %s' % (alias, short, ok))
        if not ok:
            bad.append('to(%r) gives a result different from to(%r)' % (alias, short))
    except Exception as e:
        print('to(%r): %r' % (alias, e))
        bad.append('Spectrum(waveunit="micron").to(%r) raises %r' % (alias, e))

for name, call in (('sample', lambda: s.sample(0.5, waveunit='micron')),
                   ('bin', lambda: s.bin(np.array([0.5, 0.6, 0.7]), waveunit='micron')),
                   ('resample', lambda: s.copy().resample(np.array([0.5, 0.6]), waveunit='micron'))):
    try:
        call()
        print('%s(waveunit="micron") on a spectrum in um: ok' % name)
    except Exception as e:
        print('%s(waveunit="micron") on a spectrum in um: %r' % (name, e))
        bad.append('%s(..., waveunit="micron") on a spectrum that IS in microns raises %r' % (name, e))

if bad:
    print('\nVIOLATION (C14): a spectrum cannot be converted between documented wavelength units')
    for b in bad:
        print(' -', b)
    sys.exit(1)
print('no violation observed')
sys.exit(0)
