"""C11 finding 3 (degenerate masks): a mask with a single sample (or none)
makes the default coordinates divide by zero and the result is NaN *outside*
the mask, where the property requires exact zeros."""
import os, sys, warnings
sys.path.insert(0, os.environ.get('LENTIL_REPO', '.'))
import numpy as np
import lentil

warnings.simplefilter('ignore')
viol = []
for shape in [(5, 5), (4, 6)]:
    mask = np.zeros(shape)
    mask[shape[0]//2, shape[1]//2] = 1
    for j in (2, 3, 4, 5):
        Z = np.asarray(lentil.zernike(mask, j), dtype=float)
        outside = Z[mask == 0]
        if not np.all(outside == 0):
            viol.append((shape, j, int(np.isnan(outside).sum()), outside.size))

if viol:
    print("VIOLATION: values outside a single-sample mask are not zero")
    for shape, j, nnan, tot in viol:
        print("  shape=%s j=%d: %d of %d samples outside the mask are NaN" % (shape, j, nnan, tot))
    sys.exit(1)
print("no violation observed")
sys.exit(0)
