"""
C17 finding 2 - Plane.rescale erodes a mask that reaches the border of the array.

Plane.mask is documented to be rescaled by nearest-neighbour interpolation, but it is
interpolated with order=0 AND mode='constant': scipy then returns 0 for every new sample
whose coordinate lies outside [0, n-1], also for the samples that lie less than half an
old sample beyond the first / last old sample, i.e. inside the footprint of the border
sample, whose nearest neighbour is that border sample (no tie involved).  The amplitude
and the OPD are interpolated with mode='nearest' and do carry data there.

For an aperture that fills its array (uniform, or a truncated Gaussian beam: amplitudes
that are smooth on the grid) the rescaled mask therefore gets a frame of zeros although
every new sample lies inside the old array, the power transmitted by the plane drops by
1 - 2.5 % and the image changes by 3 - 5 % of its peak, where a true nearest-neighbour
mask gives 1e-4.

exit code 1 + explanation when the violation is observed, 0 otherwise.
"""
import os
import sys

sys.path.insert(0, os.environ.get('LENTIL_REPO', '.'))

import numpy as np
import lentil

WL = 650e-9


def through(plane):
    """power transmitted by the plane, and the image it forms"""
    w = lentil.Wavefront(WL) * plane
    power = np.sum(w.intensity)
    img = lentil.propagate_dft(w, shape=(64, 64), pixelscale=5e-6, oversample=2).intensity
    return power, img


problems = []

# (array shape, scale).  In the first two cases n*s is an integer and EVERY new sample lies
# strictly inside the footprint [-0.5, n-0.5] of the old array, away from any tie.
cases = [((65, 65), 3), ((64, 64), 1.5), ((63, 97), 3), ((48, 65), 2.5), ((129, 129), 3)]

for shape, s in cases:
    rr, cc = lentil.helper.mesh(shape)
    amps = {'uniform': np.ones(shape),
            'gaussian': np.exp(-(rr ** 2 + cc ** 2) / (2 * (0.5 * min(shape)) ** 2))}
    for name, amp in amps.items():
        p = lentil.Pupil(amplitude=amp, pixelscale=1 / min(shape), focal_length=10)
        assert p.mask.all()                      # the aperture fills the array
        q = p.rescale(s)
        N = q.shape

        # position of the new samples in old samples (centre sample N//2 <-> n//2)
        y = (np.arange(N[0]) - N[0] // 2) / s + shape[0] // 2
        x = (np.arange(N[1]) - N[1] // 2) / s + shape[1] // 2
        tol = 1e-6                               # keep clear of the exact ties at +-0.5
        iny = (y > -0.5 + tol) & (y < shape[0] - 0.5 - tol)
        inx = (x > -0.5 + tol) & (x < shape[1] - 0.5 - tol)
        inside = np.outer(iny, inx)              # nearest old sample exists and is in the mask
        all_inside = bool(inside.all())

        wrong = int(np.sum(inside & (q.mask == 0)))
        carried = int(np.sum(inside & (q.mask == 0) & (q.amplitude != 0)))

        p0, i0 = through(p)
        p1, i1 = through(q)
        ratio = p1 / p0
        err = np.abs(i1 - i0).max() / i0.max()

        print(f'shape={shape} s={s} {name:8s}: new shape {N}, mask spans '
              f'{int(q.mask.any(axis=1).sum())}x{int(q.mask.any(axis=0).sum())} samples; '
              f'{wrong} new samples whose nearest old sample is in the mask have mask 0 '
              f'({carried} of them carry amplitude); transmitted power ratio {ratio:.4f}; '
              f'image error/peak {err:.1e}')

        if wrong:
            problems.append(f'shape={shape} s={s} {name}: {wrong} samples strictly inside the footprint of '
                            f'the old (all-ones) mask are 0 in the rescaled mask')
        if all_inside and abs(ratio - 1) > 5e-3:
            problems.append(f'shape={shape} s={s} {name}: every new sample lies inside the old aperture, '
                            f'yet the rescaled plane transmits {ratio:.4f} of the power and its image '
                            f'differs by {err:.1e} of the peak')

if problems:
    print('\nVIOLATION of C17 (mask structure / transmitted power / image not preserved):')
    for msg in problems:
        print('  -', msg)
    sys.exit(1)

print('no violation observed')
sys.exit(0)
