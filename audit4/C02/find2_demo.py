"""propagate_dft forms alpha = dx*du/(wavelength*z*oversample) in single
precision when the input and output pixel scales are both stored as float32.

The product dx[i]*du[i] in lentil.propagate._dft_alpha is taken between the
elements of the two pixel scale containers as they are stored.  When both are
numpy float32 (a float32 scalar or array given as Pupil(pixelscale=...) and a
float32 array or scalar given as propagate_dft(pixelscale=...)), the product is
rounded to float32 (relative error up to 6e-8) before it is divided by the
double precision wavelength*z*oversample.  The kernel exp(-2 pi i alpha r u) is
then evaluated with that perturbed alpha, and the phase error grows with r*u:
every sample away from the axis is wrong by far more than double rounding
(1e-8 of the peak and 1e-5 of a typical sample for a 256 grid), although every
number supplied by the caller is exactly representable in double precision and
identical values supplied as Python floats give the exact result.
"""
import os, sys
sys.path.insert(0, os.environ['LENTIL_REPO'])
import numpy as np
import lentil

assert os.path.realpath(lentil.__file__).startswith(os.path.realpath(os.environ['LENTIL_REPO']))

n = 256
rng = np.random.default_rng(3)
amp = lentil.circle((n, n), n // 2 - 2)
opd = 40e-9 * rng.normal(size=(n, n))
wl, z, osmp, npix = 650e-9, 10.0, 2, 128

dx32 = np.array([3e-3, 3e-3], dtype=np.float32)     # e.g. read from a float32 file
du32 = np.array([5e-6, 5e-6], dtype=np.float32)
# exactly the same numbers, as doubles
dx64 = dx32.astype(np.float64)
du64 = du32.astype(np.float64)
assert np.all(dx64 == dx32) and np.all(du64 == du32)


def run(dx, du):
    p = lentil.Pupil(amplitude=amp, opd=opd, pixelscale=dx, focal_length=z)
    w = lentil.Wavefront(wl) * p
    return w, lentil.propagate_dft(w, pixelscale=du, shape=npix, oversample=osmp)


w32, o32 = run(dx32, du32)
w64, o64 = run(dx64, du64)

# reference: unitary Fraunhofer sum with alpha from the exact values
alpha = dx64 * du64 / (wl * z * osmp)
fin = amp * np.exp(2j * np.pi * opd / wl)
M = npix * osmp
x = np.arange(n) - n // 2
u = np.arange(M) - M // 2
ref = (np.exp(-2j * np.pi * alpha[0] * np.outer(u, x)) @ fin
       @ np.exp(-2j * np.pi * alpha[1] * np.outer(x, u))) * np.sqrt(alpha[0] * alpha[1])

a32 = lentil.propagate._dft_alpha(w32.pixelscale, du32, wl, z, osmp)
print('alpha used with float32 pixel scales :', repr(a32[0]), type(a32[0]).__name__)
print('alpha = dx*du/(wl*z*oversample)      :', repr(alpha[0]))
print('relative error of alpha              : %.3e' % ((float(a32[0]) - alpha[0]) / alpha[0]))

peak = np.abs(ref).max()
med = np.median(np.abs(ref))
e32 = np.abs(o32.field - ref).max()
e64 = np.abs(o64.field - ref).max()
print('float64 pixel scales: max |error| = %.3e of the peak, %.3e of the median sample' % (e64 / peak, e64 / med))
print('float32 pixel scales: max |error| = %.3e of the peak, %.3e of the median sample' % (e32 / peak, e32 / med))

if e32 / peak > 1e-10 and e64 / peak < 1e-12:
    print('VIOLATION: with the same (exactly representable) pixel scales stored as float32, '
          'propagate_dft evaluates the Fraunhofer sum with an alpha rounded to single '
          'precision; evaluated samples differ from the Fraunhofer sum by %.1e of the peak.' % (e32 / peak))
    sys.exit(1)
sys.exit(0)
