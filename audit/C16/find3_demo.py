"""C16 finding 3: wavelength-unit names that lentil.radiometry.Unit() documents and accepts
('nanometer', 'micron', 'meter') are refused when a QE Spectrum is sampled, even when the
Spectrum itself was declared in that very unit."""
import os, sys
sys.path.insert(0, os.environ['LENTIL_REPO'])
import numpy as np
import lentil
from lentil.detector import collect_charge
from lentil.radiometry import Spectrum

fail = []
w_nm = np.array([400., 500., 600.]); v = np.array([.3, .5, .7])
photons = np.random.default_rng(0).uniform(1, 10, (3, 2, 2))
want = np.einsum('ijk,i->jk', photons, v)

cases = [
    ("nm table, waveunit='nanometer'", Spectrum(w_nm, v, 'nm'), w_nm * 1.0, 'nanometer'),
    ("micron table, waveunit='micron'", Spectrum(w_nm / 1e3, v, 'micron'), w_nm / 1e3, 'micron'),
    ("meter table, waveunit='meter'", Spectrum(w_nm / 1e9, v, 'meter'), w_nm / 1e9, 'meter'),
    ("nm table, waveunit='micron'", Spectrum(w_nm, v, 'nm'), np.array([0.45, 0.5, 0.55]), 'micron'),
]
for label, qe, wave, unit in cases:
    try:
        out = collect_charge(photons, wave, qe, waveunit=unit)
        print(label, '-> ok, max err', np.abs(out - want).max() if 'table, waveunit' in label else '')
    except Exception as e:
        print(label, '-> raises', repr(e))
        fail.append(label + ' raises ' + repr(e))

# the short spellings of the same units work, and the vector form does not care about the unit at all
print("control 'um':", np.allclose(collect_charge(photons, w_nm/1e3, Spectrum(w_nm/1e3, v, 'um'), 'um'), want))
print('control vector qe, waveunit="micron":', np.allclose(collect_charge(photons, w_nm/1e3, v, 'micron'), want))

if fail:
    print('\nVIOLATION of C16 (same charge for a spectrum sampled at those wavelengths in ANY wavelength unit):')
    for f in fail:
        print('  -', f)
    sys.exit(1)
print('no violation observed')
sys.exit(0)
