"""C15 - resample() of a spectrum that crop()/trim() reduced to one sample turns the
retained sample into NaN (float32 / complex values, or float32 / int32 wavelengths)."""
import os, sys, warnings
sys.path.insert(0, os.environ['LENTIL_REPO'])
import numpy as np
import lentil
from lentil.radiometry import Spectrum

warnings.simplefilter('ignore')
print('lentil from', lentil.__file__)

wave = np.arange(500., 600., 10.)
value = np.arange(10) + 1.

cases = [
    ('float64 wave, float64 value (reference)', wave, value),
    ('float64 wave, float32 value', wave, value.astype(np.float32)),
    ('float64 wave, complex value', wave, value + 0.5j),
    ('float32 wave, float64 value', wave.astype(np.float32), value),
    ('int32   wave, float64 value', wave.astype(np.int32), value),
]

failed = False
for label, w, v in cases:
    # crop keeps exactly the one sample inside the closed range [505, 515]
    s = Spectrum(w, v)
    s.crop(505, 515)
    assert s.wave.size == 1 and s.wave[0] == 510 and s.value[0] == v[1]
    kept = s.value[0]
    # resample on a grid that retains the 510 nm sample
    s.resample([500., 510., 520.])
    got = s.value[1]
    ok = (got == kept)
    print(f'crop+resample  {label:42s}: value at 510 nm {kept!r} -> {got!r}  '
          f'{"ok" if ok else "VIOLATION"}')
    failed |= not ok

# the same through trim(): a line spectrum stored in single precision
s = Spectrum(wave, np.array([0, 0, 5, 0, 0, 0, 0, 0, 0, 0], dtype=np.float32))
s.trim()
assert s.wave.tolist() == [520.] and s.value.tolist() == [5.]
s.resample(np.array([510., 520., 530.]))
ok = (s.value[1] == 5.)
print(f'trim+resample  float32 line spectrum: value at 520 nm 5.0 -> {s.value[1]!r}  '
      f'{"ok" if ok else "VIOLATION"}')
failed |= not ok

if failed:
    print('\nVIOLATION: resample must not alter a sample it retains; the retained sample '
          'became NaN (and the spectrum is no longer usable: trim() then raises IndexError, '
          'integrate()/bin() return NaN).')
    sys.exit(1)
sys.exit(0)
