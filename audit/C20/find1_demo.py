"""C20 finding 1: lentil.util.window crops the wrong axes of a cube when a
slice is given (the shape path and lentil.pad treat a cube as (depth, nrows,
ncols); the slice path indexes axes 0 and 1, i.e. depth and rows)."""
import os, sys
sys.path.insert(0, os.environ.get('LENTIL_REPO', '.'))
import numpy as np
import lentil

depth, nr, nc = 3, 6, 8          # non-square cube, first axis indexes the slices
sr, sc = 2, 4                    # target (nrows, ncols)
cube = np.arange(depth*nr*nc, dtype=float).reshape(depth, nr, nc)

# the centred crop, written as (r_start, r_end, c_start, c_end) with the
# floor(n/2) origin convention
r0 = nr//2 - sr//2
c0 = nc//2 - sc//2
slc = (r0, r0+sr, c0, c0+sc)

bad = []

# 2-D control: both ways of asking for the centred crop agree
img = cube[0]
a2 = lentil.util.window(img, shape=(sr, sc))
b2 = lentil.util.window(img, shape=(sr, sc), slice=slc)
if not np.array_equal(a2, b2):
    bad.append('2-D control disagrees (unexpected)')

# cube: the shape path (lentil.pad) crops rows and columns of every slice ...
a3 = lentil.util.window(cube, shape=(sr, sc))
expected = cube[:, slc[0]:slc[1], slc[2]:slc[3]]
if not np.array_equal(a3, expected):
    bad.append('shape path of window() is not the centred crop of every slice (unexpected)')

# ... the slice path crops depth and rows instead
b3 = lentil.util.window(cube, shape=(sr, sc), slice=slc)
c3 = lentil.util.window(cube, slice=slc)
print('cube shape                      :', cube.shape)
print('window(cube, shape)             :', a3.shape)
print('window(cube, shape, slice)      :', b3.shape)
print('window(cube, slice)             :', c3.shape)
if b3.shape != (depth, sr, sc) or not np.array_equal(b3, expected):
    bad.append('window(cube, shape=%r, slice=%r) returned shape %r, expected %r: the slice was '
               'applied to the depth and row axes (img[r0:r1, c0:c1]) although the size check '
               'shape == slice extents passed' % ((sr, sc), slc, b3.shape, (depth, sr, sc)))
if c3.shape != (depth, sr, sc) or not np.array_equal(c3, expected):
    bad.append('window(cube, slice=%r) returned shape %r, expected %r' % (slc, c3.shape, (depth, sr, sc)))

if bad:
    print('VIOLATION:')
    for b in bad:
        print(' -', b)
    sys.exit(1)
print('no violation observed')
sys.exit(0)
