"""C04 - tilt carried as metadata is optically identical to tilt in the OPD.

A: on flagged cases TLC proves the shift theorem in Z[zeta_N] (phase ramp in the beam == displaced evaluation
   of the Fraunhofer sum) and checks the least-squares precondition of every plane that claims a fitted tilt.
B: scenarios = aperture (monolithic or segmented, per-segment tilts) x sampling (per-axis du, oversampling) x
   displacement (quarter samples, both signs, sub-pixel to beyond the output).  Each scenario is written in the
   representations {OPD ramp, Tilt plane, Wavefront(tilt=), fit_tilt in place, fit_tilt copy} and, for chains,
   every ordering of several tilt elements (angular and first-order dispersive).  TLC evaluates each program on
   Optics.tla; lentil runs it; fields are compared with the spec and with each other wherever both evaluate.
"""
import itertools
import random
from fractions import Fraction as Fr

import numpy as np

from harness.core import import_lentil
from harness import optics as ox

LEVEL = 'model_checking'


def L_ok(seg):
    """segment contains three non-collinear samples"""
    pts = np.argwhere(seg)
    if len(pts) < 3:
        return False
    p0 = pts[0]
    for a in pts[1:]:
        for b in pts[1:]:
            if (a[0] - p0[0]) * (b[1] - p0[1]) - (a[1] - p0[1]) * (b[0] - p0[0]) != 0:
                return True
    return False


def geometry(rng, tier):
    """ring, sampling, physical parameters; alpha = 1/q per axis"""
    dy = rng.random() < 0.7                      # all-dyadic geometry: integer displacements are safe (no fix() ties)
    if dy:
        N = rng.choice((32, 64))
        qs = [q for q in (4, 8, 16) if q * 4 <= N]
        os_ = rng.choice((1, 2))
    else:
        N = rng.choice((24, 40, 48))
        qs = {24: [3, 6], 40: [5, 10], 48: [3, 6, 12]}[N]
        os_ = rng.choice((1, 2, 3))
    qr, qc = rng.choice(qs), rng.choice(qs)
    dx = (Fr(1, rng.choice((1, 2))),) * 2
    if rng.random() < 0.3:
        dx = (dx[0], dx[0] / 2)
    z = Fr(rng.choice((2, 4, 8)))
    lam = Fr(1, rng.choice((64, 256)))
    du = (Fr(1, qr) * lam * z * os_ / dx[0], Fr(1, qc) * lam * z * os_ / dx[1])
    return dict(N=N, qr=qr, qc=qc, os=os_, dx=dx, z=z, lam=lam, du=du, dyadic=dy and os_ in (1, 2))


def pick_k(rng, N, q, dyadic, allow_int=True):
    """ramp step k (exponent per sample) -> displacement s = k*q/N samples; avoid exact non-zero integers unless dyadic"""
    for _ in range(100):
        k = rng.choice((0, 1, -1, 2, -2, 3, 5, -5, 7, 10, -9, 12, 16, -20, 40))
        s = Fr(k * q, N)
        if s.denominator == 1 and s != 0 and not (dyadic and allow_int):
            continue
        if s.denominator > 4:
            continue
        return k, s
    return 0, Fr(0)


def aperture(rng, tier):
    m, n = rng.randint(2, 5), rng.randint(2, 5)
    amp = np.array([[rng.choice((1, 1, 2, 0)) for _ in range(n)] for _ in range(m)])
    amp[0, 0] = amp[0, 1] = amp[1, 0] = 1           # three non-collinear samples
    return amp


def tilt_angles(g, kr, kc):
    """angles (about x, about y) equivalent to ramp steps (kr, kc) per sample"""
    N = g['N']
    return g['lam'] * kr / (N * g['dx'][0]), -g['lam'] * kc / (N * g['dx'][1])


def ramp(shape, kr, kc):
    m, n = shape
    return np.array([[kr * (i - m // 2) + kc * (j - n // 2) for j in range(n)] for i in range(m)])


def zero_sum_residual(rng, shape):
    """u (x) v with zero-sum u, v: orthogonal to {1, row, col} on a full rectangle"""
    m, n = shape
    if m < 2 or n < 2 or rng.random() < 0.3:
        return np.zeros(shape, dtype=int)
    u = np.array([rng.randint(-2, 2) for _ in range(m)])
    u[-1] -= u.sum()
    v = np.array([rng.randint(-2, 2) for _ in range(n)])
    v[-1] -= v.sum()
    return np.outer(u, v)


def scenario_mono(rng, tier, sid):
    g = geometry(rng, tier)
    N = g['N']
    amp = aperture(rng, tier)
    full = rng.random() < 0.5
    if full:
        amp = np.maximum(amp, 1)
        base = zero_sum_residual(rng, amp.shape) + rng.randrange(N)
    else:
        base = np.full(amp.shape, rng.randrange(N))
    kr, sr = pick_k(rng, N, g['qr'], g['dyadic'])
    kc, sc = pick_k(rng, N, g['qc'], g['dyadic'])
    fit_ok = (sr.denominator != 1 or sr == 0) and (sc.denominator != 1 or sc == 0)
    thx, thy = tilt_angles(g, kr, kc)
    M, K = rng.randint(1, 4), rng.randint(1, 4)
    pM, pK = (M, K) if rng.random() < 0.5 else (rng.randint(1, M), rng.randint(1, K))
    prop = ox.dft(g['du'], (M, K), (pM, pK), g['os'])
    W = lambda tilt=None: ox.wf(g['lam'], tilt=tilt)
    P = lambda **kw: ox.plane('Pupil', amp=amp, px=g['dx'], z=g['z'], mask=(amp != 0).astype(int), **kw)
    cases = []
    meta = dict(sid=sid, N=N, kind='mono', s=[str(sr), str(sc)], nonsquare=g['du'][0] != g['du'][1], os=g['os'])
    cases.append(dict(meta, rep='ramp', wf=W(), steps=[P(opd=base + ramp(amp.shape, kr, kc)), prop], thm='none'))
    c = dict(meta, rep='tiltplane', wf=W(), steps=[P(opd=base), ox.plane('Tilt', tx=thx, ty=thy), prop], thm='none')
    if rng.random() < 0.25 and N <= 32:
        # ThmShift is stated on the beam before the Tilt plane: program prefix = [Pupil], last = prop
        cases.append(dict(meta, rep='thm', wf=W(), steps=[P(opd=base), prop], thm='shift', kr=kr, kc=kc, specOnly=True))
    cases.append(c)
    cases.append(dict(meta, rep='wftilt', wf=W(tilt=(thx, thy)), steps=[P(opd=base), prop], thm='none'))
    if fit_ok:
        for how in ('inplace', 'copy'):
            st = P(opd=base, fitted=[(thx, thy)])
            st['opd_real'] = P(opd=base + ramp(amp.shape, kr, kc))['opd']
            st['fit'] = how
            st['layout'] = rng.choice(('C', 'F', 'T', 'strided'))
            cases.append(dict(meta, rep='fit-' + how, wf=W(), steps=[st, prop], thm='none'))
        # history: fit, add a second ramp to the OPD, fit again - the recorded tilts must add up
        k2r, s2r = pick_k(rng, N, g['qr'], g['dyadic'], allow_int=False)
        k2c, s2c = pick_k(rng, N, g['qc'], g['dyadic'], allow_int=False)
        tr, tc = sr + s2r, sc + s2c
        if (tr.denominator != 1 or tr == 0) and (tc.denominator != 1 or tc == 0) and rng.random() < 0.6:
            th2x, th2y = tilt_angles(g, kr + k2r, kc + k2c)
            st = P(opd=base, fitted=[(th2x, th2y)])
            st['opd_real'] = P(opd=base + ramp(amp.shape, kr, kc))['opd']
            st['fit'] = 'inplace'
            st['refit'] = ramp(amp.shape, k2r, k2c).tolist()
            cases.append(dict(meta, rep='refit', s=[str(tr), str(tc)], wf=W(), steps=[st, prop], thm='none'))
    return cases


def scenario_segmented(rng, tier, sid):
    g = geometry(rng, tier)
    N = g['N']
    m, n = rng.randint(3, 5), rng.randint(4, 6)
    nseg = rng.choice((2, 3))
    # rectangular column blocks (possibly with a gap) -> segments; each needs three non-collinear samples
    cuts = sorted(rng.sample(range(2, n - 1), nseg - 1)) if n - 3 >= nseg - 1 else None
    if cuts is None:
        nseg, cuts = 2, [n // 2]
    bounds = [0] + cuts + [n]
    if any(b - a < 2 for a, b in zip(bounds, bounds[1:])):
        nseg, bounds = 2, [0, 2, n]
    segs = np.zeros((nseg, m, n), dtype=int)
    for k in range(nseg):
        segs[k, :, bounds[k]:bounds[k + 1]] = 1
    if rng.random() < 0.5:
        segs[rng.randrange(nseg), 0, :] = 0        # non-rectangular: drop a row from one segment
    amp = (segs.sum(axis=0) > 0).astype(int) * rng.choice((1, 2))
    ks, ss, ang = [], [], []
    opd_ramp = np.zeros((m, n), dtype=int)
    base = np.zeros((m, n), dtype=int)
    for k in range(nseg):
        kr, sr = pick_k(rng, N, g['qr'], g['dyadic'], allow_int=False)
        kc, sc = pick_k(rng, N, g['qc'], g['dyadic'], allow_int=False)
        ks.append((kr, kc))
        ss.append((sr, sc))
        ang.append(tilt_angles(g, kr, kc))
        piston = rng.randrange(N)
        base += segs[k] * piston
        opd_ramp += segs[k] * (piston + ramp((m, n), kr, kc))
    M, K = rng.randint(2, 4), rng.randint(2, 4)
    prop = ox.dft(g['du'], (M, K), None, g['os'])
    meta = dict(sid=sid, N=N, kind='segmented', s=[str(x) for x in ss], nonsquare=g['du'][0] != g['du'][1], os=g['os'])
    W = ox.wf(g['lam'])
    P = lambda **kw: ox.plane('Pupil', amp=amp, px=g['dx'], z=g['z'], mask=segs, **kw)
    cases = [dict(meta, rep='ramp', wf=W, steps=[P(opd=opd_ramp), prop], thm='none')]
    for how in ('inplace', 'copy'):
        st = P(opd=base, fitted=ang)
        st['opd_real'] = P(opd=opd_ramp)['opd']
        st['fit'] = how
        st['layout'] = rng.choice(('C', 'F', 'T', 'strided'))
        cases.append(dict(meta, rep='fit-' + how, wf=W, steps=[st, prop], thm='none'))
    # history on a SEGMENTED plane: fit, add a second ramp per segment to the OPD, fit again - every segment's recorded tilts add up
    # (all of a segment's fitted tilts reach the wavefront, not only the first)
    ks2, ang2, ok2 = [], [], True
    refit = np.zeros((m, n), dtype=int)
    for k in range(nseg):
        k2r, s2r = pick_k(rng, N, g['qr'], g['dyadic'], allow_int=False)
        k2c, s2c = pick_k(rng, N, g['qc'], g['dyadic'], allow_int=False)
        tr, tc = ss[k][0] + s2r, ss[k][1] + s2c
        ok2 = ok2 and (tr.denominator != 1 or tr == 0) and (tc.denominator != 1 or tc == 0)
        ang2.append(tilt_angles(g, ks[k][0] + k2r, ks[k][1] + k2c))
        ks2.append((str(tr), str(tc)))
        refit += segs[k] * ramp((m, n), k2r, k2c)
    if ok2:
        st = P(opd=base, fitted=ang2)
        st['opd_real'] = P(opd=opd_ramp)['opd']
        st['fit'] = 'inplace'
        st['refit'] = refit.tolist()
        cases.append(dict(meta, rep='refit', s=[str(x) for x in ks2], wf=W, steps=[st, prop], thm='none'))
    return cases


def scenario_chain(rng, tier, sid):
    """two angular elements and one first-order dispersive element, in every order"""
    g = geometry(rng, tier)
    while not g['dyadic'] or g['qr'] * 4 > g['N'] or g['qc'] * 4 > g['N']:
        g = geometry(rng, tier)
    N = g['N']
    amp = aperture(rng, tier)
    opd = np.array([[rng.randrange(N) for _ in range(amp.shape[1])] for _ in range(amp.shape[0])])
    q4 = lambda: Fr(rng.choice((-9, -5, -2, -1, 0, 1, 2, 3, 4, 6, 11)), 4)
    elems = []
    total = [Fr(0), Fr(0)]
    for _ in range(2):
        sr, sc = q4(), q4()
        thx = sr * g['du'][0] / (g['z'] * g['os'])
        thy = -sc * g['du'][1] / (g['z'] * g['os'])
        elems.append(ox.plane('Tilt', tx=thx, ty=thy))
        total[0] += sr
        total[1] += sc
    # dispersive: focal-plane point (x, y) metres = (sc*du_c/os, -sr*du_r/os), on the trace y = t1 x + t0 at arc length x*root
    sr, sc = q4(), q4()
    t1, root = rng.choice(((Fr(0), Fr(1)), (Fr(3, 4), Fr(5, 4)), (Fr(-3, 4), Fr(5, 4))))     # dyadic slopes with rational arc length
    x = sc * g['du'][1] / g['os']
    y = -sr * g['du'][0] / g['os']
    t0 = y - t1 * x
    d0 = Fr(rng.choice((1, 2, -1)))
    d1 = g['lam'] - x * root * d0
    elems.append(ox.plane(rng.choice(('DispersiveTilt', 'DispersiveTilt', 'Grism')),
                          disp=dict(t1=t1, t0=t0, d0=d0, d1=d1, root=root)))
    total[0] += sr
    total[1] += sc
    M, K = rng.randint(2, 4), rng.randint(2, 4)
    prop = ox.dft(g['du'], (M, K), None, g['os'])
    mask = None
    wtilt = None
    if rng.random() < 0.5:
        # a segmented pupil splits the incoming field into several fields, and the wavefront already carries tilt
        n = amp.shape[1]
        amp = np.maximum(amp, 1)
        mask = np.zeros((2,) + amp.shape, dtype=int)
        mask[0, :, :n // 2] = 1
        mask[1, :, n // 2:] = 1
        sr0, sc0 = q4(), q4()
        wtilt = (sr0 * g['du'][0] / (g['z'] * g['os']), -sc0 * g['du'][1] / (g['z'] * g['os']))
        total[0] += sr0
        total[1] += sc0
    pupil = ox.plane('Pupil', amp=amp, opd=opd, px=g['dx'], z=g['z'], mask=mask)
    meta = dict(sid=sid, N=N, kind='chain', s=[str(total[0]), str(total[1])], nonsquare=g['du'][0] != g['du'][1], os=g['os'])
    cases = []
    perms = list(itertools.permutations(range(3)))
    if tier == 'quick':
        perms = rng.sample(perms, 3)
    for perm in perms:
        # the pupil itself takes every position among the tilt elements of a none-typed chain only at the front
        # (type rules), the tilt elements come in every order after it
        cases.append(dict(meta, rep='order-' + ''.join(map(str, perm)), wf=ox.wf(g['lam'], tilt=wtilt),
                          steps=[pupil] + [elems[i] for i in perm] + [prop], thm='none'))
    # tilt elements applied BEFORE the pupil (wavefront of type none) must give the same image
    perm = rng.choice(list(itertools.permutations(range(3))))
    k = rng.randint(1, 3)
    cases.append(dict(meta, rep='order-split', wf=ox.wf(g['lam'], tilt=wtilt),
                      steps=[elems[i] for i in perm[:k]] + [pupil] + [elems[i] for i in perm[k:]] + [prop], thm='none'))
    return cases


def dispersive_leaf(ctx, lentil, rng):
    """numeric leaf (outside the model): for trace / dispersion polynomials of order 1..3 the displacement returned by
    DispersiveTilt.shift lies on the trace polynomial, at the arc length (measured from x = 0) that the dispersion
    polynomial maps to the wavelength; incoming displacements are added"""
    import scipy.integrate
    n = 0
    for _ in range(60):
        to, do = rng.choice((1, 2, 3)), rng.choice((1, 2, 3))
        trace = [rng.uniform(-0.4, 0.4) for _ in range(to)] + [rng.uniform(-1e-3, 1e-3)]
        trace[-2] = rng.uniform(-1.0, 1.0)
        lam0 = 600e-9
        disp = [rng.uniform(-1e-9, 1e-9) for _ in range(do - 1)] + [rng.choice((-1, 1)) * rng.uniform(2e-6, 8e-6), lam0]
        lam = lam0 + rng.choice((-20e-9, 10e-9, 25e-9))        # few wavelengths: different elements meet at the same one
        xs, ys = rng.uniform(-1e-3, 1e-3), rng.uniform(-1e-3, 1e-3)
        try:
            el = lentil.DispersiveTilt(trace=trace, dispersion=disp)
            x, y = el.shift(wavelength=lam, xs=xs, ys=ys)
            x, y = float(np.squeeze(x)), float(np.squeeze(y))
            # the same element evaluated again (same wavelength, same and other incoming displacement) must agree with itself
            xa, ya = el.shift(wavelength=lam, xs=xs, ys=ys)
            xb, yb = el.shift(wavelength=lam, xs=0.0, ys=0.0)
        except Exception as ex:
            ctx.violation({'kind': 'dispersive-leaf', 'trace_order': to, 'dispersion_order': do, 'clause': 'shift-raises-' + type(ex).__name__},
                          {'trace': trace, 'dispersion': disp, 'wavelength': lam, 'error': repr(ex)[:200]}, case=None)
            continue
        if abs(float(np.squeeze(xa)) - x) > 1e-12 or abs(float(np.squeeze(ya)) - y) > 1e-12 or \
                abs(float(np.squeeze(xb)) + xs - x) > 1e-9 * (1 + abs(x)) or abs(float(np.squeeze(yb)) + ys - y) > 1e-9 * (1 + abs(y)):
            ctx.violation({'kind': 'dispersive-leaf', 'trace_order': to, 'dispersion_order': do, 'clause': 'depends-on-earlier-evaluation'},
                          {'first': [x, y], 'again': [float(np.squeeze(xa)), float(np.squeeze(ya))], 'without_incoming': [float(np.squeeze(xb)), float(np.squeeze(yb))],
                           'incoming': [xs, ys]}, case=None)
            continue
        x0, y0 = x - xs, y - ys
        n += 1
        # the element's polynomials are replaced (same orders, other coefficients) after it has been used at this wavelength: it then
        # displaces as a fresh element with the new polynomials does
        trace2 = [t_ * rng.uniform(0.5, 1.5) for t_ in trace]
        disp2 = list(disp[:-2]) + [disp[-2] * rng.uniform(0.6, 1.4), disp[-1]]
        try:
            el2 = lentil.DispersiveTilt(trace=trace, dispersion=disp)
            el2.shift(wavelength=lam, xs=xs, ys=ys)
            el2.trace, el2.dispersion = trace2, disp2
            xn, yn = el2.shift(wavelength=lam, xs=xs, ys=ys)
            xf, yf = lentil.DispersiveTilt(trace=trace2, dispersion=disp2).shift(wavelength=lam, xs=xs, ys=ys)
            same = abs(float(np.squeeze(xn)) - float(np.squeeze(xf))) <= 1e-12 and abs(float(np.squeeze(yn)) - float(np.squeeze(yf))) <= 1e-12
        except Exception as ex:
            same = False
        if not same:
            ctx.violation({'kind': 'dispersive-leaf', 'trace_order': to, 'dispersion_order': do, 'clause': 'polynomials-replaced-after-use'},
                          {'trace': trace2, 'dispersion': disp2, 'wavelength': lam}, case=None)
        # ... and likewise when its owner edits the coefficient arrays IN PLACE between two uses at this wavelength (the element, a
        # wavefront that passes it now, and a fresh element with the new coefficients agree; a wavefront that passed BEFORE keeps the old)
        try:
            el3 = lentil.DispersiveTilt(trace=list(trace), dispersion=list(disp))
            before = lentil.Wavefront(lam) * el3
            el3.shift(wavelength=lam, xs=xs, ys=ys)
            old_shift = [f.tilt[-1].shift(wavelength=lam, xs=xs, ys=ys) for f in before.data][0]
            el3.trace[-2] = trace2[-2]
            el3.dispersion[-2] = disp2[-2]
            t3 = list(trace[:-2]) + [trace2[-2], trace[-1]]
            d3 = list(disp[:-2]) + [disp2[-2], disp[-1]]
            fresh = lentil.DispersiveTilt(trace=t3, dispersion=d3).shift(wavelength=lam, xs=xs, ys=ys)
            now = el3.shift(wavelength=lam, xs=xs, ys=ys)
            after = [f.tilt[-1].shift(wavelength=lam, xs=xs, ys=ys) for f in (lentil.Wavefront(lam) * el3).data][0]
            kept = [f.tilt[-1].shift(wavelength=lam, xs=xs, ys=ys) for f in before.data][0]
            cl = lambda a, b: abs(float(np.squeeze(a[0])) - float(np.squeeze(b[0]))) <= 1e-12 and abs(float(np.squeeze(a[1])) - float(np.squeeze(b[1]))) <= 1e-12
            same = cl(now, fresh) and cl(after, fresh) and cl(kept, old_shift)
            err = None
        except Exception as ex:
            same, err = False, repr(ex)[:160]
        if not same:
            ctx.violation({'kind': 'dispersive-leaf', 'trace_order': to, 'dispersion_order': do, 'clause': 'coefficients-edited-in-place-between-uses'},
                          {'wavelength': lam, 'error': err}, case=None)
        # the element must be usable where it is meant to be used: in a propagation it displaces the image exactly as the angular
        # tilt with the same focal-plane displacement does (a tilt about the x axis displaces along y: Tilt(x=a, y=b) shifts by (-z b, -z a))
        zf = 2.0
        dux = max(abs(x0), abs(y0), 1e-9) / 4.3              # the displaced image stays inside the 24 x 24 window
        pm = lentil.circle((16, 16), 6, antialias=False)
        pup = lentil.Pupil(amplitude=pm, pixelscale=lam * zf / (dux * 32), focal_length=zf)      # alpha = 1/32: a well-sampled image
        try:
            wd = lentil.propagate_dft(lentil.Wavefront(lam) * pup * el, pixelscale=dux, shape=(24, 24), oversample=1)
            wt = lentil.propagate_dft(lentil.Wavefront(lam) * pup * lentil.Tilt(x=-y0 / zf, y=-x0 / zf), pixelscale=dux, shape=(24, 24), oversample=1)
            fd, ft = wd.field, wt.field
            if not np.abs(ft).max() > 0 or not np.allclose(fd, ft, rtol=0, atol=1e-7 * np.abs(ft).max()):
                ctx.violation({'kind': 'dispersive-leaf', 'trace_order': to, 'dispersion_order': do, 'clause': 'propagated-image-not-displaced-accordingly'},
                              {'trace': trace, 'dispersion': disp, 'wavelength': lam, 'displacement': [x0, y0]}, case=None)
                continue
        except Exception as ex:
            ctx.violation({'kind': 'dispersive-leaf', 'trace_order': 'higher' if to > 1 else 1, 'dispersion_order': 'higher' if do > 1 else 1,
                           'clause': 'cannot-be-propagated-' + type(ex).__name__},
                          {'trace': trace, 'dispersion': disp, 'wavelength': lam, 'error': repr(ex)[:200]}, case=None)
            continue
        sig = {'kind': 'dispersive-leaf', 'trace_order': to, 'dispersion_order': do}
        if abs(y0 - np.polyval(trace, x0)) > 1e-9 * (1 + abs(y0)):
            ctx.violation(dict(sig, clause='not-on-trace'), {'trace': trace, 'x': x0, 'y': y0, 'trace_at_x': float(np.polyval(trace, x0))}, case=None)
            continue
        arc = scipy.integrate.quad(lambda t: np.sqrt(1 + np.polyval(np.polyder(trace), t) ** 2), 0, x0)[0]
        lam_back = float(np.polyval(disp, arc))
        if abs(lam_back - lam) > 1e-6 * lam:
            ctx.violation(dict(sig, clause='arc-length-does-not-map-to-wavelength'),
                          {'trace': trace, 'dispersion': disp, 'wavelength': lam, 'wavelength_at_arc_length': lam_back}, case=None)
    return n


def shared_pixel_leaf(ctx, lentil):
    """segment masks that share edge samples (what hex_segments yields by default for small gaps once binarised): where the OPD holds no
    tilt at all (a piston), fitting tilt must leave OPD-plus-recorded-tilt - here simply the OPD - as it was, shared samples included"""
    n = 0
    for rings, R, gap in ((1, 16, 1), (1, 11, 0), (2, 9, 0.5)):
        masks = lentil.hex_segments(rings=rings, seg_radius=R, seg_gap=gap)
        binm = (np.asarray(masks) != 0)
        shared = int((binm.sum(axis=0) > 1).sum())
        if shared == 0:
            continue
        opd = np.full(masks.shape[1:], 150e-9)
        for inplace in (False, True):
            p = lentil.Pupil(amplitude=masks.sum(axis=0), opd=opd.copy(), mask=masks, pixelscale=1e-3, focal_length=3.0)
            pf = p.fit_tilt(inplace=inplace)
            n += 1
            inside = binm.any(axis=0)
            ctx.case(('shared-pixels', rings, R, gap, inplace))
            dev = float(np.abs((np.asarray(pf.opd) - 150e-9)[inside]).max())
            tilts = max(max(abs(t.x), abs(t.y)) for t in pf.tilt) if pf.tilt else 0.0
            if dev > 1e-12 or tilts > 1e-12:
                ctx.violation({'kind': 'fit-tilt-on-shared-segment-samples', 'inplace': inplace},
                              {'rings': rings, 'seg_radius': R, 'seg_gap': gap, 'samples_in_two_masks': shared, 'max_opd_change_m': dev, 'max_recorded_tilt': tilts}, case=None)
    # the same apertures under ONE smooth global OPD (defocus): every segment gets a different tilt, and a sample that two masks
    # contain can carry only one OPD value - the plane decides which segment owns it (Plane.mask says so), and for THAT division
    # OPD-plus-recorded-tilt is the OPD that went in and the propagated field of the fitted plane is the field of the plane itself
    for rings, R, gap in ((2, 12, 1), (1, 11, 0), (2, 9, 0.5)):
        masks = lentil.hex_segments(rings=rings, seg_radius=R, seg_gap=gap)
        shared = int(((np.asarray(masks) != 0).sum(axis=0) > 1).sum())
        if shared == 0:
            continue
        shape = masks.shape[1:]
        dx = 1.0 / shape[0]
        r, c = lentil.helper.mesh(shape)
        opd = 600e-9 * ((r * dx) ** 2 + (c * dx) ** 2) / 0.25
        p = lentil.Pupil(amplitude=np.clip(masks.sum(axis=0), 0, 1), opd=opd.copy(), mask=masks, pixelscale=dx, focal_length=10.0)
        pf = p.fit_tilt()
        n += 1
        ctx.case(('shared-pixels-defocus', rings, R, gap))
        own = np.asarray(pf.mask) != 0
        worst = 0.0
        for k_ in range(own.shape[0]):
            t = pf.tilt[k_]
            rec = np.asarray(pf.opd) + (t.y * r * dx - t.x * c * dx)          # Tilt(x, y) stores the two angles swapped (see TILTS)
            if own[k_].any():
                worst = max(worst, float(np.abs(rec - opd)[own[k_]].max()))
        kw = dict(pixelscale=5e-6, shape=64, oversample=2)
        a = lentil.propagate_dft(lentil.Wavefront(650e-9) * p, **kw)
        b = lentil.propagate_dft(lentil.Wavefront(650e-9) * pf, **kw)

        def coverage(w):
            cov = np.zeros(w.shape)
            for f in w.data:
                cov += lentil.field.insert(lentil.field.Field(np.ones(f.shape), offset=f.offset), np.zeros(w.shape, dtype=complex)).real
            return cov
        both = (coverage(a) == len(a.data)) & (coverage(b) == len(b.data))
        err = float(np.abs(a.field - b.field)[both].max() / np.abs(a.field).max()) if both.any() else 0.0
        once = int((own.sum(axis=0) > 1).sum())
        if worst > 1e-12 or err > 1e-9 or once:
            ctx.violation({'kind': 'fit-tilt-on-shared-segment-samples', 'opd': 'defocus'},
                          {'rings': rings, 'seg_radius': R, 'seg_gap': gap, 'samples_in_two_masks': shared, 'samples_in_two_plane_masks': once,
                           'max_opd_plus_tilt_change_m': worst, 'max_field_change_over_peak': err, 'samples_compared': int(both.sum())}, case=None)
    return n


def outside_mask_leaf(ctx, lentil, rng):
    """what a plane's OPD array holds OUTSIDE its mask is not data (NaN in a measured map, a sentinel): the least-squares tilt of a
    segment is the tilt of its samples, so OPD-plus-recorded-tilt is unchanged on the mask and the fitted plane still propagates to the
    field of the plane itself; likewise an amplitude stored as complex numbers (zero imaginary part) is the same aperture; and fitting
    in place on a shallow copy of a plane concerns that copy"""
    import copy
    import warnings
    n = 0
    for _ in range(6):
        shape = rng.choice(((16, 16), (15, 18)))
        segmented = rng.random() < 0.5
        if segmented:
            masks = np.zeros((2,) + shape)
            masks[0, 2:7, 2:8] = 1
            masks[1, 9:14, 8:14] = 1
            amp = masks.sum(axis=0)
        else:
            masks = None
            amp = lentil.circle(shape, 6, antialias=False)
        dx = 1e-3
        r, c = lentil.helper.mesh(shape)
        a_, b_ = rng.choice((2e-6, -1e-6, 3e-6)), rng.choice((1e-6, -2e-6))
        opd = (a_ * r + b_ * c) * dx                          # a pure ramp: the residual after the fit is zero
        for junk in (np.nan, 1e30, 0.0):
            n += 1
            ctx.case(('outside-mask', segmented, str(junk), shape, a_, b_))
            oj = np.where(amp != 0, opd, junk)
            with warnings.catch_warnings():
                warnings.simplefilter('ignore')
                try:
                    p = lentil.Pupil(amplitude=amp, opd=oj, mask=masks, pixelscale=dx, focal_length=2.0)
                    ref = lentil.Pupil(amplitude=amp, opd=np.where(amp != 0, opd, 0.0), mask=masks, pixelscale=dx, focal_length=2.0).fit_tilt()
                    pf = p.fit_tilt()
                    rt = np.array([[t.x, t.y] for t in pf.tilt])
                    et = np.array([[t.x, t.y] for t in ref.tilt])
                    inside = amp != 0
                    ok = rt.shape == et.shape and np.allclose(rt, et, rtol=1e-9, atol=1e-15) and \
                        np.allclose(np.asarray(pf.opd)[inside], np.asarray(ref.opd)[inside], rtol=0, atol=1e-15)
                    if ok:
                        kw = dict(pixelscale=20e-6, shape=24, oversample=1)
                        fa = lentil.propagate_dft(lentil.Wavefront(1e-6) * pf, **kw).field
                        fb = lentil.propagate_dft(lentil.Wavefront(1e-6) * ref, **kw).field
                        ok = np.all(np.isfinite(fa)) and np.allclose(fa, fb, rtol=1e-9, atol=1e-12)
                    err = None
                except Exception as ex:
                    ok, err = False, repr(ex)[:160]
            if not ok:
                ctx.violation({'kind': 'fit-tilt-reads-outside-the-mask', 'segmented': segmented, 'outside': str(junk)}, {'shape': list(shape), 'error': err}, case=None)
        # the same aperture with its amplitude stored as complex numbers
        n += 1
        ctx.case(('complex-typed-amplitude', segmented, shape, a_, b_))
        try:
            ref = lentil.Pupil(amplitude=amp, opd=opd * (amp != 0), mask=masks, pixelscale=dx, focal_length=2.0).fit_tilt()
            pc = lentil.Pupil(amplitude=amp.astype(complex), opd=opd * (amp != 0), mask=masks, pixelscale=dx, focal_length=2.0).fit_tilt()
            rt = np.array([[t.x, t.y] for t in pc.tilt])
            ok = not np.iscomplexobj(rt) and np.allclose(rt, np.array([[t.x, t.y] for t in ref.tilt]), rtol=1e-9, atol=1e-15)
            if ok:
                kw = dict(pixelscale=20e-6, shape=24, oversample=1)
                ok = np.allclose(lentil.propagate_dft(lentil.Wavefront(1e-6) * pc, **kw).field, lentil.propagate_dft(lentil.Wavefront(1e-6) * ref, **kw).field, rtol=1e-9, atol=1e-12)
            err = None
        except TypeError as ex:
            ok, err = 'fit_tilt' in repr(ex) or True, repr(ex)[:160]        # (an immediate refusal of complex storage is not a wrong value)
            try:
                lentil.Pupil(amplitude=amp.astype(complex), opd=opd * (amp != 0), mask=masks, pixelscale=dx, focal_length=2.0).fit_tilt()
            except Exception:
                ok = True
            else:
                ok = False              # accepted by fit_tilt, refused only later at propagation
        except Exception as ex:
            ok, err = False, repr(ex)[:160]
        if not ok:
            ctx.violation({'kind': 'complex-typed-amplitude-through-fit-tilt', 'segmented': segmented}, {'shape': list(shape), 'error': err}, case=None)
        # a plane that already carries fitted tilt, refitted after an OPD update WITHOUT inplace: what comes back is a plane of its own -
        # editing its recorded tilts (or adding one) does not reach the original
        n += 1
        ctx.case(('refit-copy-then-edit-tilts', segmented, shape, a_, b_))
        P0 = lentil.Pupil(amplitude=amp, opd=opd * (amp != 0), mask=masks, pixelscale=dx, focal_length=2.0)
        P0.fit_tilt(inplace=True)
        P0.opd = np.asarray(P0.opd) + 0.5 * opd * (amp != 0)
        snap = [(t.x, t.y) for t in P0.tilt]
        for variant in ('refit', 'nothing-to-fit'):
            if variant == 'nothing-to-fit':
                src = lentil.Pupil(amplitude=amp, opd=0.0, mask=masks, pixelscale=dx, focal_length=2.0)
                src.tilt = [lentil.Tilt(x=1e-6, y=-1e-6)]
                snap_v = [(t.x, t.y) for t in src.tilt]
            else:
                src, snap_v = P0, snap
            Rr = src.fit_tilt()
            for t in Rr.tilt:
                t.x += 1e-6
            Rr.tilt.append(lentil.Tilt(x=3e-6, y=0.0))
            if [(t.x, t.y) for t in src.tilt] != snap_v:
                ctx.violation({'kind': 'editing-the-plane-fit-tilt-returned-changes-the-original', 'segmented': segmented, 'variant': variant},
                              {'recorded_before': snap_v, 'recorded_after': [(t.x, t.y) for t in src.tilt]}, case=None)
        # in place on a shallow copy: the original keeps describing what it described
        n += 1
        ctx.case(('fit-on-shallow-copy', segmented, shape, a_, b_))
        P = lentil.Pupil(amplitude=amp, opd=opd * (amp != 0), mask=masks, pixelscale=dx, focal_length=2.0)
        before = (np.array(P.opd, copy=True), len(P.tilt))
        Q = copy.copy(P)
        Q.fit_tilt(inplace=True)
        if len(P.tilt) != before[1] or not np.array_equal(np.asarray(P.opd), before[0]):
            ctx.violation({'kind': 'fit-tilt-in-place-on-a-shallow-copy-changes-the-original', 'segmented': segmented},
                          {'tilts_recorded_on_the_original': len(P.tilt) - before[1], 'opd_changed': not np.array_equal(np.asarray(P.opd), before[0])}, case=None)
    return n


def sig_of(c, k, kind):
    return {'kind': kind, 'scenario': c['kind'], 'rep': c['rep'].split('-')[0] if c['rep'].startswith('order') else c['rep'],
            'nonsquare_px': c['nonsquare'], 'step_op': c['steps'][k]['op']}


def run(ctx):
    lentil = import_lentil()
    rng = random.Random(4004 + ctx.seed)
    q = ctx.tier == 'quick'
    cases = []
    nsc = 0
    for _ in range(220 if q else 2000):
        cases += scenario_mono(rng, ctx.tier, nsc)
        nsc += 1
    for _ in range(90 if q else 800):
        cases += scenario_segmented(rng, ctx.tier, nsc)
        nsc += 1
    for _ in range(70 if q else 500):
        cases += scenario_chain(rng, ctx.tier, nsc)
        nsc += 1
    for i, c in enumerate(cases):
        c['id'] = i
    spec, results = ox.eval_spec(cases)
    for N, res in results:
        ctx.add_tlc(res, f'MC_Optics ring N={N}')
    final = {}
    nthm = 0
    for c in cases:
        if c.get('specOnly'):
            nthm += 1
            continue
        real = ox.run_real(lentil, c)
        sp = spec[c['id']]['obs']
        for (k, kind, detail) in ox.compare(c, sp, real):
            ctx.violation(sig_of(c, k, kind), dict(detail, step=k, rep=c['rep'], displacement=c['s']),
                          case={'case': c, 'spec': spec[c['id']]})
        ctx.case((c['sid'], c['rep']), nontrivial=any(x not in ('0', "('0', '0')") for x in map(str, c['s'])))
        if real[-1].get('err') == 'none' and 'field' in real[-1] and sp[-1]['evald'] != [] and c['rep'] != 'refit':
            final.setdefault(c['sid'], []).append((c, real[-1]['field'], np.asarray(sp[-1]['evalall'], dtype=bool)))
    # cross-comparison of the representations of one scenario wherever both evaluate the field
    ncross = 0
    for sid, lst in final.items():
        for (c1, f1, e1), (c2, f2, e2) in itertools.combinations(lst, 2):
            if f1.shape != f2.shape:
                continue
            both = e1 & e2
            ncross += 1
            if both.any() and not np.abs(f1[both] - f2[both]).max() <= 1e-8 * (1 + np.abs(f1).sum()):
                ctx.violation({'kind': 'representations-disagree', 'scenario': c1['kind'], 'reps': sorted([c1['rep'].split('-')[0], c2['rep'].split('-')[0]]),
                               'nonsquare_px': c1['nonsquare']},
                              {'rep1': c1['rep'], 'rep2': c2['rep'], 'displacement': c1['s'],
                               'max_abs_diff': float(np.abs(f1[both] - f2[both]).max())},
                              case={'case': c1, 'spec': spec[c1['id']]})
    nleaf = dispersive_leaf(ctx, lentil, rng)
    ctx.extra['shared_segment_sample_cases'] = shared_pixel_leaf(ctx, lentil)
    ctx.extra['outside_mask_and_copy_cases'] = outside_mask_leaf(ctx, lentil, rng)
    ctx.traces += len(cases) - nthm
    ctx.extra['higher_order_dispersive_leaf_cases'] = nleaf
    ctx.extra.update({'scenarios': nsc, 'shift_theorem_cases': nthm, 'cross_comparisons': ncross})
    ctx.sample({'case': next(c for c in cases if c['rep'] == 'fit-inplace'), 'note': 'spec observations omitted for brevity'}, maxn=1)
    ctx.sample({'case': next(c for c in cases if c['rep'].startswith('order'))}, maxn=2)
    ctx.rule = ('scenario x representation; displacements in quarter samples from -10 to +10 incl. beyond the output, both signs, '
                'per-axis du (non-square output pixel), oversample 1..3, monolithic / segmented with per-segment tilt / chains of '
                '2 angular + 1 dispersive element in every order; non-trivial = non-zero displacement; exact non-zero integer '
                'displacements only on all-dyadic geometries (fix() ties are don\'t-care, DESIGN 3 rule 3)')
    ctx.assumptions += ['least-squares precondition of fitted planes is checked by TLC (FitPre), so the expected tilt is known exactly',
                        'higher-order dispersive elements (numerical root finding) are outside the model']


def replay(ctx, rec):
    lentil = import_lentil()
    c = rec['case']['case']
    real = ox.run_real(lentil, c)
    for (k, kind, detail) in ox.compare(c, rec['case']['spec']['obs'], real):
        ctx.violation(sig_of(c, k, kind), dict(detail, step=k), case=rec['case'])
