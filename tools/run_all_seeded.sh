#!/bin/sh
# usage: tools/run_all_seeded.sh [jobs]   - re-runs, for every filed seeded change, the quick check of its property against the change
# (scratch worktrees; /repo untouched) and writes /verif/seeded/MATRIX.json {dir: {rc, violations, top signatures}}.
cd "$(dirname "$0")/.."
jobs=${1:-4}
ls seeded | grep -E '^C[0-9]+_' > /tmp/seeded_list.txt
cat /tmp/seeded_list.txt | xargs -P $jobs -I{} sh -c '
  d={}; p=${d%%_*}
  if grep -q obsolete_since seeded/$d/meta.json 2>/dev/null; then echo "$d OBSOLETE"; exit 0; fi
  out=$(tools/run_on_seeded.sh $d $p 2>&1)
  echo "$d $(echo "$out" | grep "^check" | head -1) $(echo "$out" | grep "PATCH DOES NOT APPLY")"
' > /tmp/seeded_matrix.txt
/venv/bin/python - <<'PY'
import json, re
m = {}
for l in open('/tmp/seeded_matrix.txt'):
    parts = l.split()
    if not parts:
        continue
    d = parts[0]
    if 'OBSOLETE' in l:
        m[d] = {'status': 'obsolete (see meta.json)'}
        continue
    r = re.search(r'rc=(\d+) violations=(\d+)', l)
    m[d] = {'status': 'patch does not apply'} if not r else {'rc': int(r.group(1)), 'violations': int(r.group(2)), 'detected': int(r.group(1)) == 1}
json.dump(dict(sorted(m.items())), open('seeded/MATRIX.json', 'w'), indent=1)
nd = sum(1 for v in m.values() if v.get('detected'))
print(f'{len(m)} seeded changes: {nd} detected, {sum(1 for v in m.values() if v.get("rc") == 0)} missed, {sum(1 for v in m.values() if "status" in v)} other')
PY
