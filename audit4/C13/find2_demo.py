"""C13 finding 2 (borderline - see find2.txt): the sum of a spectrum without value unit
(valueunit=None, the constructor default) and a flux density is not commutative, and depends
on the wavelength unit in which the FLUX operand is expressed, as soon as the two operands
are given in different wavelength units.

In `a + b` the numbers of the unit-less operand are taken as densities per wavelength unit
of the LEFT operand (whichever it is), while the flux operand is properly rescaled.

Exit code 1 when the violation is observed, 0 otherwise.
"""
import os
import sys

sys.path.insert(0, os.environ.get('LENTIL_REPO', '.'))

import numpy as np
import lentil
from lentil.radiometry import Spectrum

print('lentil from', lentil.__file__)

w_nm = np.array([400., 450., 500., 550., 600.])
flux = Spectrum(w_nm, np.full(5, 5.0), 'nm', 'photlam')          # 5 photons s^-1 m^-2 nm^-1
bg = Spectrum(w_nm / 1000, np.full(5, 1.0), 'um', None)          # no value unit (the default)


def in_nm(s):
    s = s.copy()
    s.to('nm')
    return s


def interior(s):
    # value of the (nm-expressed) result at fixed wavelengths well inside the common range; the
    # operands are constant, so this does not depend on how many samples the result grid has and
    # stays clear of the range ends (exact ties there are not the point here)
    return np.interp([425., 475., 525., 575.], s.wave, s.value)


bad = []

# control: both operands in the same wavelength unit -> commutative
bg_nm = in_nm(bg)
c1, c2 = in_nm(flux + bg_nm), in_nm(bg_nm + flux)
print('same unit     : flux+bg =', interior(c1), ' bg+flux =', interior(c2))
assert np.allclose(interior(c1), interior(c2))

# 1. commutativity
r1 = in_nm(flux + bg)       # result expressed in nm, photlam
r2 = in_nm(bg + flux)       # result expressed in um, photlam -> re-expressed in nm
print('different unit: flux+bg =', interior(r1), r1.valueunit, ' bg+flux =', interior(r2), r2.valueunit)
if r1.valueunit == r2.valueunit and not np.allclose(interior(r1), interior(r2), rtol=1e-9):
    bad.append('flux[nm] + bg[um] = %s but bg[um] + flux[nm] = %s (both photlam per nm)'
               % (interior(r1), interior(r2)))

# 2. dependence on the unit in which the flux operand (a well defined physical density) is given
flux_um = flux.copy()
flux_um.to('um')            # the same physical spectrum: 5000 photons s^-1 m^-2 um^-1
r3 = in_nm(flux_um + bg)
print('flux given in um: flux+bg =', interior(r3), ' flux given in nm: flux+bg =', interior(r1))
if not np.allclose(interior(r1), interior(r3), rtol=1e-9):
    bad.append('flux + bg = %s with the flux density expressed in nm, %s with the same density '
               'expressed in um' % (interior(r1), interior(r3)))

# the operands themselves are unchanged
assert flux.waveunit == 'nm' and bg.waveunit == 'um' and np.all(flux.value == 5) and np.all(bg.value == 1)

if bad:
    print('\nVIOLATION of C13 (commutativity / independence of the wavelength unit):')
    for b in bad:
        print('  -', b)
    sys.exit(1)
print('no violation observed')
sys.exit(0)
