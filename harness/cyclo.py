"""Cyclotomic polynomials (integer coefficient lists, index = power), pure Python.
Supplied to the TLA+ module Cyclo as constant PhiN, which verifies them (PhiOK) - not trusted."""
import json
import os
from functools import lru_cache


def _polydiv(p, q):
    p = list(p)
    dq = len(q) - 1
    quo = [0] * (len(p) - dq)
    for k in range(len(p) - 1, dq - 1, -1):
        c = p[k]
        quo[k - dq] = c
        for j in range(dq + 1):
            p[k - dq + j] -= c * q[j]
    assert not any(p), 'inexact division'
    return quo


@lru_cache(None)
def phi(n):
    p = [-1] + [0] * (n - 1) + [1]
    for d in range(1, n):
        if n % d == 0:
            p = _polydiv(p, phi(d))
    return tuple(p)


def phi_file(n, workdir):
    """writes Phi_n padded to n+1 coefficients; returns the path"""
    os.makedirs(workdir, exist_ok=True)
    fn = os.path.join(workdir, f'phi_{n}.json')
    if not os.path.exists(fn):
        c = list(phi(n))
        c += [0] * (n + 1 - len(c))
        tmp = fn + f'.{os.getpid()}'
        with open(tmp, 'w') as f:
            json.dump(c, f)
        os.replace(tmp, fn)
    return fn
