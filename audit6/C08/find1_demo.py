"""C08 finding 1: propagate_fft refuses a pupil (or image) wavefront with TypeError when the
documented floating point `oversample` is combined with an explicit `shape`.

exit code 1 + explanation when the violation is observed, 0 otherwise."""
import os, sys
sys.path.insert(0, os.environ['LENTIL_REPO'])
import warnings
import numpy as np
import lentil

warnings.simplefilter('ignore')
assert os.path.realpath(lentil.__file__).startswith(os.path.realpath(os.environ['LENTIL_REPO'])), lentil.__file__

N = 16
pupil = lentil.Pupil(amplitude=lentil.circle((N, N), 7), pixelscale=1/N, focal_length=10)
w = lentil.Wavefront(650e-9) * pupil                      # none x pupil -> pupil
assert w.ptype == lentil.pupil

bad = []
ref = lentil.propagate_fft(w, pixelscale=5e-6, shape=8, oversample=2)      # integer oversample: fine
for oversample in (2.0, np.float64(2), np.float32(2), 1.5):
    # the sibling propagate_dft accepts every one of these (repair 803d363)
    d = lentil.propagate_dft(w, pixelscale=5e-6, shape=8, oversample=oversample)
    assert d.ptype == lentil.image
    try:
        out = lentil.propagate_fft(w, pixelscale=5e-6, shape=8, oversample=oversample)
        out.intensity          # the views of the product must work, too
    except Exception as e:
        bad.append(f'oversample={oversample!r} ({type(oversample).__name__}): '
                   f'{type(e).__name__}: {e}')
        continue
    if out.ptype != lentil.image:
        bad.append(f'oversample={oversample!r}: ptype {out.ptype}')
    elif oversample == 2 and not np.allclose(out.intensity, ref.intensity):
        bad.append(f'oversample={oversample!r}: result differs from oversample=2')

# the same from an image wavefront (image -> pupil)
wi = lentil.propagate_dft(w, pixelscale=5e-6, shape=16, oversample=1) * lentil.Image()
assert wi.ptype == lentil.image
try:
    back = lentil.propagate_fft(wi, pixelscale=1/N, shape=8, oversample=2.0)
    if back.ptype != lentil.pupil:
        bad.append(f'image -> {back.ptype}')
except Exception as e:
    bad.append(f'image wavefront, oversample=2.0: {type(e).__name__}: {e}')

if bad:
    print('VIOLATION: far-field propagation from a pupil / image wavefront is refused '
          '(with TypeError, the exception that signals a plane-type refusal) although '
          'propagate_fft documents "oversample : float":')
    for b in bad:
        print('   ', b)
    print('with oversample=2 (int) the same call returns ptype', ref.ptype, 'shape', ref.shape)
    sys.exit(1)
print('ok: propagate_fft accepts a floating point oversample together with shape')
sys.exit(0)
