"""C07 finding 3: a plane with SCALAR amplitude (the default) and an ARRAY OPD, applied
to a fresh wavefront, produces a wavefront whose `shape` is still () although its data
is a 2-D array. `Wavefront.field` and `Wavefront.intensity` then fail with an unrelated
broadcasting ValueError instead of returning amplitude*exp(2*pi*i*opd/wavelength).

The plane's own 2-D data is multiplied correctly (the Field in `w.data` is right); the
defect is that Plane.shape is derived from the mask only, and the mask that is
auto-created from a scalar amplitude is 0-d, so the "infinite" wavefront does not
inherit the finite shape of the plane.
"""
import os
import sys

sys.path.insert(0, os.environ.get('LENTIL_REPO', '.'))

import numpy as np
import lentil

wl = 1e-6
rng = np.random.default_rng(0)
opd = rng.uniform(-1e-7, 1e-7, size=(8, 8))
expected = 1.0 * np.exp(2j * np.pi * opd / wl)

fail = False
for name, plane in [('Plane(opd=array)', lentil.Plane(opd=opd)),
                    ('Pupil(opd=array, pixelscale, focal_length)',
                     lentil.Pupil(opd=opd, pixelscale=1e-3, focal_length=1.0)),
                    ('Plane(amplitude=0.5, opd=array)', lentil.Plane(amplitude=0.5, opd=opd))]:
    w = plane * lentil.Wavefront(wl)
    print(f'{name}: wavefront.shape = {w.shape}, data shapes = {[f.shape for f in w.data]}')
    for view in ('field', 'intensity'):
        try:
            val = getattr(w, view)
        except Exception as e:        # noqa
            print(f'   VIOLATION - Wavefront.{view} raised {type(e).__name__}: {e}')
            fail = True
            continue
        amp = float(plane.amplitude)
        ref = amp * expected if view == 'field' else np.abs(amp * expected) ** 2
        if np.shape(val) != ref.shape or np.max(np.abs(val - ref)) > 1e-9:
            print(f'   VIOLATION - Wavefront.{view} has shape {np.shape(val)}; wrong value')
            fail = True

# control: the same OPD with an explicit array amplitude of ones is fine
w = lentil.Plane(amplitude=np.ones((8, 8)), opd=opd) * lentil.Wavefront(wl)
print('control Plane(amplitude=ones, opd=array): max err', np.max(np.abs(w.field - expected)))

sys.exit(1 if fail else 0)
