"""C02 / propagate_fft(shape=..., oversample=<numpy uint64>) fails with an accidental TypeError,
while the same call with any other integer type (python int, int8..int64, uint8..uint32), the
same call without shape=, and propagate_dft with the very same arguments all give the
Fraunhofer field.  (Sibling of the repair "output shapes are taken as platform integers":
shape was converted with operator.index, the oversampling factor it is multiplied by was not.)"""
import os, sys, traceback
sys.path.insert(0, os.environ.get('LENTIL_REPO', '.'))
import numpy as np
import lentil

rng = np.random.default_rng(0)
amp = rng.random((8, 8))
dx, du, z, osamp, K = 1e-3, 5e-6, 10.0, 3, 24
wl = dx*du*K/(z*osamp)                      # 1/alpha = 24 exactly
pupil = lentil.Pupil(amplitude=amp, pixelscale=dx, focal_length=z)
w = lentil.Wavefront(wl) * pupil

ref = lentil.propagate_fft(w, pixelscale=du, shape=(5, 8), oversample=3).field

bad = False
for t in (int, np.int8, np.uint8, np.int32, np.uint32, np.int64, np.uint64):
    try:
        f = lentil.propagate_fft(w, pixelscale=du, shape=(5, 8), oversample=t(3)).field
        same = f.shape == ref.shape and np.array_equal(f, ref)
        print(f'propagate_fft shape=(5,8) oversample={t.__name__}(3): ok, identical to python int: {same}')
        bad |= not same
    except Exception as e:
        print(f'propagate_fft shape=(5,8) oversample={t.__name__}(3): raised {type(e).__name__}: {e}')
        bad = True

# the neighbours that work with the same uint64 factor
f = lentil.propagate_fft(w, pixelscale=du, oversample=np.uint64(3)).field
print('propagate_fft without shape, oversample=uint64(3): ok', f.shape)
f = lentil.propagate_dft(w, pixelscale=du, shape=(5, 8), oversample=np.uint64(3)).field
print('propagate_dft shape=(5,8), oversample=uint64(3): ok', f.shape,
      'equal to propagate_fft(int 3):', np.allclose(f, ref, rtol=1e-10, atol=1e-14))

if bad:
    print('VIOLATION: an integer oversampling factor held as numpy uint64 is not accepted by '
          'propagate_fft when shape= is given (shape*oversample becomes a float64).')
sys.exit(1 if bad else 0)
