"""
C10 finding 2: DispersiveTilt caches the polynomial orders of ``trace`` and
``dispersion`` at construction (``_trace_order`` / ``_dispersion_order``) and
never refreshes them.  ``trace`` and ``dispersion`` are ordinary public
attributes ("Once a Plane is defined, its attributes can be modified at any
time", docs/user/fundamentals/planes.rst).  Two DispersiveTilt planes whose
public state is identical therefore give different shifts - and different
propagated images - depending on the sequence of attribute updates that
produced that state.

exit code 1 + explanation when the violation is observed, 0 otherwise.
"""
import os
import sys

sys.path.insert(0, os.environ.get('LENTIL_REPO', '.'))

import numpy as np
import lentil

wavelength = 700e-9


def public_state(dt):
    return {k: v for k, v in vars(dt).items() if not k.startswith('_')}


def same_public_state(a, b):
    sa, sb = public_state(a), public_state(b)
    if sa.keys() != sb.keys():
        return False
    for k in sa:
        if k == 'tilt':
            ok = (sa[k] == sb[k])
        else:
            ok = np.array_equal(np.asarray(sa[k]), np.asarray(sb[k]))
        if not ok:
            return False
    # the property-backed public attributes
    for name in ('amplitude', 'opd', 'mask', 'pixelscale', 'ptype', 'shape', 'size'):
        va, vb = getattr(a, name), getattr(b, name)
        if name == 'ptype':
            if not va == vb:
                return False
        elif not np.array_equal(np.asarray(va), np.asarray(vb)):
            return False
    return True


def image_peak(dt):
    n = 32
    pupil = lentil.Pupil(amplitude=lentil.circle((n, n), 12, antialias=False),
                         pixelscale=1 / n, focal_length=10)
    w = lentil.Wavefront(wavelength) * pupil * dt
    w = lentil.propagate_dft(w, pixelscale=5e-6, shape=(64, 64), oversample=2)
    img = w.intensity
    return np.unravel_index(np.argmax(img), img.shape), img


bad = []

# ---- case A: trace updated from first to second order -------------------------
trace2 = np.array([2e4, 1.0, 0.0])
disp1 = np.array([1e-3, 650e-9])

fresh = lentil.DispersiveTilt(trace=trace2, dispersion=disp1)

hist = lentil.DispersiveTilt(trace=[1.0, 0.0], dispersion=disp1)
hist.trace = trace2                                   # attribute update

assert same_public_state(fresh, hist)

s_fresh = fresh.shift(wavelength=wavelength)
s_hist = hist.shift(wavelength=wavelength)
pk_fresh, img_fresh = image_peak(fresh)
pk_hist, img_hist = image_peak(hist)

if not np.allclose(s_fresh, s_hist, rtol=1e-6, atol=0):
    bad.append(
        "trace updated [1, 0] -> [2e4, 1, 0]: identical public state, but "
        f"shift() = ({s_hist[0]:.4e}, {s_hist[1]:.4e}) m for the updated plane vs "
        f"({s_fresh[0]:.4e}, {s_fresh[1]:.4e}) m for a freshly constructed one; "
        f"propagated PSF peak at {tuple(int(v) for v in pk_hist)} vs "
        f"{tuple(int(v) for v in pk_fresh)} (oversampled pixels); hidden "
        f"_trace_order = {hist._trace_order} vs {fresh._trace_order}")

# ---- case B: dispersion updated from first to second order --------------------
disp2 = np.array([1e-1, 1e-3, 650e-9])
fresh_b = lentil.DispersiveTilt(trace=[1.0, 0.0], dispersion=disp2)
hist_b = lentil.DispersiveTilt(trace=[1.0, 0.0], dispersion=disp1)
hist_b.dispersion = disp2                             # attribute update

assert same_public_state(fresh_b, hist_b)

sb_fresh = fresh_b.shift(wavelength=wavelength)
sb_hist = hist_b.shift(wavelength=wavelength)
if not np.allclose(sb_fresh, sb_hist, rtol=1e-6, atol=0):
    bad.append(
        "dispersion updated [1e-3, 650e-9] -> [1e-1, 1e-3, 650e-9]: identical public "
        f"state, but shift() = ({sb_hist[0]:.4e}, {sb_hist[1]:.4e}) m for the updated "
        f"plane vs ({sb_fresh[0]:.4e}, {sb_fresh[1]:.4e}) m for a fresh one; hidden "
        f"_dispersion_order = {hist_b._dispersion_order} vs {fresh_b._dispersion_order}")

if bad:
    print('C10 VIOLATION (result depends on the history of attribute updates, '
          'not on the current plane state)')
    for b in bad:
        print(' -', b)
    print('root cause: lentil/plane.py lines 833-839 cache _trace_order / _dispersion_order in '
          '__init__; lines 869 and 881 branch on the cached values instead of on '
          'self.trace.size / self.dispersion.size')
    sys.exit(1)

print('no violation observed')
sys.exit(0)
