"""C02 finding 1: a plane whose support is a single sample is treated as a
broadcastable scalar, so the propagated field is not the Fraunhofer sum of the
input-plane field.

 (a) pupil with one non-zero sample away from the array centre  -> wavefront is
     emptied, propagate_dft returns all zeros instead of a tilted plane wave;
 (b) image-plane pinhole of one sample (image -> pupil direction) -> the pinhole
     is broadcast over the whole field, i.e. it has no effect at all.
"""
import os, sys
sys.path.insert(0, os.environ.get('LENTIL_REPO', '.'))
import numpy as np
import lentil


def fraunhofer(f, alpha, out_shape):
    """unitary Fraunhofer sum, optical axis at sample floor(n/2) of both planes"""
    f = np.asarray(f, dtype=complex)
    (m, n), (M, N) = f.shape, out_shape
    R, S = np.arange(m) - m//2, np.arange(n) - n//2
    U, V = np.arange(M) - M//2, np.arange(N) - N//2
    E1 = np.exp(-2j*np.pi*alpha[0]*np.outer(U, R))
    E2 = np.exp(-2j*np.pi*alpha[1]*np.outer(S, V))
    return np.sqrt(abs(alpha[0]*alpha[1])) * (E1 @ f @ E2)


bad = []
wl, fl, dx, du, os_ = 600e-9, 10.0, 2e-3, 5e-6, 2
shape = (6, 6)

# ---- (a) pupil -> image, single off-centre sample -------------------------
amp = np.zeros((6, 6))
amp[1, 4] = 1.0
w = lentil.Wavefront(wl) * lentil.Pupil(amplitude=amp, pixelscale=dx, focal_length=fl)
out = lentil.propagate_dft(w, pixelscale=du, shape=shape, oversample=os_)
alpha = (dx*du/(wl*fl*os_),)*2
ref = fraunhofer(amp, alpha, (12, 12))
err = np.abs(out.field - ref).max()
print(f'(a) single off-centre pupil sample: expected |field| = {np.abs(ref).max():.4e} '
      f'everywhere, got max |field| = {np.abs(out.field).max():.4e}, '
      f'{len(w.data)} Field(s) left in the wavefront')
if err > 1e-9*np.abs(ref).max():
    bad.append('(a)')

# control: two non-zero samples work
amp2 = amp.copy(); amp2[2, 4] = 1.0
w2 = lentil.Wavefront(wl) * lentil.Pupil(amplitude=amp2, pixelscale=dx, focal_length=fl)
o2 = lentil.propagate_dft(w2, pixelscale=du, shape=shape, oversample=os_)
assert np.allclose(o2.field, fraunhofer(amp2, alpha, (12, 12)), rtol=1e-9, atol=1e-14)

# ---- (b) image -> pupil through a one-sample pinhole -----------------------
pup = np.ones((8, 8))
w = lentil.Wavefront(wl) * lentil.Pupil(amplitude=pup, pixelscale=dx, focal_length=fl)
wi = lentil.propagate_dft(w, pixelscale=du, shape=(8, 8), oversample=1)
pin = np.zeros((8, 8))
pin[2, 5] = 1.0                      # off-axis pinhole (on-axis behaves the same)
wp = wi * lentil.Image(amplitude=pin)
expected_in = wi.field * pin         # one non-zero sample
back = lentil.propagate_dft(wp, pixelscale=dx, shape=(8, 8), oversample=1)
a2 = (du*dx/(wl*fl),)*2
ref = fraunhofer(expected_in, a2, (8, 8))
nopin = fraunhofer(wi.field, a2, (8, 8))
print(f'(b) pinhole: input-plane field has {np.count_nonzero(wp.field)} non-zero samples '
      f'(expected 1); max|got-ref| = {np.abs(back.field-ref).max():.3e}, '
      f'max|got - (no pinhole at all)| = {np.abs(back.field-nopin).max():.3e}')
if np.abs(back.field - ref).max() > 1e-9*max(np.abs(ref).max(), 1e-300):
    bad.append('(b)')

if bad:
    print('VIOLATION of C02 in case(s)', ', '.join(bad),
          ': the propagated field is not the Fraunhofer sum of the field '
          'transmitted by the planes (lentil/field.py Field.__mul__ / _mul_broadcast '
          'treat any size-1 Field as a scalar).')
    sys.exit(1)
print('no violation observed')
sys.exit(0)
