"""C06 finding 1: a field that consists of ONE pixel (shape (1, 1)) - including
one that the library itself returns as the product of two larger fields which
overlap in exactly one pixel - is re-interpreted as an infinite constant by
Field.__mul__.  The product is then no longer the pointwise product of the
embeddings, and multiplication is not associative."""
import os, sys
sys.path.insert(0, os.environ['LENTIL_REPO'])
import numpy as np
import lentil
import lentil.field as lf
from lentil.field import Field

R = 16
def embed(f):
    """data of an array field placed at its offset in a (2R+1)^2 plane of zeros"""
    P = np.zeros((2*R+1, 2*R+1), dtype=complex)
    if f.data.size == 0:
        return P
    n, m = f.data.shape
    r0 = -(n//2) + f.offset[0] + R
    c0 = -(m//2) + f.offset[1] + R
    P[r0:r0+n, c0:c0+m] = f.data
    return P

bad = []

# three ordinary array fields, none of them one-element
A = Field(np.full((3, 3), 2.0), offset=[0, 0])     # rows/cols -1..1
B = Field(np.full((3, 3), 3.0), offset=[2, 2])     # rows/cols  1..3
C = Field(np.full((5, 5), 5.0), offset=[0, 0])     # rows/cols -2..2
truth = embed(A) * embed(B) * embed(C)             # a single pixel (1,1) of value 30

AB = A * B
assert AB.shape == (1, 1) and tuple(AB.offset) == (1, 1)   # correct so far: one pixel at (1,1)
left = AB * C                # (A*B)*C
right = A * (B * C)          # A*(B*C)
if not np.allclose(embed(right), truth):
    bad.append('A*(B*C) wrong')
if not np.allclose(embed(left), truth):
    bad.append('(A*B)*C has shape %s offset %s, nonzero pixels %d (expected the single '
               'pixel (1,1)); A*(B*C) has shape %s offset %s'
               % (left.shape, tuple(left.offset), np.count_nonzero(embed(left)),
                  right.shape, tuple(right.offset)))

# the one-pixel product times a field that does not contain that pixel must be zero
Cfar = Field(np.ones((3, 3)), offset=[10, 10])
X = AB * Cfar
if X.size != 0 and np.count_nonzero(embed(X)):
    bad.append('(A*B)*Cfar: A*B is the single pixel (1,1), Cfar covers rows/cols 9..11, '
               'product should vanish but is shape %s at offset %s, sum %s'
               % (X.shape, tuple(X.offset), X.data.sum()))

# same thing through the public optical API: a one-pixel pinhole mask
amp = np.zeros((9, 9)); amp[4, 4] = 1           # pinhole at the centre sample
pin = lentil.Pupil(amplitude=amp, pixelscale=1, focal_length=10)
full = lentil.Pupil(amplitude=np.ones((9, 9)), pixelscale=1, focal_length=10)
w = lentil.Wavefront(1e-6)
f = ((w * full) * pin).field
if not np.allclose(f, amp):
    bad.append('Wavefront*full_aperture*pinhole: field sum %g, expected 1 (pinhole ignored)'
               % f.real.sum())

if bad:
    print('VIOLATION (C06, product = pointwise product of embeddings):')
    for b in bad:
        print('  -', b)
    sys.exit(1)
print('ok')
