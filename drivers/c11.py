"""C11 - Zernike modes are the Noll-ordered orthonormal polynomials.

A: TLC checks on Zernike.tla that the Noll map built from first principles is a bijection onto the modes with
   n <= 12 (j <= 91) with the even-cosine / odd-sine rule, that every radial polynomial is 1 at rho = 1, and exact
   radial orthogonality INT R_n^m R_n'^m rho d rho = delta/(2n+2) for n <= 7 in rational arithmetic.
B: TLC emits the index table, the exact value of every radial polynomial at 8 rational nodes (seven in [0, 1], one at 3/2 outside the disk) (more nodes than
   coefficients, so agreement identifies the polynomial) and, for masks from a case file, the exact centroid and rho^2
   of the default coordinates.  lentil's zernike_index, zernike(mask, j, rho, theta) on the node x 16-angle grid (both
   normalisations, sine sign left open), and zernike_coordinates on all masks within 3x3 and seeded masks on
   even / odd / non-square arrays are compared.  Orthonormality of lentil's modes over the unit disk is verified by
   exact quadrature (numeric leaf).
"""
import itertools
import math
import random
import sys

import numpy as np

from harness.core import import_lentil
from harness.tlc import run_tlc, WORK, TLCError
from harness import spectra as sp

LEVEL = 'model_checking'


def run(ctx):
    import warnings
    warnings.simplefilter('ignore', RuntimeWarning)      # rho = 0/0 on single-sample masks (outside the statement)
    lentil = import_lentil()
    zmod = sys.modules['lentil.zernike']
    rng = random.Random(1111 + ctx.seed)
    q = ctx.tier == 'quick'
    JMAX = 66 if q else 91
    cases = [{'id': 0, 'k': 'index'}, {'id': 1, 'k': 'radial'}]
    masks = []
    for bits in range(1, 512):
        m = np.array([(bits >> k) & 1 for k in range(9)]).reshape(3, 3)
        masks.append(m)
    if q:
        masks = rng.sample(masks, 120)
    for _ in range(80 if q else 600):
        r, c = rng.randint(2, 9), rng.randint(2, 8)
        m = np.zeros((r, c), dtype=int)
        # a blob at a random position
        r0, c0 = rng.randrange(r), rng.randrange(c)
        for _ in range(rng.randint(1, 12)):
            m[min(r - 1, max(0, r0 + rng.randint(-2, 2))), min(c - 1, max(0, c0 + rng.randint(-2, 2)))] = 1
        masks.append(m)
    for m in masks:
        cases.append({'id': len(cases), 'k': 'coords', 'mask': m.tolist()})
    import json
    import os
    import uuid
    fn = os.path.join(WORK, f'zern_{uuid.uuid4().hex[:8]}.json')
    os.makedirs(WORK, exist_ok=True)
    with open(fn, 'w') as f:
        json.dump(cases, f)
    try:
        res = run_tlc('MC_Zernike', env={'CASES': fn, 'ZJMAX': JMAX, 'ZNORTHO': 7}, workers=1, timeout=1500, light=False)
    finally:
        os.unlink(fn)
    ctx.add_tlc(res, 'MC_Zernike (Noll bijection, R(1)=1, radial orthogonality; index / radial / coordinates oracle)')
    exp = {e['id']: e for e in res.emits if not isinstance(e['id'], list)}
    if len(exp) != len(cases):
        raise TLCError('MC_Zernike did not emit every case')
    table = exp[0]['table']
    # ---- 1. index ------------------------------------------------------------------------------------------------
    for j in range(1, JMAX + 1):
        n, m, nsq = table[j - 1]
        mo, no = zmod.zernike_index(j)
        ctx.case(('index', j))
        if (int(no), int(mo)) != (n, m):
            ctx.violation({'kind': 'noll-index', 'j': j}, {'expected_n_m': [n, m], 'observed_n_m': [int(no), int(mo)]}, case=None)
    # ---- 2. values on the node x angle grid -------------------------------------------------------------------------------
    nodes = np.array([float(sp.rf(x)) for x in exp[1]['nodes']])
    K = 16
    th = 2 * np.pi * np.arange(K) / K
    rho, theta = np.meshgrid(nodes, th, indexing='ij')
    ones = np.ones(rho.shape)
    # the SAME caller-owned coordinate arrays are used for every call, alternating a partial mask with the full one:
    # a mode at supplied coordinates must not depend on earlier calls, and the caller's arrays must stay as they are
    part = ones.copy()
    part[::2, 1::3] = 0
    rho0, theta0 = rho.copy(), theta.copy()
    sine_negated = []
    for j in range(1, JMAX + 1):
        n, m, nsq = table[j - 1]
        rad = np.array([float(sp.rf(x)) for x in exp[1]['vals'][j - 1]])
        az = np.ones(K) if m == 0 else (np.cos(m * th) if m > 0 else np.sin(-m * th))
        base = rad[:, None] * az[None, :]
        for normalize in (True, False):
            e = base * (math.sqrt(nsq) if normalize else 1.0)
            zp = np.asarray(lentil.zernike(part, j, normalize=normalize, rho=rho, theta=theta), dtype=float)
            z = np.asarray(lentil.zernike(ones, j, normalize=normalize, rho=rho, theta=theta), dtype=float)
            ctx.case(('value', j, normalize))
            ok = np.allclose(z, e, rtol=0, atol=1e-9 * (1 + np.abs(e).max())) and np.allclose(zp, e * part, rtol=0, atol=1e-9 * (1 + np.abs(e).max()))
            if not ok and m < 0 and np.allclose(z, -e, rtol=0, atol=1e-9 * (1 + np.abs(e).max())) and \
                    np.allclose(zp, -e * part, rtol=0, atol=1e-9 * (1 + np.abs(e).max())):
                # exactly MINUS the textbook mode R(rho) sin(|m| theta): reported once per run under its own signature
                if not sine_negated:
                    sine_negated.append(j)
                    ctx.violation({'kind': 'sine-modes-negated'}, {'first_j': j, 'n_m': [n, m], 'note': 'every odd-j mode with m != 0 equals minus R_n^m(rho) sin(|m| theta) at caller-supplied coordinates'}, case=None)
                continue
            if not ok:
                ctx.violation({'kind': 'mode-value', 'j': j if j <= 15 else 'high', 'n': n, 'normalize': normalize},
                              {'j': j, 'n_m': [n, m], 'max_abs_error': float(np.abs(np.abs(z) - np.abs(e)).max())}, case=None)
            if not normalize and np.abs(z[nodes <= 1]).max() > 1 + 1e-12:      # (the bound is a statement about the unit disk)
                ctx.violation({'kind': 'unnormalised-exceeds-1', 'n': n}, {'j': j, 'max': float(np.abs(z).max())}, case=None)
    if not (np.array_equal(rho, rho0) and np.array_equal(theta, theta0)):
        ctx.violation({'kind': 'caller-coordinates-modified'}, {}, case=None)
    # coordinates are array_like: nested lists, single precision, integer grids (rho in {0, 1}) are the same coordinates;
    # one coordinate alone is refused, not silently replaced; the piston mode is a fresh array, not the caller's mask
    lr, lt = [[0.0, 1.0, 1.0, 0.0]], [[0.0, np.pi / 4, np.pi / 2, np.pi]]          # one row: a python list times an int would tile it
    for j in (2, 3, 4, 5, 6, 11):
        ref = np.asarray(lentil.zernike(np.ones((1, 4)), j, normalize=False, rho=np.array(lr), theta=np.array(lt)), dtype=float)
        for form, rr_, tt_ in (('list-theta', np.array(lr), lt), ('list-both', lr, lt), ('float32', np.array(lr, dtype=np.float32), np.array(lt, dtype=np.float32)),
                               ('uint8-rho', np.array(lr, dtype=np.uint8), np.array(lt)), ('int-rho', np.array(lr, dtype=int), np.array(lt))):
            ctx.case(('coordinate-form', j, form))
            try:
                z_ = np.asarray(lentil.zernike(np.ones((1, 4)), j, normalize=False, rho=rr_, theta=tt_), dtype=float)
                ok = z_.shape == ref.shape and np.allclose(z_, ref, rtol=0, atol=1e-6)
            except Exception:
                ok = True             # (an explicit refusal of a container type is not a wrong value)
            if not ok:
                ctx.violation({'kind': 'coordinate-form', 'form': form}, {'j': j, 'expected': ref, 'observed': z_}, case=None)
                break
    mk_ = np.zeros((5, 5), dtype=bool)
    mk_[1:4, 1:5] = True
    try:
        only_theta = lentil.zernike(mk_, 2, theta=lentil.zernike_coordinates(mk_, rotate=40.0)[1])
        if np.allclose(only_theta, lentil.zernike(mk_, 2), rtol=0, atol=1e-12):
            ctx.violation({'kind': 'theta-without-rho-ignored'}, {'note': 'the supplied theta is silently replaced by the default one (rho alone is refused)'}, case=None)
    except ValueError:
        pass
    keep_ = mk_.copy()
    z1_ = lentil.zernike(mk_, 1)
    if z1_ is mk_ or np.shares_memory(z1_, mk_):
        ctx.violation({'kind': 'piston-aliases-the-mask'}, {'dtype': str(np.asarray(z1_).dtype)}, case=None)
    if not np.array_equal(mk_, keep_) or not np.allclose(np.asarray(z1_, dtype=float), keep_.astype(float)):
        ctx.violation({'kind': 'mode-value', 'j': 1, 'n': 0, 'normalize': True}, {'note': 'piston is not the indicator of the mask'}, case=None)
    # ---- 2b. high orders (numeric leaf: the exact value comes from Python rationals, TLC's 32-bit integers stop near n = 12) ------------
    # the radial polynomial is 1 at rho = 1 and bounded by 1 for EVERY order; an alternating power series loses this near n = 40
    from fractions import Fraction as Fr

    def radial_exact(n, m, x):
        m = abs(m)
        return float(sum(Fr((-1) ** k * math.factorial(n - k), math.factorial(k) * math.factorial((n + m) // 2 - k) * math.factorial((n - m) // 2 - k)) * Fr(x) ** (n - 2 * k)
                         for k in range((n - m) // 2 + 1)))
    xs = [Fr(1, 3), Fr(9, 10), Fr(99, 100), Fr(1)]
    rho_h = np.array([[float(x) for x in xs]])
    for n_h in (20, 30, 40, 50, 60):
        j_h = n_h * (n_h + 1) // 2 + 1                      # Noll index of the m = 0 mode of even order n
        nn, mm = zmod.zernike_index(j_h)[::-1]
        ctx.case(('high-order', n_h))
        if (int(nn), int(mm)) != (n_h, 0):
            ctx.violation({'kind': 'noll-index', 'j': 'high'}, {'j': j_h, 'expected_n_m': [n_h, 0], 'observed_n_m': [int(nn), int(mm)]}, case=None)
            continue
        zh = np.asarray(lentil.zernike(np.ones((1, 4)), j_h, normalize=False, rho=rho_h, theta=np.zeros((1, 4))), dtype=float)[0]
        eh = np.array([radial_exact(n_h, 0, x) for x in xs])
        if not np.allclose(zh, eh, rtol=0, atol=1e-9) or abs(zh[-1] - 1) > 1e-9 or np.abs(zh).max() > 1 + 1e-9:
            ctx.violation({'kind': 'high-order-radial-polynomial', 'n': n_h},
                          {'j': j_h, 'rho': [float(x) for x in xs], 'expected': eh, 'observed': zh}, case=None)
    # ---- 2c. zero OUTSIDE the mask means zero: a small aperture in a large array puts the far samples at rho of several hundred, where
    # rho**n overflows for orders in the eighties and beyond; and coordinates supplied by the caller may be undefined (NaN) where there
    # is no aperture.  Neither may leak NaN / inf into the samples outside the mask
    import warnings as _w
    small = np.zeros((512, 512))
    small[255:258, 256] = small[256, 255:258] = 1
    for j_big in ((5887, 6000) if q else (5887, 6000, 7000, 9000)):
        ctx.case(('outside-the-mask', j_big))
        with _w.catch_warnings():
            _w.simplefilter('ignore')
            zb = np.asarray(lentil.zernike(small, j_big, normalize=bool(j_big % 2)), dtype=float)
        nbad = int((~np.isfinite(zb)).sum() + (zb[small == 0] != 0).sum())
        if nbad or not np.all(np.isfinite(zb[small != 0])):
            ctx.violation({'kind': 'not-zero-outside-the-mask', 'coordinates': 'default', 'order': 'high'},
                          {'j': j_big, 'mask': '5-sample plus in 512x512', 'samples_outside_not_zero_or_not_finite': nbad}, case=None)
    mk_n = np.zeros((6, 7))
    mk_n[1:5, 2:6] = 1
    rho_n, th_n = lentil.zernike_coordinates(mk_n)
    rho_n, th_n = np.where(mk_n != 0, rho_n, np.nan), np.where(mk_n != 0, th_n, np.nan)
    for j_n in (2, 3, 4, 7, 11):
        ctx.case(('outside-the-mask-nan-coordinates', j_n))
        with _w.catch_warnings():
            _w.simplefilter('ignore')
            zn = np.asarray(lentil.zernike(mk_n, j_n, rho=rho_n, theta=th_n), dtype=float)
            zr = np.asarray(lentil.zernike(mk_n, j_n), dtype=float)
        if not (np.all(zn[mk_n == 0] == 0) and np.allclose(zn[mk_n != 0], zr[mk_n != 0], rtol=1e-12, atol=1e-12)):
            ctx.violation({'kind': 'not-zero-outside-the-mask', 'coordinates': 'undefined-outside-the-mask', 'order': 'low'},
                          {'j': j_n, 'outside': zn[mk_n == 0][:6]}, case=None)
    # ---- 2d. the coordinates handed out belong to the caller: turning them (theta += angle, to build a rotated basis) does not change
    # what a later request for the default frame of an equal mask returns, nor the default-coordinate modes
    mk_c = np.zeros((7, 8))
    mk_c[1:6, 2:7] = 1
    mk_c[1, 2] = 0
    z_before = [np.array(lentil.zernike(mk_c, j_), dtype=float) for j_ in (2, 3, 5)]
    rho_c, th_c = lentil.zernike_coordinates(mk_c)
    keep_c = (np.array(rho_c, copy=True), np.array(th_c, copy=True))
    ctx.case(('coordinates-belong-to-the-caller',))
    try:
        th_c += 0.5
        rho_c *= 2.0
        writable = True
    except ValueError:
        writable = False                                   # (read-only results are a way of keeping them safe as well)
    rho_d, th_d = lentil.zernike_coordinates(mk_c.copy())
    z_after = [np.array(lentil.zernike(mk_c.copy(), j_), dtype=float) for j_ in (2, 3, 5)]
    if not (np.allclose(rho_d, keep_c[0], rtol=1e-13, atol=1e-13) and np.allclose(th_d, keep_c[1], rtol=1e-13, atol=1e-13)
            and all(np.allclose(a_, b_, rtol=1e-12, atol=1e-12) for a_, b_ in zip(z_before, z_after))):
        ctx.violation({'kind': 'default-coordinates-depend-on-what-the-caller-did-with-earlier-ones'}, {'writable': writable}, case=None)
    # ---- 2e. coordinates supplied in single or half precision are the same coordinates (values exactly representable): the mode is
    # evaluated in double precision
    rq = np.array([[0.25, 0.5, 0.75, 1.0], [0.125, 0.375, 0.625, 0.875]])
    tq = np.array([[0.0, 0.5, 1.0, 1.5], [2.0, 2.5, 3.0, -1.0]])
    for j_ in (2, 3, 4, 7, 8, 11, 22, 37):
        ref_ = np.asarray(lentil.zernike(np.ones(rq.shape), j_, rho=rq, theta=tq), dtype=float)
        for cdt in (np.float32, np.float16):
            ctx.case(('coordinate-dtype', j_, np.dtype(cdt).name))
            got_ = np.asarray(lentil.zernike(np.ones(rq.shape), j_, rho=rq.astype(cdt), theta=tq.astype(cdt)), dtype=float)
            if not np.allclose(got_, ref_, rtol=1e-12, atol=1e-12):
                ctx.violation({'kind': 'mode-depends-on-the-float-type-of-the-coordinates', 'dtype': np.dtype(cdt).name},
                              {'j': j_, 'max_abs_difference': float(np.abs(got_ - ref_).max())}, case=None)
    # ---- 3. orthonormality over the unit disk by exact quadrature (numeric leaf) -----------------------------------------------
    gl_x, gl_w = np.polynomial.legendre.leggauss(20)
    r_nodes = 0.5 * (gl_x + 1)
    r_w = 0.5 * gl_w
    T = 64
    tt = 2 * np.pi * np.arange(T) / T
    RR, TT = np.meshgrid(r_nodes, tt, indexing='ij')
    W = (r_w * r_nodes)[:, None] * np.full((1, T), 2 * np.pi / T) / np.pi
    JO = 36
    Z = np.array([lentil.zernike(np.ones(RR.shape), j, normalize=True, rho=RR, theta=TT) for j in range(1, JO + 1)])
    G = np.einsum('iab,jab,ab->ij', Z, Z, W)
    err = np.abs(G - np.eye(JO))
    if err.max() > 1e-9:
        i, j = np.unravel_index(np.argmax(err), err.shape)
        ctx.violation({'kind': 'orthonormality'}, {'modes': [int(i) + 1, int(j) + 1], 'inner_product': float(G[i, j])}, case=None)
    # the azimuth convention (which axis is zero, which way it turns) is the library's own - read once from a reference mask in
    # a clean state - but it is ONE convention: every mask, at any position, after any history of calls, uses it
    def azimuths(mk):
        rr_, cc_ = np.nonzero(mk)
        dy, dx = np.indices(mk.shape)[0] - rr_.mean(), np.indices(mk.shape)[1] - cc_.mean()
        return [np.arctan2(sb * b, sa * a) for (a, b) in ((dx, dy), (dy, dx)) for sa in (1, -1) for sb in (1, -1)]

    def same_angle(a, b, sel):
        d = np.angle(np.exp(1j * (a - b)))
        return np.all(np.abs(d[sel]) < 1e-9)
    refmask = np.zeros((5, 6), dtype=int)
    refmask[1:4, 1:3] = 1
    refmask[3, 3] = refmask[0, 1] = 1
    rho_r, th_r = lentil.zernike_coordinates(refmask)
    selr = (refmask != 0) & (rho_r > 1e-9)
    conv = [k for k, cand in enumerate(azimuths(refmask)) if same_angle(th_r, cand, selr)]
    if len(conv) != 1:
        ctx.violation({'kind': 'azimuth-is-not-an-angle-about-the-centroid'}, {'mask': refmask.tolist(), 'theta': th_r}, case=None)
        conv = [None]
    # ---- 4. default coordinates ----------------------------------------------------------------------------------------------------
    for c in cases[2:]:
        e = exp[c['id']]
        mask = np.array(c['mask'])
        ers = np.array([[float(sp.rf(x)) for x in row] for row in e['rhosq']])
        par = (mask.shape[0] % 2, mask.shape[1] % 2)
        ctx.case(('coords', str(c['mask'])), nontrivial=mask.sum() > 1)
        try:
            if c['id'] % 2:
                # the default frame does not depend on other frames having been asked for before (rotated, shifted)
                lentil.zernike_coordinates(mask, rotate=35.0)
                lentil.zernike_coordinates(mask, shift=(0.5, -1.0))
            rho_o, th_o = lentil.zernike_coordinates(mask)
        except Exception as ex:
            ctx.violation({'kind': 'coordinates-' + type(ex).__name__, 'parity': par}, {'mask': c['mask']}, case=None)
            continue
        if mask.sum() == 1:
            continue                       # a single sample: rho = 0/0, the statement is empty
        if not np.allclose(rho_o ** 2, ers, rtol=0, atol=1e-9 * (1 + ers.max())):
            ctx.violation({'kind': 'default-origin-or-scale', 'array_parity': par},
                          {'mask': c['mask'], 'expected_rho_sq': ers, 'observed_rho_sq': rho_o ** 2,
                           'expected_centroid': [float(sp.rf(x)) for x in e['centroid']]}, case=None)
            continue
        if conv[0] is not None:
            sel = (mask != 0) & (rho_o > 1e-9)
            if sel.any() and not same_angle(th_o, azimuths(mask)[conv[0]], sel):
                ctx.violation({'kind': 'default-azimuth-frame', 'array_parity': par}, {'mask': c['mask'], 'after_rotated_request': bool(c['id'] % 2)}, case=None)
                continue
        # a mode asked for WITHOUT coordinates is the mode on the default frame of THIS mask (just validated against TLC), whatever
        # masks of the same shape / the same number of samples were evaluated earlier in the process
        for j in (2, 3, 4, 7):
            zd = lentil.zernike(mask, j)
            ze = lentil.zernike(mask, j, rho=rho_o, theta=th_o)
            if not np.allclose(zd, ze, rtol=0, atol=1e-12):
                ctx.violation({'kind': 'default-mode-is-not-the-mode-on-the-default-frame', 'array_parity': par},
                              {'mask': c['mask'], 'j': j, 'max_abs_diff': float(np.abs(zd - ze).max())}, case=None)
                break
        # the same mask held in another memory layout (Fortran order, a transposed view) is the same mask
        for lay, mk in (('fortran',np.asfortranarray(mask)), ('transposed-view', np.ascontiguousarray(mask.T).T)):
            r2, t2 = lentil.zernike_coordinates(mk)
            if not (np.allclose(r2, rho_o, rtol=0, atol=1e-12) and np.allclose(t2, th_o, rtol=0, atol=1e-12)):
                ctx.violation({'kind': 'depends-on-memory-layout', 'layout': lay, 'array_parity': par}, {'mask': c['mask']}, case=None)
                break
        # index mapping through the multi-mode entry point: plane i of the basis is the mode of the i-th requested index
        req = [4, 2, 7, 3, 2]
        bb = lentil.zernike_basis(mask, req)
        if bb.shape[0] != len(req) or any(not np.allclose(bb[i], lentil.zernike(mask, req[i]), rtol=0, atol=1e-12) for i in range(min(len(req), bb.shape[0]))):
            ctx.violation({'kind': 'basis-order'}, {'mask': c['mask'], 'requested': req, 'planes': int(bb.shape[0])}, case=None)
        if abs((rho_o * (mask != 0)).max() - 1) > 1e-12:
            ctx.violation({'kind': 'rho-not-1-at-edge', 'array_parity': par}, {'mask': c['mask']}, case=None)
        # zero outside the mask; dependence on the support only
        for j in (2, 3, 4, 7):
            z1 = lentil.zernike(mask, j)
            if np.any(z1[mask == 0] != 0):
                ctx.violation({'kind': 'nonzero-outside-mask'}, {'mask': c['mask'], 'j': j}, case=None)
            wts = np.random.default_rng(j + c['id']).uniform(0.2, 3.0, size=mask.shape)
            for variant in (mask * 5, mask.astype(bool), mask.astype(float) * 0.25, mask * wts):
                if not np.allclose(lentil.zernike(variant, j), z1, rtol=0, atol=1e-12):
                    ctx.violation({'kind': 'depends-on-mask-values', 'via': 'zernike'}, {'mask': c['mask'], 'j': j}, case=None)
                    break
            # ... also through the functions that build several modes at once
            b1 = lentil.zernike_basis(mask, [j, 2, 5])
            cz1 = lentil.zernike_compose(mask, [0.5, -1.0, 0.25, 2.0])
            for variant in (mask * wts, mask.astype(float) * 0.25):
                if not np.allclose(lentil.zernike_basis(variant, [j, 2, 5]), b1, rtol=0, atol=1e-12) or \
                        not np.allclose(lentil.zernike_compose(variant, [0.5, -1.0, 0.25, 2.0]), cz1, rtol=0, atol=1e-12):
                    ctx.violation({'kind': 'depends-on-mask-values', 'via': 'basis/compose'}, {'mask': c['mask'], 'j': j}, case=None)
                    break
    ctx.traces += len(cases) + 2 * JMAX
    ctx.extra.update({'noll_indices_compared': JMAX, 'masks_for_default_coordinates': len(masks), 'orthonormality_modes': JO,
                      'open_conventions_not_checked': ['global sign of sine modes'], 'azimuth_convention': 'read from a reference mask, then required of every mask and history'})
    ctx.sample({'noll_table_head_from_TLC': table[:10]}, maxn=1)
    ctx.sample({'coords_case': cases[2], 'expected_by_TLC': exp[2]}, maxn=2)
    ctx.rule = ('all Noll indices up to 66 [91]; every mode on a 8-node (seven in [0, 1] and 3/2) x 16-angle grid in both normalisations; every non-empty mask within '
                '3x3 [sampled in quick] plus seeded blobs on arrays 2..9 x 2..8; distinct by (index | mode, flag | mask)')
    ctx.assumptions += ['azimuthal factors cos/sin and sqrt of the normalisation constant are evaluated in float64 from the integers TLC emits',
                        'orthonormality of the implementation is a numeric leaf (Gauss-Legendre x uniform-angle quadrature, exact for these degrees)']


def replay(ctx, rec):
    print('C11 is deterministic apart from the seeded masks: re-run ./check C11')
