"""C20 finding 2: helper.slice_offset crashes on the whole-array slice (Ellipsis, slice(None)).

slice_offset documents that entries may be ``slice`` objects or ``Ellipsis`` and has a
branch whose comment says "(Ellipsis, slice(None, None, None))" is handled and has
offset (0, 0).  The parameter is called ``slice`` and shadows the builtin, so the
expression ``slice(None, None, None) in slice`` calls the tuple -> TypeError.
"""
import os, sys
sys.path.insert(0, os.environ.get('LENTIL_REPO', '.'))
import numpy as np
import lentil
from lentil import helper

a = np.arange(20.).reshape(4, 5)
s = np.s_[..., :]                 # selects the whole array: a[s] is a
assert a[s].shape == a.shape
# reference: the same selection written with explicit bounds has offset (0, 0)
ref = helper.slice_offset((slice(0, 4), slice(0, 5)), a.shape)
assert tuple(ref) == (0, 0)
assert tuple(helper.slice_offset(Ellipsis, a.shape)) == (0, 0)

try:
    off = helper.slice_offset(s, a.shape)
except TypeError as e:
    print(f'VIOLATION: slice_offset({s!r}, {a.shape}) raised TypeError: {e}\n'
          'expected the offset (0, 0) of the whole-array slice '
          '(the builtin `slice` is shadowed by the parameter of the same name)')
    sys.exit(1)
if tuple(off) != (0, 0):
    print('VIOLATION: wrong offset', off)
    sys.exit(1)
sys.exit(0)
