"""C16 finding 1: a one-sample QE Spectrum whose wavelength or value array is not
float64/int64 gives NaN charge, while the scalar / vector / float64-Spectrum forms of the
same efficiency give photons*qe."""
import os, sys
sys.path.insert(0, os.environ['LENTIL_REPO'])
import numpy as np
import lentil
from lentil.radiometry import Spectrum

photons = np.arange(1., 7.).reshape(1, 2, 3)      # one wavelength slice
wave = [633]
expected = photons[0] * 0.8

fail = []
cases = {
    'scalar qe':                         0.8,
    'vector qe':                         [0.8],
    'Spectrum float64/float64':          Spectrum(np.array([633.]), np.array([0.8])),
    'Spectrum value float32':            Spectrum(np.array([633.]), np.array([0.8], dtype=np.float32)),
    'Spectrum wave int32':               Spectrum(np.array([633], dtype=np.int32), np.array([0.8])),
    'Spectrum wave float32':             Spectrum(np.array([633], dtype=np.float32), np.array([0.8])),
}
for name, qe in cases.items():
    with np.errstate(all='ignore'):
        out = lentil.detector.collect_charge(photons, wave, qe)
    ok = np.allclose(out, expected, rtol=1e-6, atol=0)   # 1e-6: float32(0.8) != 0.8
    print(f'{name:28s} -> {out.ravel()}  {"ok" if ok else "WRONG"}')
    if not ok:
        fail.append(name)

# the colour-filter-array function goes through the same code
q32 = Spectrum(np.array([633.]), np.array([0.8], dtype=np.float32))
with np.errstate(all='ignore'):
    out = lentil.detector.collect_charge_bayer(np.ones((1, 2, 2)), wave, q32, q32, q32, 'RGGB')
if not np.allclose(out, 0.8, rtol=1e-6):
    print('collect_charge_bayer with the float32 one-sample Spectrum ->', out.ravel(), 'WRONG')
    fail.append('bayer')

if fail:
    print('VIOLATION: the charge is NaN for', fail,
          '- the same efficiency given as a scalar, a vector or a float64 Spectrum gives photons*0.8')
    sys.exit(1)
sys.exit(0)
