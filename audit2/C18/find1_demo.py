"""C18 finding 1: dark_current fixed-pattern noise multiplies the dark rate by ~e (2.72)
instead of a factor of mean 1.0, so a dark frame *with* pattern noise does not have the
requested rate as its mean, and the frame does not converge to floor(rate) as
fpn_factor -> 0."""
import os, sys
sys.path.insert(0, os.environ.get('LENTIL_REPO', '.'))
import numpy as np
import lentil
from lentil.detector import dark_current, rule07_dark_current

print('lentil from', lentil.__file__)
fail = False
rate = 100
shape = (400, 300)          # not square

nofpn = dark_current(rate, shape)                       # documented: floor(rate)
assert np.all(nofpn == np.floor(rate))

for fpn_factor in (1e-9, 0.01, 0.1, 0.2, 0.4):
    ratios = []
    for seed in (0, 1, 12345):
        d = dark_current(rate, shape, fpn_factor=fpn_factor, seed=seed)
        # reproducibility (holds)
        assert np.array_equal(d, dark_current(rate, shape, fpn_factor=fpn_factor, seed=seed))
        ratios.append(d.mean() / rate)
    rel_std = d.std() / d.mean()
    # a log-normal factor "with mean = 1.0 and sigma = fpn_factor" (docstring) has a mean
    # within exp(+-sigma^2/2) of 1 whichever convention is meant (mean 1 or median 1);
    # allow that plus 1 count of flooring plus 6 standard errors.
    tol = (np.exp(fpn_factor**2 / 2) - 1) + 1.0 / rate + 6 * max(fpn_factor, 1e-3) / np.sqrt(d.size)
    bad = any(abs(r - 1) > tol for r in ratios)
    print('fpn_factor=%-6g mean(dark)/rate for 3 seeds = %s  relative std = %.3f  tolerance on |ratio-1| = %.3f  %s'
          % (fpn_factor, np.round(ratios, 4), rel_std, tol, 'VIOLATION' if bad else 'ok'))
    fail |= bad

# same through the Rule 07 wrapper
r0 = rule07_dark_current(110, 5e-6, 18e-6, shape=shape)
r1 = rule07_dark_current(110, 5e-6, 18e-6, shape=shape, fpn_factor=0.1, seed=3)
print('rule07: mean without FPN %.1f, with fpn_factor=0.1 %.1f (ratio %.3f)' % (r0.mean(), r1.mean(), r1.mean()/r0.mean()))
fail |= abs(r1.mean() / r0.mean() - 1) > 0.05

if fail:
    print('\nFAIL: with fixed-pattern noise the dark frame is ~e = 2.718 times the requested rate '
          '(numpy lognormal(mean=1.0, ...) sets the mean of log(FPN) to 1, not the mean of FPN); '
          'the limit fpn_factor -> 0+ gives floor(e*rate) = %d, not floor(rate) = %d.'
          % (np.floor(np.e * rate), rate))
    sys.exit(1)
print('no violation observed')
sys.exit(0)
