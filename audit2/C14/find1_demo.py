"""C14 finding 1: the speed of light used by lentil.radiometry is 299792456 m/s.

The SI-defined (exact) value is 299 792 458 m/s.  Every photon<->energy flux
conversion (photlam <-> wlam / flam), both Planck functions and vegaflux use the
module constant C, so all of them are off by a systematic 6.7e-9 (hc/lambda) or
1.3e-8 (Stefan-Boltzmann total, ~ 1/c^2) relative - four orders of magnitude
above floating-point rounding.
"""
import os, sys
sys.path.insert(0, os.environ.get('LENTIL_REPO', '.'))
import numpy as np
from scipy import integrate
import lentil
from lentil import radiometry as r

C_SI = 299792458            # exact by definition of the metre
H, K = r.H, r.K             # take the library's own h and k: only c is questioned
bad = []

print('lentil from', lentil.__file__)
print('radiometry.C =', r.C, ' SI definition =', C_SI)
if r.C != C_SI:
    bad.append('module constant C = %r is not the defined speed of light %r' % (r.C, C_SI))

# 1. energy of the photons in a photlam -> wlam conversion (1 photon s^-1 m^-2 nm^-1 at 500 nm)
s = r.Spectrum([500., 501.], [1., 1.], 'nm', 'photlam')
s.to('wlam')
expect = H*C_SI/500e-9                      # J per photon -> W m^-2 nm^-1
rel = s.value[0]/expect - 1
print('photlam->wlam at 500 nm: lentil %.15e  h*c/lambda %.15e  rel.dev %.3e' % (s.value[0], expect, rel))
if abs(rel) > 1e-10:
    bad.append('Spectrum.to("wlam"): photon energy deviates from h*c/lambda by %.2e relative' % rel)

# 2. Stefan-Boltzmann total of planck_exitance (W m^-2 m^-1, integrated over metres)
T = 5000.
def M(w):
    with np.errstate(all='ignore'):
        return float(r.planck_exitance(w, T, 'm', 'wlam'))
tot, err = integrate.quad(M, 1e-8, 1e-2, points=[3e-7, 6e-7, 1e-6, 3e-6, 1e-5, 1e-4],
                          epsabs=0, epsrel=1e-13, limit=500)
sigma_si = 2*np.pi**5*K**4/(15*H**3*C_SI**2)
sigma_lib = 2*np.pi**5*K**4/(15*H**3*r.C**2)
print('integral of planck_exitance(5000 K) = %.12e  (quad err est %.1e)' % (tot, err))
print('  relative to sigma*T^4 with c = 299792458 : %.3e' % (tot/(sigma_si*T**4) - 1))
print('  relative to sigma*T^4 with c = module C  : %.3e' % (tot/(sigma_lib*T**4) - 1))
if abs(tot/(sigma_si*T**4) - 1) > 1e-10:
    bad.append('planck_exitance integrates to %.2e relative above the Stefan-Boltzmann total '
               '(the deviation vanishes when sigma is evaluated with the module constant C, so c is the only cause)'
               % (tot/(sigma_si*T**4) - 1))

# 3. Vega zero point: 3636 Jy at 545 nm expressed in W m^-2 m^-1 is F_nu*c/lambda^2
f, w = r.vegaflux('V', 'm', 'wlam')
expect = 3636e-26*C_SI/(545e-9)**2
print('vegaflux V in wlam: rel.dev %.3e' % (f/expect - 1))
if abs(f/expect - 1) > 1e-10:
    bad.append('vegaflux("V", "m", "wlam") deviates from F_nu*c/lambda^2 by %.2e relative' % (f/expect - 1))

if bad:
    print('\nVIOLATION (C14):')
    for b in bad:
        print(' -', b)
    sys.exit(1)
print('no violation observed')
sys.exit(0)
