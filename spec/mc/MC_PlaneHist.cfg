SPECIFICATION Spec
INVARIANT TypeOK
PROPERTY FitPreservesEffective
PROPERTY Independence
PROPERTY HeldFrozen
CONSTRAINT Emit
