"""centroid and rebin sum in the dtype of the input: for float16 arrays the sum
overflows (> 65504) and centroid silently returns (0.0, 0.0); rebin returns inf.
"""
import os, sys, warnings
sys.path.insert(0, os.environ.get('LENTIL_REPO', '.'))
import numpy as np
import lentil

warnings.simplefilter('ignore')
fail = False

mask = lentil.circle((512, 400), 150, shift=(20, -30), antialias=False)   # 70 000 ones
ref = lentil.centroid(mask)
for dt in (np.float64, np.float32, np.uint8, bool, np.float16):
    c = lentil.centroid(mask.astype(dt))
    ok = abs(c[0] - ref[0]) < 1e-3 and abs(c[1] - ref[1]) < 1e-3
    print('centroid of the same mask as %-8s: (%.4f, %.4f)%s' % (np.dtype(dt).name, c[0], c[1],
          '' if ok else '   <-- VIOLATION (expected (%.1f, %.1f))' % ref))
    fail |= not ok

frame = np.full((8, 8), 5000.0)
for dt in (np.float64, np.float32, np.uint16, np.float16):
    r = lentil.rebin(frame.astype(dt), 4)
    ok = np.all(np.isfinite(r.astype(float))) and abs(float(r.astype(float).sum()) - frame.sum()) < 1
    print('rebin(8x8 frame of 5000 as %-8s, 4): result dtype %-8s sum %s (input sum %g)%s' % (
          np.dtype(dt).name, r.dtype, r.astype(float).sum(), frame.sum(), '' if ok else '   <-- VIOLATION'))
    fail |= not ok

sys.exit(1 if fail else 0)
