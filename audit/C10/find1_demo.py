"""
C10 finding 1: Plane keeps an alias of the caller's ``opd`` array (constructor
and ``opd`` setter use np.asarray) and ``fit_tilt(inplace=True)`` subtracts the
fitted tilt with an in-place ``-=`` on that array.  The documented in-place
effect is on the Plane the method is called on; what actually happens is that

  (a) the ndarray supplied by the caller is rewritten, and
  (b) every other Plane that was built from the same array silently loses its
      tilt (its ``opd`` changes, its ``tilt`` list stays empty), so the result of
      propagating that *unrelated* plane depends on the call history.

The behaviour is also inconsistent: the same call on a segmented plane, or on a
plane whose opd was supplied as a list, leaves the caller's data untouched.

exit code 1 + explanation when the violation is observed, 0 otherwise.
"""
import os
import sys

sys.path.insert(0, os.environ.get('LENTIL_REPO', '.'))

import numpy as np
import lentil

n = 32
amp = lentil.circle((n, n), 12, antialias=False)
rr, cc = lentil.helper.mesh((n, n))
# a plain tilt over the aperture (about 4 detector pixels of image motion)
opd = (6.25e-8 * rr + 3.0e-8 * cc) * amp
opd_snapshot = opd.copy()


def psf(plane):
    w = lentil.Wavefront(650e-9) * plane
    w = lentil.propagate_dft(w, pixelscale=5e-6, shape=(48, 48), oversample=2)
    return w.intensity


kw = dict(amplitude=amp, pixelscale=1 / n, focal_length=10)

p1 = lentil.Pupil(opd=opd, **kw)
p2 = lentil.Pupil(opd=opd, **kw)      # a second, independent plane on the same caller array

psf2_before = psf(p2)
p2_tilt_before = list(p2.tilt)

p1.fit_tilt(inplace=True)              # documented: modifies p1

psf2_after = psf(p2)

bad = []

# (a) the caller's array has been rewritten
if not np.array_equal(opd, opd_snapshot):
    bad.append(
        "caller's opd array was modified by p1.fit_tilt(inplace=True): "
        f"max |change| = {np.abs(opd - opd_snapshot).max():.3e} m "
        f"(array peak-to-valley was {np.ptp(opd_snapshot):.3e} m, now {np.ptp(opd):.3e} m)")

# (b) an unrelated plane changed its answer
if not np.allclose(psf2_before, psf2_after, rtol=1e-9, atol=1e-12 * psf2_before.max()):
    c0 = np.asarray(lentil.centroid(psf2_before))
    c1 = np.asarray(lentil.centroid(psf2_after))
    bad.append(
        "the PSF of p2 (never passed to any in-place call, p2.tilt == "
        f"{p2_tilt_before} before and {p2.tilt} after) changed: centroid moved from "
        f"({c0[0]:.2f}, {c0[1]:.2f}) to ({c1[0]:.2f}, {c1[1]:.2f}) oversampled pixels; "
        f"max |dPSF|/max PSF = {np.abs(psf2_before - psf2_after).max() / psf2_before.max():.3f}")

# (c) contrast: same call, caller data not touched when opd was given as a list
opd_list = opd_snapshot.tolist()
p3 = lentil.Pupil(opd=opd_list, **kw)
p3.fit_tilt(inplace=True)
list_untouched = np.array_equal(np.asarray(opd_list), opd_snapshot)

# (c') contrast: segmented plane (opd rebound instead of written through)
m0 = lentil.circle((n, n), 5, shift=(-7, -7), antialias=False)
m1 = lentil.circle((n, n), 5, shift=(7, 7), antialias=False)
seg_opd = (6.25e-8 * rr + 3.0e-8 * cc) * (m0 + m1)
seg_snapshot = seg_opd.copy()
ps = lentil.Pupil(amplitude=m0 + m1, mask=np.array([m0, m1]), opd=seg_opd,
                  pixelscale=1 / n, focal_length=10)
ps.fit_tilt(inplace=True)
seg_untouched = np.array_equal(seg_opd, seg_snapshot)

# (d) with the caller's array frozen the write is refused outright
frozen = opd_snapshot.copy()
frozen.setflags(write=False)
try:
    lentil.Pupil(opd=frozen, **kw).fit_tilt(inplace=True)
    frozen_msg = 'no exception'
except ValueError as e:
    frozen_msg = f'ValueError: {e}'

if bad:
    print('C10 VIOLATION (hidden mutation through an aliased opd array)')
    for b in bad:
        print(' -', b)
    print(' - contrast: opd supplied as a list is left untouched by the same call:', list_untouched)
    print(' - contrast: opd array of a segmented plane is left untouched by the same call:', seg_untouched)
    print(' - with a read-only caller array fit_tilt(inplace=True) gives:', frozen_msg)
    print('root cause: lentil/plane.py line 61 (self._opd = np.asarray(opd)), line 121 (opd setter, '
          'np.asarray) and line 298 (plane.opd -= opd_tilt...)')
    sys.exit(1)

print('no violation observed')
sys.exit(0)
