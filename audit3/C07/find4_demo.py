"""C07 finding 4 (low severity): a plane (or one segment of a plane) that transmits nothing
cannot be constructed when its amplitude/mask is sampled, although the scalar spelling of the
same plane works and gives the expected all-zero field.

exit code 1 (and an explanation) when the violation is observed, 0 otherwise.
"""
import os
import sys

sys.path.insert(0, os.environ.get('LENTIL_REPO', '.'))

import numpy as np
import lentil

wl = 1e-6
fail = False

# reference: the scalar spelling is accepted and multiplies the field by zero
w = lentil.Wavefront(wl) * lentil.Plane(amplitude=0)
assert w.field == 0 and w.intensity == 0

seg = np.zeros((3, 6, 6), dtype=int)
seg[0, 1:5, 0:3] = 1
seg[1, 1:5, 3:6] = 1            # seg[2] is a dead segment: transmits nothing

cases = {
    'Plane(amplitude=np.zeros((5,5)))':
        (lambda: lentil.Plane(amplitude=np.zeros((5, 5))), np.zeros((5, 5))),
    'Plane(amplitude=np.ones((5,5)), mask=np.zeros((5,5)))':
        (lambda: lentil.Plane(amplitude=np.ones((5, 5)), mask=np.zeros((5, 5))), np.zeros((5, 5))),
    'Plane(amplitude=np.ones((6,6)), mask=<3 segments, the third one empty>)':
        (lambda: lentil.Plane(amplitude=np.ones((6, 6)), mask=seg), (seg.sum(0) != 0).astype(float)),
}
for name, (make, expected) in cases.items():
    try:
        w = lentil.Wavefront(wl) * make()
        if not (np.allclose(w.field, expected) and np.allclose(w.intensity, expected**2)):
            fail = True
            print(f'{name}: wrong field')
    except Exception as e:
        fail = True
        print(f'{name}: {type(e).__name__}: {e}')

if fail:
    print('VIOLATION: outside its mask a plane must multiply the field by zero - also when the '
          'mask (or one segment of it) is empty; instead construction dies in lentil.boundary.')
    sys.exit(1)
print('no violation observed')
sys.exit(0)
