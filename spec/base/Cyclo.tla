------------------------------- MODULE Cyclo -------------------------------
(* Exact arithmetic in Z[zeta_N], zeta_N = exp(2 pi i / N).                                          *)
(*                                                                                                 *)
(* An element is a sequence a of N integers, standing for  SUM_k a[k+1] * zeta^k  (the redundant    *)
(* group-ring representation: addition is pointwise, multiplication by zeta^e is a cyclic shift,    *)
(* no reduction is ever needed to *evaluate* an element).  Two representations denote the same      *)
(* complex number iff their difference is a multiple of the cyclotomic polynomial Phi_N, which this  *)
(* module computes itself from x^N - 1 = PROD_{d | N} Phi_d (exact polynomial division), so nothing   *)
(* about Phi_N is trusted.                                                                           *)
(*                                                                                                 *)
(* TLC discipline: every function constructor is wrapped in TLCEval (TLC's function values are lazy  *)
(* and not memoised).                                                                                *)
EXTENDS Integers, Sequences, FiniteSets, TLC
CONSTANTS N, PhiN
ASSUME N \in Nat /\ N >= 1

M(e)         == e % N                                    \* exponent reduced to 0..N-1 (TLC's % is non-negative)
Zero         == TLCEval([k \in 1..N |-> 0])
Mono(c, e)   == TLCEval([k \in 1..N |-> IF k - 1 = M(e) THEN c ELSE 0])     \* c * zeta^e
One          == Mono(1, 0)
Add(a, b)    == TLCEval([k \in 1..N |-> a[k] + b[k]])
Sub(a, b)    == TLCEval([k \in 1..N |-> a[k] - b[k]])
Neg(a)       == TLCEval([k \in 1..N |-> -a[k]])
Scale(c, a)  == TLCEval([k \in 1..N |-> c * a[k]])
Rot(a, e)    == TLCEval([k \in 1..N |-> a[M(k - 1 - e) + 1]])               \* a * zeta^e
Conj(a)      == TLCEval([k \in 1..N |-> a[M(-(k - 1)) + 1]])                \* complex conjugate
\* add c * zeta^e into a   (one coefficient changes)
AddMono(a, c, e) == TLCEval([a EXCEPT ![M(e) + 1] = @ + c])

RECURSIVE SumTo(_, _, _)
SumTo(F(_), lo, hi) == IF lo > hi THEN 0 ELSE F(lo) + SumTo(F, lo + 1, hi)
Mul(a, b)    == TLCEval([k \in 1..N |-> SumTo(LAMBDA j : a[j] * b[M(k - j) + 1], 1, N)])
AbsSq(a)     == Mul(a, Conj(a))

-----------------------------------------------------------------------------
(* Cyclotomic polynomial and canonical forms.  Polynomials are sequences p with p[k+1] the            *)
(* coefficient of x^k.                                                                               *)

RECURSIVE DegFrom(_, _)
DegFrom(p, k) == IF k = 0 THEN -1 ELSE IF p[k] # 0 THEN k - 1 ELSE DegFrom(p, k - 1)
Deg(p) == DegFrom(p, Len(p))

\* remainder and quotient of p by a MONIC polynomial q (deg q = dq), p given with Len(p) coefficients
RECURSIVE DivStep(_, _, _, _, _)
DivStep(p, q, dq, k, quo) ==          \* eliminates the coefficient of x^k, k counts down to dq
    IF k < dq THEN <<p, quo>>
    ELSE LET c == p[k + 1]
             p2 == TLCEval([j \in 1..Len(p) |->
                        IF j - 1 >= k - dq /\ j - 1 <= k THEN p[j] - c * q[j - (k - dq)] ELSE p[j]])
             quo2 == TLCEval([quo EXCEPT ![k - dq + 1] = c])
         IN DivStep(p2, q, dq, k - 1, quo2)
PolyDivMod(p, q) == LET dq == Deg(q) IN
                    DivStep(p, q, dq, Len(p) - 1, TLCEval([j \in 1..Len(p) |-> 0]))
PolyRem(p, q)  == PolyDivMod(p, q)[1]
PolyQuo(p, q)  == PolyDivMod(p, q)[2]

Divisors(n) == {d \in 1..n : n % d = 0}
XnMinus1(n, len) == TLCEval([k \in 1..len |-> IF k = 1 THEN -1 ELSE IF k = n + 1 THEN 1 ELSE 0])

\* The cyclotomic polynomial Phi_N is SUPPLIED (constant PhiN, a sequence of N + 1 coefficients, computed by
\* harness/cyclo.py) and VERIFIED here, so it is not trusted:  a monic integer polynomial of degree phi(N) that
\* divides (x^N - 1)/(x^(N/p) - 1) for every prime p | N has only primitive N-th roots of unity as roots, all
\* simple, and phi(N) of them - it is Phi_N.
PhiDeg == Deg(PhiN)                     \* Euler's totient of N

Totient(n) == Cardinality({k \in 1..n : \A d \in 2..n : ~(k % d = 0 /\ n % d = 0)})
Primes(n)  == {p \in 2..n : n % p = 0 /\ \A d \in 2..(p - 1) : p % d # 0}
\* (x^N - 1)/(x^(N/p) - 1) = 1 + x^(N/p) + x^(2N/p) + ... + x^((p-1)N/p)
CycleSum(p) == TLCEval([k \in 1..(N + 1) |-> IF (k - 1) % (N \div p) = 0 /\ (k - 1) < N THEN 1 ELSE 0])
PhiOK == /\ Len(PhiN) = N + 1
         /\ PhiDeg = Totient(N)
         /\ PhiN[PhiDeg + 1] = 1
         /\ \A p \in Primes(N) : Deg(PolyRem(CycleSum(p), PhiN)) = -1
         /\ (N = 1 => PhiN = <<-1, 1>>)

\* canonical form: coefficients w.r.t. the basis zeta^0 .. zeta^(phi(N)-1)
Canon(a) == LET r == PolyRem(a, PhiN) IN TLCEval([k \in 1..PhiDeg |-> r[k]])
IsZero(a) == \A k \in 1..PhiDeg : Canon(a)[k] = 0
Eq(a, b)  == IsZero(Sub(a, b))
\* a is a rational integer c  (imaginary part zero and no irrational part)
IsInt(a, c) == Eq(a, Mono(c, 0))
=============================================================================
