"""C20 finding 2: the flattened antialiased hex_segments mask exceeds 1 where
three segments meet, for seg_gap in [0, ~0.38)."""
import os, sys
sys.path.insert(0, os.environ.get('LENTIL_REPO', '.'))
import numpy as np
import lentil

bad = []
for rings, radius, gap, rotate in [(2, 64, 0, False), (1, 10.3, 0, False), (1, 10.3, 0, True),
                                   (2, 64, 0.25, False), (3, 17.7, 0.1, True)]:
    flat = lentil.hex_segments(rings=rings, seg_radius=radius, seg_gap=gap, rotate=rotate,
                               antialias=True, flatten=True, drop=())
    cube = lentil.hex_segments(rings=rings, seg_radius=radius, seg_gap=gap, rotate=rotate,
                               antialias=True, flatten=False, drop=())
    assert cube.min() >= 0 and cube.max() <= 1          # each segment alone is fine
    # the non-antialiased segments of the same aperture do not overlap at these pixels
    hard = lentil.hex_segments(rings=rings, seg_radius=radius, seg_gap=gap, rotate=rotate,
                               antialias=False, flatten=False, drop=())
    over = flat > 1 + 1e-9
    n_generic = int(np.count_nonzero(over & (hard.sum(axis=0) <= 1)))
    print('rings=%d radius=%g gap=%g rotate=%s: max(flattened mask) = %.4f, %d pixels > 1 '
          '(%d of them where the binary masks do not overlap)'
          % (rings, radius, gap, rotate, flat.max(), np.count_nonzero(over), n_generic))
    if n_generic > 0:
        bad.append((rings, radius, gap, rotate, float(flat.max())))

if bad:
    print('VIOLATION: hex_segments(..., antialias=True, flatten=True) returns a mask with values '
          'outside [0, 1]:')
    for b in bad:
        print(' - rings=%d seg_radius=%g seg_gap=%g rotate=%s -> max %.4f' % b)
    sys.exit(1)
print('no violation observed')
sys.exit(0)
