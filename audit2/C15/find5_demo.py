"""C15 finding 5: Spectrum.append ignores the wavelength (and value) unit of the
appended spectrum: its samples are kept under the unit of the caller."""
import os, sys
sys.path.insert(0, os.environ.get('LENTIL_REPO', '.'))
import numpy as np
import lentil
from lentil.radiometry import Spectrum

print('lentil from', lentil.__file__)
fail = False

a = Spectrum([0.4, 0.5, 0.6], [1., 2., 3.], waveunit='um')       # 400, 500, 600 nm
b = Spectrum([700., 800., 900.], [4., 5., 6.], waveunit='nm')    # 0.7, 0.8, 0.9 um
a.append(b)
print('um.append(nm): wave =', a.wave, a.waveunit, ' value =', a.value)
# the sample that was at 700 nm is now labelled 700 um
if not np.allclose(a.wave, [0.4, 0.5, 0.6, 0.7, 0.8, 0.9]):
    fail = True
# consequence: value at 0.7 um (=700 nm) should be 4
print('value sampled at 0.7 um:', a.sample(0.7, waveunit='um'), ' expected 4')

# the other way round the (valid) append is refused
a = Spectrum([400., 500., 600.], [1., 2., 3.], waveunit='nm')
b = Spectrum([0.7, 0.8, 0.9], [4., 5., 6.], waveunit='um')
try:
    a.append(b)
    print('nm.append(um): wave =', a.wave)
except Exception as e:
    print('nm.append(um) raised', repr(e))

if fail:
    print('VIOLATION: the appended samples are not retained unaltered - their wavelengths '
          'are re-interpreted in the unit of the caller (700 nm became 700 um)')
    sys.exit(1)
sys.exit(0)
