SPECIFICATION Spec
INVARIANT Thm
CONSTRAINT Emit
