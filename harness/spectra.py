"""Python side of Spectrum.tla: exact rational <-> lentil.radiometry.Spectrum."""
from fractions import Fraction as Fr

import numpy as np

EXP = {'m': 0, 'um': -6, 'nm': -9, 'angstrom': -10}
UNIT_OF = {v: k for k, v in EXP.items()}


def rj(x):
    x = Fr(x)
    if abs(x.numerator) >= 2 ** 31 or x.denominator >= 2 ** 31:
        raise OverflowError(f'rational {x} does not fit the 32-bit integers of TLC')
    return [x.numerator, x.denominator]


def rf(j):
    return Fr(j[0], j[1])


def spec_json(unit, vu, wave, value):
    """wave, value: sequences of Fractions"""
    return {'e': EXP[unit], 'vu': vu or 'none', 'w': [rj(x) for x in wave], 'v': [rj(x) for x in value]}


def real_spectrum(lentil, sj):
    return lentil.radiometry.Spectrum(wave=np.array([float(rf(x)) for x in sj['w']]), value=np.array([float(rf(x)) for x in sj['v']]),
                                      waveunit=UNIT_OF[sj['e']], valueunit=None if sj['vu'] == 'none' else sj['vu'])


def exact(x, maxden=2 ** 20):
    """float -> exact Fraction; the data are chosen dyadic/decimal so that this is the true value.  Returns None when
    the float is not (within 1e-12 relative) a rational with a small denominator (off-lattice: reported, never hidden)."""
    f = Fr(float(x)).limit_denominator(maxden)
    if abs(float(f) - float(x)) > 1e-12 * max(1.0, abs(float(x))):
        return None
    return f


def observed_json(s):
    """state of a real Spectrum as exact rationals, or None if some sample is off the lattice"""
    w = [exact(x) for x in np.atleast_1d(s.wave)]
    v = [exact(x) for x in np.atleast_1d(s.value)]
    if any(x is None for x in w + v):
        return None
    try:
        return {'e': EXP[s.waveunit], 'vu': s.valueunit or 'none', 'w': [rj(x) for x in w], 'v': [rj(x) for x in v]}
    except OverflowError:
        return None


def state_digest(s):
    return (np.asarray(s.wave).tobytes(), np.asarray(s.value).tobytes(), s.waveunit, s.valueunit,
            str(np.asarray(s.wave).dtype), str(np.asarray(s.value).dtype))
