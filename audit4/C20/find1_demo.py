"""centroid() of a float16 frame whose sum is far below the float16 overflow
limit is off by up to ~0.1 sample, because the frame is normalised in half
precision (img/np.sum(img) stays float16) before the first moments are taken.

Exit code 1 when the violation is observed, 0 otherwise.
"""
import os
import sys

sys.path.insert(0, os.environ.get('LENTIL_REPO', '.'))

import numpy as np
import lentil

failures = []


def check(name, img16, expected):
    # img16 holds values that are exactly representable in float16, so the
    # float16 frame and its float64 copy are the SAME image
    assert np.array_equal(img16.astype(np.float64).astype(np.float16), img16)
    total = img16.sum(dtype=np.float64)
    assert total < 65504/1.5, 'the frame must stay clear of the float16 overflow'
    c16 = lentil.centroid(img16)
    c64 = lentil.centroid(img16.astype(np.float64))
    err16 = max(abs(c16[0] - expected[0]), abs(c16[1] - expected[1]))
    err64 = max(abs(c64[0] - expected[0]), abs(c64[1] - expected[1]))
    print(f'{name}: sum={total:.0f} expected={expected} '
          f'float16 -> {tuple(float(x) for x in c16)} (error {err16:.3g}), '
          f'float64 -> {tuple(float(x) for x in c64)} (error {err64:.3g})')
    if err16 > 1e-6 and err64 < 1e-9:
        failures.append((name, err16))


# 1. a binary disc drawn by the library itself, shifted by whole samples: by
#    symmetry its centroid is exactly the origin sample n//2 plus the shift
n = 200
shift = (10, -15)
disc = lentil.circle((n, n), 60.3, shift=shift, antialias=False).astype(np.float16)
check('binary disc 200x200', disc, (n//2 + shift[0], n//2 + shift[1]))

# 2. a uniform frame: centroid is (n-1)/2 on each axis
flat = np.ones((200, 200), dtype=np.float16)
check('uniform 200x200', flat, (99.5, 99.5))

# 3. a non-square binary rectangle, odd by even
rect = lentil.rectangle((151, 120), 60, 90, shift=(7, 3), antialias=False).astype(np.float16)
check('binary rectangle 151x120', rect, (151//2 + 7, 120//2 + 3))

if failures:
    print()
    print('VIOLATION: lentil.centroid is not consistent with the centre convention for '
          'float16 frames (no overflow involved): the same image gives the exact answer '
          'as float64 and an answer wrong by up to %.3g samples as float16.' % max(e for _, e in failures))
    sys.exit(1)

print('no violation observed')
sys.exit(0)
