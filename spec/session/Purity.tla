------------------------------- MODULE Purity -------------------------------
(* Calls are pure (property C10): frame conditions, history independence, random-state isolation.   *)
(*                                                                                                 *)
(* A SESSION is a sequence of public API calls on a pool of caller-owned objects (arrays, planes,   *)
(* wavefronts, spectra).  The specification knows, from the documentation, which arguments of which  *)
(* callable are documented in-place targets (ApiTable) and of which kind the callable is:            *)
(*   "det"      result is a function of the contents of the arguments                                 *)
(*   "seeded"   the same, the seed being one of the arguments; must not touch the global generator     *)
(*   "unseeded" documented to draw from numpy's global generator (excluded from Memo and RngIsolation) *)
(* The trace specification below consumes events recorded at the return of every call (also the      *)
(* exceptional return) and judges each event against                                                  *)
(*   Frame         objects that are not documented targets have the same content digest before/after  *)
(*   Memo          a call whose key (callable, parameters, content digests of the arguments) was seen   *)
(*                 before returns the same result digest (history variable memo)                        *)
(*                 - the trace is the union of two recordings of the same sessions, the second made by   *)
(*                 a fresh process in reverse session order, so memo ranges over HISTORIES of the library *)
(*   RngIsolation  det/seeded calls leave numpy's global generator state unchanged                      *)
(*   Continuity    nothing changes between calls (soundness of the recording itself)                    *)
(* Verdicts are total: a failing event is appended to `bad` with the clause name and checking goes on  *)
(* from the OBSERVED state.                                                                            *)
EXTENDS Naturals, Sequences, FiniteSets, TLC, Json, IOUtils

Trace == JsonDeserialize(IOEnv.TRACE_FILE)

\* documented in-place targets, as positions in the event's argument list (everything else: none)
T(pos, kind) == [targets |-> pos, kind |-> kind]
ApiTable == [
    fit_tilt_inplace     |-> T({1}, "det"),       \* Plane.fit_tilt(inplace=True): the plane
    wavefront_insert     |-> T({2}, "det"),       \* Wavefront.insert(out, weight): out
    dft2_out             |-> T({2}, "det"),       \* fourier.dft2(f, ..., out=out): out
    idft2_out            |-> T({2}, "det"),
    propagate_fft_scratch|-> T({2}, "det"),       \* propagate_fft(w, ..., scratch=s): s
    spectrum_to_inplace  |-> T({1}, "det"),       \* Spectrum editing methods with copy=False
    spectrum_resample_inplace |-> T({1}, "det"),
    spectrum_trim_inplace|-> T({1}, "det"),
    spectrum_crop_inplace|-> T({1}, "det"),
    spectrum_pad_inplace |-> T({1}, "det"),
    spectrum_append_inplace |-> T({1}, "det"),
    shot_noise           |-> T({}, "seeded"),
    read_noise           |-> T({}, "seeded"),
    dark_current         |-> T({}, "seeded"),
    rule07_dark_current  |-> T({}, "seeded"),
    power_spectrum       |-> T({}, "seeded"),
    caller_update        |-> T({1}, "unseeded"),  \* the caller itself changes / rebinds an object between calls
    caller_rebind        |-> T({1}, "unseeded"),
    cosmic_rays          |-> T({}, "unseeded"),
    smear_random_angle   |-> T({}, "unseeded")
]
Entry(f) == IF f \in DOMAIN ApiTable THEN ApiTable[f] ELSE T({}, "det")
TargetsOf(e) == {e.args[k] : k \in {p \in Entry(e.f).targets : p <= Len(e.args)}}

VARIABLES i,      \* number of events consumed
          live,   \* object id -> content digest after the last event (per session)
          memo,   \* history: call key -> result digest
          bad     \* verdicts: sequence of <<tid, seq, clause, detail>>
vars == <<i, live, memo, bad>>

Ids(r) == DOMAIN r

Clauses(e) ==
    LET ent == Entry(e.f)
        cont == {o \in Ids(e.pre) \cap Ids(live) : e.pre[o] # live[o]}
        frame == {o \in Ids(e.pre) \cap Ids(e.post) : e.pre[o] # e.post[o] /\ o \notin TargetsOf(e)}
    IN  (IF e.seq > 1 /\ cont # {} THEN {<<"Continuity", cont>>} ELSE {})
        \cup (IF frame # {} THEN {<<"Frame", frame>>} ELSE {})
        \cup (IF ent.kind # "unseeded" /\ e.key \in DOMAIN memo /\ memo[e.key] # e.res THEN {<<"Memo", {e.key}>>} ELSE {})
        \cup (IF ent.kind # "unseeded" /\ e.rng[1] # e.rng[2] THEN {<<"RngIsolation", {}>>} ELSE {})

RECURSIVE SetToSeq(_)
SetToSeq(S) == IF S = {} THEN <<>> ELSE LET x == CHOOSE y \in S : TRUE IN <<x>> \o SetToSeq(S \ {x})

Init == i = 0 /\ live = [o \in {} |-> ""] /\ memo = [k \in {} |-> ""] /\ bad = <<>>

Next == /\ i < Len(Trace)
        /\ i' = i + 1
        /\ LET e == Trace[i + 1]
               cl == Clauses(e) IN
           /\ bad' = bad \o [k \in 1..Cardinality(cl) |-> <<e.tid, e.seq, e.f, SetToSeq(cl)[k][1], SetToSeq(cl)[k][2]>>]
           /\ live' = e.post                                     \* continue from the observed state
           /\ memo' = IF Entry(e.f).kind # "unseeded" /\ e.key \notin DOMAIN memo
                      THEN [k \in DOMAIN memo \cup {e.key} |-> IF k = e.key THEN e.res ELSE memo[k]]
                      ELSE memo
Spec == Init /\ [][Next]_vars

\* every event is consumed; the verdict list is reported when the trace is exhausted
Report == (i = Len(Trace)) => PrintT(<<"EMIT", ToJson([n |-> i, memo |-> Cardinality(DOMAIN memo), bad |-> bad])>>)
Consumed == TLCGet("stats").diameter = Len(Trace) + 1
=============================================================================
