------------------------------ MODULE Detector ------------------------------
(* Detector chain of lentil.detector as exact arithmetic (property C16).                             *)
(* Photon cubes are integer, efficiencies and gains dyadic rationals (Rat), so every quantity the      *)
(* implementation computes in floating point is exactly representable and the comparison is exact.     *)
EXTENDS Spectrum

Mat(m, n, F(_, _)) == TLCEval([i \in 1..m |-> TLCEval([j \in 1..n |-> F(i, j)])])
Rows(a) == Len(a)
Cols(a) == Len(a[1])

\* charge at pixel (i, j): sum over wavelength slices of photons times quantum efficiency
ChargeAt(ph, qe, i, j) == LET RECURSIVE S(_)
                              S(k) == IF k > Len(ph) THEN R(0) ELSE RAdd(RMul(R(ph[k][i][j]), qe[k]), S(k + 1))
                          IN S(1)
Collect(ph, qe) == Mat(Rows(ph[1]), Cols(ph[1]), LAMBDA i, j : ChargeAt(ph, qe, i, j))

\* an efficiency given as a spectrum is sampled (linear interpolation, 0 outside) at the slice wavelengths, which are
\* numbers in the unit with exponent e
QeFromSpectrum(s, waves, e) == LET t == ToWave(s, e) IN
                               [k \in 1..Len(waves) |-> IF Inside(t, waves[k]) THEN Interp(t, waves[k]) ELSE R(0)]

\* colour of the (possibly oversampled) sub-pixel (i, j): the tiled pattern at its NATIVE pixel
Colour(pat, os, i, j) == pat[(((i - 1) \div os) % Len(pat)) + 1][(((j - 1) \div os) % Len(pat[1])) + 1]
QeOf(c, qr, qg, qb) == IF c = "R" THEN qr ELSE IF c = "G" THEN qg ELSE qb
Bayer(ph, qr, qg, qb, pat, os) ==
    Mat(Rows(ph[1]), Cols(ph[1]), LAMBDA i, j : ChargeAt(ph, QeOf(Colour(pat, os, i, j), qr, qg, qb), i, j))
Channel(ph, q, c, pat, os) ==
    Mat(Rows(ph[1]), Cols(ph[1]), LAMBDA i, j : IF Colour(pat, os, i, j) = c THEN ChargeAt(ph, q, i, j) ELSE R(0))

\* digitisation: floor of the gain polynomial (no constant term, highest power first) at the clipped electron count
RPow(x, n) == LET RECURSIVE P(_)
                  P(k) == IF k = 0 THEN R(1) ELSE RMul(x, P(k - 1))
              IN P(n)
Poly(g, x) == LET n == Len(g)
                  RECURSIVE S(_)
                  S(d) == IF d > n THEN R(0) ELSE RAdd(RMul(g[d], RPow(x, n - d + 1)), S(d + 1))
              IN S(1)
\* the capacity is a number of electrons, not necessarily a whole one: a rational <<n, d>>
Clip(e, sat) == IF sat = <<>> THEN R(e) ELSE IF RLt(sat[1], R(e)) THEN sat[1] ELSE R(e)
GainAt(form, gain, i, j) == CASE form = "scalar" -> <<gain>>
                              [] form = "poly" -> gain
                              [] form = "pixel" -> <<gain[i][j]>>
                              [] form = "pixelpoly" -> [d \in 1..Len(gain) |-> gain[d][i][j]]
DN(e, form, gain, sat, i, j) == LET v == RFloor(Poly(GainAt(form, gain, i, j), Clip(e[i][j], sat))) IN IF v < 0 THEN 0 ELSE v
Adc(e, form, gain, sat) == Mat(Rows(e), Cols(e), LAMBDA i, j : DN(e, form, gain, sat, i, j))
Saturates(e, sat) == sat # <<>> /\ \E i \in 1..Rows(e), j \in 1..Cols(e) : RLt(sat[1], R(e[i][j]))

\* theorems on the specification, evaluated on the data of an event
NonNegGain(form, gain, e) == \A i \in 1..Rows(e), j \in 1..Cols(e) : \A d \in 1..Len(GainAt(form, gain, i, j)) : GainAt(form, gain, i, j)[d][1] >= 0
ThmMonotone(e, form, gain, sat) ==          \* for gains that do not depend on the pixel
    (form \in {"scalar", "poly"} /\ NonNegGain(form, gain, e)) =>
        \A i1, i2 \in 1..Rows(e), j1, j2 \in 1..Cols(e) :
            (0 <= e[i1][j1] /\ e[i1][j1] <= e[i2][j2]) => DN(e, form, gain, sat, i1, j1) <= DN(e, form, gain, sat, i2, j2)
ThmChannelsSum(ph, qr, qg, qb, pat, os) ==
    \A i \in 1..Rows(ph[1]), j \in 1..Cols(ph[1]) :
        REq(RAdd(RAdd(Channel(ph, qr, "R", pat, os)[i][j], Channel(ph, qg, "G", pat, os)[i][j]), Channel(ph, qb, "B", pat, os)[i][j]),
            Bayer(ph, qr, qg, qb, pat, os)[i][j])
ThmEqualQeMono(ph, q, pat, os) == Bayer(ph, q, q, q, pat, os) = Collect(ph, q)
=============================================================================
