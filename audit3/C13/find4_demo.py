"""C13 finding 4 (lower confidence): arithmetic with a scalar or an equal-length vector is
evaluated in the (narrow) dtype of the stored values, so it wraps around / degenerates to a
logical OR, whereas the same operation against a Spectrum operand gives the arithmetic result."""
import os, sys, warnings
sys.path.insert(0, os.environ.get('LENTIL_REPO', '.'))
import numpy as np
from lentil.radiometry import Spectrum
warnings.simplefilter('ignore')

w = [400, 500, 600]
bad = []

u = Spectrum(w, np.array([200, 100, 50], dtype=np.uint8))     # e.g. 8-bit digitised curve
r = u + 100
if not np.array_equal(np.asarray(r.value, dtype=float), [300, 200, 150]):
    bad.append('uint8 [200,100,50] + 100          -> %r   (expected [300 200 150]; u + Spectrum(w,[100]*3) gives %r)'
               % (r.value, (u + Spectrum(w, [100, 100, 100])).value))
r = u * 2
if not np.array_equal(np.asarray(r.value, dtype=float), [400, 200, 100]):
    bad.append('uint8 [200,100,50] * 2            -> %r   (expected [400 200 100]; u * Spectrum(w,[2]*3) gives %r)'
               % (r.value, (u * Spectrum(w, [2, 2, 2])).value))
r = u + np.array([100, 100, 100], dtype=np.uint8)
if not np.array_equal(np.asarray(r.value, dtype=float), [300, 200, 150]):
    bad.append('uint8 [200,100,50] + uint8 vector -> %r' % (r.value,))

i16 = Spectrum(w, np.array([30000, 100, 50], dtype=np.int16))
r = i16 * 2
if not np.array_equal(np.asarray(r.value, dtype=float), [60000, 200, 100]):
    bad.append('int16 [30000,100,50] * 2          -> %r   (expected [60000 200 100])' % (r.value,))

band = Spectrum(w, [True, False, True])                       # boolean pass-band
r = band + True
if not np.array_equal(np.asarray(r.value, dtype=float), [2, 1, 2]):
    bad.append('bool [T,F,T] + True               -> %r   (expected [2 1 2]; band + Spectrum(w,[True]*3) gives %r)'
               % (r.value, (band + Spectrum(w, [True, True, True])).value))

try:
    r = Spectrum(w, [1, 2, 4]) ** -1
    if not np.allclose(r.value, [1, .5, .25]):
        bad.append('int [1,2,4] ** -1 -> %r' % (r.value,))
except Exception as e:
    bad.append('int [1,2,4] ** -1                 -> %s: %s   (Spectrum(w,[1,2,4]) ** Spectrum(w,[-1]*3) gives %r)'
               % (type(e).__name__, e, (Spectrum(w, [1, 2, 4]) ** Spectrum(w, [-1, -1, -1])).value))

if bad:
    print('VIOLATION: scalar / vector arithmetic is not the element-wise arithmetic result')
    print('\n'.join(bad))
    sys.exit(1)
print('ok')
sys.exit(0)
