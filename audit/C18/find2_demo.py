"""C18 finding 2: dark-current fixed pattern noise multiplies the rate by e.

dark_current(rate, shape, fpn_factor>0, seed) multiplies the rate by
rng.lognormal(mean=1.0, sigma=fpn_factor).  numpy's `mean` is the mean of the
underlying normal, so the multiplier has median e = 2.718 (mean
e*exp(sigma^2/2)) instead of 1: the frame is about 2.7x the requested dark
rate, and the frame does not tend to floor(rate) as fpn_factor -> 0.
"""
import os
import sys

sys.path.insert(0, os.environ.get('LENTIL_REPO', '.'))

import numpy as np
import lentil

rate = 100.0
shape = (200, 300)
bad = []

base = lentil.detector.dark_current(rate, shape)           # no pattern noise
print('no FPN: every pixel =', np.unique(base))

for fpn in (1e-9, 0.1, 0.25, 0.4):
    for seed in (0, 1, 2):
        dark = lentil.detector.dark_current(rate, shape, fpn_factor=fpn, seed=seed)
        ratio_mean = dark.mean() / rate
        ratio_median = np.median(dark) / rate
        print(f'fpn_factor={fpn:<6g} seed={seed}: mean/rate={ratio_mean:.4f} '
              f'median/rate={ratio_median:.4f} min={dark.min():.0f} max={dark.max():.0f}')
        # A unit-mean (or unit-median) log-normal multiplier with sigma <= 0.4
        # keeps both ratios within [0.9, 1.1]; allow a generous [0.8, 1.25].
        if not (0.8 < ratio_mean < 1.25) or not (0.8 < ratio_median < 1.25):
            bad.append((fpn, seed, ratio_mean, ratio_median))

if bad:
    print()
    print(f'VIOLATION: with fixed pattern noise the dark frame is not centred on '
          f'the requested rate: in {len(bad)} of 12 frames mean/rate and '
          f'median/rate are about e = 2.718 (e.g. fpn_factor={bad[0][0]}, '
          f'seed={bad[0][1]}: mean/rate={bad[0][2]:.3f}). With fpn_factor=1e-9 '
          f'every pixel is floor(e*rate)=271 while fpn_factor=0 gives '
          f'floor(rate)=100.')
    sys.exit(1)

print('no violation observed')
sys.exit(0)
