"""C04 finding 2: fit_tilt(inplace=True) on a shallow copy of a plane records the
tilt in the ORIGINAL plane too, without removing it from the original's OPD.

copy.copy(plane) shares the list `plane.tilt`.  Since the repair "fit_tilt(inplace=True)
rewrites the caller's OPD array" the monolithic branch REBINDS plane.opd (the copy gets
a new array, the original keeps the tilted one) but still APPENDS to the shared list
plane.tilt.  The original plane now carries its tilt twice - once in the OPD, once as
metadata - and its image moves by twice the displacement.  Before that repair both
halves were done in place (OPD array and tilt list are both shared by a shallow copy),
so the original stayed self-consistent: it is a regression of the monolithic branch.
(The segmented branch rebinds in both versions and shows the same defect.)

exit code 1 if the violation is observed, 0 otherwise.
"""
import copy
import os
import sys

sys.path.insert(0, os.environ.get('LENTIL_REPO', '.'))
import numpy as np
import lentil

WL, DU, F, PS, OS = 600e-9, 5e-6, 10.0, 1e-3, 2
n = (64, 64)
amp = lentil.circle(n, 24)
r, c = lentil.helper.mesh(n)
tx, ty = 2e-6, -1e-6                                   # x tilt -> +rows, y tilt -> -columns
opd = (amp > 0)*(tx*r*PS - ty*c*PS)

P = lentil.Pupil(amplitude=amp, opd=opd.copy(), pixelscale=PS, focal_length=F)


def image(plane):
    w = lentil.Wavefront(WL)*plane
    return lentil.propagate_dft(w, pixelscale=DU, shape=64, oversample=OS).intensity


def displacement(img):
    cen = np.array(lentil.centroid(img))
    return cen - np.array(img.shape)//2


expected = np.array([F*tx/DU*OS, -F*ty/DU*OS])          # focal_length*angle/du*oversample
before = displacement(image(P))

Q = copy.copy(P)                                        # a cheap variant of the same plane
Q.fit_tilt(inplace=True)                                # ... whose tilt is handled geometrically

after = displacement(image(P))                          # P itself was never fitted
print('expected displacement of the image (rows, cols):', expected)
print('image of P before Q.fit_tilt(inplace=True)     :', before)
print('image of P after  Q.fit_tilt(inplace=True)     :', after)
print('P.opd still holds the ramp (peak-valley %.3g m); P.tilt now has %d element(s): %s'
      % (np.ptp(P.opd), len(P.tilt), [(t.y, t.x) for t in P.tilt]))
print('P.tilt is Q.tilt:', P.tilt is Q.tilt, '   P.opd is Q.opd:', P.opd is Q.opd)

# OPD plus recorded tilt of P, compared with what P was given
rec = P.opd.copy()
for t in P.tilt:
    rec = rec + (amp > 0)*(t.y*r*PS - t.x*c*PS)
change = np.abs(rec - opd).max()/np.abs(opd).max()
print('relative change of (OPD + recorded tilt) of P: %.3g' % change)

if change > 1e-9 or np.abs(after - before).max() > 0.5:
    print('\nVIOLATION of C04: fitting the tilt of the shallow copy recorded the removed angles in the '
          'original plane as well, whose OPD still contains them: OPD-plus-recorded-tilt of the '
          'original is doubled and its image is displaced by %s instead of %s samples' % (after, expected))
    sys.exit(1)
print('no violation observed')
sys.exit(0)
