"""C09 - anisotropic pupil sampling whose two axes round to the SAME FFT grid.

propagate_fft reports one propagation wavelength (the minimum over the axes),
but the FFT it evaluates has alpha = 1/N on BOTH axes.  When dx[0]*du[0] !=
dx[1]*du[1] no single wavelength fits both axes, even though both axes round
to the same grid size, so the returned field is not the DFT evaluated at the
reported wavelength.

(Variant of the already known "axes round to different grids" problem: here
the grids are identical, fft_shape == (33, 33).)
"""
import os
import sys

sys.path.insert(0, os.environ.get('LENTIL_REPO', '.'))

import numpy as np
import lentil
from lentil.fourier import dft2

rng = np.random.default_rng(0)

f = 2.0
du = 4e-6
oversample = 2
dx = (1e-3, 1.004e-3)          # 0.4 % anamorphic pupil sampling
wl = 33.2 / oversample * 1e-3 * du / f

amp = rng.uniform(0.5, 1, (16, 16))
w = lentil.Wavefront(wl) * lentil.Pupil(amplitude=amp, pixelscale=dx,
                                        focal_length=f)

grid = lentil.scratch_shape(wl, dx, du, f, oversample)
o = lentil.propagate_fft(w, du, oversample=oversample)

# DFT of the very same pupil field at the wavelength propagate_fft reports
alpha = ((dx[0] * du) / (o.wavelength * f * oversample),
         (dx[1] * du) / (o.wavelength * f * oversample))
ref = np.zeros(o.shape, dtype=complex)
for fld in w.data:
    ref += dft2(fld.data, alpha, shape=o.shape, offset=fld.offset, unitary=True)

err = np.max(np.abs(ref - o.field)) / np.max(np.abs(ref))
print('FFT grid                :', grid, '(pupil is 16x16)')
print('reported wavelength     :', o.wavelength)
print('1/alpha at that wavelen.:', 1 / np.asarray(alpha), '(FFT uses', grid, ')')
print('max |FFT - DFT| / peak  :', err)

if tuple(grid) == (33, 33) and err > 1e-9:
    print('VIOLATION: both axes use the same 33-sample grid, yet the field '
          'returned by propagate_fft differs from the DFT at the reported '
          'wavelength by %.2g of the peak' % err)
    sys.exit(1)
sys.exit(0)
