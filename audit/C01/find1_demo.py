"""C01 finding 1: unitary normalisation is evaluated in the dtype of `alpha`.

With a float32 (or float16) alpha array whose two entries differ, dft2(..., unitary=True)
multiplies by sqrt(|alpha_row*alpha_col|) computed in float32/float16 arithmetic, so the
result differs from  defining_sum * sqrt(|alpha_row*alpha_col|)  by ~1e-8 .. 1e-7 relative
(float32) or ~1e-4 .. 1e-3 relative (float16, and exactly 0 when the half product underflows),
although the un-normalised transform (unitary=False) of the very same call is accurate to 1e-15.
"""
import os
import sys

sys.path.insert(0, os.environ.get("LENTIL_REPO", "."))
import numpy as np
from lentil.fourier import dft2


def defining_sum(f, ar, ac, M, N, shift, offset):
    m, n = f.shape
    x = np.arange(m) - m // 2 + offset[0]
    y = np.arange(n) - n // 2 + offset[1]
    out = np.empty((M, N), dtype=complex)
    for a in range(M):
        u = a - M // 2 - shift[0]
        for b in range(N):
            v = b - N // 2 - shift[1]
            out[a, b] = np.sum(f * np.exp(-2j * np.pi * (ar * x[:, None] * u + ac * y[None, :] * v)))
    return out


rng = np.random.default_rng(0)
m, n, M, N = 5, 6, 7, 4
f = rng.normal(size=(m, n)) + 1j * rng.normal(size=(m, n))
shift, offset = (1.5, -2.25), (3, -2)

bad = False
for dt, a in [(np.float32, (0.13, 0.21)), (np.float16, (0.13, 0.21)), (np.float16, (1e-4, 1e-4))]:
    alpha = np.array(a, dtype=dt)
    # the exact real numbers the caller passed, promoted losslessly to double
    ar, ac = float(alpha[0]), float(alpha[1])
    S = defining_sum(f, ar, ac, M, N, shift, offset)

    raw = dft2(f, alpha, shape=(M, N), shift=shift, offset=offset, unitary=False)
    uni = dft2(f, alpha, shape=(M, N), shift=shift, offset=offset, unitary=True)
    expect = S * np.sqrt(abs(ar * ac))

    err_raw = np.max(np.abs(raw - S)) / np.max(np.abs(S))
    err_uni = np.max(np.abs(uni - expect)) / np.max(np.abs(expect))
    ratio = np.max(np.abs(uni)) / np.max(np.abs(raw))
    print(f"alpha={alpha!r}")
    print(f"   unitary=False vs defining sum            : rel err {err_raw:.2e}")
    print(f"   unitary=True  vs sum*sqrt(|ar*ac|)       : rel err {err_uni:.2e}")
    print(f"   applied factor {ratio!r}  vs  required {np.sqrt(abs(ar*ac))!r}")
    if err_raw < 1e-12 and err_uni > 1e-10:
        bad = True

if bad:
    print("VIOLATION: the unitary factor is computed in alpha's own (low) precision in "
          "lentil/fourier.py line 101 (np.sqrt(np.abs(alpha_row * alpha_col))), so the unitary "
          "output is not  defining_sum * sqrt(|alpha_row*alpha_col|)  to double precision.")
    sys.exit(1)
print("no violation observed")
sys.exit(0)
