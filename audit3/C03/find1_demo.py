"""C03 finding 1: a tilt that was fitted out of a segment (Plane.fit_tilt) clips the
segment's contribution to the image: propagate_dft only evaluates each Field on a
window of the output that is displaced by the integer part of the tilt shift, so
rows/columns of the output plane are left without that segment's complex amplitude.
Splitting the aperture into segment masks (and fitting the tilt per segment, the
documented use of fit_tilt) therefore changes field and intensity."""
import os, sys
sys.path.insert(0, os.environ.get('LENTIL_REPO', '.'))
import numpy as np
import lentil

n = 64
dx = 1/n
r, c = lentil.helper.mesh((n, n))
support = (lentil.circle((n, n), 28) > 0).astype(float)
left, right = support*(c < 0), support*(c >= 0)
segmask = np.array([left, right])          # a partition of the support
assert np.array_equal(left + right, support) and not np.any(left*right)

# two half apertures tilted against each other by +-2 urad about the x axis,
# plus some figure error
rng = np.random.default_rng(1)
a = 2e-6
opd = a*r*dx*left - a*r*dx*right + 20e-9*rng.normal(size=(n, n))*support
kw = dict(amplitude=support, opd=opd, pixelscale=dx, focal_length=10)

def image(plane):
    w = lentil.Wavefront(650e-9) * plane
    w = lentil.propagate_dft(w, pixelscale=5e-6, shape=32, oversample=2)
    return w.field, w.intensity

f_glob, i_glob = image(lentil.Pupil(mask=support, **kw))             # one global mask
f_seg, i_seg = image(lentil.Pupil(mask=segmask, **kw))               # partition, no fit
f_fit, i_fit = image(lentil.Pupil(mask=segmask, **kw).fit_tilt())    # partition, tilt fitted

peak = np.abs(f_glob).max()
err_seg = np.abs(f_seg - f_glob).max()/peak
err_fit = np.abs(f_fit - f_glob)/peak
rows = np.nonzero(err_fit.max(axis=1) > 1e-9)[0]
inner = np.ones(f_glob.shape[0], bool); inner[rows] = False
print('partition without fit_tilt : max |dF|/peak = %.2e' % err_seg)
print('partition with    fit_tilt : max |dF|/peak = %.2e' % err_fit.max())
print('   rows of the 64x64 output that are wrong :', rows.tolist())
print('   max |dF|/peak on the remaining rows     : %.2e' % err_fit[inner].max())
print('   max |dI|/peak intensity                 : %.2e' % (np.abs(i_fit - i_glob).max()/i_glob.max()))
loc = np.abs(i_fit - i_glob)[rows].sum()/i_glob[rows].sum()
print('   sum|dI| / sum I on the wrong rows       : %.2f' % loc)
print('   total power global / fitted             : %.6f / %.6f' % (i_glob.sum(), i_fit.sum()))

if err_fit.max() > 1e-9:
    print('VIOLATION: the image of the same aperture (same amplitude, same OPD) depends on '
          'whether it is described by one mask or by two segment masks with fit_tilt(): '
          'each segment is only propagated onto the output window displaced by fix(tilt shift), '
          'so %d output rows miss the complex amplitude of one of the segments.' % rows.size)
    sys.exit(1)
sys.exit(0)
