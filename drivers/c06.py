"""C06 - Field and extent bookkeeping equals arithmetic on an infinite zero-padded plane.

A: MC_C06_lemmas - TLC enumerates all shapes/offsets in the bound and checks the rectangle calculus
   against pixel sets; MC_C06 checks commutativity of the semantics on every case.
B: cases (exhaustive over small shapes/offsets with seeded Gaussian-integer data, plus random ones) are
   evaluated by TLC on the *embedding semantics* of FieldAlg.tla; the real lentil.field / lentil.extent
   calls are executed and rendered on the same window; comparison is exact (integers).
"""
import itertools
import random

import numpy as np

from harness.core import import_lentil
from harness.tlc import run_tlc, eval_cases, validate_trace

LEVEL = 'model_checking'


def gint(rng, lo=-4, hi=4):
    while True:
        a, b = rng.randint(lo, hi), rng.randint(lo, hi)
        if a or b:
            return [a, b]


def mkfield(rng, sh, off):
    if sh == ():
        return {'sh': [], 'off': list(off), 'd': gint(rng)}
    return {'sh': list(sh), 'off': list(off), 'd': [[gint(rng) for _ in range(sh[1])] for _ in range(sh[0])]}


def real_field(lentil, f, as11=False):
    if f['sh'] == []:
        v = complex(*f['d'])
        data = np.array([[v]]) if as11 else np.array(v)
    else:
        data = np.array([[complex(*x) for x in row] for row in f['d']])
    return lentil.field.Field(data=data, offset=list(f['off']))


def render(field, w):
    """independent abstraction function: Field -> its embedding on the window w (rmin,rmax,cmin,cmax)"""
    out = np.zeros((w[1] - w[0] + 1, w[3] - w[2] + 1), dtype=complex)
    d = np.asarray(field.data)
    if d.size == 0:
        return out, True
    if d.ndim != 2:
        raise ValueError(f'cannot render data of shape {d.shape}')
    m, n = d.shape
    r0 = field.offset[0] - m // 2
    c0 = field.offset[1] - n // 2
    inside = True
    for i in range(m):
        for j in range(n):
            r, c = r0 + i, c0 + j
            if w[0] <= r <= w[1] and w[2] <= c <= w[3]:
                out[r - w[0], c - w[2]] += d[i, j]
            elif d[i, j] != 0:
                inside = False
    return out, inside


def canvas_np(c):
    return np.array([[complex(*x) for x in row] for row in c])


def feat(f):
    if f['sh'] == []:
        return 'const'
    return 'arr'


def gen_cases(tier, seed):
    rng = random.Random(1000 + seed)
    cases = []
    shapes = [(m, n) for m in (1, 2, 3) for n in (1, 2, 3) if m * n > 1]
    cshapes = [()] + shapes

    def add(c):
        c['id'] = len(cases)
        cases.append(c)

    # ---- multiply -----------------------------------------------------------------------------
    offs_b = list(itertools.product(range(-3, 4), repeat=2))
    offs_a = [(0, 0), (-1, 2), (2, -3)] if tier == 'quick' else list(itertools.product((-2, -1, 0, 1, 3), repeat=2))
    allmul = [(sa, oa, sb, ob) for sa in cshapes for oa in offs_a for sb in cshapes for ob in offs_b]
    if tier == 'quick':
        allmul = rng.sample(allmul, 6000)
    for sa, oa, sb, ob in allmul:
        add({'k': 'mul', 'a': mkfield(rng, sa, oa), 'b': mkfield(rng, sb, ob),
             'a11': rng.random() < 0.5, 'b11': rng.random() < 0.5})
    # ---- merge --------------------------------------------------------------------------------
    allmerge = [(sa, oa, sb, ob) for sa in shapes for oa in [(0, 0), (-4, -3), (1, -2)] for sb in shapes for ob in offs_b]
    if tier == 'quick':
        allmerge = rng.sample(allmerge, 2500)
    for sa, oa, sb, ob in allmerge:
        add({'k': 'merge', 'fs': [mkfield(rng, sa, oa), mkfield(rng, sb, ob)]})
    # ---- reduce -------------------------------------------------------------------------------
    nred = 1500 if tier == 'quick' else 12000
    for _ in range(nred):
        k = rng.randint(1, 4)
        spread = rng.choice((2, 4, 7))
        sign = rng.choice((-1, 0, 1))
        fs = []
        for _ in range(k):
            off = (rng.randint(-spread, spread) + sign * 8, rng.randint(-spread, spread) + sign * 8)
            fs.append(mkfield(rng, rng.choice(shapes), off))
        add({'k': 'reduce', 'fs': fs})
    # ---- insert -------------------------------------------------------------------------------
    tshapes = [(m, n) for m in (1, 2, 3, 4, 5) for n in (1, 2, 3, 4, 5)]
    offs_i = list(itertools.product(range(-6, 7), repeat=2))
    allins = [(s, o, t) for s in shapes for o in offs_i for t in tshapes]
    if tier == 'quick':
        allins = rng.sample(allins, 6000)
    for s, o, t in allins:
        inten = rng.random() < 0.4
        tgt = [[([rng.randint(-3, 3), 0] if inten else [rng.randint(-3, 3), rng.randint(-3, 3)]) for _ in range(t[1])] for _ in range(t[0])]
        add({'k': 'insert', 'f': mkfield(rng, s, o), 'tsh': list(t), 't': tgt,
             'weight': rng.choice((1, 1, 2, -3)), 'intensity': inten})
    # the target covered exactly (same shape, same origin), and off by one sample either way: every weight, both kinds
    for sh in sorted(set(shapes) | {(3, 3), (4, 5), (1, 1), (2, 2)}):
        for t in (sh, (sh[0] + 1, sh[1]), (sh[0], max(1, sh[1] - 1))):
            for w in (2, -3, 1):
                for inten in (False, True):
                    tgt = [[([rng.randint(-3, 3), 0] if inten else [rng.randint(-3, 3), rng.randint(-3, 3)]) for _ in range(t[1])] for _ in range(t[0])]
                    add({'k': 'insert', 'f': mkfield(rng, sh, (0, 0)), 'tsh': list(t), 't': tgt, 'weight': w, 'intensity': inten})
    # ---- extent queries -----------------------------------------------------------------------
    allext = [(sa, oa, sb, ob) for sa in shapes + [(1, 1), (4, 5)] for oa in [(0, 0), (-5, 3), (2, -1), (-7, -7)]
              for sb in shapes + [(1, 1), (5, 4)] for ob in offs_b]
    if tier == 'quick':
        allext = rng.sample(allext, 4000)
    for sa, oa, sb, ob in allext:
        add({'k': 'extent', 'a': {'sh': list(sa), 'off': list(oa), 'd': 0}, 'b': {'sh': list(sb), 'off': list(ob), 'd': 0}})
    return cases


def offsign(off):
    return ''.join('-' if x < 0 else ('0' if x == 0 else '+') for x in off)


def check_case(ctx, lentil, c, e):
    k = c['k']
    ext = lentil.extent
    fld = lentil.field
    if k == 'mul':
        a = real_field(lentil, c['a'], c.get('a11'))
        b = real_field(lentil, c['b'], c.get('b11'))
        base = {'op': 'mul', 'operands': feat(c['a']) + '*' + feat(c['b'])}
        try:
            r = a * b
        except Exception as ex:
            ctx.violation(dict(base, kind=type(ex).__name__), {'case': c, 'error': repr(ex)}, case={'case': c, 'exp': e})
            return
        if e['const']:
            d = np.asarray(r.data)
            if d.size != 1 or complex(d.reshape(-1)[0]) != complex(*e['cval']):
                same = list(c['a']['off']) == list(c['b']['off'])
                ctx.violation(dict(base, kind='value', same_offset=same),
                              {'case': c, 'expected_constant': e['cval'], 'observed': np.asarray(r.data).tolist()},
                              case={'case': c, 'exp': e})
            return
        got, inside = render(r, e['w'])
        if not inside or not np.array_equal(got, canvas_np(e['canvas'])):
            ctx.violation(dict(base, kind='value'), {'case': c, 'expected': e['canvas'], 'window': e['w'],
                                                   'observed_data': np.asarray(r.data).tolist(), 'observed_offset': list(r.offset)},
                          case={'case': c, 'exp': e})
    elif k == 'merge':
        fs = [real_field(lentil, f) for f in c['fs']]
        base = {'op': 'merge'}
        # enforce_overlap=True must refuse exactly the non-overlapping pairs (documented) ...
        try:
            r1 = fld.merge(fs[0], fs[1])
            refused = False
        except ValueError:
            refused = True
        except Exception as ex:
            ctx.violation(dict(base, kind=type(ex).__name__, neg=offsign(c['fs'][0]['off']) + offsign(c['fs'][1]['off'])),
                          {'case': c, 'error': repr(ex)}, case={'case': c, 'exp': e})
            return
        if refused == e['overlap']:
            ctx.violation(dict(base, kind='overlap-test', overlap=e['overlap']), {'case': c, 'refused': refused},
                          case={'case': c, 'exp': e})
        # ... and the merge itself is the sum of the embeddings, overlapping or not
        try:
            r = fld.merge(fs[0], fs[1], enforce_overlap=False)
        except Exception as ex:
            ctx.violation(dict(base, kind=type(ex).__name__), {'case': c, 'error': repr(ex)}, case={'case': c, 'exp': e})
            return
        for rr in ([r] if refused else [r, r1]):
            got, inside = render(rr, e['w'])
            if not inside or not np.array_equal(got, canvas_np(e['canvas'])):
                allneg = all(x < 0 for f in c['fs'] for x in (f['off'][0] + f['sh'][0], f['off'][1] + f['sh'][1]))
                ctx.violation(dict(base, kind='value', all_negative=allneg),
                              {'case': c, 'expected': e['canvas'], 'window': e['w'],
                               'observed_data': np.asarray(rr.data).tolist(), 'observed_offset': list(rr.offset)},
                              case={'case': c, 'exp': e})
                break
    elif k == 'reduce':
        fs = [real_field(lentil, f) for f in c['fs']]
        base = {'op': 'reduce', 'n': len(fs)}
        try:
            rs = fld.reduce(fs)
            bnd = fld.boundary(fs)
        except Exception as ex:
            ctx.violation(dict(base, kind=type(ex).__name__), {'case': c, 'error': repr(ex)}, case={'case': c, 'exp': e})
            return
        tot = np.zeros_like(canvas_np(e['canvas']))
        ok = True
        rects = []
        for r in rs:
            got, inside = render(r, e['w'])
            ok = ok and inside
            tot += got
            m, n = np.asarray(r.data).shape
            rects.append((r.offset[0] - m // 2, r.offset[0] - m // 2 + m - 1, r.offset[1] - n // 2, r.offset[1] - n // 2 + n - 1))
        allneg = all(x < 0 for f in c['fs'] for x in (f['off'][0] + f['sh'][0], f['off'][1] + f['sh'][1]))
        if not ok or not np.array_equal(tot, canvas_np(e['canvas'])):
            ctx.violation(dict(base, kind='total', all_negative=allneg), {'case': c, 'expected': e['canvas'], 'window': e['w'],
                                                 'observed': [[np.asarray(r.data).tolist(), list(r.offset)] for r in rs]},
                          case={'case': c, 'exp': e})
        for (x, y) in itertools.combinations(rects, 2):
            if x[0] <= y[1] and x[1] >= y[0] and x[2] <= y[3] and x[3] >= y[2]:
                ctx.violation(dict(base, kind='results-overlap'), {'case': c, 'rects': rects}, case={'case': c, 'exp': e})
                break
        if [int(v) for v in bnd] != list(e['boundary']):
            ctx.violation({'op': 'boundary', 'kind': 'value', 'all_negative': allneg},
                          {'case': c, 'expected': e['boundary'], 'observed': [int(v) for v in bnd]}, case={'case': c, 'exp': e})
    elif k == 'insert':
        f = real_field(lentil, c['f'])
        if c['intensity']:
            t = np.array([[x[0] for x in row] for row in c['t']], dtype=float)
        else:
            t = canvas_np(c['t'])
        exp = canvas_np(e['out'])
        base = {'op': 'insert', 'intensity': c['intensity']}
        tsh = c['tsh']
        sh, off = c['f']['sh'], c['f']['off']
        lo = [off[i] - sh[i] // 2 + tsh[i] // 2 for i in (0, 1)]
        hi = [lo[i] + sh[i] for i in (0, 1)]
        where = 'outside' if any(hi[i] <= 0 or lo[i] >= tsh[i] for i in (0, 1)) else \
            ('clipped' if any(lo[i] < 0 or hi[i] > tsh[i] for i in (0, 1)) else 'inside')
        try:
            r = fld.insert(f, t, intensity=c['intensity'], weight=c['weight'])
        except Exception as ex:
            ctx.violation(dict(base, kind=type(ex).__name__, where=where), {'case': c, 'error': repr(ex)}, case={'case': c, 'exp': e})
            return
        if not (np.array_equal(r, exp) and np.array_equal(t, exp)):
            ctx.violation(dict(base, kind='value', where=where), {'case': c, 'expected': e['out'], 'observed': np.asarray(r).tolist()},
                          case={'case': c, 'exp': e})
    elif k == 'extent':
        a, b = c['a'], c['b']
        ea = ext.array_extent(tuple(a['sh']), tuple(a['off']))
        eb = ext.array_extent(tuple(b['sh']), tuple(b['off']))
        obs = {'ea': [int(v) for v in ea], 'eb': [int(v) for v in eb], 'overlap': bool(ext.intersect(ea, eb)),
               'ishape': [int(v) for v in ext.intersection_shape(ea, eb)],
               'centre': [int(v) for v in ext.array_center(ea)]}
        fa = lentil.field.Field(np.ones(a['sh']), offset=list(a['off']))
        fb = lentil.field.Field(np.ones(b['sh']), offset=list(b['off']))
        obs['boundary'] = [int(v) for v in fld.boundary([fa, fb])]
        obs['overlap2'] = bool(fld.overlap((fa, fb)))
        if obs['overlap']:
            obs['ishift'] = [int(v) for v in ext.intersection_shift(ea, eb)]
            sa, sb = ext.intersection_slices(ea, eb)
            obs['sa'] = [int(sa[0].start), int(sa[0].stop), int(sa[1].start), int(sa[1].stop)]
            obs['sb'] = [int(sb[0].start), int(sb[0].stop), int(sb[1].start), int(sb[1].stop)]
        else:
            obs['ishift'] = []
            obs['sa'] = []
            obs['sb'] = []
        expd = dict(e)
        expd.pop('id')
        expd['overlap2'] = expd['overlap']
        for key in expd:
            if obs[key] != (list(expd[key]) if isinstance(expd[key], (list, tuple)) else expd[key]):
                allneg = all(x < 0 for f in (a, b) for x in (f['off'][0] + f['sh'][0], f['off'][1] + f['sh'][1]))
                ctx.violation({'op': 'extent', 'query': key, 'all_negative': allneg},
                              {'case': c, 'query': key, 'expected': expd[key], 'observed': obs[key]},
                              case={'case': c, 'exp': e})


def fj(field):
    """real Field -> JSON record of the specification (exact Gaussian integers)"""
    d = np.asarray(field.data)
    if d.ndim == 0:
        return {'sh': [], 'off': [int(field.offset[0]), int(field.offset[1])], 'd': [int(round(float(d.real))), int(round(float(d.imag)))]}
    return {'sh': [int(d.shape[0]), int(d.shape[1])], 'off': [int(field.offset[0]), int(field.offset[1])],
            'd': [[[int(round(x.real)), int(round(x.imag))] for x in row] for row in d]}


MOVED = []        # fields found somewhere else than where they were constructed (filled by record_sessions)


def record_sessions(lentil, rng, nsess, nsteps):
    """code -> spec: sessions in which results feed later operations"""
    fld = lentil.field
    events = []
    for tid in range(nsess):
        pool = []
        # in some sessions the caller builds every field from ONE offset list that it keeps re-using, and later moves fields by assigning
        # their documented offset attribute: a field is where its offset says it is at the time it is used
        reuse = rng.random() < 0.3
        shared_off = [0, 0]
        intended = []
        for _ in range(4):
            sh = rng.choice([(2, 2), (2, 3), (3, 2), (3, 3), (1, 3), (4, 2)])
            f = mkfield(rng, sh, (rng.randint(-3, 3), rng.randint(-3, 3)))
            intended.append(tuple(f['off']))
            if reuse:
                shared_off[0], shared_off[1] = f['off']
                pool.append(lentil.field.Field(data=np.array([[complex(*x) for x in row] for row in f['d']]), offset=shared_off))
            else:
                pool.append(real_field(lentil, f))
        shared_off[0], shared_off[1] = 5, -5
        # (every field is where it was put, whatever the caller did to the list since)
        for fobj, want in zip(pool, intended):
            if reuse and tuple(int(v) for v in fobj.offset) != tuple(want):
                MOVED.append({'constructed_at': list(want), 'now_at': [int(v) for v in fobj.offset], 'callers_list': list(shared_off)})
        pool.append(lentil.field.Field(data=np.array(complex(*gint(rng, 1, 2))), offset=[0, 0]))     # an infinite constant
        for k in range(nsteps):
            act = rng.choice(('mul', 'mul', 'merge', 'reduce', 'insert'))
            arrs = [f for f in pool if np.asarray(f.data).ndim == 2]
            if rng.random() < 0.15:
                rng.choice(arrs).offset = [rng.randint(-3, 3), rng.randint(-3, 3)]          # the caller moves a field
            if rng.random() < 0.1:
                # ... or gives it new data of ANOTHER shape (its extent follows: data and offset are all there is to a field)
                tgt = rng.choice(arrs)
                nsh = rng.choice([(2, 2), (2, 3), (3, 2), (1, 3), (4, 2), (3, 4)])
                tgt.data = np.array([[complex(*gint(rng)) for _ in range(nsh[1])] for _ in range(nsh[0])])
            ev = {'id': len(events), 'tid': tid, 'seq': k, 'act': act}
            try:
                if act == 'mul':
                    a, b = rng.choice(pool), rng.choice(pool)
                    if np.asarray(a.data).ndim == 0 and np.asarray(b.data).ndim == 0:
                        continue
                    r = a * b
                    out = [] if np.asarray(r.data).size == 0 else [r]
                    ev.update(a=fj(a), b=fj(b), out=[fj(x) for x in out])
                    if out and np.asarray(r.data).size > 1 and np.abs(r.data).max() < 3000:
                        pool.append(r)
                elif act == 'merge':
                    a, b = rng.sample(arrs, 2)
                    r = fld.merge(a, b, enforce_overlap=False)
                    ev.update(ins=[fj(a), fj(b)], out=[fj(r)])
                    if np.asarray(r.data).size <= 60:
                        pool.append(r)
                elif act == 'reduce':
                    ins = rng.sample(arrs, rng.randint(1, min(4, len(arrs))))
                    rs = fld.reduce(ins)
                    ev.update(ins=[fj(x) for x in ins], out=[fj(x) for x in rs])
                else:
                    f = rng.choice(arrs)
                    tsh = (rng.randint(1, 6), rng.randint(1, 6))
                    inten = rng.random() < 0.4
                    t = np.array([[complex(rng.randint(-3, 3), 0 if inten else rng.randint(-3, 3)) for _ in range(tsh[1])] for _ in range(tsh[0])])
                    tr = t.real.copy() if inten else t.copy()
                    w = rng.choice((1, 2, -1))
                    before = [[[int(x.real), int(x.imag)] for x in row] for row in t]
                    r = fld.insert(f, tr, intensity=inten, weight=w)
                    after = [[[int(round(complex(x).real)), int(round(complex(x).imag))] for x in row] for row in np.asarray(r)]
                    ev.update(f=fj(f), tsh=list(tsh), before=before, after=after, weight=w, intensity=inten)
            except Exception as ex:
                ev['exc'] = type(ex).__name__
                ev.update(act='insert', f=fj(pool[0]), tsh=[1, 1], before=[[[0, 0]]], after=[[[7, 7]]], weight=1, intensity=False)
            events.append(ev)
            if len(pool) > 9:
                pool = pool[:5] + pool[-3:]
    for i, e in enumerate(events):
        e['id'] = i
    return events


def nontrivial_key(c):
    if c['k'] in ('mul', 'extent'):
        return (c['k'], tuple(c['a']['sh']), tuple(c['a']['off']), tuple(c['b']['sh']), tuple(c['b']['off']))
    if c['k'] in ('merge', 'reduce'):
        return (c['k'],) + tuple((tuple(f['sh']), tuple(f['off'])) for f in c['fs'])
    return (c['k'], tuple(c['f']['sh']), tuple(c['f']['off']), tuple(c['tsh']), c['weight'], c['intensity'])


def run(ctx):
    lentil = import_lentil()
    q = ctx.tier == 'quick'
    lem = run_tlc('MC_C06_lemmas', env={'MAXN': 3 if q else 4, 'MAXO': 3 if q else 5}, workers=16, timeout=1200)
    ctx.add_tlc(lem, 'MC_C06_lemmas (rectangle calculus = pixel sets, exhaustive)')
    cases = gen_cases(ctx.tier, ctx.seed)
    exp, res = eval_cases('MC_C06', cases, nparts=14, timeout=1500)
    ctx.add_tlc(res, 'MC_C06 (embedding semantics evaluated on the case file)')
    kinds = {}
    for c in cases:
        check_case(ctx, lentil, c, exp[c['id']])
        ctx.case(nontrivial_key(c))
        kinds[c['k']] = kinds.get(c['k'], 0) + 1
        if kinds[c['k']] == 1:
            ctx.sample({'case': c, 'expected_by_TLC': exp[c['id']]}, maxn=5)
    # ---- code -> spec: sessions whose results feed later operations, validated by TLC (Trace_C06) ----------------------
    rng = random.Random(606 + ctx.seed)
    events = record_sessions(lentil, rng, 150 if q else 1500, 8)
    for mv in MOVED[:3]:
        ctx.violation({'kind': 'field-moves-with-the-list-its-offset-was-given-in'}, mv, case=None)
    del MOVED[:]
    # extent queries in ANY order and with the rarely used parent_shape option: each answer is the set of pixel coordinates of the
    # array (centre convention), relative to the origin or to the corner of the parent - whatever was asked before
    import lentil.extent as _ext
    for _ in range(60):
        sh_ = (rng.randint(1, 6), rng.randint(1, 6))
        off_ = (rng.randint(-4, 4), rng.randint(-4, 4))
        par_ = (rng.randint(4, 12), rng.randint(4, 12))
        want0 = (-(sh_[0] // 2) + off_[0], -(sh_[0] // 2) + off_[0] + sh_[0] - 1, -(sh_[1] // 2) + off_[1], -(sh_[1] // 2) + off_[1] + sh_[1] - 1)
        wantp = (want0[0] + par_[0] // 2, want0[1] + par_[0] // 2, want0[2] + par_[1] // 2, want0[3] + par_[1] // 2)
        ctx.case(('extent-queries', sh_, off_, par_))
        order = rng.choice((('plain', 'parent', 'plain'), ('parent', 'plain', 'parent'), ('parent', 'parent', 'plain')))
        got = []
        for what in order:
            r_ = _ext.array_extent(sh_, off_) if what == 'plain' else _ext.array_extent(sh_, off_, parent_shape=par_)
            got.append((what, tuple(int(v) for v in r_)))
        fe_ = tuple(int(v) for v in lentil.field.Field(np.ones(sh_), offset=list(off_)).extent) if sh_ != (1, 1) else want0
        if any(g_ != (want0 if w_ == 'plain' else wantp) for w_, g_ in got) or fe_ != want0:
            ctx.violation({'kind': 'extent-query-depends-on-earlier-queries', 'order': '-'.join(order)},
                          {'shape': list(sh_), 'offset': list(off_), 'parent_shape': list(par_), 'answers': got, 'field_extent': fe_, 'expected_plain': want0, 'expected_in_parent': wantp}, case=None)
    bad = validate_trace(ctx, 'Trace_C06', events, nparts=12)
    byid = {e['id']: e for e in events}
    for eid, clauses in bad:
        e = byid[eid]
        for cl in clauses:
            ctx.violation({'op': 'session-' + e['act'], 'kind': cl, 'exc': e.get('exc')},
                          {'event': e, 'session_so_far': [x['act'] for x in events if x['tid'] == e['tid'] and x['seq'] <= e['seq']]},
                          case={'event': e})
    for e in events:
        ctx.case(('session', e['tid'], e['seq']))
    # field data handed over in single precision complex are the same numbers: products and intensities are formed in double precision
    # (entries k * 2**70 are exact in complex64; their products, of order 2**140, exceed its range but not that of complex128)
    for _ in range(10):
        sh_ = (rng.randint(2, 3), rng.randint(2, 3))
        ka = np.array([[complex(rng.randint(1, 3), rng.randint(-2, 2)) for _ in range(sh_[1])] for _ in range(sh_[0])])
        kb = np.array([[complex(rng.randint(1, 3), rng.randint(-2, 2)) for _ in range(sh_[1])] for _ in range(sh_[0])])
        ctx.case(('complex64-data', sh_, str(ka.tolist())[:40]))
        fa = lentil.field.Field((ka * 2.0 ** 70).astype(np.complex64), offset=[0, 0])
        fb = lentil.field.Field((kb * 2.0 ** 70).astype(np.complex64), offset=[0, 0])
        import warnings as _w
        with _w.catch_warnings():
            _w.simplefilter('ignore')
            prod = np.asarray((fa * fb).data)
            inten = lentil.field.insert(fa, np.zeros(sh_), intensity=True)
        if not (np.all(np.isfinite(prod)) and np.allclose(prod / 2.0 ** 140, ka * kb, rtol=1e-12) and np.allclose(inten / 2.0 ** 140, np.abs(ka) ** 2, rtol=1e-12)):
            ctx.violation({'op': 'mul', 'kind': 'single-precision-data-not-promoted'}, {'shape': list(sh_), 'finite': bool(np.all(np.isfinite(prod)))}, case=None)
    # a long chain of overlapping fields (each overlaps only its neighbours): reduce must give ONE field holding their sum, and the
    # overlap test must say so, for any number of fields
    for nf in (60, 1300 if q else 2500):
        fl = [lentil.field.Field(np.full((2, 2), 1.0 + (k % 7)), offset=[0, k - nf // 2]) for k in range(nf)]
        ctx.case(('long-chain', nf))
        try:
            red = lentil.field.reduce(fl)
            tot = sum(float(np.asarray(r.data).real.sum()) for r in red)
            ok = len(red) == 1 and red[0].shape == (2, nf + 1) and abs(tot - sum(4.0 * (1.0 + (k % 7)) for k in range(nf))) < 1e-6 \
                and bool(lentil.field.overlap(fl))
            err = None
        except BaseException as ex:
            ok, err = False, type(ex).__name__
        if not ok:
            ctx.violation({'op': 'reduce', 'kind': 'long-chain-of-overlapping-fields', 'raised': err}, {'fields': nf}, case=None)
    ctx.traces += len(cases) + len({e['tid'] for e in events})
    ctx.extra['session_events_validated'] = len(events)
    ctx.extra['cases_by_operation'] = kinds
    ctx.exhaustive = not q
    ctx.rule = ('cases = (operation, shapes, offsets) with seeded Gaussian-integer data; quick tier samples the full '
                'product space by seed, thorough enumerates it; distinct by (operation, shapes, offsets, weight/flag); '
                'every case is compared exactly with the TLC-evaluated embedding semantics')
    ctx.assumptions += ['abstraction function render() in drivers/c06.py (data at offset -> pixels, centre floor(n/2))',
                        'one-element operands are infinite constants in multiply (as the statement says); insert/merge/reduce are '
                        'exercised on fields with >= 2 elements because a 1x1 array is a pixel there and a constant in multiply']


def replay(ctx, rec):
    lentil = import_lentil()
    check_case(ctx, lentil, rec['case']['case'], rec['case']['exp'])
