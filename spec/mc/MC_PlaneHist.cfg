SPECIFICATION Spec
INVARIANT TypeOK
PROPERTY FitPreservesEffective
PROPERTY Independence
CONSTRAINT Emit
