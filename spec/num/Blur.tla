--------------------------------- MODULE Blur ---------------------------------
(* Pixel, jitter and smear blurs of lentil (property C19): the ARGUMENT that every frequency bin      *)
(* feeds to the transfer function's leaf (sinc, Gauss), as exact rationals.  The leaves S (sinc) and     *)
(* G (exp(-2 pi^2 x)) are even / uninterpreted here: the specification fixes which rational argument    *)
(* each bin of an R x C image receives; the harness evaluates the leaf.                                  *)
EXTENDS Integers, Sequences, FiniteSets, TLC, Rat

\* frequency of bin k (1-based) of an axis of n samples, in cycles per sample (numpy.fft.fftfreq)
Freq(n, k) == IF 2 * (k - 1) < n THEN <<k - 1, n>> ELSE RNorm(k - 1 - n, n)
\* bin of the negated frequency (its Hermitian partner); the Nyquist bin of an even axis is its own partner
Partner(n, k) == ((n - (k - 1)) % n) + 1
Nyquist(n, k) == n % 2 = 0 /\ k - 1 = n \div 2

Grid(R_, C_, F(_, _)) == TLCEval([r \in 1..R_ |-> TLCEval([c \in 1..C_ |-> F(r, c)])])

\* pixel aperture: H = S(fr * os) * S(fc * os)  -> pair of arguments
PixelArgs(R_, C_, os) == Grid(R_, C_, LAMBDA r, c : <<RMul(Freq(R_, r), R(os)), RMul(Freq(C_, c), R(os))>>)
\* jitter: H = G(sigma'^2 (fr^2 + fc^2)),  sigma' = scale / pixelscale * oversample
JitterArgs(R_, C_, scale, px, os) ==
    LET s == RMul(RDiv(scale, px), R(os)) IN
    Grid(R_, C_, LAMBDA r, c : RMul(RMul(s, s), RAdd(RMul(Freq(R_, r), Freq(R_, r)), RMul(Freq(C_, c), Freq(C_, c)))))
\* smear along the direction with (sin, cos) = (sn, cs) rational:  H = S((sn * fr + cs * fc) * d'),  d' = distance / px * os
SmearArgs(R_, C_, dist, px, os, sn, cs) ==
    LET d == RMul(RDiv(dist, px), R(os)) IN
    Grid(R_, C_, LAMBDA r, c : RMul(RAdd(RMul(sn, Freq(R_, r)), RMul(cs, Freq(C_, c))), d))

\* ---- theorems about the argument grids ---------------------------------------------------------------------
Zero(a) == a[1] = 0
ThmDC(R_, C_, os, scale, dist, px, sn, cs) ==
    /\ Zero(PixelArgs(R_, C_, os)[1][1][1]) /\ Zero(PixelArgs(R_, C_, os)[1][1][2])
    /\ Zero(JitterArgs(R_, C_, scale, px, os)[1][1])
    /\ Zero(SmearArgs(R_, C_, dist, px, os, sn, cs)[1][1])
\* Hermitian symmetry (even leaves => real, symmetric kernel) except where a Nyquist bin is involved
ThmHermitian(R_, C_, os, scale, dist, px, sn, cs) ==
    \A r \in 1..R_, c \in 1..C_ :
        LET pr == Partner(R_, r)  pc == Partner(C_, c) IN
        /\ RAbs(PixelArgs(R_, C_, os)[r][c][1]) = RAbs(PixelArgs(R_, C_, os)[pr][pc][1])
        /\ RAbs(PixelArgs(R_, C_, os)[r][c][2]) = RAbs(PixelArgs(R_, C_, os)[pr][pc][2])
        /\ JitterArgs(R_, C_, scale, px, os)[r][c] = JitterArgs(R_, C_, scale, px, os)[pr][pc]
        /\ (~Nyquist(R_, r) /\ ~Nyquist(C_, c)) =>
               RAbs(SmearArgs(R_, C_, dist, px, os, sn, cs)[r][c]) = RAbs(SmearArgs(R_, C_, dist, px, os, sn, cs)[pr][pc])
\* an extent given in physical units with a pixel scale and oversampling is the same extent in samples
ThmUnits(R_, C_, os, scale, dist, px, sn, cs) ==
    /\ JitterArgs(R_, C_, scale, px, os) = JitterArgs(R_, C_, RMul(RDiv(scale, px), R(os)), R(1), 1)
    /\ SmearArgs(R_, C_, dist, px, os, sn, cs) = SmearArgs(R_, C_, RMul(RDiv(dist, px), R(os)), R(1), 1, sn, cs)
\* zero extent: every argument is zero (H == 1)
ThmZeroExtent(R_, C_, px, os, sn, cs) ==
    /\ \A r \in 1..R_, c \in 1..C_ : Zero(JitterArgs(R_, C_, R(0), px, os)[r][c]) /\ Zero(SmearArgs(R_, C_, R(0), px, os, sn, cs)[r][c])
=============================================================================
