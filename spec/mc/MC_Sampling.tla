----------------------------- MODULE MC_Sampling -----------------------------
(* Evaluates Sampling.tla on a case file: every case is an optical program (pupil plane, then a transform over *)
(* one full period) plus the sampling request that produced its pixel scales; the theorems are INVARIANTs.      *)
EXTENDS Integers, Sequences, TLC, Json, IOUtils
RingN == atoi(IOEnv.RING_N)
RingPhi == JsonDeserialize(IOEnv.PHI_FILE)
INSTANCE Sampling WITH N <- RingN, PhiN <- RingPhi
Cases == JsonDeserialize(IOEnv.CASES)
ASSUME O!PhiOK
VARIABLE i
Init == i = 0
Next == i < Len(Cases) /\ i' = i + 1
Spec == Init /\ [][Next]_i

Prefix(c) == [c EXCEPT !.steps = SubSeq(c.steps, 1, Len(c.steps) - 1)]
Last(c) == c.steps[Len(c.steps)]
W(c) == O!FinalW(Prefix(c))

\* the pixel scales of the case, recomputed from the request by the specification's own formulas
Scales(c) == IF c.req.kind = "nyquist"
             THEN [dx |-> c.req.dx, du |-> LET d == Nyquist(c.wf.lam, FNumber(c.req.z, c.req.n, c.req.dx[1])) IN <<d, d>>]
             ELSE [dx |-> MinSampling(c.wf.lam, c.req.z, c.req.du, c.req.shape, c.req.q), du |-> c.req.du]

Emit == i > 0 => LET c == Cases[i] IN
    PrintT(<<"EMIT", ToJson([id |-> c.id, dx |-> Scales(c).dx, du |-> Scales(c).du, auto |-> AutoTable(W(c), Last(c)),
                             pre |-> FullPeriodPre(W(c), Last(c))])>>)

\* the program of the case uses exactly the scales the request gives
ScalesInv == i > 0 => LET c == Cases[i]  s == Scales(c) IN
    /\ Last(c).du = s.du
    /\ c.steps[1].px = s.dx
RationalThms == i > 0 => LET c == Cases[i] IN
    /\ c.req.kind = "nyquist" => ThmNyquistQ(c.wf.lam, c.req.z, c.req.dx[1], c.req.n)
    /\ c.req.kind = "minq" => ThmMinSamplingQ(c.wf.lam, c.req.z, c.req.du, c.req.shape, c.req.q)
    /\ ThmPeriod(W(c), Last(c), c.ndiam)
Autocorr == i > 0 => ThmAutocorr(W(Cases[i]), Last(Cases[i]))
NyquistNull == i > 0 => ThmNyquistNull(W(Cases[i]), Last(Cases[i]))
\* non-vacuity: every case is on a full period
Pre == i > 0 => FullPeriodPre(W(Cases[i]), Last(Cases[i]))
=============================================================================
