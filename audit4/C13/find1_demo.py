"""C13 finding 1: Spectrum (+,-,*,/,**) Spectrum does its arithmetic in the STORAGE
precision of the operands' values (float16 / float32), although the same operation
with a scalar or vector operand promotes to float64 first.

The result of a binary operation must be the operation applied to each operand's
interpolated value.  For an operand whose values are stored as float16 (or float32)
the linear interpolation (the default method) is carried out partly in that narrow
type (the difference of neighbouring samples is formed in float16 / float32), and the
unit conversions applied to a copy of the right operand (Spectrum.to) are carried out
in it as well.  Consequences shown below:

  A. finite, exactly representable float16 samples give nan / inf, even at the
     operand's own sample points;
  B. the result differs from the interpolated value by ~1e-4 relative (float16) or
     ~1e-8..1e-7 relative (float32), i.e. far more than floating-point rounding of
     the float64 result, and differs from what is obtained for the SAME numbers
     stored as float64;
  C. a float16 flux density in another flux / wavelength unit becomes inf.

Exit code 1 when the violation is observed, 0 otherwise.
"""
import os
import sys
import warnings

sys.path.insert(0, os.environ.get('LENTIL_REPO', '.'))

import numpy as np
import lentil
from lentil.radiometry import Spectrum

warnings.simplefilter('ignore')
print('lentil from', lentil.__file__)

bad = []


def expected(a, b, grid, op):
    """op applied to the (float64) linear interpolants of the stored numbers."""
    ia = np.interp(grid, a.wave.astype(float), a.value.astype(np.float64), left=0, right=0)
    ib = np.interp(grid, b.wave.astype(float), b.value.astype(np.float64), left=0, right=0)
    return op(ia, ib)


# ---------------------------------------------------------------- A. nan / inf
w3 = np.array([400., 500., 600.])
zero = Spectrum(np.array([400., 450., 500., 550., 600.]), np.zeros(5))
a16 = Spectrum(w3, np.array([60000, -60000, 60000], dtype=np.float16))
a64 = Spectrum(w3, a16.value.astype(np.float64))       # the same numbers
r16 = a16 + zero
r64 = a64 + zero
print('A. float16 samples', a16.value, '+ 0 on a 50 nm grid')
print('   result (float16 storage):', r16.value)
print('   result (float64 storage):', r64.value)
print('   a16 + 0 (scalar)        :', (a16 + 0).value)
if not np.array_equal(r16.value, r64.value):
    bad.append('A: finite float16 samples give %s instead of %s' % (r16.value, r64.value))

# ------------------------------------------------------- B. loss of precision
for dt, vals in [(np.float16, [0.1, 1000.]), (np.float32, [1e-3, 3e4])]:
    w2 = np.array([400., 500.])
    grid3 = Spectrum(np.array([400., 450., 500.]), np.zeros(3))
    s = Spectrum(w2, np.array(vals, dtype=dt))
    s64 = Spectrum(w2, s.value.astype(np.float64))
    for name, op in [('add', np.add), ('subtract', np.subtract)]:
        r = getattr(s, name)(grid3)
        rr = getattr(s64, name)(grid3)
        exp = expected(s, grid3, r.wave, op)
        rel = np.max(np.abs(r.value - exp) / np.abs(exp))
        rel64 = np.max(np.abs(rr.value - exp) / np.abs(exp))
        print('B. %-8s %-8s result %s  expected %s  rel.err %.2e (float64 storage: %.1e)'
              % (np.dtype(dt).name, name, r.value, exp, rel, rel64))
        if rel > 1e-9 and rel64 < 1e-12:
            bad.append('B: %s %s: relative error %.1e with respect to the interpolated value '
                       '(value at the operand\'s own last sample: %r, stored sample %r)'
                       % (np.dtype(dt).name, name, rel, r.value[-1], float(s.value[-1])))

# commutativity is untouched, but the outcome depends on the storage type of the operand:
# the very same numbers, float64 versus float32
rng = np.random.default_rng(0)
wa = np.linspace(400, 700, 31)
wb = np.linspace(503, 801, 43)
va = rng.uniform(0, 3, 31).astype(np.float32)
vb = rng.uniform(0, 3, 43)
p32 = Spectrum(wa, va) * Spectrum(wb, vb)
p64 = Spectrum(wa, va.astype(np.float64)) * Spectrum(wb, vb)
d = np.max(np.abs(p32.value - p64.value)) / np.max(np.abs(p64.value))
print('B. float32 product vs the same numbers in float64: max difference %.1e (relative to max)' % d)
if d > 1e-9:
    bad.append('B: product of a float32-valued spectrum differs by %.1e from the product of the '
               'same numbers stored as float64' % d)

# -------------------------------------------- C. unit handling in float16
sun16 = Spectrum(np.array([400., 500., 600.]), np.array([1.5, 1.75, 1.5], dtype=np.float16),
                 'nm', 'wlam')                               # W m^-2 nm^-1
sun64 = Spectrum(sun16.wave, sun16.value.astype(np.float64), 'nm', 'wlam')
other = Spectrum(np.array([400., 500., 600.]), np.array([1e18, 1e18, 1e18]), 'nm', 'photlam')
c16 = other + sun16            # sun is expressed in photlam on a copy
c64 = other + sun64
print('C. photlam + wlam(float16):', c16.value, ' with float64 storage:', c64.value)
if not np.allclose(c16.value, c64.value, rtol=1e-6):
    bad.append('C: photlam + wlam(float16) = %s instead of %s' % (c16.value, c64.value))
t_m = Spectrum(np.array([3.5e-7, 4.5e-7, 5.5e-7, 6.5e-7]), np.ones(4), 'm')   # a transmission, in metres
m16 = t_m * sun16              # sun is expressed per metre on a copy
m64 = t_m * sun64
print('   transmission[m] * wlam(float16)[nm]:', m16.value, ' with float64 storage:', m64.value)
if not np.allclose(m16.value, m64.value, rtol=1e-6, equal_nan=True):
    bad.append('C: transmission[m] * wlam(float16)[nm] = %s instead of %s' % (m16.value, m64.value))

# operands must be unchanged (they are) - not part of the violation
assert np.array_equal(a16.value, [60000, -60000, 60000]) and sun16.valueunit == 'wlam'

if bad:
    print('\nVIOLATION of C13 (result is not the operation applied to the interpolated values; '
          'it depends on the storage type of the samples):')
    for b in bad:
        print('  -', b)
    sys.exit(1)
print('no violation observed')
sys.exit(0)
