"""C16 finding 4: adc() ignores a saturation capacity of 0 (`if saturation_capacity:`):
nothing is clipped and no saturation warning is given."""
import os, sys, warnings
sys.path.insert(0, os.environ['LENTIL_REPO'])
import numpy as np
from lentil.detector import adc

fail = []
frame = np.array([[5., 0., -1., 1000.]])
for cap in (0, 0.0, np.int64(0)):
    with warnings.catch_warnings(record=True) as w:
        warnings.simplefilter('always')
        out = adc(frame, 2, saturation_capacity=cap, warn_saturate=True)
    nsat = sum('saturated' in str(x.message) for x in w)
    want = np.maximum(np.floor(2*np.minimum(frame, cap)), 0)      # = 0 everywhere
    print('capacity %r -> %s (expected %s), saturation warnings: %d (expected 1)' % (cap, out[0], want[0], nsat))
    if not np.array_equal(out, want):
        fail.append('capacity %r: frame %s digitised to %s, electron count not clipped' % (cap, frame[0], out[0]))
    if nsat != 1:
        fail.append('capacity %r: pixels exceed the capacity but no warning' % (cap,))
# control: the smallest positive capacity behaves
with warnings.catch_warnings(record=True) as w:
    warnings.simplefilter('always')
    print('capacity 1 ->', adc(frame, 2, saturation_capacity=1, warn_saturate=True)[0], len(w), 'warning')

if fail:
    print('\nVIOLATION of C16 (floor of the gain polynomial at the electron count clipped to the saturation '
          'capacity; warning exactly when a pixel exceeds capacity):')
    for f in fail:
        print('  -', f)
    sys.exit(1)
print('no violation observed')
sys.exit(0)
