"""C16 finding 3: adc(dtype=...) wraps DN that do not fit the requested integer
type: negative DN, and DN that decrease when the electron count increases."""
import os, sys, warnings
sys.path.insert(0, os.environ.get('LENTIL_REPO', '.'))
import numpy as np
import lentil

print('lentil from', lentil.__file__)
bad = False
with warnings.catch_warnings(record=True) as w:
    warnings.simplefilter('always')
    a = lentil.detector.adc(np.array([[100., 200.]]), 1, dtype=np.int8)
    b = lentil.detector.adc(np.array([[30000., 40000.]]), 1, dtype=np.int16)
    c = lentil.detector.adc(np.array([[100., 40000., 70000.]]), 1, saturation_capacity=100000,
                            warn_saturate=True, dtype=np.uint16)
print('int8   e=[100,200]          ->', a)
print('int16  e=[30000,40000]      ->', b)
print('uint16 e=[100,40000,70000]  ->', c, ' warnings:', [str(x.message) for x in w])
if (a < 0).any() or (b < 0).any():
    print('VIOLATION: negative DN returned')
    bad = True
if np.any(np.diff(c.astype(float)) < 0):
    print('VIOLATION: DN decrease while the electron count increases (gain = 1), silently')
    bad = True
sys.exit(1 if bad else 0)
