"""C07 finding 2: a SCALAR amplitude over a mask stored in single or half precision is
rounded to the precision of the mask before it multiplies the field. The mask is
documented as a binary array (its values carry no information beyond zero / non-zero),
yet Plane(amplitude=0.3, mask=<float16 mask>) transmits 0.30004883 instead of 0.3
(relative error 1.6e-4) and a float32 mask gives 0.30000001 (4e-8); the same plane with
the mask stored as float64, uint8 or bool transmits exactly 0.3.
"""
import os
import sys

sys.path.insert(0, os.environ.get('LENTIL_REPO', '.'))

import numpy as np
import lentil

print('lentil from', lentil.__file__, '| numpy', np.__version__)

wavelength = 500e-9
amplitude = 0.3
support = np.zeros((16, 16))
support[3:13, 4:12] = 1
opd = np.random.default_rng(0).normal(size=support.shape) * 1e-7   # float64 OPD map

expected = amplitude * support * np.exp(2j * np.pi * opd / wavelength)

failed = []
for dtype in (np.float64, bool, np.uint8, np.float32, np.float16):
    plane = lentil.Plane(amplitude=amplitude, opd=opd, mask=support.astype(dtype))
    w = lentil.Wavefront(wavelength) * plane
    rel = np.max(np.abs(w.field - expected)) / amplitude
    irel = np.max(np.abs(w.intensity - np.abs(expected)**2)) / amplitude**2
    print(f'mask dtype {np.dtype(dtype).name:8s} |field| inside the mask = {np.abs(w.field[8, 8])!r:22}'
          f' relative field error = {rel:.3e}   relative intensity error = {irel:.3e}')
    if rel > 1e-12:
        failed.append(np.dtype(dtype).name)

if failed:
    print()
    print('VIOLATION: inside the mask the field is not amplitude*exp(+2*pi*i*OPD/wavelength):')
    print('  the scalar amplitude 0.3 was rounded to the storage type of the (binary) mask',
          failed)
    sys.exit(1)

print('no violation observed')
sys.exit(0)
