"""C08 finding 3: Rotate and Flip carry plane type 'none', documented 'transform'.

docs/user/fundamentals/planes.rst ("ptype" section) tabulates the plane type of
every public plane class:

    none       Plane
    pupil      Pupil
    image      Image
    tilt       Tilt, DispersiveTilt
    transform  Rotate, Flip

Rotate() and Flip() are constructed with ptype 'none'.  Consequently the
plane-type state machine (Plane.multiply / _mul_ptype_table) classifies them as
'none' planes, which the documented table forbids for pupil and image
wavefronts, whereas the documented type 'transform' is allowed for every
wavefront type.  No public class has plane type 'transform' at all.

The demo (a) compares the ptype of every documented class with the documented
table and (b) feeds Rotate/Flip to the library's own type check, independently
of the (separately broken) Rotate.multiply / Flip.multiply overrides.
"""
import os
import sys
import warnings

sys.path.insert(0, os.environ['LENTIL_REPO'])
warnings.simplefilter('ignore')

import lentil
import lentil.plane

documented = {
    'Plane': (lambda: lentil.Plane(), 'none'),
    'Pupil': (lambda: lentil.Pupil(), 'pupil'),
    'Image': (lambda: lentil.Image(), 'image'),
    'Tilt': (lambda: lentil.Tilt(x=1e-6, y=0), 'tilt'),
    'DispersiveTilt': (lambda: lentil.DispersiveTilt(trace=[1, 0], dispersion=[1, 5e-7]), 'tilt'),
    'Rotate': (lambda: lentil.Rotate(angle=30), 'transform'),
    'Flip': (lambda: lentil.Flip(axis=0), 'transform'),
}

bad = []
for name, (make, doc_ptype) in documented.items():
    got = str(make().ptype)
    if got != doc_ptype:
        bad.append(f"{name}().ptype is '{got}', documented '{doc_ptype}'")

# the library's own state machine, applied to these planes
for name in ('Rotate', 'Flip'):
    plane = documented[name][0]()
    for wtype in ('pupil', 'image'):
        w = lentil.Wavefront(500e-9, ptype=getattr(lentil, wtype))
        allowed = lentil.plane._can_mul_ptype(w.ptype, plane.ptype)
        if not allowed:
            bad.append(f"type check refuses {name} x {wtype} wavefront "
                       f"(documented: transform x {wtype} -> {wtype})")
        try:
            out = lentil.Plane.multiply(plane, w)   # base-class multiply = the documented rule
            if str(out.ptype) != wtype:
                bad.append(f'Plane.multiply({name}(), {wtype} wavefront) -> {out.ptype}')
        except TypeError as e:
            bad.append(f'Plane.multiply({name}(), {wtype} wavefront) raises TypeError: {e}')

public_transform = [n for n, (make, _) in documented.items() if str(make().ptype) == 'transform']
if not public_transform:
    bad.append("no documented plane class has plane type 'transform'")

if bad:
    print("VIOLATION of C08: plane type of a documented plane class disagrees with the documented table")
    for b in bad:
        print('  ' + b)
    sys.exit(1)
print('ok')
sys.exit(0)
