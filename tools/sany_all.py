#!/venv/bin/python
"""Parse every TLA+ module under /verif/spec with SANY (run by setup.sh)."""
import os, sys
from concurrent.futures import ThreadPoolExecutor
sys.path.insert(0, os.path.dirname(os.path.dirname(os.path.abspath(__file__))))
from harness.tlc import sany, SPEC
mods = [os.path.join(r, f) for r, _, fs in os.walk(SPEC) for f in fs if f.endswith('.tla')]
with ThreadPoolExecutor(8) as ex:
    res = list(ex.map(sany, mods))
bad = 0
for m, (ok, out) in zip(mods, res):
    if not ok:
        bad += 1
        print('SANY FAILED', m); print(out[-1500:])
print(f'{len(mods)} modules parsed, {bad} failed')
sys.exit(1 if bad else 0)
