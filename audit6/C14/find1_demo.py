"""C14 / repair-neighbour: (unitless Spectrum) / (flux-density Spectrum) is labelled a
flux density, so a wavelength-unit conversion rescales it in the wrong direction.

T is a unitless transmission, F a photon flux density per nm.  q = T / F is a
RECIPROCAL density: the product q * F is the pure number T again, whatever
wavelength unit q and F are expressed in.  The library labels q 'photlam'
(rule added by the repair "transmission * flux loses the flux unit", applied to
every ufunc, not only to multiply), so q.to('um') / q.sample(..., waveunit='um')
DIVIDES its values by 1e-3 where a reciprocal density has to be MULTIPLIED by
1e-3.  Together with F expressed per um (x1000, correct) the pure number
q*F = T comes out 1e6 times too large after the conversion.
(Before the repair the result was labelled None and was off by 1e3.)

exit code 1 when the violation is observed, 0 otherwise.
"""
import os
import sys

sys.path.insert(0, os.environ['LENTIL_REPO'])

import numpy as np
import lentil
from lentil.radiometry import Spectrum

print('lentil from', lentil.__file__)

w = np.linspace(400., 900., 101)                      # nm
T = Spectrum(w, np.linspace(0.2, 0.9, w.size), 'nm', None)        # transmission
F = Spectrum(w, np.linspace(3., 5., w.size), 'nm', 'photlam')     # ph/s/m^2/nm

q = T / F
print('valueunit of T / F :', q.valueunit)

x_nm = np.array([455.3, 620.7, 803.1])
x_um = x_nm * 1e-3

t = T.sample(x_nm, waveunit='nm')

# in nm everything is consistent: (T/F) * F == T
prod_nm = q.sample(x_nm, waveunit='nm') * F.sample(x_nm, waveunit='nm')
# the same product with both factors expressed per micron (the library's own conversions)
prod_um = q.sample(x_um, waveunit='um') * F.sample(x_um, waveunit='um')

# and through the in-place route
q_um = q.copy(); q_um.to('um')
F_um = F.copy(); F_um.to('um')
prod_um2 = q_um.sample(x_um, waveunit='um') * F_um.sample(x_um, waveunit='um')

print('T at x                          :', t)
print('(T/F)*F, both per nm            :', prod_nm, ' ratio to T', prod_nm / t)
print('(T/F)*F, both per um (sample)   :', prod_um, ' ratio to T', prod_um / t)
print('(T/F)*F, both per um (to)       :', prod_um2, ' ratio to T', prod_um2 / t)

ok_nm = np.allclose(prod_nm, t, rtol=1e-3)
ok_um = np.allclose(prod_um, t, rtol=1e-3) and np.allclose(prod_um2, t, rtol=1e-3)
if ok_nm and not ok_um:
    print('VIOLATION: the pure number (T/F)*F = T depends on the wavelength unit the '
          'two factors are expressed in (factor %.3g): T/F is labelled %r and is '
          'rescaled like a density although it is a reciprocal density.'
          % (np.median(prod_um / t), q.valueunit))
    sys.exit(1)
print('no violation observed')
sys.exit(0)
