"""C02 finding 2: propagate_fft silently replaces alpha = dx*du/(wavelength*f*oversample)
by 1/round(1/alpha) on each axis and returns a Wavefront whose wavelength is not the
input wavelength.  Whenever 1/alpha is not an integer the samples it returns are not the
Fraunhofer sum for the requested (wavelength, focal length, pixelscale) - and with
per-axis pixel scales they are not the Fraunhofer sum for the *returned* wavelength
either (only min() of the two per-axis wavelengths is kept).  propagate_dft, given the
same arguments, returns the stated values.
"""
import os, sys
sys.path.insert(0, os.environ.get('LENTIL_REPO', '.'))
import numpy as np
import lentil

def fraunhofer(f, alpha, shape_out):
    m, n = f.shape
    M, N = shape_out
    R = np.arange(m) - m//2; S = np.arange(n) - n//2
    U = np.arange(M) - M//2; V = np.arange(N) - N//2
    E1 = np.exp(-2j*np.pi*alpha[0]*np.outer(U, R))
    E2 = np.exp(-2j*np.pi*alpha[1]*np.outer(S, V))
    return np.sqrt(alpha[0]*alpha[1]) * E1 @ f @ E2

rng = np.random.default_rng(0)
n = 32
amp = np.ones((n, n)); opd = 3e-8*rng.standard_normal((n, n))
wl, fl, osamp = 550e-9, 1.37, 2
dx = np.array([1e-3, 1e-3])
du = np.array([5e-6, 6.5e-6])            # per-axis detector pitch
alpha = dx*du/(wl*fl*osamp)
print('1/alpha per axis =', 1/alpha)      # 301.4, 231.85 -> not integers
shape = (40, 40); shape_out = (80, 80)

w = lentil.Wavefront(wl) * lentil.Pupil(amplitude=amp, opd=opd, pixelscale=tuple(dx), focal_length=fl)
f_in = amp*np.exp(2j*np.pi*opd/wl)

ref = fraunhofer(f_in, alpha, shape_out)
o_dft = lentil.propagate_dft(w, tuple(du), shape=shape, oversample=osamp)
o_fft = lentil.propagate_fft(w, tuple(du), shape=shape, oversample=osamp)

e_dft = np.abs(o_dft.field-ref).max()/np.abs(ref).max()
e_fft = np.abs(o_fft.field-ref).max()/np.abs(ref).max()
print('propagate_dft: wavelength %.6e, max err vs Fraunhofer sum / peak = %.2e' % (o_dft.wavelength, e_dft))
print('propagate_fft: wavelength %.6e, max err vs Fraunhofer sum / peak = %.2e' % (o_fft.wavelength, e_fft))

# is it at least the Fraunhofer sum for the wavelength the result claims to carry?
alpha_claimed = dx*np.asarray(o_fft.pixelscale)*osamp/(o_fft.wavelength*o_fft.focal_length*osamp)
ref_claimed = fraunhofer(f_in, alpha_claimed, shape_out)
e_claimed = np.abs(o_fft.field-ref_claimed).max()/np.abs(ref_claimed).max()
print('propagate_fft vs Fraunhofer sum at its own returned wavelength: %.2e' % e_claimed)

fail = False
if o_fft.wavelength != wl:
    print('VIOLATION: result does not carry the input wavelength (%.9e != %.9e)' % (o_fft.wavelength, wl)); fail = True
if e_fft > 1e-9:
    print('VIOLATION: evaluated samples are not the Fraunhofer sum with alpha = dx*du/(wl*f*oversample)'); fail = True
if e_claimed > 1e-9:
    print('VIOLATION: ... nor the Fraunhofer sum for the wavelength the result carries (per-axis scales)'); fail = True
sys.exit(1 if fail else 0)
