"""C20 - array geometry helpers share one centre convention (index floor(n/2)).

C (code -> spec): every helper of lentil.util / lentil.helper / lentil.shape / lentil.segmented is called on seeded
   integer data of every small shape (even/odd, non-square, cubes, mixed grow/shrink); each call and what it returned
   is recorded as an event and TLC recomputes the result from Geometry.tla (pixel-set / index-map semantics on the
   Grid convention) and checks the theorems (origin preserved, pad-then-crop identity, rebin sum, slice/offset
   consistency, ring counts) on the event's data.  Antialiased shape values are floats: their range and symmetry are
   checked numerically by the recorder (numeric leaf), the binary masks by TLC.
"""
import itertools
import json
import os
import random
import uuid

import numpy as np

from harness.core import import_lentil
from harness.tlc import run_tlc, WORK, TLCError

LEVEL = 'model_checking'


def ints(a):
    return np.asarray(a).astype(int).tolist()


def record(lentil, tier, seed):
    rng = random.Random(2020 + seed)
    nr = np.random.default_rng(2020 + seed)
    q = tier == 'quick'
    ev = []
    leaf = []            # numeric-leaf failures found by the recorder itself

    def add(e):
        e['id'] = len(ev)
        ev.append(e)
    u, h = lentil.util, lentil.helper
    sizes = range(1, 8) if q else range(1, 10)
    # ---- pad: every (n -> N) per axis incl. mixed grow/shrink --------------------------------------
    pairs = [(m, n, M, N) for m in sizes for n in sizes for M in sizes for N in sizes]
    for (m, n, M, N) in (rng.sample(pairs, 500) if q else rng.sample(pairs, 4000)):
        a = nr.integers(1, 9, size=(m, n))
        try:
            out = u.pad(a, (M, N))
            add({'act': 'pad', 'a': ints(a), 'sh': [M, N], 'out': ints(out)})
        except Exception as ex:
            add({'act': 'pad', 'a': ints(a), 'sh': [M, N], 'out': [[type(ex).__name__]]})
    cubes = [(k, m, n, M, N) for k in (1, 2, 3) for m in range(1, 6) for n in range(1, 6) for M in range(1, 6) for N in range(1, 6)]
    for (k, m, n, M, N) in rng.sample(cubes, 250 if q else 1500):
        cu = nr.integers(1, 9, size=(k, m, n))
        try:
            out = u.pad(cu, (M, N))
            add({'act': 'padcube', 'cu': ints(cu), 'sh': [M, N], 'out': ints(out)})
        except Exception as ex:
            add({'act': 'padcube', 'cu': ints(cu), 'sh': [M, N], 'out': [[[type(ex).__name__]]]})
    # window(shape=) is pad
    for _ in range(60 if q else 400):
        m, n = rng.randint(2, 7), rng.randint(2, 7)
        M, N = rng.randint(1, m), rng.randint(1, n)
        a = nr.integers(1, 9, size=(m, n))
        add({'act': 'pad', 'a': ints(a), 'sh': [M, N], 'out': ints(u.window(a, shape=(M, N)))})
    # window(slice=) with the slice of the centred crop is that crop - for images and for cubes (depth first), with and without shape=
    for _ in range(60 if q else 400):
        k, m, n = rng.randint(1, 3), rng.randint(2, 7), rng.randint(2, 7)
        M, N = rng.randint(1, m), rng.randint(1, n)
        r0, c0 = m // 2 - M // 2, n // 2 - N // 2
        sl = (r0, r0 + M, c0, c0 + N)
        a = nr.integers(1, 9, size=(m, n))
        cu = nr.integers(1, 9, size=(k, m, n))
        for kw in ({'slice': sl}, {'slice': sl, 'shape': (M, N)}):
            try:
                add({'act': 'pad', 'a': ints(a), 'sh': [M, N], 'out': ints(u.window(a, **kw))})
            except Exception as ex:
                add({'act': 'pad', 'a': ints(a), 'sh': [M, N], 'out': [[type(ex).__name__]]})
            try:
                add({'act': 'padcube', 'cu': ints(cu), 'sh': [M, N], 'out': ints(u.window(cu, **kw))})
            except Exception as ex:
                add({'act': 'padcube', 'cu': ints(cu), 'sh': [M, N], 'out': [[[type(ex).__name__]]]})
    # ---- subarray -------------------------------------------------------------------------------------
    for _ in range(300 if q else 2500):
        m, n = rng.randint(1, 7), rng.randint(1, 7)
        M, N = rng.randint(1, 7), rng.randint(1, 7)
        sh = (rng.randint(-3, 3), rng.randint(-3, 3))
        a = nr.integers(1, 9, size=(m, n))
        try:
            out = u.subarray(a, (M, N), shift=sh)
            add({'act': 'subarray', 'a': ints(a), 'sh': [M, N], 'shift': list(sh), 'err': 'none', 'out': ints(out)})
        except ValueError:
            add({'act': 'subarray', 'a': ints(a), 'sh': [M, N], 'shift': list(sh), 'err': 'ValueError', 'out': []})
        except Exception as ex:
            add({'act': 'subarray', 'a': ints(a), 'sh': [M, N], 'shift': list(sh), 'err': type(ex).__name__, 'out': []})
    # ---- boundary / boundary_slice / slice_offset -----------------------------------------------------------
    for _ in range(400 if q else 3000):
        m, n = rng.randint(1, 7), rng.randint(1, 7)
        a = (nr.uniform(size=(m, n)) < 0.35).astype(int) * nr.integers(1, 4, size=(m, n))
        if not a.any():
            a[rng.randrange(m), rng.randrange(n)] = 2
        thr = rng.choice((0, 0, 1))
        if not (a > thr).any():
            thr = 0
        add({'act': 'boundary', 'a': ints(a), 'thr': thr, 'out': [int(v) for v in u.boundary(a, thr)]})
        pad = rng.choice(((0, 0), (1, 1), (2, 0), (0, 3)))
        s = h.boundary_slice(a, thr, pad=pad if rng.random() < 0.7 else pad[0])
        pad_eff = pad if not np.isscalar(pad) else (pad, pad)
        if ev[-1]['act'] == 'boundary':
            pass
        # (scalar pad means the same on both axes)
        sl = h.boundary_slice(a, thr, pad=pad)
        off = h.slice_offset(sl, a.shape)
        add({'act': 'boundary_slice', 'a': ints(a), 'thr': thr, 'pad': list(pad),
             'out': [int(sl[0].start), int(sl[0].stop), int(sl[1].start), int(sl[1].stop)], 'off': [int(off[0]), int(off[1])]})
    # ---- rebin --------------------------------------------------------------------------------------------
    for _ in range(150 if q else 1000):
        f = rng.choice((1, 2, 3))
        m, n = f * rng.randint(1, 3), f * rng.randint(1, 3)
        # counts near the top of narrow integer types, masks of booleans, floats: a block sum is the sum of its samples
        dt = rng.choice((np.int64, np.uint8, np.int16, np.uint16, np.float32, bool))
        hi_ = {np.uint8: 256, np.int16: 30000, np.uint16: 60000, bool: 2}.get(dt, 9)
        a = nr.integers(0, hi_, size=(m, n)).astype(dt)
        cu = nr.integers(0, hi_, size=(2, m, n)).astype(dt)
        # the same samples in another memory layout are the same frame: Fortran order, a transposed array, every second sample of a
        # larger one, a window of a larger one, a cube whose depth axis was moved
        lay = rng.choice(('C', 'F', 'T', 'strided', 'window', 'C'))
        if lay == 'F':
            a, cu = np.asfortranarray(a), np.asfortranarray(cu)
        elif lay == 'T':
            a, cu = np.ascontiguousarray(a.T).T, np.moveaxis(np.ascontiguousarray(np.moveaxis(cu, 0, -1)), -1, 0)
        elif lay == 'strided':
            big = np.zeros((2 * m, 2 * n), dtype=a.dtype)
            big[::2, ::2] = a
            a = big[::2, ::2]
            bigc = np.zeros((2, 2 * m, 2 * n), dtype=cu.dtype)
            bigc[:, ::2, ::2] = cu
            cu = bigc[:, ::2, ::2]
        elif lay == 'window':
            big = np.full((m + 3, n + 2), 7).astype(a.dtype)
            big[2:2 + m, 1:1 + n] = a
            a = big[2:2 + m, 1:1 + n]
        add({'act': 'rebin', 'a': ints(a), 'f': f, 'out': ints(u.rebin(a, f))})
        add({'act': 'rebincube', 'cu': ints(cu), 'f': f, 'out': ints(u.rebin(cu, f))})
    # ---- centroid (rational: value * total must be the integer moment) ---------------------------------------
    for _ in range(200 if q else 1500):
        m, n = rng.randint(1, 7), rng.randint(1, 7)
        a = nr.integers(0, 6, size=(m, n))
        if a.sum() == 0:
            a[rng.randrange(m), rng.randrange(n)] = 1        # zero-sum images have no centroid (excluded by the statement's wording)
        r, c = u.centroid(a)
        t = int(a.sum())
        rr, cc = r * t, c * t
        if abs(rr - round(rr)) > 1e-8 or abs(cc - round(cc)) > 1e-8:
            leaf.append(('centroid-off-lattice', {'a': ints(a), 'centroid': [float(r), float(c)]}))
        add({'act': 'centroid', 'a': ints(a), 'out': [int(round(rr)), int(round(cc)), t]})
    # ---- mesh --------------------------------------------------------------------------------------------------
    for (m, n) in itertools.product(range(1, 7), repeat=2):
        sh = (rng.randint(-2, 2), rng.randint(-2, 2))
        r, c = h.mesh((m, n), shift=sh)
        if np.abs(r - np.round(r)).max() > 0 or np.abs(c - np.round(c)).max() > 0:
            leaf.append(('mesh-not-integer', {'shape': [m, n]}))
        add({'act': 'mesh', 'sh': [m, n], 'shift': list(sh), 'r': ints(np.round(r)), 'c': ints(np.round(c))})
    # ---- shapes ------------------------------------------------------------------------------------------------
    nshape = 120 if q else 900
    for _ in range(nshape):
        m, n = rng.randint(5, 12), rng.randint(5, 12)
        kind = rng.choice(('circle', 'hexagon', 'hexagon-rot', 'rectangle', 'rectangle-rot'))
        rad = rng.choice((1.3, 2.2, 2.7, 3.4, 4.1))
        w, hgt = rng.choice((2.0, 3.0, 4.4, 5.0)), rng.choice((1.0, 2.6, 4.0))
        ang = rng.choice((30, 45, 17.5))

        def draw(shift, antialias):
            if kind == 'circle':
                return lentil.circle((m, n), rad, shift=shift, antialias=antialias)
            if kind == 'hexagon':
                return lentil.hexagon((m, n), rad, shift=shift, antialias=antialias)
            if kind == 'hexagon-rot':
                return lentil.hexagon((m, n), rad, shift=shift, rotate=True, antialias=antialias)
            if kind == 'rectangle':
                return lentil.rectangle((m, n), w, hgt, shift=shift, antialias=antialias)
            return lentil.rectangle((m, n), w, hgt, shift=shift, angle=ang, antialias=antialias)
        # 'no antialiasing' is a truth value however it is spelled (False, 0, numpy.False_, the outcome of a comparison)
        b = draw((0, 0), rng.choice((False, False, 0, np.False_, np.bool_(0), np.float64(1.0) > 2)))
        if not np.all((b == 0) | (b == 1)):
            leaf.append(('shape-not-binary', {'kind': kind, 'shape': [m, n]}))
        add({'act': 'shape', 'kind': kind, 'm': ints(b), 'halfturn': True, 'mirror': kind in ('circle', 'hexagon', 'hexagon-rot', 'rectangle')})
        d = (rng.randint(-2, 2), rng.randint(-2, 2))
        b2 = draw(d, False)
        add({'act': 'translate', 'kind': kind, 'm1': ints(b), 'm2': ints(b2), 'd': list(d)})
        # antialiased: range [0, 1], half-turn symmetry and integer translation to rounding (numeric leaf)
        a0 = draw((0, 0), True)
        if a0.min() < 0 or a0.max() > 1:
            leaf.append(('shape-range', {'kind': kind, 'min': float(a0.min()), 'max': float(a0.max())}))
        a1 = draw(d, True)
        ci, cj = m // 2, n // 2
        for i in range(m):
            for j in range(n):
                pi, pj = 2 * ci - i, 2 * cj - j
                if 0 <= pi < m and 0 <= pj < n and abs(a0[i, j] - a0[pi, pj]) > 1e-9:
                    leaf.append(('shape-halfturn-antialiased', {'kind': kind, 'shape': [m, n], 'at': [i, j]}))
                ii, jj = i + d[0], j + d[1]
                if 0 <= ii < m and 0 <= jj < n and abs(a1[ii, jj] - a0[i, j]) > 1e-9:
                    leaf.append(('shape-translation-antialiased', {'kind': kind, 'shape': [m, n], 'd': list(d)}))
    # spider: values in [0, 1], binary without antialiasing
    for _ in range(20 if q else 100):
        sp = lentil.spider((rng.randint(6, 12), rng.randint(6, 12)), rng.choice((1.0, 2.5)), angle=rng.choice((0, 30, 90, 135)), antialias=False)
        add({'act': 'shape', 'kind': 'spider', 'm': ints(sp), 'halfturn': False, 'mirror': False})
        sa = lentil.spider((9, 10), 2.0, angle=rng.choice((0, 45, 120)))
        if sa.min() < -1e-12 or sa.max() > 1 + 1e-12:
            leaf.append(('shape-range', {'kind': 'spider'}))
    # a frame held in half or single precision (every value exactly representable) is the same frame: same centroid, same block sums
    for _ in range(4 if q else 20):
        shc = (rng.choice((120, 151, 200)), rng.choice((120, 151, 200)))
        fr_ = lentil.circle(shc, rng.choice((40.3, 55.1)), shift=(rng.randint(-9, 9), rng.randint(-9, 9)), antialias=False) * rng.choice((1.0, 3.0))
        c64 = lentil.centroid(fr_)
        for fdt in (np.float16, np.float32):
            c_n = lentil.centroid(fr_.astype(fdt))
            if max(abs(c_n[0] - c64[0]), abs(c_n[1] - c64[1])) > 1e-6:
                leaf.append(('centroid-depends-on-the-float-type-of-the-frame', {'dtype': np.dtype(fdt).name, 'shape': list(shc), 'float64': [float(c64[0]), float(c64[1])],
                                                                                  'observed': [float(c_n[0]), float(c_n[1])]}))
        blk = np.full((8, 12), 4096.0) + 4.0 * np.arange(96).reshape(8, 12)        # exactly representable in half precision
        r64 = lentil.rebin(blk, 4)
        for fdt in (np.float16, np.float32):
            if not np.array_equal(blk.astype(fdt).astype(float), blk):
                continue
            r_n = np.asarray(lentil.rebin(blk.astype(fdt), 4), dtype=float)
            # ... and as slices of a cube
            r_c = np.asarray(lentil.rebin(np.array([blk, 2 * blk, blk]).astype(fdt), 4), dtype=float)
            if not (np.allclose(r_n, r64, rtol=1e-9, atol=0) and np.allclose(r_c, np.array([r64, 2 * r64, r64]), rtol=1e-9, atol=0)):
                leaf.append(('rebin-depends-on-the-float-type-of-the-frame', {'dtype': np.dtype(fdt).name, 'float64': r64.tolist(), 'observed': r_n.tolist(),
                                                                               'cube_ok': bool(np.allclose(r_c, np.array([r64, 2 * r64, r64]), rtol=1e-9, atol=0))}))
    # bounding slices of a mask given as nested lists (array_like, as for every other helper)
    lst = [[0, 0, 0, 0, 0], [0, 0, 1, 1, 0], [0, 0, 1, 1, 0], [0, 0, 0, 0, 0]]
    try:
        ok_l = lentil.helper.boundary_slice(lst) == lentil.helper.boundary_slice(np.array(lst))
    except Exception as ex:
        ok_l = False
    if not ok_l:
        leaf.append(('boundary-slice-of-a-nested-list', {'mask': lst}))
    # the offset of a slice is a SIGNED number of samples whatever integer type the slice bounds and the shape arrive in
    a_u = np.zeros((9, 12))
    a_u[2:7, 1:5] = 1
    ref_off = tuple(int(v) for v in lentil.helper.slice_offset(lentil.helper.boundary_slice(a_u), a_u.shape))
    for udt in (np.uint8, np.uint16, np.uint64, np.int8):
        s_u = (slice(udt(2), udt(7)), slice(udt(1), udt(5)))
        try:
            got_off = tuple(int(v) for v in lentil.helper.slice_offset(s_u, np.array(a_u.shape, dtype=udt)))
        except Exception as ex:
            got_off = type(ex).__name__
        if got_off != ref_off:
            leaf.append(('slice-offset-depends-on-the-integer-type', {'dtype': np.dtype(udt).name, 'expected': list(ref_off), 'observed': got_off if isinstance(got_off, str) else list(got_off)}))
    # a rotation is a number of degrees however it is typed (a python int, a numpy integer of any width as read from a header):
    # the drawing is the same, and a rectangle turned by 180 degrees is the rectangle
    for _ in range(6 if q else 30):
        sh_ = (rng.randint(60, 101), rng.randint(60, 101))
        deg = rng.choice((180, 90, 30, 45, 120))
        ref_r = lentil.rectangle(sh_, 40, 12, angle=deg, antialias=False)
        ref_s = lentil.spider(sh_, 3.0, angle=deg, antialias=False)
        for tp in (np.uint8, np.int16, np.uint16, np.int64, np.float32):
            r_t = lentil.rectangle(sh_, 40, 12, angle=tp(deg), antialias=False)
            s_t = lentil.spider(sh_, 3.0, angle=tp(deg), antialias=False)
            if not (np.array_equal(r_t, ref_r) and np.array_equal(s_t, ref_s)):
                leaf.append(('rotation-depends-on-the-type-of-the-angle', {'degrees': deg, 'type': np.dtype(tp).name, 'shape': list(sh_),
                                                                          'rectangle_samples_differing': int((r_t != ref_r).sum()),
                                                                          'spider_samples_differing': int((s_t != ref_s).sum())}))
        if deg == 180 and not np.array_equal(lentil.rectangle(sh_, 40, 12, angle=np.uint8(180), antialias=False), lentil.rectangle(sh_, 40, 12, antialias=False)):
            leaf.append(('half-turn-of-a-rectangle', {'angle_type': 'uint8', 'shape': list(sh_)}))
    # ---- hex rings and segmented apertures -------------------------------------------------------------------------
    import sys
    seg = sys.modules['lentil.segmented']
    for k in range(1, 7 if q else 9):
        add({'act': 'hexring', 'k': k, 'cells': [[int(c.q), int(c.r), int(c.s)] for c in seg.hex_ring(k)]})
    # every combination of orientation x centre segment kept / dropped x gap (the centre segment is drawn by its own call)
    combos = [(rot, keep, gap) for rot in (True, False) for keep in (True, False) for gap in (0.0, 1.0, 2.5)]
    for (rot, keep, gap) in combos * (1 if q else 4):
        rings = rng.choice((1, 2)) if q else rng.choice((1, 2, 3))
        R = rng.choice((3.3, 4.6, 5.2))                      # non-integer radii: no sample lies exactly on an edge
        nseg = 1 + 3 * rings * (rings + 1)
        drop = set(rng.sample(range(1, nseg), rng.choice((0, 1, 2))))
        if not keep:
            drop.add(0)
        drop = tuple(sorted(drop))
        masks = lentil.hex_segments(rings, R, gap, rotate=rot, antialias=False, drop=drop)
        # samples lying exactly on an edge of some segment (shared by two closed hexagons at gap 0) are ties: exempt
        shp = masks.shape[1:]
        rr, cc = np.meshgrid(np.arange(shp[0]) - shp[0] // 2, np.arange(shp[1]) - shp[1] // 2, indexing='ij')
        centres = [(0.0, 0.0)] + [seg.hex_to_rc(hx, R + gap / 2, rot) for k in range(1, rings + 1) for hx in seg.hex_ring(k)]
        tie = np.zeros(shp, dtype=int)
        for (r0, c0) in centres:
            for nn in range(6):
                th = nn * np.pi / 3 if rot else nn * np.pi / 3 + np.pi / 6
                rho = (rr - r0) * np.sin(th) + (cc - c0) * np.cos(th)
                tie |= (np.abs(rho - R * np.sqrt(3) / 2) < 1e-9).astype(int)
        add({'act': 'hexseg', 'rings': rings, 'ndrop': len(drop), 'masks': ints(masks), 'areabound': int(6 * R + 6), 'tie': ints(tie),
             'params': {'R': R, 'gap': gap, 'drop': list(drop), 'rotate': rot}})
        flat = lentil.hex_segments(rings, R, gap, rotate=rot, antialias=False, drop=drop, flatten=True)
        if not np.array_equal(flat, masks.sum(axis=0)):
            leaf.append(('hexseg-flatten', {'rings': rings}))
    return ev, leaf


def validate(ctx, events, nparts=12):
    os.makedirs(WORK, exist_ok=True)
    from concurrent.futures import ThreadPoolExecutor
    files = []
    for p in range(nparts):
        fn = os.path.join(WORK, f'trace_c20_{uuid.uuid4().hex[:10]}.json')
        with open(fn, 'w') as f:
            json.dump(events[p::nparts], f)
        files.append((fn, len(events[p::nparts])))

    def one(x):
        fn, n = x
        r = run_tlc('Trace_C20', env={'TRACE_FILE': fn}, workers=1, timeout=1800)
        if len(r.emits) != 1 or r.emits[0]['n'] != n:
            raise TLCError('trace not consumed')
        return r
    try:
        with ThreadPoolExecutor(max_workers=12) as ex:
            rs = list(ex.map(one, files))
    finally:
        for fn, _ in files:
            os.unlink(fn)
    bad = []
    for r in rs:
        ctx.states += r.distinct
        ctx.transitions += r.generated
        bad += r.emits[0]['bad']
    ctx.tlc_runs.append({'model': f'Trace_C20 ({len(events)} events in {nparts} parts)', 'distinct_states': sum(r.distinct for r in rs),
                         'states_generated': sum(r.generated for r in rs), 'wall_s': round(max(r.wall for r in rs), 2)})
    return bad


def features(e):
    f = {'act': e['act']}
    if e['act'] == 'pad':
        m, n = len(e['a']), len(e['a'][0])
        M, N = e['sh']
        f['parity'] = [f'{"o" if a % 2 else "e"}->{"o" if b % 2 else "e"}{"+" if b > a else ("-" if b < a else "=")}' for a, b in ((m, M), (n, N))]
    if e['act'] == 'padcube':
        f['nonsquare'] = len(e['cu'][0]) != len(e['cu'][0][0])
    if e['act'] in ('shape', 'translate'):
        f['kind'] = e['kind']
    return f


def run(ctx):
    lentil = import_lentil()
    events, leaf = record(lentil, ctx.tier, ctx.seed)
    bad = validate(ctx, events)
    byid = {e['id']: e for e in events}
    for (eid, clauses) in bad:
        e = byid[eid]
        for cl in clauses:
            ctx.violation(dict(features(e), clause=cl), {'event': {k: v for k, v in e.items() if k != 'masks'}}, case={'event': e})
    for kind, d in leaf:
        ctx.violation({'act': 'numeric-leaf', 'clause': kind, 'kind': d.get('kind')}, d, case=None)
    # binding self-test: a corrupted event must be rejected
    import copy
    ev2 = copy.deepcopy([e for e in events if e['act'] == 'pad'][:5])
    ev2[2]['out'][0][0] += 1
    for i, e in enumerate(ev2):
        e['id'] = i
    b2 = validate(ctx, ev2, nparts=1)
    ctx.extra['binding_selftest_corrupted_event_rejected'] = (len(b2) == 1 and b2[0][0] == 2)
    if not ctx.extra['binding_selftest_corrupted_event_rejected']:
        ctx.machinery_errors.append('Trace_C20 accepted a corrupted event')
    kinds = {}
    for e in events:
        kinds[e['act']] = kinds.get(e['act'], 0) + 1
        ctx.case(json.dumps({k: v for k, v in e.items() if k not in ('id', 'out', 'masks')}, sort_keys=True)[:400],
                 nontrivial=e['act'] not in ('mesh',))
    ctx.traces += len(events)
    ctx.extra['events_by_helper'] = kinds
    ctx.sample(next(e for e in events if e['act'] == 'pad'), maxn=1)
    ctx.sample(next(e for e in events if e['act'] == 'boundary_slice'), maxn=2)
    ctx.rule = ('one event per helper call on seeded integer arrays: all (n -> N) per axis in 1..7 [1..9] incl. mixed grow/shrink, '
                'cubes incl. non-square, all sub-array windows incl. refused ones, boundary with pad and clipping, rebin, '
                'centroid as exact rational, mesh, drawn shapes (binary) with half-turn / mirror / translation maps, hex rings, '
                'hex_segments with gaps and drop lists; distinct by call arguments')
    ctx.assumptions += ['shape parameters are chosen so that no sample lies exactly on an edge (ties are do-not-care); antialiased values are '
                        'floats and are checked by the recorder to 1e-9 (numeric leaf); equal-area bound for hex segments is 6R+6 samples']


def replay(ctx, rec):
    e = rec['case']['event']
    e = dict(e)
    e['id'] = 0
    bad = validate(ctx, [e], nparts=1)
    for (eid, clauses) in bad:
        for cl in clauses:
            ctx.violation(dict(features(e), clause=cl), {'event': {k: v for k, v in e.items() if k != 'masks'}}, case={'event': e})
