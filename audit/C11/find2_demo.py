"""C11 finding 2: the radial polynomial is summed as an explicit power series
in floating point and loses all accuracy for radial orders n >~ 40
(Noll j >~ 800): the value differs from the textbook polynomial by O(1e-3) at
n = 40 and by orders of magnitude from n = 50 on; R(1) != 1 and un-normalised
modes exceed 1 in magnitude."""
import os, sys
sys.path.insert(0, os.environ.get('LENTIL_REPO', '.'))
import numpy as np
from fractions import Fraction
from math import factorial
import lentil


def exact_R0(n, x):
    """R_n^0(x) in exact rational arithmetic (x is a float, taken exactly)."""
    x = Fraction(x)
    s = Fraction(0)
    for k in range(n//2 + 1):
        s += Fraction((-1)**k * factorial(n-k),
                      factorial(k) * factorial(n//2-k)**2) * x**(n-2*k)
    return float(s)


mask = np.ones((1, 3))
rho = np.array([[0.9, 0.99, 1.0]])
theta = np.zeros((1, 3))

viol = []
for n in range(2, 61, 2):
    j = n*(n+1)//2 + 1          # first mode of row n has m = 0: Z_j = R_n^0(rho)
    Z = lentil.zernike(mask, j, normalize=False, rho=rho, theta=theta)
    ref = np.array([[exact_R0(n, float(x)) for x in rho[0]]])
    err = float(np.abs(Z - ref).max())
    peak = float(np.abs(Z).max())
    if err > 1e-6:
        viol.append((j, n, err, float(Z[0, 2]), peak))

if viol:
    print("VIOLATION: un-normalised m=0 modes Z_j = R_n^0(rho) evaluated at rho = 0.9, 0.99, 1.0")
    print("(textbook: |R| <= 1 and R(1) = 1; reference computed in exact rational arithmetic)")
    for j, n, err, at_one, peak in viol:
        print("  j=%5d (n=%2d): max abs error = %-10.3g R(1) = %-12r max|Z| = %.6g"
              % (j, n, err, at_one, peak))
    sys.exit(1)
print("no violation observed")
sys.exit(0)
