SPECIFICATION Spec
INVARIANT AlgTheorems
CONSTRAINT Emit
