"""C04 finding 1: Plane.fit_tilt corrupts the OPD of a segmented plane whose
binarised segment masks share pixels (e.g. lentil.hex_segments(seg_gap=1)).

After fit_tilt, residual OPD + recorded segment tilt is no longer the original
OPD on the shared pixels, and the propagated field differs from that of the
un-fitted plane by several per cent.

exit code 1 = violation observed, 0 = not observed
"""
import os
import sys

sys.path.insert(0, os.environ.get('LENTIL_REPO', '.'))

import numpy as np
import lentil


def main():
    rng = np.random.default_rng(0)

    # the library's own segment-mask generator; 1 pixel gap, antialiased edges
    segmask = lentil.hex_segments(rings=1, seg_radius=10, seg_gap=1, flatten=False)
    nseg, nr, nc = segmask.shape
    amp = np.sum(segmask, axis=0)
    dx = 1 / 240
    focal_length = 10.0

    # per-segment piston + small tip/tilt (well sampled: << 1 wave per pixel)
    r, c = lentil.helper.mesh((nr, nc))
    opd = np.zeros((nr, nc))
    seg_tilt = rng.uniform(-1, 1, size=(nseg, 2)) * 2e-6      # rad
    seg_piston = rng.normal(scale=5e-8, size=nseg)            # m
    owner = np.argmax(segmask, axis=0)                        # each pixel -> one segment
    for k in range(nseg):
        sel = (owner == k) & (amp > 0)
        opd[sel] = (seg_piston[k] + seg_tilt[k, 0] * r[sel] * dx
                    - seg_tilt[k, 1] * c[sel] * dx)

    pupil = lentil.Pupil(amplitude=amp, opd=opd, mask=segmask, pixelscale=dx,
                         focal_length=focal_length)
    shared = np.sum(pupil.mask, axis=0) > 1
    print(f'{nseg} segments, plane {nr}x{nc}, pixels belonging to more than '
          f'one binarised segment mask: {int(shared.sum())}')

    fitted = pupil.fit_tilt()

    # ---- clause: OPD + recorded tilt is unchanged (checked per segment) ----
    worst = 0.0
    for k in range(nseg):
        t = fitted.tilt[k]
        # Tilt stores the x-tilt in .y and the y-tilt in .x
        recon = fitted.opd + t.y * r * dx - t.x * c * dx
        m = pupil.mask[k] > 0
        worst = max(worst, np.abs(recon - opd)[m].max())
    print(f'max |(residual OPD + recorded tilt) - original OPD| inside a segment '
          f'mask: {worst:.3e} m   (OPD rms {opd[amp > 0].std():.3e} m)')

    # ---- clause: propagated field is the same ----
    def propagate(p):
        w = lentil.Wavefront(650e-9) * p
        return lentil.propagate_dft(w, pixelscale=5e-6, shape=(64, 64), oversample=2)

    w_raw = propagate(pupil)
    w_fit = propagate(fitted)

    # samples evaluated by every field of both results
    def all_eval(w):
        cnt = np.zeros(w.shape, dtype=complex)
        for f in w.data:
            cnt = lentil.field.insert(lentil.field.Field(np.ones(f.shape), offset=f.offset), cnt)
        return cnt.real > len(w.data) - 0.5
    common = all_eval(w_raw) & all_eval(w_fit)
    a, b = w_raw.field, w_fit.field
    rel = np.abs(a - b)[common].max() / np.abs(a).max()
    print(f'max |field(raw OPD) - field(fit_tilt)| / max|field| over {int(common.sum())} '
          f'commonly evaluated samples: {rel:.3e}')

    # control: same aperture with a 2 pixel gap (disjoint masks) agrees to rounding
    segmask2 = lentil.hex_segments(rings=1, seg_radius=10, seg_gap=2, flatten=False)
    amp2 = segmask2.sum(axis=0)
    r2, c2 = lentil.helper.mesh(amp2.shape)
    opd2 = np.zeros(amp2.shape)
    for k in range(len(segmask2)):
        sel = segmask2[k] > 0
        opd2[sel] = seg_piston[k] + seg_tilt[k, 0] * r2[sel] * dx - seg_tilt[k, 1] * c2[sel] * dx
    p2 = lentil.Pupil(amplitude=amp2, opd=opd2, mask=segmask2, pixelscale=dx,
                      focal_length=focal_length)
    wa, wb = propagate(p2), propagate(p2.fit_tilt())
    cm = all_eval(wa) & all_eval(wb)
    rel2 = np.abs(wa.field - wb.field)[cm].max() / np.abs(wa.field).max()
    print(f'control (seg_gap=2, disjoint masks): relative field difference {rel2:.3e}')

    if shared.sum() > 0 and (rel > 1e-9 or worst > 1e-15) and rel2 < 1e-9:
        print('VIOLATION: fit_tilt changed the optical effect of a segmented plane '
              'whose segment masks share pixels')
        return 1
    print('no violation observed')
    return 0


if __name__ == '__main__':
    sys.exit(main())
