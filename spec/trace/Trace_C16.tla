----------------------------- MODULE Trace_C16 -----------------------------
(* Trace validation of the detector chain (C16): each event is one call of collect_charge,             *)
(* collect_charge_bayer or adc on exact data together with everything it returned / emitted.            *)
EXTENDS Detector, Json, IOUtils
Trace == JsonDeserialize(IOEnv.TRACE_FILE)
VARIABLES i, bad
vars == <<i, bad>>

MatEq(a, b) == /\ Len(a) = Len(b)
               /\ \A p \in 1..Len(a) : Len(a[p]) = Len(b[p]) /\ \A q \in 1..Len(a[p]) : REq(a[p][q], b[p][q])
Qe(e, which) == IF e.qekind = "spectrum" THEN QeFromSpectrum(which, e.wave, e.wexp) ELSE which

Check(e) ==
    CASE e.act = "collect" ->
            IF ~MatEq(e.out, Collect(e.ph, Qe(e, e.qe))) THEN {"collect-value"} ELSE {}
      [] e.act = "bayer" ->
            LET qr == Qe(e, e.qr)  qg == Qe(e, e.qg)  qb == Qe(e, e.qb) IN
            (IF ~MatEq(e.flat, Bayer(e.ph, qr, qg, qb, e.pat, e.os)) THEN {"bayer-flat"} ELSE {})
            \cup (IF ~(MatEq(e.chans[1], Channel(e.ph, qr, "R", e.pat, e.os)) /\ MatEq(e.chans[2], Channel(e.ph, qg, "G", e.pat, e.os))
                       /\ MatEq(e.chans[3], Channel(e.ph, qb, "B", e.pat, e.os))) THEN {"bayer-channels"} ELSE {})
            \cup (IF ~ThmChannelsSum(e.ph, qr, qg, qb, e.pat, e.os) THEN {"thm-channels-sum"} ELSE {})
            \cup (IF ~ThmEqualQeMono(e.ph, qg, e.pat, e.os) THEN {"thm-equal-qe-monochrome"} ELSE {})
      [] e.act = "adc" ->
            (IF e.dn # Adc(e.e, e.form, e.gain, e.sat) THEN {"adc-value"} ELSE {})
            \cup (IF e.warnflag /\ (e.warned # Saturates(e.e, e.sat)) THEN {"adc-warning"} ELSE {})
            \cup (IF ~e.warnflag /\ e.warned THEN {"adc-warning-unrequested"} ELSE {})
            \cup (IF e.eafter # e.e THEN {"adc-input-modified"} ELSE {})
            \cup (IF ~ThmMonotone(e.e, e.form, e.gain, e.sat) THEN {"thm-adc-monotone"} ELSE {})
            \cup (IF e.dtype # e.dtypeobs THEN {"adc-dtype"} ELSE {})

RECURSIVE SetToSeq(_)
SetToSeq(S) == IF S = {} THEN <<>> ELSE LET x == CHOOSE y \in S : TRUE IN <<x>> \o SetToSeq(S \ {x})
Init == i = 0 /\ bad = <<>>
Next == /\ i < Len(Trace)
        /\ i' = i + 1
        /\ LET f == Check(Trace[i + 1]) IN
           bad' = IF f = {} THEN bad ELSE Append(bad, <<Trace[i + 1].id, SetToSeq(f)>>)
Spec == Init /\ [][Next]_vars
Report == (i = Len(Trace)) => PrintT(<<"EMIT", ToJson([n |-> i, bad |-> bad])>>)
Consumed == TLCGet("stats").diameter = Len(Trace) + 1
=============================================================================
