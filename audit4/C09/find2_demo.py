"""C09 finding 2: a single-precision complex scratch buffer is accepted and
silently changes the result of propagate_fft.

The documented type of ``scratch`` is "complex ndarray".  A real buffer is
refused (the in-place add in field.insert cannot cast), but a complex64 buffer
is accepted: the double precision pupil field is rounded to single precision
when it is added into the buffer, and the transform of the rounded field is
returned.
"""
import os, sys
sys.path.insert(0, os.environ.get('LENTIL_REPO', '.'))
import numpy as np
import lentil

rng = np.random.default_rng(0)
n = 64
amp = rng.uniform(0.5, 1.0, (n, n))
opd = rng.normal(scale=20e-9, size=(n, n))
f, wl, dx, du, os_ = 10.0, 633e-9, 1e-3, 2e-5, 2

p = lentil.Pupil(amplitude=amp, opd=opd, pixelscale=dx, focal_length=f)
w = lentil.Wavefront(wl) * p
shape = lentil.scratch_shape(wl, dx, du, f, os_)

ref = lentil.propagate_fft(w, du, shape=64, oversample=os_).field
res = {}
for dt in (np.complex128, np.complex64):
    scratch = np.zeros(shape, dtype=dt)
    out = lentil.propagate_fft(w, du, shape=64, oversample=os_, scratch=scratch).field
    peak = np.max(np.abs(ref))
    sel = np.abs(ref) > 1e-3*peak
    res[dt] = (np.max(np.abs(out - ref))/peak,
               np.max(np.abs(out - ref)[sel]/np.abs(ref)[sel]))
    print('%-12s scratch %s: max|diff|/peak = %.2e   pointwise = %.2e'
          % (np.dtype(dt).name, shape, *res[dt]))
print('lentil from', lentil.__file__)

if res[np.complex128][0] == 0 and res[np.complex64][0] > 1e-10:
    print('VIOLATION: supplying a complex64 scratch buffer of the advertised '
          'shape changes the propagated field by %.1e of the peak (%.1e '
          'pointwise); no error or warning is raised' % res[np.complex64])
    sys.exit(1)
print('no violation observed')
sys.exit(0)
