"""C10 demo: lentil.Rotate(angle=<ndarray>, unit='radians') rewrites the caller's array.

Exit code 1 (and an explanation) when the violation is observed, 0 otherwise.
The lentil checkout is taken from the environment variable LENTIL_REPO.
"""
import os
import sys

sys.path.insert(0, os.environ['LENTIL_REPO'])

import numpy as np
import lentil

failed = []

# 1. a 0-d array (what np.asarray(0.5), np.deg2rad(np.array(30.)), an element
#    of a structured config, ... give) used as the angle of two planes
angle = np.array(0.5)                      # radians, owned by the caller
snapshot = angle.copy()

r1 = lentil.Rotate(angle=angle, unit='radians')
after_first = angle.copy()
r2 = lentil.Rotate(angle=angle, unit='radians')

if not np.array_equal(angle, snapshot):
    failed.append(f"caller's 0-d angle array was {snapshot!r} before the calls and is "
                  f"{angle!r} after two Rotate(angle, unit='radians') constructions")

# 2. the same constructor call, repeated on the same argument object, gives two
#    different planes (the second one sees the already converted value)
if not np.allclose(r1.angle, r2.angle, rtol=1e-12, atol=0):
    # r1.angle aliases the caller's array as well, so compare with the value it
    # had right after the first construction
    failed.append(f"repeating the identical call gives a different plane: first "
                  f"angle {-after_first!r} deg, second angle {r2.angle!r} deg")

# 3. a frozen (read-only) angle is refused: the constructor tries to write into it
frozen = np.array([0.5])
frozen.setflags(write=False)
try:
    lentil.Rotate(angle=frozen, unit='radians')
except ValueError as e:
    failed.append(f"read-only angle array is written to by the constructor: {e}")

# control: with a Python float nothing is shared and the call is repeatable
c1 = lentil.Rotate(angle=0.5, unit='radians')
c2 = lentil.Rotate(angle=0.5, unit='radians')
assert c1.angle == c2.angle

if failed:
    print("C10 VIOLATION (lentil.Rotate modifies the array passed as `angle`):")
    for f in failed:
        print("  -", f)
    sys.exit(1)

print("no violation observed")
sys.exit(0)
