"""
C17 finding 1 - Plane.rescale / Plane.resample attenuate the OPD (and the amplitude)
on the rim of the aperture.

lentil.util.rescale() multiplies its interpolated output by a *linearly interpolated*
copy of the support mask (values anywhere between 0 and 1 within one old sample of the
mask edge).  Plane.rescale() uses it for the OPD, so every new sample that lies inside
the new (nearest-neighbour) mask but within one old sample of the mask edge gets its
OPD multiplied by a factor between 0.25 and 1.  A constant OPD (piston) - the smoothest
OPD there is, and optically invisible - comes out non-constant, and the propagated
image changes by several percent of its peak, three orders of magnitude more than the
same plane with zero OPD.

exit code 1 + explanation when the violation is observed, 0 otherwise.
"""
import os
import sys

sys.path.insert(0, os.environ.get('LENTIL_REPO', '.'))

import numpy as np
import lentil

WL = 650e-9


def image(plane):
    w = lentil.Wavefront(WL) * plane
    return lentil.propagate_dft(w, shape=(64, 64), pixelscale=5e-6, oversample=2).intensity


def img_err(a, b):
    ia, ib = image(a), image(b)
    return np.abs(ib - ia).max() / ia.max()


problems = []

for n in (128, 129):
    mask = lentil.circle((n, n), 0.4 * n, antialias=False)       # monolithic, binary
    rr, cc = lentil.helper.mesh((n, n))                          # sample coordinates about n//2
    rho2 = (rr ** 2 + cc ** 2) / (0.4 * n) ** 2

    for s in (0.75, 1.5, 3):
        # ---------------------------------------------------------------- piston
        piston = lentil.Pupil(amplitude=1, opd=np.full((n, n), WL), mask=mask,
                              pixelscale=1 / n, focal_length=10)
        flat = lentil.Pupil(amplitude=1, opd=np.zeros((n, n)), mask=mask,
                            pixelscale=1 / n, focal_length=10)
        q_piston = piston.rescale(s)
        q_flat = flat.rescale(s)

        inside = q_piston.mask == 1
        opd_in = q_piston.opd[inside]
        rel = np.abs(opd_in - WL).max() / WL          # must be ~1e-15: a constant is interpolated exactly
        frac = np.mean(np.abs(opd_in - WL) > 1e-6 * WL)

        e_flat = img_err(flat, q_flat)                # control: what rescaling the aperture alone costs
        e_piston = img_err(piston, q_piston)          # a piston must cost exactly the same

        print(f'n={n} s={s}: constant OPD of {WL:g} m inside the rescaled mask: '
              f'min {opd_in.min():.3e} max {opd_in.max():.3e} '
              f'(max rel. error {rel:.2e}, {100 * frac:.1f}% of the masked samples wrong); '
              f'image error/peak: zero OPD {e_flat:.1e}, one wave of piston {e_piston:.1e}')

        if rel > 1e-6:
            problems.append(f'n={n} s={s}: a constant OPD is no longer constant inside the mask '
                            f'after rescale (rel. error {rel:.2f})')
        if e_piston > 10 * max(e_flat, 1e-4):
            problems.append(f'n={n} s={s}: image of the rescaled plane with a one-wave piston differs '
                            f'from the original by {e_piston:.1e} of the peak '
                            f'(same aperture with zero OPD: {e_flat:.1e})')

        # ------------------------------------------- one wave of spherical aberration
        sph = lentil.Pupil(amplitude=1, opd=WL * rho2 ** 2, mask=mask,
                           pixelscale=1 / n, focal_length=10)
        q_sph = sph.rescale(s)
        N = q_sph.shape[0]
        # positions of the new samples, in old samples about the centre sample
        rn, cn = lentil.helper.mesh((N, N))
        exact = WL * ((rn ** 2 + cn ** 2) / s ** 2 / (0.4 * n) ** 2) ** 2
        inside = q_sph.mask == 1
        rel = np.abs(q_sph.opd[inside] - exact[inside]).max() / WL
        e_sph = img_err(sph, q_sph)
        print(f'          spherical (1 wave at the rim): OPD error inside the mask {rel:.2e} waves, '
              f'image error/peak {e_sph:.1e}')
        if rel > 1e-2:
            problems.append(f'n={n} s={s}: smooth OPD (rho^4, one wave) is wrong by {rel:.2f} waves on '
                            f'rim samples inside the rescaled mask; image error {e_sph:.1e} of the peak')

# -------------------------------------------------------------- segmented mask
segs = lentil.hex_segments(rings=1, seg_radius=24, seg_gap=3, antialias=False, drop=())
n = segs.shape[1]
p = lentil.Pupil(amplitude=1, opd=np.full((n, n), WL), mask=segs, pixelscale=1 / n, focal_length=10)
q = p.rescale(1.5)
inside = np.sum(q.mask, axis=0) == 1
rel = np.abs(q.opd[inside] - WL).max() / WL
print(f'segmented ({segs.shape[0]} hexagons), s=1.5: constant OPD inside the segments: '
      f'min {q.opd[inside].min():.3e} max {q.opd[inside].max():.3e}')
if rel > 1e-6:
    problems.append(f'segmented mask, s=1.5: constant OPD not constant inside the segments '
                    f'(rel. error {rel:.2f})')

# ------------------------- same root cause on the amplitude: ones((n,n)) vs the scalar 1
n = 128
mask = lentil.circle((n, n), 0.4 * n, antialias=False)
a_scalar = lentil.Pupil(amplitude=1, mask=mask, pixelscale=1 / n, focal_length=10)
a_array = lentil.Pupil(amplitude=np.ones((n, n)), mask=mask, pixelscale=1 / n, focal_length=10)
for s in (1.5, 3):
    qs, qa = a_scalar.rescale(s), a_array.rescale(s)
    t0 = mask.sum()
    ts = np.sum((qs.amplitude * qs.mask) ** 2) / t0
    ta = np.sum((qa.amplitude * qa.mask) ** 2) / t0
    print(f'uniform amplitude, s={s}: transmitted power ratio  scalar 1: {ts:.5f}   ones((n,n)): {ta:.5f}'
          f'   image error/peak {img_err(a_scalar, qs):.1e} vs {img_err(a_array, qa):.1e}')
    if abs(ta - ts) > 2e-3:
        problems.append(f's={s}: the same uniform aperture loses {100 * (ts - ta):.2f}% more transmitted '
                        f'power when its amplitude is an array of ones than when it is the scalar 1')

if problems:
    print('\nVIOLATION of C17 (rescale changes the optics, not only the sampling):')
    for msg in problems:
        print('  -', msg)
    sys.exit(1)

print('no violation observed')
sys.exit(0)
