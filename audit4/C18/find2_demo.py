"""C18 / finding 2: Gaussian shot noise of a half-precision (float16) frame has a
variance that is not the signal: the standard deviation sqrt(img) is evaluated in
half precision.

Property clause: "shot noise is non-negative and integer-valued with mean and
variance equal to the signal" (Gaussian approximation within its documented
large-count regime, lambda > 1000), for every signal level and every seed; and the
model is a function of the signal and the seed.

Failing input: img = np.full(n, 4100, dtype=np.float16), method='gaussian'.
4100 is exactly representable in float16 and is well inside the documented regime.
np.sqrt(float16 array) is a float16 array: sqrt(4100) = 64.0312... is stored as 64.0,
so the draws have variance 64**2 = 4096 (+1/12 from the rounding to integers)
instead of 4100 (+1/12).  The same counts given as float32, float64 or int16 give
the right variance, and - for the same seed - different draws.

exit code 1 = violation observed, 0 = not observed.
"""
import os
import sys

sys.path.insert(0, os.environ.get('LENTIL_REPO', '.'))

import numpy as np
import lentil
from lentil.detector import shot_noise

print('lentil imported from', lentil.__file__)

LAM = 4100            # counts; float16(4100) == 4100 exactly
N = 1_000_000         # samples per call
CALLS = 100           # seeds 0..99 -> 1e8 samples per dtype
assert float(np.float16(LAM)) == LAM


def moments(dtype):
    s1 = s2 = 0.0
    n = 0
    for seed in range(CALLS):
        x = shot_noise(np.full(N, LAM, dtype=dtype), method='gaussian', seed=seed)
        d = x - LAM
        s1 += d.sum()
        s2 += (d * d).sum()
        n += d.size
    mean = s1 / n
    var = s2 / n - mean * mean
    return mean, var, n


violated = False
expected = LAM + 1.0 / 12.0      # rounding a continuous draw to integers adds 1/12
variances = {}
for dtype in (np.float64, np.float32, np.int16, np.float16):
    mean, var, n = moments(dtype)
    variances[np.dtype(dtype).name] = var
    sigma_var = expected * np.sqrt(2.0 / n)   # standard error of the sample variance
    z = (var - expected) / sigma_var
    print('%-8s mean-signal = %+8.4f   variance = %9.3f   (expected %.3f, %+6.1f standard errors)'
          % (np.dtype(dtype).name, mean, var, expected, z))
    if abs(z) > 5:
        violated = True
        print('   VIOLATION: variance of the %s frame differs from the signal (%d) by %.2f counts^2'
              % (np.dtype(dtype).name, LAM, var - expected))

# the same normal deviates are used for every dtype (same seeds), so the difference
# between the sample variances is free of sampling noise: it is sigma16**2 - sigma64**2
dv = variances['float16'] - variances['float64']
print('variance(float16 frame) - variance(float64 frame) = %+.3f counts^2 '
      '(64.0**2 - 4100 = %+.1f; 0 expected for a model that depends on the signal only)' % (dv, 64.0**2 - LAM))
if abs(dv) > 1.0:
    violated = True

# deterministic view of the same defect: same counts, same seed, different draws
a = shot_noise(np.full(1_000_000, LAM, dtype=np.float16), method='gaussian', seed=123)
b = shot_noise(np.full(1_000_000, LAM, dtype=np.float64), method='gaussian', seed=123)
ndiff = int(np.count_nonzero(a != b))
print('same counts and seed, float16 vs float64 frame: %d of %d samples differ' % (ndiff, a.size))
print('np.sqrt(np.float16(%d)) = %r  (exact: %.6f)' % (LAM, np.sqrt(np.float16(LAM)), np.sqrt(LAM)))
if ndiff:
    violated = True

if violated:
    sys.exit(1)
print('no violation observed')
sys.exit(0)
