"""C05 finding 1: a normalised amplitude whose aperture (or one of whose segments)
is a single sample away from the array centre images to less than its power.

normalize_power(amp, p) has power p, but Plane.multiply drops every (1, 1) shaped
aperture / segment whose offset is not (0, 0): Field.__mul__ treats any field of
size 1 (not only a 0-d scalar) as a scalar, and two "scalars" with different
offsets multiply to nothing.  The image total is then 0 (monolithic pinhole) or
p minus the power of the single-sample segment (segmented aperture), for both
propagate_dft and propagate_fft on a full-period grid.
"""
import os
import sys

sys.path.insert(0, os.environ.get('LENTIL_REPO', '.'))

import numpy as np
import lentil

wl, f, dx, osamp = 500e-9, 10.0, 1e-3, 2
failures = []


def image_totals(pupil, shape):
    # full period: 1/alpha = 2*shape*osamp samples per axis, output shape equal to it
    M = (2 * shape[0] * osamp, 2 * shape[1] * osamp)
    du = (wl * f * osamp / (dx * M[0]), wl * f * osamp / (dx * M[1]))
    w = lentil.Wavefront(wl) * pupil
    pin = float(np.sum(np.abs(w.field) ** 2))
    dft = lentil.propagate_dft(w, du, shape=(M[0] // osamp, M[1] // osamp),
                               oversample=osamp).intensity
    fft = lentil.propagate_fft(w, du, oversample=osamp).intensity
    assert dft.shape == M and fft.shape == M
    return pin, float(dft.sum()), float(fft.sum())


p_target = 2.0

# (a) monolithic single-sample aperture; centre sample of a (4, 4) array is (2, 2)
for pos in [(2, 2), (1, 2), (0, 0), (3, 1)]:
    amp = np.zeros((4, 4))
    amp[pos] = 5.0
    amp = lentil.normalize_power(amp, p_target)
    power = float(np.sum(np.abs(amp) ** 2))
    pupil = lentil.Pupil(amplitude=amp, pixelscale=dx, focal_length=f)
    pin, dft, fft = image_totals(pupil, amp.shape)
    print(f'pinhole at {pos}: power of normalised amplitude = {power:.12g}, '
          f'wavefront power = {pin:.12g}, image total dft = {dft:.12g}, fft = {fft:.12g}')
    if abs(dft - p_target) > 1e-9 * p_target or abs(fft - p_target) > 1e-9 * p_target:
        failures.append(f'pinhole at {pos}: image total {dft} / {fft}, expected {p_target}')

# (b) segmented aperture, one of the segments is a single sample
mask = np.zeros((2, 8, 8))
mask[0, 1:5, 1:5] = 1      # a 4 x 4 segment
mask[1, 6, 6] = 1          # a single-sample segment
amp = lentil.normalize_power(np.sum(mask, axis=0), p_target)
power = float(np.sum(np.abs(amp) ** 2))
pupil = lentil.Pupil(amplitude=amp, mask=mask, pixelscale=dx, focal_length=f)
pin, dft, fft = image_totals(pupil, amp.shape)
print(f'segmented: power of normalised amplitude = {power:.12g}, wavefront power = {pin:.12g}, '
      f'image total dft = {dft:.12g}, fft = {fft:.12g}')
if abs(dft - p_target) > 1e-9 * p_target or abs(fft - p_target) > 1e-9 * p_target:
    failures.append(f'segmented aperture with a single-sample segment: image total {dft} / {fft}, '
                    f'expected {p_target}')

if failures:
    print('VIOLATION (C05, clause 3: a normalised amplitude images to total p):')
    for msg in failures:
        print('  -', msg)
    sys.exit(1)
print('no violation observed')
sys.exit(0)
