"""C14 - Spectrum.to converts single precision COMPLEX values in single precision.

A spectrum whose values are complex64 is converted (wavelength unit of a flux
density, or flux unit) with the arithmetic carried out in complex64, so the
result depends on the storage type of the caller's array: the same numbers
stored as complex128 give a result that differs by ~1e-7 relative (float16 and
float32 values ARE widened to double precision by Spectrum.to; complex64 is not).
"""
import os
import sys

sys.path.insert(0, os.environ.get('LENTIL_REPO', '.'))

import numpy as np
import lentil
from lentil.radiometry import Spectrum

print('lentil from', lentil.__file__)

wave = np.array([400., 500., 600., 700.])
v64 = (np.array([1.1, 2.3, 3.7, 0.9]) * (1 + 0.3j)).astype(np.complex64)
v128 = v64.astype(np.complex128)          # exactly the same numbers


def rel(a, b):
    return float(np.max(np.abs(np.asarray(a) - np.asarray(b)) / np.abs(b)))


worst = 0.0
fail = []
cases = [('nm', 'photlam', ('um',)),              # wavelength unit of a density
         ('nm', 'photlam', ('wlam',)),            # flux unit
         ('m', 'photlam', ('flam',)),
         ('nm', 'wlam', ('angstrom', 'photlam'))]  # both
for wu, vu, args in cases:
    f = {'nm': 1., 'm': 1e-9}[wu]
    a = Spectrum(wave*f, v64, wu, vu)
    b = Spectrum(wave*f, v128, wu, vu)
    a.to(*args)
    b.to(*args)
    d = rel(a.value, b.value)
    worst = max(worst, d)
    print(f'{wu:3s} {vu:8s} -> {args}: result dtype {a.value.dtype}, '
          f'relative difference from the double precision conversion {d:.2e}')
    if d > 1e-12:
        fail.append((wu, vu, args, d))

# the same route through Spectrum.sample(waveunit=...) (which converts a copy)
a = Spectrum(wave, v64, 'nm', 'photlam')
b = Spectrum(wave, v128, 'nm', 'photlam')
d = rel(a.sample(wave*1e-3, waveunit='um'), b.sample(wave*1e-3, waveunit='um'))
print(f'sample(waveunit="um"): relative difference {d:.2e}')
if d > 1e-12:
    fail.append(('sample', d))

# control: float32 values are converted in double precision
a = Spectrum(wave, v64.real.copy(), 'nm', 'photlam')
b = Spectrum(wave, v64.real.astype(np.float64), 'nm', 'photlam')
a.to('um', 'wlam')
b.to('um', 'wlam')
print(f'control, float32 values: relative difference {rel(a.value, b.value):.2e}')

# identity conversion (photlam -> photlam) of large complex64 values: the
# intermediate per-metre value overflows single precision
big = (np.array([1e30, 2e30, 3e30, 1e30]) * (1 + 0.5j)).astype(np.complex64)
with np.errstate(all='ignore'):
    a = Spectrum(wave, big, 'nm', 'photlam')
    a.to('photlam')
print('photlam -> photlam of complex64 values ~1e30:', a.value)
if not np.all(np.isfinite(a.value)):
    fail.append(('identity', 'nan'))

if fail:
    print('VIOLATION: Spectrum.to converts complex64 values in single precision '
          f'(worst relative error {worst:.2e}, 1e-12 allowed)')
    sys.exit(1)
print('no violation observed')
sys.exit(0)
