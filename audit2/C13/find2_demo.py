"""C13 finding 2: the documented two-element fill_value (below, above) cannot be used
with any of the five Spectrum-Spectrum operations."""
import os, sys
sys.path.insert(0, os.environ['LENTIL_REPO'])
import numpy as np
import lentil
from lentil.radiometry import Spectrum

a = Spectrum(np.arange(400., 501., 10.), np.linspace(1., 2., 11))     # 400..500
b = Spectrum(np.arange(450., 601., 10.), np.linspace(3., 1., 16))     # 450..600
below, above = 0.25, 4.0

# expected: on the grid 400..600 step 10, a is `above` beyond 500, b is `below` under 450
grid = np.arange(400., 601., 10.)
ea = np.where(grid <= 500, np.interp(grid, a.wave, a.value), above)
eb = np.where(grid >= 450, np.interp(grid, b.wave, b.value), below)

# sanity: the same fill_value is accepted by Spectrum.sample, with that meaning
assert np.allclose(a.sample(grid, fill_value=(below, above)), ea)
assert np.allclose(b.sample(grid, fill_value=(below, above)), eb)

failures = []
ops = {'add': np.add, 'subtract': np.subtract, 'multiply': np.multiply,
       'divide': np.divide, 'power': np.power}
for name, ufunc in ops.items():
    for fv in [(below, above), [below, above], np.array([below, above])]:
        try:
            r = getattr(a, name)(b, fill_value=fv)
        except Exception as e:
            failures.append(f'a.{name}(b, fill_value={fv!r}) raised {type(e).__name__}: {e}')
            continue
        if r.wave.shape != grid.shape or not np.allclose(r.value, ufunc(ea, eb)):
            failures.append(f'a.{name}(b, fill_value={fv!r}) gave wrong values')

if failures:
    print('VIOLATION (C13, "using the fill value where an operand is not defined", all '
          'interpolation options): the documented two-element fill_value is unusable')
    for f in failures:
        print('  ' + f)
    sys.exit(1)
print('ok')
sys.exit(0)
