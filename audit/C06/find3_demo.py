"""C06 finding 3: the empty Field that lentil returns for a zero product claims the
extent (0, 0, 0, 0) (the sample at the origin), so every extent query on it is
wrong and it cannot be multiplied, merged, reduced or inserted again.
"""
import os, sys
sys.path.insert(0, os.environ.get('LENTIL_REPO', '.'))
import numpy as np
from lentil.field import Field
import lentil.field

bad = []
A = Field(np.ones((4, 4)), offset=[0, 0])        # rows/cols -2..1
B = Field(np.ones((2, 3)), offset=[10, 10])      # rows 9..10, cols 9..11
C = Field(np.ones((3, 3)), offset=[1, 1])        # rows/cols 0..2
E = A * B                                        # disjoint -> zero field
assert E.size == 0

ext = E.extent
if ext is not None and len(ext) == 4 and ext[0] <= ext[1] and ext[2] <= ext[3]:
    bad.append(f'(A*B).extent = {E.extent}: the zero product occupies no sample but reports the sample (0,0)')
if lentil.field.overlap((E, A)):
    bad.append('overlap((A*B, A)) is True although A*B has no samples')
bb = lentil.field.boundary((E, B))
if bb != (9, 10, 9, 11):
    bad.append(f'boundary((A*B, B)) = {bb}; the only samples are those of B: (9, 10, 9, 11)')

def attempt(label, fn, check):
    try:
        r = fn()
    except Exception as e:
        bad.append(f'{label} raises {type(e).__name__}: {e}')
        return
    if not check(r):
        bad.append(f'{label} gives a wrong result')

# (A*B)*C = 0 because A*B = 0
attempt('(A*B)*C', lambda: E * C, lambda r: r.size == 0 or not np.any(r.data))
attempt('C*(A*B)', lambda: C * E, lambda r: r.size == 0 or not np.any(r.data))
attempt('Field(2)*(A*B)', lambda: Field(2) * E, lambda r: r.size == 0 or not np.any(r.data))
# total of {A*B, A} is A
attempt('reduce([A*B, A])', lambda: lentil.field.reduce([E, A]),
        lambda r: np.allclose(sum(lentil.field.insert(f, np.zeros((9, 9), complex)) for f in r if f.size),
                              lentil.field.insert(A, np.zeros((9, 9), complex))))
attempt('merge(A*B, B, enforce_overlap=False)', lambda: lentil.field.merge(E, B, enforce_overlap=False),
        lambda r: np.allclose(r.data.sum(), 6))
attempt('insert(A*B, zeros((3,3)))', lambda: lentil.field.insert(E, np.zeros((3, 3), complex)),
        lambda r: not np.any(r))

if bad:
    print('C06 VIOLATED (empty product field):')
    for b in bad:
        print('  -', b)
    sys.exit(1)
print('ok')
sys.exit(0)
