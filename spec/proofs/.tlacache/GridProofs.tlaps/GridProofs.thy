(* automatically generated -- do not edit manually *)
theory GridProofs imports Constant Zenon begin
ML_command \<open> writeln ("*** TLAPS PARSED\n"); \<close>
consts
  "isReal" :: c
  "isa_slas_a" :: "[c,c] => c"
  "isa_bksl_diva" :: "[c,c] => c"
  "isa_perc_a" :: "[c,c] => c"
  "isa_peri_peri_a" :: "[c,c] => c"
  "isInfinity" :: c
  "isa_lbrk_rbrk_a" :: "[c] => c"
  "isa_less_more_a" :: "[c] => c"

end
