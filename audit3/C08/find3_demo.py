"""C08 finding 3: Rotate and Flip carry ptype `none`, not the documented `transform`.

planes.rst tabulates   transform -> Rotate, Flip.   Both constructors call
Plane.__init__ without a ptype, so their plane type is `none`. No public plane
class has type `transform`; the `transform` row of the multiplication table cannot
be reached with the library's own classes, and the table lookup that Plane.multiply
performs classifies a Rotate/Flip as a type-none plane: it is refused (TypeError) on
a pupil or image wavefront, where the documentation says pupil / image.
(This is independent of findings 1 and 2: it is visible on the attribute alone and
through the base-class multiplication, which does not touch the broken overrides.)
"""
import os, sys
sys.path.insert(0, os.environ['LENTIL_REPO'])
import numpy as np
import lentil

assert os.path.realpath(lentil.__file__).startswith(os.path.realpath(os.environ['LENTIL_REPO']))

bad = []
for name, plane in [('Rotate', lentil.Rotate(angle=90)), ('Flip', lentil.Flip())]:
    if not (plane.ptype == lentil.transform):
        bad.append(f'{name}().ptype is {plane.ptype!r}; planes.rst documents '
                   f'ptype(\'transform\')')

amp = lentil.circle((32, 32), 14)
w_pupil = lentil.Wavefront(650e-9) * lentil.Pupil(amplitude=amp, pixelscale=1/32, focal_length=10)
w_image = lentil.propagate_dft(w_pupil, pixelscale=5e-6, shape=(16, 16), oversample=2)

# the type bookkeeping of the library (Plane.multiply -> _mul_ptype_table), applied to
# the plane type these objects carry
for pname, plane in [('Rotate', lentil.Rotate(angle=90)), ('Flip', lentil.Flip())]:
    for wname, w in [('pupil', w_pupil), ('image', w_image)]:
        try:
            got = str(lentil.Plane.multiply(plane, w).ptype)
        except TypeError as e:
            got = f'TypeError: {e}'
        if got != wname:
            bad.append(f'type table applied to {pname} on a {wname} wavefront: documented '
                       f'{wname!r}, got {got}')

if bad:
    print('VIOLATION: plane type of Rotate / Flip disagrees with the documented table')
    for b in bad:
        print('  ' + b)
    sys.exit(1)
print('ok')
sys.exit(0)
