"""X02 (growth of the specification beyond the twenty properties) - radiometric paths.

Path.tla models Material / path_transmission / path_emission as a state machine over quantities (scalars or sampled
spectra, arithmetic of Spectrum.tla).  TLC evaluates the machine state after every element of seeded paths and checks the
path theorems (Bounded, NonNeg, ClosedForm for scalar paths, Commutes on one grid) on every case; lentil's
path_transmission / path_emission are called on every prefix of the same path and compared with the emitted states.
"""
import random
from fractions import Fraction as Fr

import numpy as np

from harness.core import import_lentil
from harness.tlc import eval_cases
from harness import spectra as sp

LEVEL = 'model_checking'


def rand_q(rng, kind, grids, lo=0, hi=8, den=8):
    """a quantity: ('s', Fraction) or ('sp', w, v) with values k/den in [lo/den, hi/den]"""
    if kind == 's':
        return ('s', Fr(rng.randint(lo, hi), den))
    w = rng.choice(grids)
    return ('sp', w, [Fr(rng.randint(lo, hi), den) for _ in w])


def qjson(q):
    if q[0] == 's':
        return {'k': 's', 'v': sp.rj(q[1])}
    return {'k': 'sp', 's': sp.spec_json('nm', None, q[1], q[2])}


def qreal(lentil, q):
    if q[0] == 's':
        v = q[1]
        return int(v) if v.denominator == 1 else float(v)
    return lentil.radiometry.Spectrum(np.array([float(x) for x in q[1]]), np.array([float(x) for x in q[2]]), waveunit='nm', valueunit=None)


def same(obs, e, f):
    if e['k'] == 's':
        return np.isscalar(obs) and abs(float(obs) - f(e['v'][0])) <= 1e-12
    if not hasattr(obs, 'wave'):
        return False
    ew = np.array([f(x) for x in e['w']])
    ev = np.array([f(x) for x in e['v']])
    return len(obs.wave) == len(ew) and np.allclose(obs.wave, ew, rtol=1e-12, atol=0) and np.allclose(obs.value, ev, rtol=1e-10, atol=1e-12)


def run(ctx):
    lentil = import_lentil()
    r = lentil.radiometry
    rng = random.Random(202 + ctx.seed)
    base = [[Fr(400 + k) for k in range(6)], [Fr(402) + Fr(k, 2) for k in range(7)], [Fr(398 + 2 * k) for k in range(5)],
            [Fr(401), Fr(402), Fr(404), Fr(405), Fr(407)]]
    cases, paths = [], []
    for _ in range(250 if ctx.tier == 'quick' else 2500):
        n = rng.randint(1, 4)
        mode = rng.choice(('scalar', 'one-grid', 'mixed', 'mixed'))
        grids = base if mode == 'mixed' else [rng.choice(base)]
        path = []
        for _ in range(n):
            tk = 's' if mode == 'scalar' else rng.choice(('s', 'sp', 'sp'))
            ek = 's' if mode == 'scalar' else rng.choice(('s', 'sp'))
            path.append({'t': rand_q(rng, tk, grids), 'e': rand_q(rng, ek, grids, 0, 24), 'contam': rng.choice((Fr(1), Fr(1), Fr(1, 2), Fr(3, 4)))})
        e0 = rand_q(rng, 's' if mode == 'scalar' else rng.choice(('s', 'sp')), grids, 0, 16)
        if rng.random() < 0.4:
            e0 = ('s', Fr(0))
        paths.append((path, e0, mode))
        cases.append({'id': len(cases), 'path': [{'t': qjson(el['t']), 'e': qjson(el['e']), 'contam': sp.rj(el['contam'])} for el in path], 'e0': qjson(e0)})
    exp, res = eval_cases('MC_Path', cases, nparts=10, timeout=1200)
    ctx.add_tlc(res, 'MC_Path (path machine; Bounded, NonNeg, ClosedForm, Commutes)')
    f = lambda x: float(sp.rf(x))
    for c, (path, e0, mode) in zip(cases, paths):
        e = exp[c['id']]
        items = []
        for el in path:
            cont = el['contam']
            items.append(r.Material(transmission=qreal(lentil, el['t']), emission=qreal(lentil, el['e']), contam=int(cont) if cont.denominator == 1 else float(cont)))
        for k in range(1, len(path) + 1):
            shape_sig = {'mode': mode, 'upstream': e0[0], 't_first': path[0]['t'][0], 'e_first': path[0]['e'][0]}
            ctx.case((c['id'], k), nontrivial=mode != 'scalar')
            for what, fn, key in (('transmission', lambda: r.path_transmission(items[:k]), 'T'),
                                  ('emission', lambda: r.path_emission(items[:k], emission=qreal(lentil, e0)), 'E')):
                try:
                    obs = fn()
                except Exception as ex:
                    ctx.violation(dict(shape_sig, kind=what + '-' + type(ex).__name__), {'case': c, 'prefix': k, 'error': repr(ex)[:200]}, case={'case': c})
                    continue
                if not same(obs, e[key][k - 1], f):
                    ctx.violation(dict(shape_sig, kind=what + '-value'),
                                  {'case': c, 'prefix': k, 'expected': e[key][k - 1],
                                   'observed': [obs.wave, obs.value] if hasattr(obs, 'wave') else obs}, case={'case': c})
    ctx.traces += len(cases)
    ctx.sample({'case': cases[0], 'states_by_TLC': exp[0]}, maxn=1)
    ctx.rule = ('paths of 1-4 elements; transmissions k/8 in [0, 1], emissions k/8 >= 0, contamination 1, 1/2, 3/4; scalars only / spectra on one grid / '
                'spectra on four different nanometre grids mixed with scalars; every prefix compared')
    ctx.assumptions += ['extra behaviour outside the twenty listed properties; not registered in MANIFEST.json']
