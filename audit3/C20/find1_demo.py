"""hex_segments: with pad=1 (and antialiasing, the default) the aperture reaches the
last row / column of the array; with pad=0 the last row of the aperture is cut off.

The array size is computed as if the aperture were centred on (n-1)/2, but the
segments are drawn about the origin sample floor(n/2).  For even n there is one
sample fewer on the high-index side than on the low-index side.
"""
import os, sys
sys.path.insert(0, os.environ.get('LENTIL_REPO', '.'))
import numpy as np
import lentil

fail = False

# (a) pad=1: one zero pixel of padding is requested, the last row is not zero
m = lentil.hex_segments(rings=1, seg_radius=3.0, seg_gap=0, pad=1, flatten=True)
edges = dict(first_row=m[0].max(), last_row=m[-1].max(),
             first_col=m[:, 0].max(), last_col=m[:, -1].max())
print('hex_segments(1, 3.0, 0, pad=1): shape', m.shape, edges)
if max(edges.values()) > 1e-9:
    print('  -> VIOLATION: aperture is not clear of the array border although pad=1')
    fail = True

m = lentil.hex_segments(rings=2, seg_radius=21.0, seg_gap=1, pad=1, rotate=True, flatten=True)
edges = dict(first_row=m[0].max(), last_row=m[-1].max(),
             first_col=m[:, 0].max(), last_col=m[:, -1].max())
print('hex_segments(2, 21.0, 1, pad=1, rotate=True): shape', m.shape, edges)
if max(edges.values()) > 1e-9:
    print('  -> VIOLATION: aperture is not clear of the array border although pad=1')
    fail = True

# how common is it?
n = bad = 0
for R in np.arange(3, 40, 0.37):
    for gap in (0, 1, 2.5):
        for rot in (False, True):
            f = lentil.hex_segments(1, R, gap, rotate=rot, pad=1, flatten=True)
            n += 1
            bad += max(f[0].max(), f[-1].max(), f[:, 0].max(), f[:, -1].max()) > 1e-9
print('pad=1, antialias=True: %d of %d apertures touch the border' % (bad, n))

# (b) pad=0: the segment on the high-index side loses a row -> areas are not equal
m = lentil.hex_segments(rings=1, seg_radius=39.63, seg_gap=0, pad=0, drop=())
areas = m.sum(axis=(1, 2))
print('hex_segments(1, 39.63, 0, pad=0): shape', m.shape, 'segment areas', np.round(areas, 2))
if areas.max() - areas.min() > 5:
    print('  -> VIOLATION: one segment is truncated by the array edge (area differs by %.1f px; '
          'the antialiased areas otherwise agree to < 1 px)' % (areas.max() - areas.min()))
    fail = True

sys.exit(1 if fail else 0)
