"""C17 - resampling a plane changes its sampling, not its optics.

A: TLC checks on Rescale.tla the extent lemma |ceil(n s) p/s - n p| < p/s for every n <= 64 and every scale factor
   of the set, identity at s = 1 and composition of the pixel-scale bookkeeping.
B: TLC enumerates (shape, pixel scale, segment count, scale factor) and emits the attributes the returned plane
   must have; lentil's Plane.rescale and Plane.resample (the same factor expressed as a target pixel scale) are
   executed on planes with smooth amplitude / OPD and 1..3 segments: shape of every array, pixel scale (exactly /s),
   binary mask with the same number and order of segments, untouched original, identity at s = 1, refusals of
   resample.  "To interpolation accuracy" clauses (transmitted power, propagated image) are a numeric leaf evaluated
   on band-limited apertures.
"""
import pickle
from fractions import Fraction as Fr

import numpy as np

from harness.core import import_lentil
from harness.tlc import run_tlc
from harness import spectra as sp

LEVEL = 'model_checking'


def smooth_plane(lentil, shape, px, nseg, cls='Pupil'):
    m, n = shape
    r, c = np.meshgrid(np.arange(m) - m // 2, np.arange(n) - n // 2, indexing='ij')
    amp = np.exp(-(r ** 2 / (2 * (m / 5) ** 2) + c ** 2 / (2 * (n / 5) ** 2))) + 0.05
    opd = 1e-7 * (0.3 * r / m + 0.2 * (c / n) ** 2)
    if nseg == 1:
        mask = np.ones(shape, dtype=int)
    else:
        mask = np.zeros((nseg,) + tuple(shape), dtype=int)
        edges = np.linspace(0, n, nseg + 1).astype(int)
        for k in range(nseg):
            mask[k, :, edges[k]:edges[k + 1]] = 1
    kw = dict(amplitude=amp, opd=opd, mask=mask, pixelscale=None if px == [] else (float(sp.rf(px[0])), float(sp.rf(px[1]))))
    return lentil.Pupil(focal_length=10.0, **kw) if cls == 'Pupil' else lentil.Plane(**kw)


def seg_order(mask):
    """column centroid of every segment (order must be preserved)"""
    if mask.ndim == 2:
        return [float(np.argwhere(mask)[:, 1].mean())] if mask.any() else []
    return [float(np.argwhere(s)[:, 1].mean()) if s.any() else None for s in mask]


def run(ctx):
    lentil = import_lentil()
    q = ctx.tier == 'quick'
    res = run_tlc('MC_C17', env={'C17_NMAX': 64 if q else 200}, workers=4, timeout=900, coverage=True)
    ctx.add_tlc(res, 'MC_C17 (extent lemma, identity, composition; expected attributes)')
    ctx.require_coverage(res, ['Pick'])
    ctx.exhaustive = True
    for e in res.emits:
        p, s, out = e['p'], sp.rf(e['s']), e['out']
        if p['nseg'] > 1 and (p['shape'][1] // p['nseg']) * s < 2:
            ctx.skip('segments narrower than two samples after resampling (segment structure cannot survive)')
            continue
        for route in ('rescale', 'resample'):
            plane = smooth_plane(lentil, p['shape'], p['px'], p['nseg'], cls='Pupil' if p['nseg'] % 2 else 'Plane')
            if p['px'] != [] and (len(p['shape']) + p['nseg'] + int(s * 4)) % 2 == 0:
                # half of the planes carry a fitted tilt already (Tilt objects on plane.tilt) when they are resized
                plane.fit_tilt(inplace=True)
            before = pickle.dumps(plane)
            sig = {'route': route, 'upscale': s > 1, 'nseg>1': p['nseg'] > 1, 'px': 'none' if p['px'] == [] else ('square' if p['px'][0] == p['px'][1] else 'nonsquare')}
            detail = {'shape': p['shape'], 'px': p['px'], 'scale': str(s), 'nseg': p['nseg']}
            ctx.case((route, tuple(p['shape']), str(p['px']), p['nseg'], str(s)), nontrivial=s != 1)
            try:
                if route == 'rescale':
                    r = plane.rescale(float(s))
                else:
                    if p['px'] == []:
                        try:
                            plane.resample(0.5)
                            ctx.violation(dict(sig, kind='resample-without-pixelscale-accepted'), detail, case=None)
                        except ValueError:
                            pass
                        continue
                    if not e['resample_ok']:
                        try:
                            plane.resample(float(sp.rf(p['px'][0])) / float(s))
                            ctx.violation(dict(sig, kind='resample-nonuniform-accepted'), detail, case=None)
                        except NotImplementedError:
                            pass
                        continue
                    r = plane.resample(float(sp.rf(e['q'])))
            except Exception as ex:
                ctx.violation(dict(sig, kind=type(ex).__name__), dict(detail, error=repr(ex)[:200]), case=None)
                continue
            if pickle.dumps(plane) != before:
                ctx.violation(dict(sig, kind='original-modified'), detail, case=None)
            exp_shape = tuple(out['shape'])
            # n*s exactly an integer with a non-dyadic factor is a float tie for ceil()
            tie = [(Fr(n) * s).denominator == 1 and (s.denominator & (s.denominator - 1)) != 0 for n in p['shape']]
            shapes = {'amplitude': r.amplitude.shape, 'opd': r.opd.shape, 'mask': r.mask.shape[-2:], 'plane': tuple(r.shape)}
            for name, sh in shapes.items():
                ok = all(sh[i] == exp_shape[i] or (tie[i] and sh[i] == exp_shape[i] + 1) for i in (0, 1))
                if not ok:
                    ctx.violation(dict(sig, kind='shape', array=name), dict(detail, expected=exp_shape, observed=sh), case=None)
            if out['px'] == []:
                if r.pixelscale is not None:
                    ctx.violation(dict(sig, kind='pixelscale'), dict(detail, expected=None, observed=r.pixelscale), case=None)
            else:
                ep = (float(sp.rf(out['px'][0])), float(sp.rf(out['px'][1])))
                if r.pixelscale is None or any(abs(a - b) > 1e-12 * a for a, b in zip(ep, r.pixelscale)):
                    ctx.violation(dict(sig, kind='pixelscale'), dict(detail, expected=ep, observed=r.pixelscale), case=None)
            mk = np.asarray(r.mask)
            if not np.all((mk == 0) | (mk == 1)):
                ctx.violation(dict(sig, kind='mask-not-binary'), detail, case=None)
            if r.size != out['nseg']:
                ctx.violation(dict(sig, kind='segment-count'), dict(detail, expected=out['nseg'], observed=r.size), case=None)
            else:
                o0, o1 = seg_order(np.asarray(plane.mask)), seg_order(mk)
                if None in o1 or sorted(range(len(o1)), key=lambda k: o1[k]) != sorted(range(len(o0)), key=lambda k: o0[k]):
                    ctx.violation(dict(sig, kind='segment-order'), detail, case=None)
            if s == 1:
                if not (np.allclose(r.amplitude, plane.amplitude, rtol=0, atol=1e-12) and np.allclose(r.opd, plane.opd, rtol=0, atol=1e-18)
                        and np.array_equal(mk, np.asarray(plane.mask))):
                    ctx.violation(dict(sig, kind='identity-at-scale-1'), detail, case=None)
            # the result is then used and changed in place (tilt fitted out, arrays overwritten): the original still is what it was
            try:
                for arr in (r.amplitude, r.opd, r.mask):
                    if isinstance(arr, np.ndarray) and arr.flags.writeable:
                        arr[...] = 0
                for t_ in r.tilt:
                    t_.x += 1e-6              # (the recorded tilts of the RESULT are trimmed in place)
                r.tilt.append(lentil.Tilt(1e-6, -2e-6))
                r.fit_tilt(inplace=True)
            except Exception:
                pass                 # (a plane without a pixel scale refuses to fit tilt: whether the use succeeds is not the point)
            if pickle.dumps(plane) != before:
                ctx.violation(dict(sig, kind='original-shares-state-with-result'), detail, case=None)
    # a plane whose OPD is ONE number (a piston held in a 0-d array): the result's piston is the result's
    for sc_ in (0.5, 1.5, 2.0):
        ctx.case(('scalar-opd-then-edit', sc_))
        pl_ = lentil.Pupil(amplitude=lentil.circle((24, 24), 9), opd=np.array(1e-7), pixelscale=1e-3, focal_length=2.0)
        b4_ = pickle.dumps(pl_)
        rr_ = pl_.rescale(sc_)
        try:
            rr_.opd += 5e-8
        except Exception:
            pass
        if pickle.dumps(pl_) != b4_:
            ctx.violation({'kind': 'original-shares-state-with-result', 'opd': 'scalar', 'upscale': sc_ > 1}, {'scale': sc_}, case=None)
    # ---- numeric leaf: power and propagated image to interpolation accuracy ------------------------------------------------------
    nleaf = 0
    for shape in ((32, 32), (33, 31), (40, 36)):
        for nseg in (1, 2):
            for s in (0.5, 0.75, 1.5, 2.0, 2.5, 3.0):
                plane = smooth_plane(lentil, shape, [[1, 2], [1, 2]], nseg)
                # band-limited: Gaussian amplitude, tails at the 5% pedestal are removed to avoid an edge
                plane.amplitude = plane.amplitude - 0.05
                r = plane.rescale(s)
                nleaf += 1
                p0, p1 = float((np.abs(plane.amplitude) ** 2).sum()), float((np.abs(r.amplitude) ** 2).sum())
                sig = {'kind': 'power-after-rescale', 'upscale': s > 1, 'nseg>1': nseg > 1}
                if abs(p1 - p0) > 2e-2 * p0:
                    ctx.violation(sig, {'shape': shape, 'scale': s, 'power_before': p0, 'power_after': p1}, case=None)
                # the optics seen THROUGH the plane (multiply, then propagate), monolithic and segmented alike
                w0 = lentil.Wavefront(1e-6) * plane
                w1 = lentil.Wavefront(1e-6) * r
                t0, t1 = float(w0.intensity.sum()), float(w1.intensity.sum())
                if abs(t1 - t0) > 2e-2 * t0:
                    ctx.violation({'kind': 'transmitted-power-after-rescale', 'upscale': s > 1, 'nseg>1': nseg > 1},
                                  {'shape': shape, 'scale': s, 'before': t0, 'after': t1}, case=None)
                a = lentil.propagate_dft(w0, pixelscale=3e-7, shape=24, oversample=1).intensity      # ~2x Nyquist for a 16 m aperture
                b = lentil.propagate_dft(w1, pixelscale=3e-7, shape=24, oversample=1).intensity
                if np.abs(a - b).max() > 3e-2 * a.max():
                    ctx.violation({'kind': 'image-after-rescale', 'upscale': s > 1, 'nseg>1': nseg > 1},
                                  {'shape': shape, 'scale': s, 'max_rel_diff': float(np.abs(a - b).max() / a.max())}, case=None)
    # an OPD (or amplitude) value of exactly zero is a value, not "no data": a smooth OPD with nodal lines ON the sampling grid
    # (x*y, tilt, coma written on the centred grid) is resampled as well as the same map plus a nanometre of piston
    for n_ in (64, 63):
        rr_, cc_ = np.meshgrid(np.arange(n_) - n_ // 2, np.arange(n_) - n_ // 2, indexing='ij')
        amp_ = np.exp(-(rr_ ** 2 + cc_ ** 2) / (2 * (n_ / 9) ** 2))
        for s_ in (1.5, 2.0, 3.0):
            out_ = {}
            for name_, opd_ in (('nodal', 120e-9 / (n_ / 4) * rr_ * cc_), ('piston', 120e-9 / (n_ / 4) * rr_ * cc_ + 1e-9)):
                pl = lentil.Pupil(amplitude=amp_, opd=opd_, pixelscale=1e-3, focal_length=10.0)
                i0 = lentil.propagate_dft(lentil.Wavefront(600e-9) * pl, pixelscale=4e-6, shape=48, oversample=1).intensity
                i1 = lentil.propagate_dft(lentil.Wavefront(600e-9) * pl.rescale(s_), pixelscale=4e-6, shape=48, oversample=1).intensity
                out_[name_] = float(np.abs(i1 - i0).max() / i0.max())
            nleaf += 1
            if out_['nodal'] > 1e-3 and out_['nodal'] > 50 * max(out_['piston'], 1e-7):
                ctx.violation({'kind': 'image-after-rescale', 'opd_has_exact_zeros': True, 'upscale': True},
                              {'shape': [n_, n_], 'scale': s_, 'max_rel_diff_with_nodal_lines': out_['nodal'], 'same_map_plus_1nm_piston': out_['piston']}, case=None)
    # a plane that carries fitted tilt is still the same optics after rescaling (odd sizes matter: the tilt pivots about the
    # array centre sample, so the content must be resampled about that sample as well)
    for shape, s_ in (((49, 49), 2.0), ((49, 49), 0.5), ((49, 61), 1.5), ((48, 48), 0.77), ((48, 48), 2.0)):
        for nseg in (1, 3):
            pl = smooth_plane(lentil, shape, [[1, 64], [1, 64]], nseg)
            m_, n_ = shape
            rr_, cc_ = np.meshgrid(np.arange(m_) - m_ // 2, np.arange(n_) - n_ // 2, indexing='ij')
            # one Gaussian sub-aperture per segment, vanishing towards the segment's edges (smooth on the grid, hard edges carry no light)
            edges_ = np.linspace(0, n_, nseg + 1).astype(int)
            amp_ = np.zeros(shape)
            for k_ in range(nseg):
                c0_ = (edges_[k_] + edges_[k_ + 1] - 1) / 2 - n_ // 2
                wd_ = (edges_[k_ + 1] - edges_[k_]) / 6.0
                amp_ += np.exp(-((cc_ - c0_) ** 2 + rr_ ** 2 * (n_ / nseg / m_) ** 2) / (2 * wd_ ** 2))
            pl.amplitude = amp_
            pl.opd = 1.5e-9 * (rr_ ** 2 + cc_ ** 2) + 3e-8 * rr_ - 2e-8 * cc_      # defocus + tilt: every segment has its own slope (up to 0.07 waves per sample)
            nleaf += 1
            try:
                pf = pl.fit_tilt()
                i1 = lentil.propagate_dft(lentil.Wavefront(1e-6) * pf, pixelscale=2e-6, shape=32, oversample=1).intensity
                i2 = lentil.propagate_dft(lentil.Wavefront(1e-6) * pf.rescale(s_), pixelscale=2e-6, shape=32, oversample=1).intensity
            except Exception as ex:
                ctx.violation({'kind': 'fitted-tilt-plane-' + type(ex).__name__}, {'shape': shape, 'scale': s_, 'error': repr(ex)[:200]}, case=None)
                continue
            if np.abs(i2 - i1).max() > 1e-2 * i1.max():
                ctx.violation({'kind': 'image-after-rescale', 'fitted_tilt': True, 'nseg>1': nseg > 1, 'odd_size': bool(m_ % 2 or n_ % 2 or int(np.ceil(m_ * s_)) % 2)},
                              {'shape': shape, 'scale': s_, 'max_rel_diff': float(np.abs(i2 - i1).max() / i1.max())}, case=None)
    # a plane given by a mask and a SCALAR amplitude (the documented default amplitude = 1) is the same optics as the one with that
    # amplitude written out as an array: transmitted power is preserved
    for shape in ((32, 32), (33, 31), (24, 40)):
        for nseg in (1, 2):
            for a0 in (1, 0.5):
                for s_ in (0.5, 1.5, 2.0, 3.0):
                    ref = smooth_plane(lentil, shape, [[1, 2], [1, 2]], nseg)
                    mk = np.array(ref.mask, copy=True)
                    mk[..., :3, :] = 0
                    mk[..., -3:, :] = 0
                    mk[..., :, :3] = 0
                    mk[..., :, -3:] = 0                      # (a hard edge inside the array: its area is kept to one sample of perimeter)
                    pl = lentil.Pupil(amplitude=a0, opd=ref.opd, mask=mk, pixelscale=ref.pixelscale, focal_length=10.0)
                    nleaf += 1
                    try:
                        t0 = float((lentil.Wavefront(1e-6) * pl).intensity.sum())
                        t1 = float((lentil.Wavefront(1e-6) * pl.rescale(s_)).intensity.sum())
                    except Exception as ex:
                        ctx.violation({'kind': 'scalar-amplitude-plane-' + type(ex).__name__, 'nseg>1': nseg > 1}, {'shape': shape, 'scale': s_, 'error': repr(ex)[:200]}, case=None)
                        continue
                    if abs(t1 - t0) > 0.25 * t0:           # hard-edged mask: area to O(perimeter); a missing 1/s is a factor s^2 >= 2.25
                        ctx.violation({'kind': 'transmitted-power-after-rescale', 'amplitude': 'scalar', 'upscale': s_ > 1, 'nseg>1': nseg > 1},
                                      {'shape': shape, 'scale': s_, 'amplitude': a0, 'before': t0, 'after': t1}, case=None)
    # a hard-edged aperture (a mask that does not fill the array) over an OPD that is smooth on the WHOLE array: the OPD inside the new
    # mask is the interpolated OPD, not the OPD weighted down towards the rim.  A constant OPD (a piston - optically nothing) must stay
    # that constant on every sample of the new mask, and the same aperture with its amplitude written as an array of ones transmits
    # what it transmits with the scalar amplitude 1
    for n_, s_ in ((64, 3), (65, 0.75), (65, 1.5), (48, 1.25), (65, 0.6)):
        for segd in (False, True):
            if segd:
                mk = np.zeros((2, n_, n_))
                disc = lentil.circle((n_, n_), 0.4 * n_, antialias=False)
                cols = np.arange(n_)[None, :]
                mk[0], mk[1] = disc * (cols < n_ // 2 - 1), disc * (cols > n_ // 2 + 1)
            else:
                mk = lentil.circle((n_, n_), 0.4 * n_, antialias=False)
            pist = 650e-9
            nleaf += 1
            ctx.case(('hard-aperture', n_, s_, segd))
            try:
                pp = lentil.Pupil(amplitude=1, opd=np.full((n_, n_), pist), mask=mk, pixelscale=1.0 / n_, focal_length=10.0).rescale(s_)
                inside = (pp.mask != 0) if pp.mask.ndim == 2 else (pp.mask != 0).any(axis=0)
                dev = float(np.abs(np.asarray(pp.opd)[inside] - pist).max() / pist)
                pa = lentil.Pupil(amplitude=np.ones((n_, n_)), mask=mk, pixelscale=1.0 / n_, focal_length=10.0)
                ps_ = lentil.Pupil(amplitude=1, mask=mk, pixelscale=1.0 / n_, focal_length=10.0)
                ta = float((lentil.Wavefront(1e-6) * pa.rescale(s_)).intensity.sum())
                ts = float((lentil.Wavefront(1e-6) * ps_.rescale(s_)).intensity.sum())
            except Exception as ex:
                ctx.violation({'kind': 'hard-aperture-' + type(ex).__name__, 'nseg>1': segd}, {'n': n_, 'scale': s_, 'error': repr(ex)[:200]}, case=None)
                continue
            if dev > 1e-9:
                ctx.violation({'kind': 'opd-attenuated-at-the-rim', 'nseg>1': segd, 'upscale': s_ > 1},
                              {'n': n_, 'scale': s_, 'max_relative_change_of_a_constant_opd_inside_the_new_mask': dev}, case=None)
            if abs(ta - ts) > 1e-9 * ts:
                ctx.violation({'kind': 'amplitude-attenuated-at-the-rim', 'nseg>1': segd, 'upscale': s_ > 1},
                              {'n': n_, 'scale': s_, 'transmitted_with_scalar_amplitude': ts, 'with_array_of_ones': ta}, case=None)
    # what the arrays hold OUTSIDE the mask carries no information and must not leak into the aperture when the plane is resampled:
    # (a) a plane that was rescaled before (its arrays are zero outside its mask) - a constant OPD stays that constant through
    #     rescale(1).rescale(s) and rescale(1.5).rescale(s) exactly as through rescale(s);
    # (b) a plane whose tilt has been fitted (the ramp is removed inside the mask only, the array still holds it outside) - a pure
    #     tilt leaves NO OPD inside the mask, before and after rescaling
    for n_, s_ in ((64, 3), (65, 1.5), (48, 1.25), (65, 0.75)):
        mk = lentil.circle((n_, n_), 0.4 * n_, antialias=False)
        pist = 650e-9
        rr_, cc_ = lentil.helper.mesh((n_, n_))
        for route in ('twice-1', 'twice-1.5', 'fit_tilt'):
            nleaf += 1
            ctx.case(('outside-the-mask', n_, s_, route))
            try:
                if route == 'fit_tilt':
                    ramp_ = 3e-6 * (rr_ / n_) - 2e-6 * (cc_ / n_)
                    p0 = lentil.Pupil(amplitude=1, opd=ramp_, mask=mk, pixelscale=1.0 / n_, focal_length=10.0).fit_tilt()
                    pr = p0.rescale(s_)
                    level, scale_ = 0.0, 3e-6
                    pre = float(np.abs(np.asarray(p0.opd)[mk != 0]).max())
                else:
                    p0 = lentil.Pupil(amplitude=1, opd=np.full((n_, n_), pist), mask=mk, pixelscale=1.0 / n_, focal_length=10.0)
                    pr = p0.rescale(1 if route == 'twice-1' else 1.5).rescale(s_)
                    level, scale_, pre = pist, pist, 0.0
                inside = pr.mask != 0
                dev = float(np.abs(np.asarray(pr.opd)[inside] - level).max() / scale_)
            except Exception as ex:
                ctx.violation({'kind': 'outside-the-mask-' + type(ex).__name__, 'route': route}, {'n': n_, 'scale': s_, 'error': repr(ex)[:200]}, case=None)
                continue
            if dev > 1e-9 or pre > 1e-9 * 3e-6:
                ctx.violation({'kind': 'values-outside-the-mask-leak-into-the-aperture', 'route': route, 'upscale': s_ > 1},
                              {'n': n_, 'scale': s_, 'max_opd_error_inside_the_new_mask_relative': dev}, case=None)
    # a segmented plane with exactly ONE segment (a mask cube of depth 1) is rescaled like the monolithic plane with that mask: 2-D
    # amplitude and OPD of ceil(n*s) samples, one segment, the same product with a wavefront
    for n_, s_ in ((32, 1.5), (33, 2), (24, 0.75)):
        mk2 = lentil.circle((n_, n_), 0.4 * n_, antialias=False)
        rr_, cc_ = lentil.helper.mesh((n_, n_))
        kw_ = dict(amplitude=np.exp(-(rr_ ** 2 + cc_ ** 2) / (2 * (n_ / 4) ** 2)), opd=1e-7 * (rr_ / n_) ** 2, pixelscale=1.0 / n_, focal_length=10.0)
        nleaf += 1
        ctx.case(('depth-1-cube', n_, s_))
        try:
            pc = lentil.Pupil(mask=mk2[np.newaxis, ...], **kw_).rescale(s_)
            pm = lentil.Pupil(mask=mk2, **kw_).rescale(s_)
            want = (int(np.ceil(n_ * s_)),) * 2
            fc, fm = (lentil.Wavefront(1e-6) * pc).field, (lentil.Wavefront(1e-6) * pm).field
            ok = np.shape(pc.amplitude) == want and np.shape(pc.opd) == want and pc.mask.shape == (1,) + want and np.allclose(fc, fm, rtol=1e-12, atol=1e-14)
            err = None
        except Exception as ex:
            ok, err = False, repr(ex)[:200]
        if not ok:
            ctx.violation({'kind': 'depth-1-segment-cube', 'upscale': s_ > 1}, {'n': n_, 'scale': s_, 'error': err}, case=None)
    # an aperture that FILLS its array: every new sample lies within the footprint of the old array (old coordinates -1/2 .. n-1/2), so
    # the new mask is ones everywhere, as the amplitude is - the transmitted power is that of the old plane
    for shape_, s_ in (((65, 65), 3), ((64, 64), 1.5), ((63, 97), 3), ((48, 65), 2.5)):
        nleaf += 1
        ctx.case(('full-array-aperture', shape_, s_))
        try:
            pf_ = lentil.Pupil(amplitude=np.ones(shape_), pixelscale=1.0 / shape_[0], focal_length=10.0)
            pr_ = pf_.rescale(s_)
            t0 = float((lentil.Wavefront(1e-6) * pf_).intensity.sum())
            t1 = float((lentil.Wavefront(1e-6) * pr_).intensity.sum())
            full = bool(np.all(pr_.mask != 0))
        except Exception as ex:
            ctx.violation({'kind': 'full-array-aperture-' + type(ex).__name__}, {'shape': shape_, 'scale': s_, 'error': repr(ex)[:200]}, case=None)
            continue
        # ceil(n*s) samples of 1/s cover at most one old sample more than the old array: the power is kept to that
        if not full or abs(t1 - t0) > t0 * (1.0 / (shape_[0] * s_) + 1.0 / (shape_[1] * s_) + 1e-9):
            ctx.violation({'kind': 'mask-eroded-at-the-array-border', 'upscale': s_ > 1},
                          {'shape': shape_, 'scale': s_, 'new_mask_all_ones': full, 'power_before': t0, 'power_after': t1}, case=None)
    # beam width: a Gaussian amplitude of RMS width sigma samples has RMS width s*sigma samples after rescaling by s.  Pairs of factors
    # that give the SAME output size on the same input shape are used one after the other (and the first again at the end): the
    # magnification is the factor that was asked for, not one remembered from an earlier call
    def rms_width(a):
        p = np.abs(a) ** 2
        rr, cc = np.indices(p.shape)
        pr, pc = (p * rr).sum() / p.sum(), (p * cc).sum() / p.sum()
        return np.sqrt((p * (rr - pr) ** 2).sum() / p.sum()), np.sqrt((p * (cc - pc) ** 2).sum() / p.sum())
    for shape, fac in (((48, 48), (0.5, 0.48, 0.5)), ((40, 56), (1.5, 1.49, 1.5)), ((50, 50), (0.74, 0.73, 0.74))):
        plane = smooth_plane(lentil, shape, [[1, 2], [1, 2]], 1)
        plane.amplitude = plane.amplitude - 0.05
        w0 = rms_width(plane.amplitude)
        first = None
        for k, s_ in enumerate(fac):
            r = plane.rescale(s_)
            nleaf += 1
            w1 = rms_width(r.amplitude)
            if any(abs(b / a - s_) > 0.012 * s_ for a, b in zip(w0, w1)):
                ctx.violation({'kind': 'beam-width-after-rescale', 'call_in_sequence': k + 1},
                              {'shape': shape, 'scale': s_, 'factors_used_before': fac[:k], 'width_ratio': [b / a for a, b in zip(w0, w1)]}, case=None)
            if k == 0:
                first = np.array(r.amplitude, copy=True)
            if k == 2 and not np.allclose(r.amplitude, first, rtol=0, atol=1e-12):
                ctx.violation({'kind': 'rescale-depends-on-earlier-calls'}, {'shape': shape, 'factors': fac}, case=None)
    # magnitudes: rescaling is linear in the amplitude and in the OPD, whether they are of order 1 or 1e-13 (sub-picometre OPDs)
    for shape in ((32, 32), (33, 31)):
        for s_ in (0.75, 1.0, 1.5):
            plane = smooth_plane(lentil, shape, [[1, 2], [1, 2]], 1)
            ref = plane.rescale(s_)
            for k_amp, k_opd in ((1e-13, 1.0), (1.0, 1e-6), (1e9, 1e3)):
                tiny = smooth_plane(lentil, shape, [[1, 2], [1, 2]], 1)
                tiny.amplitude = tiny.amplitude * k_amp
                tiny.opd = tiny.opd * k_opd
                rt = tiny.rescale(s_)
                nleaf += 1
                if not (np.allclose(rt.amplitude / k_amp, ref.amplitude, rtol=1e-9, atol=1e-12) and
                        np.allclose(rt.opd / k_opd, ref.opd, rtol=1e-9, atol=1e-19)):
                    ctx.violation({'kind': 'rescale-not-linear-in-magnitude', 'amplitude_scale': k_amp, 'opd_scale': k_opd},
                                  {'shape': shape, 'scale': s_}, case=None)
    ctx.traces += len(res.emits) * 2
    ctx.extra.update({'bookkeeping_cases_from_TLC': len(res.emits), 'numeric_leaf_cases': nleaf,
                      'outside_model': ['transmitted power to interpolation accuracy (2e-2)', 'propagated image to interpolation accuracy (3e-2 of peak)']})
    ctx.sample(res.emits[100], maxn=1)
    ctx.rule = ('TLC enumerates 6 shapes x 4 pixel-scale settings x 10 scale factors (0.5 .. 4 incl. 2/3, 5/4, 5/2) x 1..3 segments = 720 '
                'cases, each through rescale and through resample; distinct by (route, shape, pixel scale, segments, factor); non-trivial = s != 1')
    ctx.assumptions += ['n*s exactly integer with a non-dyadic factor is a float tie for ceil (either count accepted)',
                        'interpolation-accuracy clauses are a numeric leaf on Gaussian apertures']


def replay(ctx, rec):
    print('C17 cases are enumerated by TLC: re-run ./check C17')
