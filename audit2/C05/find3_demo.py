"""C05 finding 3: a segmented pupil whose segment tilts are carried by
Plane.fit_tilt() images to MORE than the input power, and nested output
windows capture more than the input power, because propagate_dft evaluates
every segment only on its own (tilt-shifted) window and Wavefront.intensity
adds the truncated fields coherently."""
import os, sys
sys.path.insert(0, os.environ['LENTIL_REPO'])
import numpy as np
import lentil
import lentil.helper

lam, fl, dx = 500e-9, 10.0, 1e-3
bad = []

def build(n, tilt, piston, amp):
    # two half-aperture segments with opposite tilts (tilt in waves per sample
    # along the columns) and a piston step between them
    mask = np.zeros((2, n, n), dtype=int)
    mask[0, :, :n//2] = 1
    mask[1, :, n//2:] = 1
    mask = mask * (amp != 0)
    r, c = lentil.helper.mesh((n, n))
    opd = mask[0]*(tilt*lam*c) + mask[1]*(-tilt*lam*c + piston*lam)
    return lentil.Pupil(amplitude=amp, opd=opd, mask=mask, pixelscale=dx, focal_length=fl)

# --- case 1: 6x6 aperture, period 9 samples, oversample 1 -------------------
n, M, osamp = 6, 9, 1
du = lam*fl/(dx*M)                       # alpha = 1/9 exactly, 9 >= 6
amp = lentil.normalize_power(np.ones((n, n)), 1.0)
pupil = build(n, 0.25, 0.75, amp)
field = amp*np.exp(2j*np.pi*pupil.opd/lam)
P = np.sum(np.abs(field)**2)
w_ref = lentil.Wavefront(lam) * pupil                  # tilt left in the OPD
w_fit = lentil.Wavefront(lam) * pupil.fit_tilt()       # same field, tilt carried analytically
print(f'case 1: input power sum|field|^2 = {P:.12f}')
print('  window   total (tilt in OPD)   total (fit_tilt)')
for k in range(1, M+1):
    t_ref = lentil.propagate_dft(w_ref, du, shape=k, oversample=osamp).intensity.sum()
    t_fit = lentil.propagate_dft(w_fit, du, shape=k, oversample=osamp).intensity.sum()
    flag = ''
    if t_fit > P*(1+1e-9):
        flag = '  <-- exceeds the input power'
        bad.append(f'case 1, window {k}x{k} of a {M}x{M} period: captured {t_fit:.6f} > input power {P:.6f}')
    print(f'  {k}x{k}      {t_ref:.12f}        {t_fit:.12f}{flag}')

# --- case 2: 32x32 circular aperture, period 128 samples, oversample 2 -------
n, M, osamp = 32, 64, 2
du = lam*fl/(dx*M)
amp = lentil.normalize_power(lentil.circle((n, n), n/2 - 1), 1.0)
pupil = build(n, 0.25, 0.75, amp)
P = np.sum(np.abs(amp)**2)
t_ref = lentil.propagate_dft(lentil.Wavefront(lam)*pupil, du, shape=M, oversample=osamp).intensity.sum()
t_fit = lentil.propagate_dft(lentil.Wavefront(lam)*pupil.fit_tilt(), du, shape=M, oversample=osamp).intensity.sum()
print(f'case 2: input power {P:.12f}  full-period total, tilt in OPD {t_ref:.12f}  with fit_tilt {t_fit:.12f}')
if t_fit > P*(1+1e-9):
    bad.append(f'case 2, full period: amplitude normalised to p={P:.3f} images to {t_fit:.6f}')

# --- case 3: nesting. 6x6 aperture, period 6 samples: the 6x6 window contains
#     the 5x5 window but captures less ----------------------------------------
n, M, osamp = 6, 6, 1
du = lam*fl/(dx*M)
amp = lentil.normalize_power(np.ones((n, n)), 1.0)
w_fit = lentil.Wavefront(lam) * build(n, 0.2, 0.75, amp).fit_tilt()
t5 = lentil.propagate_dft(w_fit, du, shape=5, oversample=osamp).intensity.sum()
t6 = lentil.propagate_dft(w_fit, du, shape=6, oversample=osamp).intensity.sum()
print(f'case 3: input power 1  window 5x5 captures {t5:.12f}  window 6x6 (full period) captures {t6:.12f}')
if t6 < t5*(1-1e-9):
    bad.append(f'case 3: the 6x6 window captures {t6:.6f}, less than the 5x5 window it contains ({t5:.6f}); both exceed the input power 1')

if bad:
    print('\nVIOLATION of C05 (no output window may capture more than the input power, nor less than a window it contains):')
    for b in bad:
        print('  -', b)
    print('cause: lentil/propagate.py propagate_dft computes each Field only on '
          'intersect(out_extent, prop_extent shifted by fix_shift); Wavefront.intensity '
          '(field.reduce/_merge) then adds these differently truncated fields coherently, so the '
          'interference terms are summed over part of a period only and do not cancel')
    sys.exit(1)
print('no violation observed')
sys.exit(0)
