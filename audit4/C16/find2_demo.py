"""C16 finding 2: a QE Spectrum whose values are stored in float16/float32 is interpolated in
that narrow precision, so even AT the spectrum's own wavelengths the efficiency used differs from
the stored one; the per-wavelength vector form of the very same numbers is exact."""
import os, sys
sys.path.insert(0, os.environ['LENTIL_REPO'])
import numpy as np
import lentil
from lentil.radiometry import Spectrum

rng = np.random.default_rng(0)
wave = np.arange(400., 1001., 50.)                     # 13 wavelengths, nm
photons = rng.uniform(0, 1000, (wave.size, 4, 4))
bad = False
for dt in (np.float64, np.float32, np.float16):
    qe = rng.uniform(0.001, 0.95, wave.size).astype(dt)     # the efficiencies, stored in dt
    exact = sum(photons[i] * float(qe[i]) for i in range(wave.size))
    vec = lentil.detector.collect_charge(photons, wave, qe)
    spec = lentil.detector.collect_charge(photons, wave, Spectrum(wave, qe))
    qe_used = Spectrum(wave, qe).sample(wave)
    e_vec = np.abs(vec - exact).max() / exact.max()
    e_spec = np.abs(spec - exact).max() / exact.max()
    print(f'{np.dtype(dt).name:8s} vector form rel.err {e_vec:.2e}   Spectrum form rel.err {e_spec:.2e}'
          f'   max |qe used - qe stored| {np.abs(qe_used - qe.astype(float)).max():.2e}')
    if e_spec > 1e-10:
        bad = True
if bad:
    print('VIOLATION: the Spectrum form of the efficiency (sampled at exactly its own wavelengths, same unit)\n'
          'does not give the same charge as the vector form: the linear interpolation is carried out in the\n'
          'dtype of Spectrum.value (2.4e-4 absolute QE error for float16, ~1e-8 for float32).')
    sys.exit(1)
sys.exit(0)
