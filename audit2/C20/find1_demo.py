"""C20 finding 1: hex_segments(flatten=True) returns an aperture mask with values > 1.

The antialiased masks of the individual segments are summed (np.sum) to build the
"single global mask".  Where three segments meet at a vertex the antialiasing
ramps of all three overlap, so for small non-negative gaps (0 <= seg_gap < ~0.385 px)
the flattened mask exceeds 1 (up to 1.5), although every drawn shape is supposed to
take values in [0, 1].
"""
import os, sys
sys.path.insert(0, os.environ.get('LENTIL_REPO', '.'))
import numpy as np
import lentil

fail = False
# generic (non-special) radii; gap 0 and a small positive gap; both orientations
for rings, seg_radius, seg_gap, rotate in [(1, 17.3, 0, False),
                                           (2, 23.71, 0, True),
                                           (2, 31.37, 0.1, False),
                                           (1, 12.9, 0.1, True)]:
    cube = lentil.hex_segments(rings, seg_radius, seg_gap, rotate=rotate, drop=())
    flat = lentil.hex_segments(rings, seg_radius, seg_gap, rotate=rotate, drop=(),
                               flatten=True)
    # every single segment is fine ...
    assert cube.min() >= 0 and cube.max() <= 1
    mx = flat.max()
    n_over = int(np.sum(flat > 1 + 1e-9))
    print(f'rings={rings} seg_radius={seg_radius} seg_gap={seg_gap} rotate={rotate}: '
          f'max of flattened mask = {mx:.6f}, samples above 1: {n_over}')
    if mx > 1 + 1e-9:
        fail = True

if fail:
    print('VIOLATION: the flattened hex-segment aperture takes values outside [0, 1] '
          '(segment antialiasing ramps are added at the vertices where three segments meet)')
    sys.exit(1)
sys.exit(0)
