"""C06 finding 2: the product of two fields that do not overlap is returned as a
Field with data of shape (0,), offset [0, 0] and extent (0, 0, 0, 0).  That
"zero" field claims to occupy pixel (0, 0): overlap() and boundary() are wrong,
and every further operation (multiply, merge, reduce, insert) raises instead of
treating it as the zero plane."""
import os, sys
sys.path.insert(0, os.environ['LENTIL_REPO'])
import numpy as np
import lentil.field as lf
from lentil.field import Field

bad = []
A = Field(np.ones((3, 3)), offset=[0, 0])
B = Field(np.ones((3, 3)), offset=[10, 10])
C = Field(2*np.ones((5, 5)), offset=[0, 0])       # contains pixel (0,0)
D = Field(2*np.ones((5, 5)), offset=[20, 20])     # rows/cols 18..22

Z = A * B        # embeddings are disjoint -> the zero plane, occupies no pixel
assert Z.size == 0

# extent queries
if lf.overlap((Z, C)):
    bad.append('overlap((A*B, C)) is True although A*B occupies no pixel (extent=%s)' % (Z.extent,))
bd = lf.boundary([Z, D])
if tuple(bd) != (18, 22, 18, 22):
    bad.append('boundary([A*B, D]) = %s, expected (18, 22, 18, 22): pixel (0,0) is in no field' % (bd,))

# arithmetic with the zero plane
def attempt(label, fn, check):
    try:
        r = fn()
    except Exception as e:
        bad.append('%s raises %s: %s' % (label, type(e).__name__, e))
        return
    if not check(r):
        bad.append('%s gives a wrong value' % label)

attempt('(A*B)*C   [expected: zero field]', lambda: Z * C, lambda r: r.size == 0 or not r.data.any())
attempt('Field(3.0)*(A*B)', lambda: Field(3.0) * Z, lambda r: r.size == 0 or not r.data.any())
attempt('merge(A*B, C, enforce_overlap=False)   [expected: C]',
        lambda: lf.merge(Z, C, enforce_overlap=False),
        lambda r: r.shape == (5, 5) and np.allclose(r.data, C.data))
attempt('reduce([A*B, C])   [expected total: C]', lambda: lf.reduce([Z, C]),
        lambda r: np.isclose(sum(f.data.sum() for f in r), C.data.sum()))
attempt('insert(A*B, zeros((4,4)))   [expected: unchanged array]',
        lambda: lf.insert(Z, np.zeros((4, 4), dtype=complex)), lambda r: not r.any())

if bad:
    print('VIOLATION (C06, zero product / extent queries):')
    for b in bad:
        print('  -', b)
    sys.exit(1)
print('ok')
