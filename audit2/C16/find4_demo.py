"""C16 finding 4: the long wavelength-unit names documented by radiometry.Unit
('nanometer', 'micron', 'meter') are refused by collect_charge when the QE is a
Spectrum - even when the Spectrum itself was built with that very name."""
import os, sys
sys.path.insert(0, os.environ.get('LENTIL_REPO', '.'))
import numpy as np
import lentil
from lentil.radiometry import Spectrum

print('lentil from', lentil.__file__)
photons = np.full((3, 2, 2), 10.0)
bad = False
cases = [('micron', [0.4, 0.5, 0.6], 'micron'),
         ('nm', [400., 500., 600.], 'nanometer'),
         ('meter', [4e-7, 5e-7, 6e-7], 'meter'),
         ('nm', [4e-7, 5e-7, 6e-7], 'meter')]
qv = [0.4, 0.5, 0.6]
for spec_unit, wave, call_unit in cases:
    wl_spec = {'micron': [0.4, 0.5, 0.6], 'nm': [400., 500., 600.], 'meter': [4e-7, 5e-7, 6e-7]}[spec_unit]
    qe = Spectrum(wl_spec, qv, waveunit=spec_unit)      # accepted
    ref = lentil.detector.collect_charge(photons, wave, qv, waveunit=call_unit)   # vector QE: accepted
    try:
        got = lentil.detector.collect_charge(photons, wave, qe, waveunit=call_unit)
        print('Spectrum(waveunit=%r), collect_charge(waveunit=%r): %s (vector QE: %s)'
              % (spec_unit, call_unit, got[0, 0], ref[0, 0]))
    except Exception as ex:
        print('Spectrum(waveunit=%r), collect_charge(waveunit=%r): %r   (vector QE gives %s)'
              % (spec_unit, call_unit, ex, ref[0, 0]))
        bad = True
if bad:
    print("VIOLATION: a unit name accepted by Unit()/Spectrum() makes collect_charge fail with "
          "ValueError('Unknown unit') for a Spectrum QE, while scalar and vector QE work")
    sys.exit(1)
print('ok')
sys.exit(0)
