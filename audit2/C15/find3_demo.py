"""C15 finding 3: Spectrum.bin(interp_method='simps') (the default) with integer
bin centres truncates the bin edges / quadrature nodes to integers, so the bins
are wrong even for flat and linear spectra."""
import os, sys
sys.path.insert(0, os.environ.get('LENTIL_REPO', '.'))
import numpy as np
import lentil
from lentil.radiometry import Spectrum

print('lentil from', lentil.__file__)
fail = False

# (a) flat spectrum, value 2, centres [2, 3] -> bins [1.5,2.5] and [2.5,3.5], each holds 2
s = Spectrum([1., 2., 3., 4., 5.], [2., 2., 2., 2., 2.])
bi = s.bin([2, 3], preserve_power=False)
bf = s.bin([2., 3.], preserve_power=False)
print('(a) flat=2, centres [2, 3]   (int)  ->', bi, '  centres [2., 3.] (float) ->', bf, '  expected [2, 2]')
if not np.allclose(bi, [2, 2]):
    fail = True

# (b) linear spectrum on a 1 nm grid, centres np.arange(450, 600, 5)
w = np.arange(400., 701.)
s = Spectrum(w, 2*w + 3)
ci = np.arange(450, 600, 5)          # int64
cf = ci.astype(float)
expected = (2*cf + 3)*5              # exact integral of 2x+3 over [c-2.5, c+2.5]
for ends in ('symmetric', 'inside'):
    exp = expected.copy()
    if ends == 'inside':
        exp[0] = (2*(cf[0] + 1.25) + 3)*2.5
        exp[-1] = (2*(cf[-1] - 1.25) + 3)*2.5
    bi = s.bin(ci, ends=ends, preserve_power=False)
    bf = s.bin(cf, ends=ends, preserve_power=False)
    ei = np.max(np.abs(bi - exp)/exp)
    ef = np.max(np.abs(bf - exp)/exp)
    print(f'(b) {ends}: max rel. error  int centres {ei:.3e}   float centres {ef:.3e}')
    if ei > 1e-9:
        fail = True

# (c) even spacing (10 nm): only ends='inside' is affected
ci = np.arange(450, 600, 10)
cf = ci.astype(float)
bi = s.bin(ci, ends='inside', preserve_power=False)
bf = s.bin(cf, ends='inside', preserve_power=False)
print('(c) spacing 10, inside: first bin int', bi[0], ' float', bf[0],
      ' exact', (2*(450 + 2.5) + 3)*5)
if abs(bi[0] - bf[0]) > 1e-9*bf[0]:
    fail = True

# (d) default arguments (preserve_power=True): a flat spectrum must give equal
#     interior bins
s = Spectrum(w, np.ones(w.size))
b = s.bin(np.arange(450, 600, 5))
print('(d) flat spectrum, default bin(np.arange(450, 600, 5)): first 3 bins', b[:3], ' last', b[-1])
if abs(b[0] - b[1]) > 1e-9:
    fail = True

if fail:
    print("VIOLATION: Simpson binning with integer-typed centres is not exact for "
          "flat/linear spectra (mid-points stored in an integer array are truncated)")
    sys.exit(1)
sys.exit(0)
