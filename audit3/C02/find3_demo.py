"""C02 finding 3: propagate_dft(mask=...) only refuses a mask whose shape differs from the
output shape on BOTH axes (np.all where np.any is meant).  A mask that is wrong on one axis
is accepted, its bounding box is located relative to the mask's own centre, and the window
that is evaluated is therefore NOT the bounding box of the mask in output samples.
"""
import os, sys
sys.path.insert(0, os.environ.get('LENTIL_REPO', '.'))
import numpy as np
import lentil

w = lentil.Wavefront(500e-9) * lentil.Pupil(amplitude=np.ones((8, 8)), pixelscale=1e-3, focal_length=1.0)
shape, osamp = (16, 16), 2                      # output is 32 x 32

def evaluated_box(mask):
    f = lentil.propagate_dft(w, 5e-6, shape=shape, oversample=osamp, mask=mask).field
    nz = np.nonzero(f)
    return f.shape, (nz[0].min(), nz[0].max(), nz[1].min(), nz[1].max())

fail = False
for mshape in [(32, 32), (32, 40), (32, 30), (30, 32), (30, 30)]:
    mask = np.zeros(mshape); mask[10:14, 5:11] = 1       # bounding box rows 10..13, cols 5..10
    try:
        oshape, box = evaluated_box(mask)
    except ValueError as e:
        print(mshape, 'refused:', e)
        continue
    print('mask shape', mshape, '-> accepted, output', oshape, 'evaluated rows %d..%d cols %d..%d' % box,
          '(mask bounding box rows 10..13 cols 5..10)')
    if mshape != (32, 32):
        fail = True
if fail:
    print('VIOLATION: a mask that does not have the output shape is accepted and the evaluated window '
          'is displaced from the mask bounding box')
sys.exit(1 if fail else 0)
