"""C09 finding 2: scratch space is not transparent (and FFT != DFT) for a
Wavefront that was itself produced by propagate_fft with a `shape` argument.

propagate_fft stores the *whole* FFT grid in the output Field while declaring
the smaller `shape*oversample` as the Wavefront shape.  When such a Wavefront
is propagated again
  * without scratch, propagate_fft uses wavefront.field  -> field cropped to
    wavefront.shape,
  * with scratch, it inserts the raw Field.data           -> uncropped field,
  * propagate_dft transforms the raw Field.data           -> uncropped field.
So supplying a (clean, exactly sized) scratch buffer changes the answer, and
the scratch-less FFT disagrees with the DFT at the reported wavelength.
"""
import os, sys
sys.path.insert(0, os.environ.get('LENTIL_REPO', '.'))
import numpy as np
import lentil

rng = np.random.default_rng(3)
npix = (16, 16)
dx, fl, du, wl = 1e-3, 0.2, 5e-6, 500e-9
pupil = lentil.Pupil(amplitude=rng.uniform(0.5, 1, npix), pixelscale=dx,
                     focal_length=fl)
w0 = lentil.Wavefront(wavelength=wl) * pupil

# pupil -> image -> pupil, asking for a 16 x 16 pupil-plane result
w_img = lentil.propagate_fft(w0, pixelscale=du, shape=8, oversample=2)
w_pup = lentil.propagate_fft(w_img, pixelscale=dx, shape=16, oversample=1)
print('re-imaged pupil wavefront: ptype', w_pup.ptype, 'shape', w_pup.shape,
      'stored Field shape', w_pup.data[0].shape,
      'tilt', [f.tilt for f in w_pup.data])

# now propagate this pupil-plane wavefront to the image plane
oversample, shape = 2, 8
grid = lentil.scratch_shape(w_pup.wavelength, w_pup.pixelscale, du, fl, oversample)
print('FFT grid / advertised scratch shape', grid)
assert all(s <= g for s, g in zip(w_pup.shape, grid))
assert all(s <= g for s, g in zip(w_pup.data[0].shape, grid))

a = lentil.propagate_fft(w_pup, pixelscale=du, shape=shape, oversample=oversample)
scratch = np.zeros(grid, dtype=complex)
b = lentil.propagate_fft(w_pup, pixelscale=du, shape=shape, oversample=oversample,
                         scratch=scratch)
assert a.wavelength == b.wavelength
w_ref = lentil.Wavefront.empty(wavelength=a.wavelength, pixelscale=w_pup.pixelscale,
                               focal_length=w_pup.focal_length, shape=w_pup.shape,
                               ptype=w_pup.ptype)
w_ref.data = w_pup.data
d = lentil.propagate_dft(w_ref, pixelscale=du, shape=shape, oversample=oversample)

nrm = np.max(np.abs(d.field))
e_ab = np.max(np.abs(a.field - b.field))/nrm
e_ad = np.max(np.abs(a.field - d.field))/nrm
e_bd = np.max(np.abs(b.field - d.field))/nrm
print(f'|FFT(no scratch) - FFT(scratch)| / max = {e_ab:.3e}')
print(f'|FFT(no scratch) - DFT|          / max = {e_ad:.3e}')
print(f'|FFT(scratch)    - DFT|          / max = {e_bd:.3e}')

if e_ab > 1e-9 or e_ad > 1e-9:
    print('VIOLATION: a clean scratch buffer of exactly the advertised shape '
          'changes the propagated field, and the scratch-less FFT result '
          'differs from the DFT result at the reported wavelength.')
    sys.exit(1)
print('no violation observed')
sys.exit(0)
