"""C01 finding 1: the unitary scale factor sqrt(|alpha_row*alpha_col|) is
evaluated in the dtype of the caller's `alpha`, not in double precision.

The kernel phases are evaluated in float64 from the given alpha values, but the
normalisation inherits alpha's dtype (float32 -> ~4e-8 relative error,
float16 -> ~1e-3 and worse, int8/int16 -> sqrt evaluated in float16/float32,
and the product alpha_row*alpha_col under/overflows although its square root
is perfectly representable).
"""
import os, sys
sys.path.insert(0, os.environ.get("LENTIL_REPO", "."))
import numpy as np
import lentil
from lentil.fourier import dft2, idft2

TOL = 1e-12   # anything above this is not floating-point (double) rounding
rng = np.random.default_rng(0)
m, n, M, N = 6, 7, 9, 8
f = rng.normal(size=(m, n)) + 1j * rng.normal(size=(m, n))


def defining_sum(f, ar, ac, M, N, unitary):
    """brute force sum_x f(x) exp(-2 pi i alpha x u), origins at floor(n/2)"""
    ar, ac = float(ar), float(ac)       # the exact values the caller passed
    m, n = f.shape
    R = np.arange(m) - m // 2
    S = np.arange(n) - n // 2
    out = np.empty((M, N), complex)
    for i in range(M):
        for j in range(N):
            u, v = i - M // 2, j - N // 2
            out[i, j] = np.sum(f * np.exp(-2j * np.pi * (ar * R[:, None] * u + ac * S[None, :] * v)))
    if unitary:
        out *= np.sqrt(abs(ar)) * np.sqrt(abs(ac))   # = sqrt(|ar*ac|), no under/overflow
    return out


bad = []
cases = [
    ("float32 alpha", np.array([0.11, 0.23], dtype=np.float32)),
    ("float16 alpha", np.array([1 / 300, 1 / 300], dtype=np.float16)),
    ("int8 alpha", np.array([1, 2], dtype=np.int8)),
    ("int16 alpha", np.array([1, 2], dtype=np.int16)),
    ("float64 alpha 1e-170 (product underflows)", np.array([1e-170, 1e-170])),
    ("float64 alpha (control)", np.array([0.11, 0.23])),
]
for name, alpha in cases:
    with np.errstate(all="ignore"):
        got_u = dft2(f, alpha, (M, N), unitary=True)
        got_n = dft2(f, alpha, (M, N), unitary=False)
    ref_u = defining_sum(f, alpha[0], alpha[1], M, N, True)
    ref_n = defining_sum(f, alpha[0], alpha[1], M, N, False)
    err_n = np.max(np.abs(got_n - ref_n)) / np.max(np.abs(ref_n))
    err_u = np.max(np.abs(got_u - ref_u)) / np.max(np.abs(ref_u))
    print(f"{name:45s} unitary=False rel.err {err_n:.2e}   unitary=True rel.err {err_u:.2e}")
    if err_n < TOL and err_u > TOL:
        bad.append(name)

assert os.path.abspath(lentil.__file__).startswith(os.path.abspath(os.environ.get("LENTIL_REPO", ".")))
if bad:
    print("\nVIOLATION: with unitary=True the result is not sqrt(|alpha_row*alpha_col|) times "
          "the defining sum although the unnormalised transform is exact to double rounding. "
          "Affected:", bad)
    sys.exit(1)
print("no violation observed")
sys.exit(0)
