------------------------------- MODULE MC_WFE -------------------------------
(* Evaluates WFE.tla on a case file: masks, F-numbers and translations; theorems as INVARIANTs, the map emitted. *)
EXTENDS WFE, Json, IOUtils
Cases == JsonDeserialize(IOEnv.CASES)
VARIABLE i
Init == i = 0
Next == i < Len(Cases) /\ i' = i + 1
Spec == Init /\ [][Next]_i
Emit == i > 0 => LET c == Cases[i] IN
    PrintT(<<"EMIT", ToJson([id |-> c.id, opd |-> Defocus(c.mask, c.F, c.delta), covers |-> Covers(c.mask),
                             radius |-> CeilHalf(Extent(c.mask))])>>)
Thms == i > 0 => LET c == Cases[i] IN
    /\ ThmPV(c.mask, c.F, c.delta)
    /\ ThmLinear(c.mask, c.F, c.delta, c.k)
    /\ ThmFNumber(c.mask, c.F, c.delta)
    /\ ThmZero(c.mask, c.F)
    /\ ThmSign(c.mask, c.F, c.delta)
=============================================================================
