"""C04 finding 3: a wavefront that went through a DispersiveTilt still follows the
element when its trace / dispersion coefficients are updated IN PLACE afterwards.

The repair "a wavefront keeps the tilt an element had when it passed through it" records
copy.copy(element) in the fields of the product.  For a Tilt (x and y are floats) that is a
snapshot; for a DispersiveTilt the shallow copy shares the coefficient arrays `trace` and
`dispersion` (which the element created itself with np.asarray and documents as plain
attributes that may be changed after construction).  Steering the element with
`dt.trace[-1] = ...` or `dt.dispersion[-1] = ...` in a loop therefore moves the image of
every wavefront collected before - exactly the behaviour the repair removed for
`tilt.x = ...` and for `dt.trace = new_array`.

exit code 1 if the violation is observed, 0 otherwise.
"""
import os
import sys

sys.path.insert(0, os.environ.get('LENTIL_REPO', '.'))
import numpy as np
import lentil

WL, DU, F, OS = 600e-9, 5e-6, 10.0, 1
P = lentil.Pupil(amplitude=lentil.circle((64, 64), 24), pixelscale=1e-3, focal_length=F)


def displacement(w):
    """displacement (rows, cols) in output samples that the tilt metadata of w produces"""
    return np.array(w.data[0].shift(z=F, wavelength=WL, pixelscale=(DU, DU), oversample=OS))


def centroid(w):
    img = lentil.propagate_dft(w, pixelscale=DU, shape=64, oversample=OS).intensity
    return np.round(np.array(lentil.centroid(img)), 2)


bad = []

# --- trace offset steered in place -------------------------------------------------------
dt = lentil.DispersiveTilt(trace=[0.0, 0.0], dispersion=[1e-3, 600e-9])
offsets = (0.0, 5e-5, 1e-4)                        # metres on the focal plane
ws = []
for off in offsets:
    dt.trace[1] = off                              # the element's own coefficient array
    ws.append(lentil.Wavefront(WL)*P*dt)
for off, w in zip(offsets, ws):
    # y = trace(x) = off at arc length 0  ->  row displacement -off/du*oversample
    expected = np.array([-off/DU*OS, 0.0])
    got = displacement(w)
    print(f'trace[-1] = {off:g} when the wavefront passed: expected displacement {expected}, '
          f'got {got}, image centroid {centroid(w)}')
    if np.abs(got - expected).max() > 1e-9:
        bad.append(f'trace offset {off:g}: displaced by {got} instead of {expected}')

# --- reference wavelength of the dispersion steered in place ------------------------------
dt = lentil.DispersiveTilt(trace=[0.0, 0.0], dispersion=[1e-3, 600e-9])
refs = (600e-9, 580e-9, 560e-9)
ws = []
for lam0 in refs:
    dt.dispersion[1] = lam0
    ws.append(lentil.Wavefront(WL)*P*dt)
for lam0, w in zip(refs, ws):
    # arc length (WL - lam0)/1e-3 along the trace y = 0  ->  column displacement
    expected = np.array([0.0, (WL - lam0)/1e-3/DU*OS])
    got = displacement(w)
    print(f'dispersion[-1] = {lam0:g} when the wavefront passed: expected displacement {expected}, '
          f'got {got}')
    if np.abs(got - expected).max() > 1e-6:
        bad.append(f'dispersion reference {lam0:g}: displaced by {got} instead of {expected}')

if bad:
    print("\nVIOLATION of C04 (a dispersive element's displacement lies on its trace polynomial at the "
          'arc length its dispersion polynomial maps to the wavelength): the wavefronts follow the '
          'coefficients the element was given AFTER they had passed it')
    for b in bad:
        print('  -', b)
    sys.exit(1)
print('no violation observed')
sys.exit(0)
