"""C11 finding 1: odd-j (sine) Zernike modes have the wrong sign.

Noll: odd j  ->  Z_j = sqrt(2(n+1)) R_n^m(rho) sin(m theta), m = |m| > 0.
lentil.zernike evaluates sin(m*theta) with the *signed* (negative) m returned
by zernike_index for odd j, i.e. -sin(|m| theta).
"""
import os, sys
sys.path.insert(0, os.environ.get('LENTIL_REPO', '.'))
import numpy as np
from math import factorial
import lentil


def noll_nm(j):
    n = 0
    j1 = j - 1
    while j1 > n:
        n += 1
        j1 -= n
    m = (n % 2) + 2 * ((j1 + ((n + 1) % 2)) // 2)
    return n, m


def radial(n, m, rho):
    out = np.zeros_like(rho)
    for k in range((n - m)//2 + 1):
        out += ((-1)**k * factorial(n-k) /
                (factorial(k)*factorial((n+m)//2-k)*factorial((n-m)//2-k))) * rho**(n-2*k)
    return out


rng = np.random.default_rng(0)
rho = rng.random((4, 5))
theta = rng.uniform(-np.pi, np.pi, (4, 5))
mask = np.ones((4, 5))

bad = []
for j in range(1, 67):
    n, m = noll_nm(j)
    for normalize in (True, False):
        if m == 0:
            ref = radial(n, 0, rho) * (np.sqrt(n+1) if normalize else 1)
        else:
            az = np.cos(m*theta) if j % 2 == 0 else np.sin(m*theta)
            ref = radial(n, m, rho) * az * (np.sqrt(2*(n+1)) if normalize else 1)
        got = lentil.zernike(mask, j, normalize=normalize, rho=rho, theta=theta)
        if not np.allclose(got, ref, rtol=1e-9, atol=1e-9):
            flipped = np.allclose(got, -ref, rtol=1e-9, atol=1e-9)
            bad.append((j, n, m, normalize, flipped))

if bad:
    print("VIOLATION: %d (mode, normalize) combinations differ from Noll's definition" % len(bad))
    for j, n, m, normalize, flipped in bad[:8]:
        print("  j=%d (n=%d, |m|=%d, sine mode) normalize=%s: result == -1 * textbook: %s"
              % (j, n, m, normalize, flipped))
    r = np.array([[0.5]]); t = np.array([[np.pi/2]])
    print("  e.g. Z3(rho=0.5, theta=pi/2) = %r, textbook 2*rho*sin(theta) = %r"
          % (float(lentil.zernike(np.ones((1, 1)), 3, rho=r, theta=t)[0, 0]), 1.0))
    sys.exit(1)
print("no violation observed")
sys.exit(0)
