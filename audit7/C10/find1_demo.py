"""C10: a wavefront that passed a Tilt whose angle is held as a 0-d array keeps
following later in-place edits of that array (the snapshot taken by
TiltInterface.multiply is shallow for Tilt, deep only for DispersiveTilt)."""
import os, sys
sys.path.insert(0, os.environ['LENTIL_REPO'])
import numpy as np
import lentil

amp = lentil.circle((32, 32), 12)
pupil = lentil.Pupil(amplitude=amp, pixelscale=1e-3, focal_length=1)
w0 = lentil.Wavefront(5e-7) * pupil

def image(w):
    return lentil.propagate_dft(w, 5e-6, shape=32, oversample=2).intensity

# (a) array-valued angle (0-d array, e.g. np.squeeze of a command vector)
cmd = np.array(1.13e-5)
steer = lentil.Tilt(x=cmd, y=0.0)
collected = []
for k in range(3):
    cmd[...] = (k + 1) * 1.13e-5          # steer the mirror, in place
    collected.append(w0 * steer)           # wavefront passes the element NOW
cents = [np.unravel_index(np.argmax(image(w)), (64, 64)) for w in collected]

# (b) reference: the same three states given as python floats
ref = [np.unravel_index(np.argmax(image(w0 * lentil.Tilt(x=(k + 1) * 1.13e-5, y=0.0))), (64, 64)) for k in range(3)]

# (c) repeatability: same wavefront object, same arguments, before / after an
# edit of the caller's array
w = w0 * steer
i1 = image(w)
cmd[...] = 0.0
i2 = image(w)

bad = False
if cents != ref:
    bad = True
    print('wavefronts collected in a loop all carry the LAST angle:')
    print('  peak (row, col) observed :', [tuple(int(v) for v in c) for c in cents])
    print('  peak (row, col) expected :', [tuple(int(v) for v in c) for c in ref])
if np.abs(i1 - i2).max() > 1e-9 * i1.max():
    bad = True
    print('propagate_dft(w, ...) of one and the same wavefront changed by',
          np.abs(i1 - i2).max() / i1.max(), 'of the peak after the caller edited the '
          'angle array of a Tilt the wavefront had ALREADY passed')
if bad:
    print('lentil from', lentil.__file__)
    sys.exit(1)
print('ok')
