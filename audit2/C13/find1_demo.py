"""C13 finding 1: Spectrum (op) Spectrum silently discards the imaginary part of
complex-valued operands, although Spectrum (op) scalar/vector keeps it."""
import os, sys, warnings
sys.path.insert(0, os.environ['LENTIL_REPO'])
import numpy as np
import lentil
from lentil.radiometry import Spectrum

wave = np.array([400., 500., 600.])
a = Spectrum(wave, [1., 2., 3.])
b = Spectrum(wave, [2., 2., 2.])

# a complex-valued spectrum produced by the library's own scalar arithmetic
z = a * np.complex128(1j)            # accepted: values 1j, 2j, 3j
assert np.iscomplexobj(z.value) and np.allclose(z.value, [1j, 2j, 3j])
# ... or given directly (e.g. a complex amplitude transmission)
z2 = Spectrum(wave, np.array([1 + 1j, 2 + 2j, 3 + 3j]))

failures = []
with warnings.catch_warnings(record=True) as caught:
    warnings.simplefilter('always')
    cases = [
        ('z * b', z * b, np.array([2j, 4j, 6j])),
        ('b * z', b * z, np.array([2j, 4j, 6j])),
        ('z + b', z + b, np.array([2 + 1j, 2 + 2j, 2 + 3j])),
        ('z2 - b', z2 - b, np.array([-1 + 1j, 0 + 2j, 1 + 3j])),
        ('z2 / b', z2 / b, np.array([.5 + .5j, 1 + 1j, 1.5 + 1.5j])),
        ('z2 ** b', z2 ** b, np.array([1 + 1j, 2 + 2j, 3 + 3j]) ** 2),
    ]
for label, result, expected in cases:
    if result.wave.shape != wave.shape or not np.allclose(result.value, expected):
        failures.append(f'{label}: expected {expected}, got {result.value}')
# the scalar / vector branch, on the same operands, is pointwise as required
assert np.allclose((z * 2).value, [2j, 4j, 6j])
assert np.allclose((z * np.array([2., 2., 2.])).value, [2j, 4j, 6j])

if failures:
    print('VIOLATION (C13, pointwise clause): Spectrum-Spectrum arithmetic drops the '
          'imaginary part of complex-valued operands')
    for f in failures:
        print('  ' + f)
    print('  warnings seen:', sorted({str(w.message) for w in caught}))
    print('  while z * 2 and z * [2,2,2] (same operands, scalar/vector branch) keep it')
    sys.exit(1)
print('ok')
sys.exit(0)
