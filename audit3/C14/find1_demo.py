"""Spectrum.bin truncates the bin mid-points when the bin centres have an
integer dtype (the natural way to write wavelengths in nm or angstrom), so the
binned flux of one and the same spectrum depends on whether the bins are
requested in nm (integers) or in um / as floats.

Exit code 1 when the violation is observed, 0 otherwise.
"""
import os
import sys

sys.path.insert(0, os.environ.get('LENTIL_REPO', '.'))

import numpy as np
import lentil
from lentil.radiometry import Blackbody, Spectrum

print('lentil from', lentil.__file__)

# a smooth per-wavelength density (photons s^-1 m^-2 sr^-1 nm^-1), finely sampled
src = Blackbody(np.arange(300., 1200.), 5000., waveunit='nm', valueunit='photlam')

# bin centres 75 nm apart; they are deliberately NOT on samples of the spectrum
# shifted by half a step, so no comparison in the library is an exact tie
centres_nm_int = [401, 476, 551, 626, 701]                 # integers (list -> int64)
centres_nm_flt = [401., 476., 551., 626., 701.]            # the same numbers as floats
centres_um = [0.401, 0.476, 0.551, 0.626, 0.701]           # the same wavelengths in um

failed = False
for ends in ('symmetric', 'inside'):
    # preserve_power=False: the bins are plain integrals of the density over each
    # bin, i.e. photons s^-1 m^-2 sr^-1, which do not depend on the wavelength unit
    b_int = src.bin(centres_nm_int, ends=ends, preserve_power=False, waveunit='nm')
    b_flt = src.bin(centres_nm_flt, ends=ends, preserve_power=False, waveunit='nm')
    b_um = src.bin(centres_um, ends=ends, preserve_power=False, waveunit='um')

    err_um = np.max(np.abs(b_um / b_flt - 1))
    err_int = np.max(np.abs(b_int / b_flt - 1))
    print(f'ends={ends!r}')
    print('   bins, centres in um (float)        :', b_um)
    print('   bins, centres in nm (float)        :', b_flt)
    print('   bins, centres in nm (integer)      :', b_int)
    print(f'   um vs nm(float)  max rel. diff = {err_um:.2e}')
    print(f'   nm(int) vs nm(float) max rel. diff = {err_int:.2e}')
    if err_um > 1e-9:
        print('   UNEXPECTED: um and nm(float) disagree')
        failed = True
    if err_int > 1e-9:
        failed = True

# the same thing seen through a unit conversion of the spectrum itself: the
# integral over the bins must survive nm -> angstrom (integer centres again)
s = Spectrum(np.arange(300., 1200.), src.value.copy(), 'nm', 'photlam')
before = s.bin([401., 476., 551., 626., 701.], preserve_power=False, waveunit='nm')
s.to('angstrom')
after = s.bin([4010, 4760, 5510, 6260, 7010], preserve_power=False, waveunit='angstrom')
# (spacing 750 angstrom -> mid-points are integers, nothing is truncated here)
print('nm(float) vs angstrom(int, even spacing):', np.max(np.abs(after / before - 1)))
after = s.bin([4010, 4755, 5500, 6245, 6990], preserve_power=False, waveunit='angstrom')
ref = s.bin([4010., 4755., 5500., 6245., 6990.], preserve_power=False, waveunit='angstrom')
err = np.max(np.abs(after / ref - 1))
print(f'angstrom centres 745 apart, int vs float: max rel. diff = {err:.2e}')
if err > 1e-9:
    failed = True

if failed:
    print('VIOLATION: the binned flux (an integral of a per-wavelength density) '
          'changes by up to ~1e-2 relative when the same bin centres are given as '
          'integers instead of floats / in another wavelength unit. Cause: '
          'Spectrum.bin builds the Simpson abscissae in an array of the dtype of '
          'the bin centres, truncating the x.5 mid-points.')
    sys.exit(1)
print('no violation observed')
sys.exit(0)
