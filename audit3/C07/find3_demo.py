"""C07 finding 3: Wavefront.insert cannot accumulate a wavefront whose field is a scalar
(the default plane wave, or a plane wave after planes with scalar attributes) into a 2-D
array, although Wavefront.intensity is perfectly defined for it.

exit code 1 (and an explanation) when the violation is observed, 0 otherwise.
"""
import os
import sys

sys.path.insert(0, os.environ.get('LENTIL_REPO', '.'))

import numpy as np
import lentil

wl = 1e-6
cases = {
    'Wavefront(1e-6)': lentil.Wavefront(wl),
    'Wavefront(1e-6) * Plane(amplitude=0.5, opd=1e-7)':
        lentil.Wavefront(wl) * lentil.Plane(amplitude=0.5, opd=1e-7),
    'Wavefront(1e-6) * Plane()': lentil.Wavefront(wl) * lentil.Plane(),
    'Wavefront(1e-6) * Tilt(x=1e-6, y=0)': lentil.Wavefront(wl) * lentil.Tilt(x=1e-6, y=0),
}

fail = False
for name, w in cases.items():
    inten = w.intensity                       # 0-d array, = |field|**2
    assert np.allclose(inten, np.abs(w.field)**2)
    weight = 2.0
    out0 = np.arange(12, dtype=float).reshape(3, 4)
    expected = out0 + weight * inten          # weight times intensity, nothing else
    try:
        out = w.insert(out0.copy(), weight)
        if not np.allclose(out, expected):
            fail = True
            print(f'{name}: insert() result differs from out + weight*intensity')
    except Exception as e:
        fail = True
        print(f'{name}: intensity = {float(inten):.4f}, but insert(out(3,4), weight=2) raises '
              f'{type(e).__name__}: {e}')
    # the 0-d target works, so the wavefront itself is not refused
    out = w.insert(np.zeros(()), weight)
    assert np.allclose(out, weight * inten)

if fail:
    print('VIOLATION: accumulating a wavefront into an array must add weight*intensity; for '
          'wavefronts whose field is a scalar the call dies inside the index arithmetic of '
          'lentil.field.insert instead.')
    sys.exit(1)
print('no violation observed')
sys.exit(0)
