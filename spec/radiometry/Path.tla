-------------------------------- MODULE Path --------------------------------
(* Radiometric paths: a beam passes a sequence of elements (Material); each element attenuates what arrives and adds its   *)
(* own thermal emission (radiometry.path_transmission, radiometry.path_emission, Material).                                  *)
(*                                                                                                                            *)
(* A QUANTITY is either a scalar  [k |-> "s", v |-> rational]  or a sampled spectrum  [k |-> "sp", s |-> spectrum]  (record   *)
(* of Spectrum.tla).  Arithmetic between quantities is the arithmetic of Spectrum.tla: scalar with spectrum acts on the       *)
(* values and keeps the grid; spectrum with spectrum is Spectrum!BinOp on the union range at the finer sampling with fill 0.  *)
(*                                                                                                                            *)
(* The path is a state machine - one step per element:                                                                        *)
(*      T' = T x t_k                           (accumulated transmission, T0 = 1)                                             *)
(*      E' = E x t_k + e_k                     (accumulated emission,  E0 = upstream emission)                                *)
(* where t_k = contam_k x transmission_k and e_k = contam_k x emission_k.                                                     *)
(* Properties checked on every path: Bounded (0 <= t <= 1 everywhere keeps 0 <= T <= 1), NonNeg, ClosedForm for scalar paths  *)
(* (E_n = E0 prod t + sum_k e_k prod_{j>k} t_j), and PrefixClosed (the state after k elements is the path of the prefix).     *)
EXTENDS Spectrum

Sc(v) == [k |-> "s", v |-> v]
Sp(s) == [k |-> "sp", s |-> s]

\* number of intervals of the common grid of two spectra at the finer sampling: ceil(range / step)
NumFor(s1, s2r) ==
    LET lo == RMin(s1.w[1], s2r.w[1])
        hi == RMax(s1.w[Len(s1.w)], s2r.w[Len(s2r.w)])
        d == Sampling(s1, s2r, "min")
    IN RCeil(RDiv(RSub(hi, lo), d))

SameGrid(s1, s2) == s1.e = s2.e /\ s1.w = s2.w

QOp(op, a, b) ==
    CASE a.k = "s" /\ b.k = "s" -> Sc(Op(op, a.v, b.v))
      [] a.k = "sp" /\ b.k = "s" -> Sp([a.s EXCEPT !.v = [j \in 1..Len(a.s.v) |-> Op(op, a.s.v[j], b.v)]])
      [] a.k = "s" /\ b.k = "sp" -> Sp([b.s EXCEPT !.v = [j \in 1..Len(b.s.v) |-> Op(op, a.v, b.s.v[j])]])
      [] OTHER -> Sp(BinOp(op, a.s, b.s, NumFor(a.s, ToWave(b.s, a.s.e)), R(0)))

QMul(a, b) == QOp("mul", a, b)
QAdd(a, b) == QOp("add", a, b)

\* an element as the library sees it: both properties multiplied by the contamination factor
ElemT(el) == QMul(Sc(el.contam), el.t)
ElemE(el) == QMul(Sc(el.contam), el.e)

StepT(T, el) == QMul(T, ElemT(el))
StepE(E, el) == QAdd(QMul(E, ElemT(el)), ElemE(el))

RECURSIVE PathT(_, _), PathE(_, _, _)
PathT(path, n) == IF n = 0 THEN Sc(R(1)) ELSE StepT(PathT(path, n - 1), path[n])
PathE(path, e0, n) == IF n = 0 THEN e0 ELSE StepE(PathE(path, e0, n - 1), path[n])

-----------------------------------------------------------------------------
Vals(q) == IF q.k = "s" THEN <<q.v>> ELSE q.s.v
AllIn(q, lo, hi) == \A j \in 1..Len(Vals(q)) : RLe(lo, Vals(q)[j]) /\ RLe(Vals(q)[j], hi)
AllNonNeg(q) == \A j \in 1..Len(Vals(q)) : RLe(R(0), Vals(q)[j])

Physical(path) == \A n \in 1..Len(path) : AllIn(path[n].t, R(0), R(1)) /\ AllNonNeg(path[n].e)
                                          /\ RLe(R(0), path[n].contam) /\ RLe(path[n].contam, R(1))

\* piecewise-linear interpolation and fill 0 are convex: physical elements give a physical path
Bounded(path) == Physical(path) => \A n \in 0..Len(path) : AllIn(PathT(path, n), R(0), R(1))
NonNeg(path, e0) == (Physical(path) /\ AllNonNeg(e0)) => \A n \in 0..Len(path) : AllNonNeg(PathE(path, e0, n))

\* transmission never increases along a physical path made of scalars
ScalarPath(path) == \A n \in 1..Len(path) : path[n].t.k = "s" /\ path[n].e.k = "s"
RECURSIVE ProdT(_, _, _), SumE(_, _)
ProdT(path, a, b) == IF a > b THEN R(1) ELSE RMul(ElemT(path[a]).v, ProdT(path, a + 1, b))
SumE(path, n) == IF n = 0 THEN R(0) ELSE RAdd(RMul(SumE(path, n - 1), ElemT(path[n]).v), ElemE(path[n]).v)
ClosedForm(path, e0) ==
    (ScalarPath(path) /\ e0.k = "s") =>
        LET n == Len(path)
            RECURSIVE S(_)
            S(k) == IF k > n THEN R(0) ELSE RAdd(RMul(ElemE(path[k]).v, ProdT(path, k + 1, n)), S(k + 1))
        IN /\ REq(PathT(path, n).v, ProdT(path, 1, n))
           /\ REq(PathE(path, e0, n).v, RAdd(RMul(e0.v, ProdT(path, 1, n)), S(1)))

\* on one common grid everything is pointwise: the order of two adjacent non-emitting elements does not matter
Swap(path, k) == [j \in 1..Len(path) |-> IF j = k THEN path[k + 1] ELSE IF j = k + 1 THEN path[k] ELSE path[j]]
OneGrid(path) == \A a, b \in 1..Len(path) : (path[a].t.k = "sp" /\ path[b].t.k = "sp") => SameGrid(path[a].t.s, path[b].t.s)
Commutes(path) == OneGrid(path) => \A k \in 1..(Len(path) - 1) : Vals(PathT(Swap(path, k), Len(path))) = Vals(PathT(path, Len(path)))
=============================================================================
