"""C17 finding 2: Plane.rescale(1) / Plane.resample(<own pixelscale>) is not the
identity - it zeroes the OPD and the amplitude outside the mask - and a plane
that has been rescaled once can no longer be rescaled accurately: the second
rescale interpolates across the step the first one left at the mask edge.

exit code 1 = violation observed, 0 = not observed.
"""
import os, sys
sys.path.insert(0, os.environ['LENTIL_REPO'])
import numpy as np
import lentil

wl = 650e-9
n = 128
r, c = lentil.helper.mesh((n, n))
rho2 = (r**2 + c**2) / 50.**2
mask = lentil.circle((n, n), 50, antialias=False)


def image(plane, npix=64, du=5e-6):
    w = lentil.Wavefront(wl) * plane
    w = lentil.propagate_dft(w, pixelscale=du, shape=npix, oversample=2)
    return w.intensity


def err(ref, img):
    return np.max(np.abs(img - ref)) / np.max(ref)


bad = []
cases = [
    # (name, amplitude, opd): all maps are smooth on the whole sampling grid
    ('constant OPD (0.37 wave of piston, optically nothing)', 1, np.full((n, n), 0.37 * wl)),
    ('1 wave of defocus', 1, wl * rho2),
    ('Gaussian amplitude + 1 wave of defocus', np.exp(-rho2 / 2), wl * rho2),
]
for name, amp, opd in cases:
    p = lentil.Pupil(amplitude=amp, opd=opd, mask=mask, pixelscale=1e-3, focal_length=1)
    ref = image(p)

    q = p.rescale(1)
    q2 = p.resample(1e-3)
    same_opd = np.array_equal(q.opd, p.opd) and np.array_equal(q2.opd, p.opd)
    same_amp = np.array_equal(np.broadcast_to(q.amplitude, (n, n)), np.broadcast_to(p.amplitude, (n, n)))
    print(name)
    print(f'   rescale(1): opd unchanged: {same_opd}, amplitude unchanged: {same_amp}, '
          f'max |opd change| outside the mask = {np.max(np.abs(q.opd - p.opd)[mask == 0])/wl:.2f} waves')

    e_direct3 = err(ref, image(p.rescale(3)))
    e_1_3 = err(ref, image(p.rescale(1).rescale(3)))
    e_15_3 = err(ref, image(p.rescale(1.5).rescale(3)))
    e_3_15 = err(ref, image(p.rescale(3).rescale(1.5)))
    e_res = err(ref, image(p.resample(1e-3).resample(1e-3 / 3)))
    e_direct15 = err(ref, image(p.rescale(1.5)))
    e_05_3 = err(ref, image(p.rescale(0.5).rescale(3)))
    print(f'   image error / peak (scales without half-sample ties):  rescale(3) {e_direct3:.1e} | rescale(1).rescale(3) {e_1_3:.1e} | '
          f'rescale(1.5).rescale(3) {e_15_3:.1e} | rescale(3).rescale(1.5) {e_3_15:.1e} | '
          f'resample(ps).resample(ps/3) {e_res:.1e}')
    print(f'                                                        rescale(1.5) {e_direct15:.1e} | rescale(0.5).rescale(3) {e_05_3:.1e}')
    bad.append((not same_opd) and e_1_3 > 10 * e_direct3 and e_1_3 > 5e-3)

if any(bad):
    print('VIOLATION: rescale(1) is not the identity (OPD/amplitude are zeroed outside the mask), and the '
          'image of a plane rescaled in two steps is off by 10-200 times the error of the one-step rescale')
    sys.exit(1)
print('no violation observed')
sys.exit(0)
