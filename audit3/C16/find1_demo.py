"""C16 finding 1: adc(warn_saturate=True) tests "pixel > capacity" in the dtype of the
frame, so a half/single precision frame can exceed the capacity (and be clipped)
without the saturation warning."""
import os, sys, warnings
sys.path.insert(0, os.environ.get('LENTIL_REPO', '.'))
import numpy as np
import lentil

def run(frame, capacity):
    before = frame.copy()
    with warnings.catch_warnings(record=True) as w:
        warnings.simplefilter('always')
        dn = lentil.detector.adc(frame, 1.0, saturation_capacity=capacity,
                                 warn_saturate=True)
    assert np.array_equal(before, frame)
    return dn, len(w)

cases = [
    # frame (exactly representable values), capacity
    (np.array([[40000., 100.]], dtype=np.float16), 39990.0),   # exceeds by 10 e-
    (np.array([[1000., 100.]], dtype=np.float16), 999.8),      # DN drops 1000 -> 999
    (np.array([[16777220., 100.]], dtype=np.float32), 16777219.0),
]
bad = 0
for frame, cap in cases:
    exceeds = bool(np.any(frame.astype(np.float64) > cap))     # exact: values are exact
    dn, nwarn = run(frame, cap)
    dn64, nwarn64 = run(frame.astype(np.float64), cap)         # same electrons as float64
    print(f'{frame.dtype} frame {frame[0,0]!r}, capacity {cap!r}: exceeds={exceeds}, '
          f'DN={dn[0,0]} (clipped={dn[0,0] < float(frame[0,0])}), warnings={nwarn}; '
          f'same frame as float64: DN={dn64[0,0]}, warnings={nwarn64}')
    if exceeds and nwarn == 0:
        bad += 1

if bad:
    print(f'VIOLATION: in {bad} case(s) a pixel exceeds the saturation capacity (adc itself '
          'clips it) but no saturation warning is issued.')
    sys.exit(1)
print('ok')
sys.exit(0)
