"""C13 finding 1: Spectrum * Spectrum is not commutative / not unit-agnostic when the
LEFT operand is dimensionless (valueunit=None) and the RIGHT operand is a flux density
(valueunit photlam/wlam/flam): the product silently loses the value unit.

T*S returns the numerically right per-<waveunit> densities but labels them
valueunit=None, whereas S*T keeps 'photlam'.  Because Spectrum.to() only rescales a
density when valueunit is set, the two products (and the products obtained with T
expressed in nm or in um) are different physical spectra."""
import os
import sys

sys.path.insert(0, os.environ['LENTIL_REPO'])

import numpy as np
from lentil.radiometry import Spectrum

# source: photons / s / m^2 / nm
S = Spectrum([400., 500., 600., 700.], [10., 30., 20., 50.], waveunit='nm', valueunit='photlam')
# dimensionless transmission, the same physical curve written in nm and in um
wt = np.array([433., 470., 507., 544., 581., 618., 655.])
vt = np.array([.2, .9, .4, .8, .6, .3, .7])
T_nm = Spectrum(wt, vt, waveunit='nm')
T_um = Spectrum(wt*1e-3, vt, waveunit='um')

fail = []

# --- commutativity: S*T against T*S (same wavelength unit, no conversion at all)
ST = S*T_nm
TS = T_nm*S
print('S*T : waveunit=%s valueunit=%s' % (ST.waveunit, ST.valueunit))
print('T*S : waveunit=%s valueunit=%s' % (TS.waveunit, TS.valueunit))
if ST.valueunit != TS.valueunit:
    fail.append('S*T has valueunit %r but T*S has valueunit %r' % (ST.valueunit, TS.valueunit))
# re-express both products in microns with the library's own converter
ST.to('um')
TS.to('um')
print('S*T in um:', ST.value)
print('T*S in um:', TS.value)
if not (np.allclose(ST.wave, TS.wave) and np.allclose(ST.value, TS.value, rtol=1e-9)):
    fail.append('after .to("um") the products S*T and T*S differ by a factor %g'
                % np.nanmax(ST.value/np.where(TS.value == 0, np.nan, TS.value)))

# --- unit independence: T written in nm or in um, same S
P_nm = T_nm*S          # nm grid, valueunit None
P_um = T_um*S          # um grid, valueunit None
P_um.to('nm')          # both now claim: waveunit nm, valueunit None
print('T_nm*S          :', P_nm.value)
print('(T_um*S).to(nm) :', P_um.value)
if not np.allclose(P_nm.value, P_um.value, rtol=1e-6):
    fail.append('T_nm*S and T_um*S (both valueunit None, both expressed in nm) differ by a '
                'factor %g' % np.nanmax(P_um.value/np.where(P_nm.value == 0, np.nan, P_nm.value)))

if fail:
    print('VIOLATION of C13 (commutative, unit-agnostic):')
    for f in fail:
        print('  -', f)
    sys.exit(1)
print('no violation observed')
sys.exit(0)
