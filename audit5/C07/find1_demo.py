"""C07 - a wavefront returned by propagate_dft(oversample=<float>) has no usable
field / intensity views, although Wavefront.insert still delivers its intensity.

propagate_dft documents ``oversample : float, optional``.  With a float (2.0, or the
numpy.float64 that e.g. np.ceil() returns) the propagation runs and returns a
Wavefront whose ``shape`` is a float array; ``Wavefront.field`` and
``Wavefront.intensity`` then raise TypeError in np.zeros(self.shape), while
``Wavefront.insert`` (which never looks at self.shape) accumulates the very same
intensity without complaint.  The three views of one reachable wavefront disagree:
two cannot be evaluated, the third can.
"""
import os
import sys

sys.path.insert(0, os.environ.get('LENTIL_REPO', '.'))

import numpy as np
import lentil


def main():
    amp = lentil.circle((32, 32), 12)
    pupil = lentil.Pupil(amplitude=amp, pixelscale=1e-3, focal_length=1.0)
    w = lentil.Wavefront(1e-6) * pupil

    # reference: the same propagation with the integer 2
    ref = lentil.propagate_dft(w, pixelscale=5e-6, shape=(8, 8), oversample=2)
    ref_intensity = ref.intensity

    failures = []
    for oversample in (2.0, np.ceil(1.7)):
        wi = lentil.propagate_dft(w, pixelscale=5e-6, shape=(8, 8), oversample=oversample)

        # the accumulation view works and gives the right numbers ...
        out = np.zeros((16, 16))
        out = wi.insert(out, weight=3.0)
        insert_ok = np.allclose(out, 3.0 * ref_intensity, rtol=1e-12, atol=0)

        # ... but the other two views of the same wavefront cannot be evaluated
        errors = {}
        for view in ('field', 'intensity'):
            try:
                value = getattr(wi, view)
            except Exception as exc:  # noqa: BLE001
                errors[view] = f'{type(exc).__name__}: {exc}'
            else:
                target = ref.field if view == 'field' else ref_intensity
                if not np.allclose(value, target, rtol=1e-12, atol=0):
                    errors[view] = 'wrong values'

        if errors:
            failures.append((oversample, wi.shape, insert_ok, errors))

    if failures:
        print('VIOLATION of C07 (intensity == |field|**2 for any reachable wavefront; '
              'insert adds weight*intensity):')
        for oversample, shape, insert_ok, errors in failures:
            print(f'  propagate_dft(..., oversample={oversample!r} [{type(oversample).__name__}]) '
                  f'-> Wavefront.shape = {shape!r}')
            print(f'    Wavefront.insert(out, 3.0) == 3*intensity(reference): {insert_ok}')
            for view, err in errors.items():
                print(f'    Wavefront.{view}: {err}')
        return 1

    print('ok: field, intensity and insert agree for float oversample')
    return 0


if __name__ == '__main__':
    sys.exit(main())
