----------------------------- MODULE GridProofs -----------------------------
(* Unbounded facts about the centre convention of Grid.tla, proved with TLAPS (TLC checks the same facts for n <= 40 as  *)
(* ConventionOK).  Everything in the optics, geometry and field modules that places an array goes through C, Lo, Hi.      *)
(* Checked by  tlapm GridProofs.tla  (tools/prove.sh; not one of the registered checks, see DESIGN section 9).             *)
EXTENDS Integers, TLAPS

C(n) == n \div 2                      \* as in Grid.tla
Lo(n, o) == o - C(n)
Hi(n, o) == o - C(n) + n - 1
Idx(n, o, g) == g - Lo(n, o) + 1

LEMMA HalfBounds == \A n \in Nat : C(n) \in Nat /\ 2 * C(n) <= n /\ n <= 2 * C(n) + 1
  BY DEF C

LEMMA HalfMono == \A n, m \in Nat : n <= m => C(n) <= C(m) /\ n - C(n) <= m - C(m)
  BY DEF C

\* an axis of n samples covers exactly n coordinates, contains its origin, and the origin is sample C(n)+1
THEOREM AxisCoversOrigin ==
    \A n \in Nat, o \in Int : n > 0 =>
        /\ Hi(n, o) - Lo(n, o) + 1 = n
        /\ Lo(n, o) <= o /\ o <= Hi(n, o)
        /\ Idx(n, o, o) = C(n) + 1
  <1> TAKE n \in Nat, o \in Int
  <1> HAVE n > 0
  <1>1. C(n) \in Nat /\ 2 * C(n) <= n /\ n <= 2 * C(n) + 1
    BY HalfBounds
  <1> QED BY <1>1 DEF Lo, Hi, Idx

\* the centre of the extent an axis covers is its origin (boundary -> offset round trip used by Field and Plane slicing)
THEOREM ExtentCentreRoundTrip ==
    \A n \in Nat, o \in Int : n > 0 => Lo(n, o) + C(Hi(n, o) - Lo(n, o) + 1) = o
  <1> TAKE n \in Nat, o \in Int
  <1> HAVE n > 0
  <1>1. C(n) \in Nat
    BY HalfBounds
  <1>2. Hi(n, o) - Lo(n, o) + 1 = n
    BY <1>1 DEF Lo, Hi
  <1> QED BY <1>1, <1>2 DEF Lo

\* a centred window of n samples lies inside a centred axis of m >= n samples (pad followed by crop is the identity), and
\* its offset in the padded axis is C(m) - C(n) on the low side - the number pad() and window() must use
THEOREM CentredWindowInside ==
    \A n, m \in Nat : (0 < n /\ n <= m) => /\ Lo(m, 0) <= Lo(n, 0) /\ Hi(n, 0) <= Hi(m, 0)
                                            /\ Lo(n, 0) - Lo(m, 0) = C(m) - C(n)
  <1> TAKE n, m \in Nat
  <1> HAVE 0 < n /\ n <= m
  <1>1. C(n) \in Nat /\ C(m) \in Nat
    BY HalfBounds
  <1>2. C(n) <= C(m) /\ n - C(n) <= m - C(m)
    BY HalfMono
  <1> QED BY <1>1, <1>2 DEF Lo, Hi

LEMMA MulCancel == \A f, a, b \in Int : (f > 0 /\ f * a < f * b) => a < b
  BY Z3

\* rebinning by f: block k of an axis of f*q samples is the index range f(k-1)+1 .. fk; the blocks tile the axis
THEOREM BlocksTile ==
    \A f, q \in Nat : (f > 0 /\ q > 0) => \A i \in 1..(f * q) : \E k \in 1..q : f * (k - 1) + 1 <= i /\ i <= f * k
  <1> TAKE f, q \in Nat
  <1> HAVE f > 0 /\ q > 0
  <1> TAKE i \in 1..(f * q)
  <1> DEFINE k == ((i - 1) \div f) + 1
  <1>1. k \in Int /\ f * (k - 1) <= i - 1 /\ i - 1 < f * (k - 1) + f
    OBVIOUS
  <1>2. k >= 1
    BY <1>1
  <1>3. f * (k - 1) < f * q
    BY <1>1
  <1>4. k - 1 < q
    BY <1>1, <1>3, MulCancel
  <1>5. k <= q
    BY <1>1, <1>4
  <1> QED BY <1>1, <1>2, <1>5
=============================================================================
