#!/bin/sh
# usage: tools/prove.sh   - checks the TLAPS proofs under /verif/proofs (unbounded lemmas that complement TLC's bounded checks;
# not one of the registered checks).  exit 0 = every obligation proved.
cd "$(dirname "$0")/../proofs" || exit 2
rc=0
for f in *.tla; do
  out=$(timeout 900 tlapm --cleanfp "$f" 2>&1); r=$?
  echo "$f: $(echo "$out" | grep -E 'obligations (proved|failed)' | tail -1)"
  [ $r -ne 0 ] && rc=1
done
rm -rf .tlacache
# Apalache: inductive invariants for unbounded parameters (each line: module, then the three obligations)
if [ -d apalache ]; then
  cd apalache
  for f in *.tla; do
    for step in "--init=Init --inv=IndInv --length=0" "--init=IndInit --inv=IndInv --length=1" "--init=IndInit --inv=Safe --length=0"; do
      od=$(mktemp -d /verif/.work/apa_XXXXXX 2>/dev/null || mktemp -d)
      out=$(timeout 900 apalache-mc check $step --out-dir="$od" "$f" 2>&1); r=$?
      rm -rf "$od"
      echo "apalache $f [$step]: $(echo "$out" | grep -E 'The outcome is' | sed 's/ *I@.*//')"
      [ $r -ne 0 ] && rc=1
    done
  done
fi
exit $rc
