"""C15 finding 3: power-preserving bin returns NaN where the spectrum is zero."""
import os, sys, warnings
sys.path.insert(0, os.environ['LENTIL_REPO'])
import numpy as np
from lentil.radiometry import Spectrum
warnings.simplefilter('ignore')

bad = []
wave = np.arange(400, 701, 10.)
# a non-negative band-pass spectrum: 1 between 500 and 600 nm, 0 elsewhere
band = Spectrum(wave, ((wave >= 500) & (wave <= 600)).astype(float))
for method in ('trapz', 'simps'):
    for ends in ('symmetric', 'inside'):
        b = band.bin([420., 430., 440., 450.], interp_method=method, ends=ends)
        if not np.all(b >= 0):
            bad.append(f"out-of-band centres 420..450, {method}, ends={ends}: bins {b} "
                       f"(must be >= 0 and sum to the integral 0)")
# centres outside the sampled range (default fill_value=0)
b = band.bin([800., 810., 820.], interp_method='trapz')
if not np.all(b >= 0):
    bad.append(f"centres beyond the last sample: bins {b}")
zero = Spectrum(wave, np.zeros(wave.size))
b = zero.bin([500., 510., 520.])
if not np.all(b >= 0):
    bad.append(f"all-zero spectrum: bins {b}")

if bad:
    print("VIOLATION (bins of a non-negative spectrum are NaN, not >= 0):")
    for x in bad:
        print(" -", x)
    sys.exit(1)
print("ok")
