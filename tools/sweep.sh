#!/bin/sh
# usage: tools/sweep.sh "<seeds>" [tier]   - runs every check for every seed, prints one line per (check, seed)
cd "$(dirname "$0")/.."
tier=${2:-quick}
for s in $1; do
  for id in C01 C02 C03 C04 C05 C06 C07 C08 C09 C10 C11 C12 C13 C14 C15 C16 C17 C18 C19 C20; do
    t0=$(date +%s)
    VERIF_SEED=$s ./check $id --tier $tier > /tmp/sweep_${id}_$s.log 2>&1; rc=$?
    echo "seed=$s $id rc=$rc $(( $(date +%s) - t0 ))s $(grep -c '^VIOLATION' /tmp/sweep_${id}_$s.log) violations"
    [ $rc -ne 0 ] && grep -v 'detail=' /tmp/sweep_${id}_$s.log | head -6
  done
done
