"""C07 finding 1: a plane region (or wavefront field) consisting of ONE sample that is
not at the array centre is silently dropped when it meets a scalar (0-d) field.

Scenario A: default Wavefront  x  Plane whose mask has exactly one non-zero sample
            off-centre  ->  the resulting wavefront is empty (field == 0 everywhere),
            although the property says field = amplitude*exp(2*pi*i*opd/wl) inside
            the mask.
Scenario B: a wavefront reachable by Pupil -> Tilt -> propagate_dft whose only field
            is a (1, 1) chip at a non-zero offset is multiplied by lentil.Image()
            (a plane with default attributes, which must change nothing): the chip
            disappears.
"""
import os
import sys

sys.path.insert(0, os.environ.get('LENTIL_REPO', '.'))

import numpy as np
import lentil

fail = False
wl = 1e-6

# ---------------------------------------------------------------- scenario A
amp = np.zeros((8, 8))
amp[2, 5] = 0.7
opd = np.full((8, 8), 1e-7)
w = lentil.Plane(amplitude=amp, opd=opd) * lentil.Wavefront(wl)
expected = amp * np.exp(2j * np.pi * opd / wl)
got = w.field
errA = np.max(np.abs(got - expected))
print('A: number of fields in result  :', len(w.data))
print('A: expected |field|[2,5] = 0.7, got', abs(got[2, 5]))
if errA > 1e-9:
    print('A: VIOLATION - one-sample plane region was dropped '
          f'(max |field - expected| = {errA:.3g})')
    fail = True

# control: same plane with the sample at the centre index n//2 works
amp_c = np.zeros((8, 8))
amp_c[4, 4] = 0.7
wc = lentil.Plane(amplitude=amp_c, opd=opd) * lentil.Wavefront(wl)
print('A(control, sample at centre): max err',
      np.max(np.abs(wc.field - amp_c * np.exp(2j * np.pi * opd / wl))))

# ---------------------------------------------------------------- scenario B
pup = lentil.Pupil(amplitude=np.ones((8, 8)), pixelscale=1e-3, focal_length=1.0)
w = pup * lentil.Wavefront(wl)
w = lentil.Tilt(x=10e-6, y=15e-6) * w
wi = lentil.propagate_dft(w, pixelscale=5e-6, shape=(9, 9), prop_shape=(1, 1),
                          oversample=1)
before = wi.field.copy()
after = (lentil.Image() * wi).field      # default plane: must change nothing
print('B: fields before', [(f.shape, tuple(int(o) for o in f.offset)) for f in wi.data])
print('B: max|field| before default Image():', np.abs(before).max(),
      ' after:', np.abs(after).max())
if np.max(np.abs(after - before)) > 1e-12 * np.abs(before).max():
    print('B: VIOLATION - a plane with default attributes changed the wavefront '
          '(the one-sample field was dropped)')
    fail = True

sys.exit(1 if fail else 0)
