"""C01 - matrix-triple-product DFT equals the defining Fourier sum and is invertible.

A: on the cases flagged 'thm' TLC checks in Z[zeta_N]: triple product = double sum (identical
   representations), offset = embedding in a larger zero array, and on full-period geometries
   inverse o forward = identity (both flags, including the scalar bookkeeping) and Parseval.
B: TLC evaluates the defining double sum exactly for every case; lentil.fourier.dft2 / idft2 are called
   through their public signature (scalar/tuple alpha, shape, shift, offset, unitary, out=) and compared
   sample by sample.
"""
import math
import random
from fractions import Fraction

import numpy as np

from harness.core import import_lentil
from harness.tlc import eval_cases, WORK
from harness.cyclo import phi_file

LEVEL = 'model_checking'
TOL = 1e-9


def lcm(*xs):
    r = 1
    for x in xs:
        r = r * x // math.gcd(r, x)
    return r


def ring_to_complex(vecs, N):
    """matrix of ring elements (lists of N ints) -> complex array"""
    w = np.exp(2j * np.pi * np.arange(N) / N)
    a = np.asarray(vecs, dtype=float)
    return a @ w


def pix_terms(rng, N, zero_p=0.15):
    """random pixel: Gaussian integer times a root of unity, as terms [[coef, exp], ...] in Z[zeta_N] (4 | N)"""
    if rng.random() < zero_p:
        return []
    a, b = rng.randint(-3, 3), rng.randint(-3, 3)
    step = N // 8 if N % 8 == 0 else N // 4
    e = rng.randrange(0, N, step)
    t = []
    if a:
        t.append([a, e])
    if b:
        t.append([b, (e + N // 4) % N])
    return t


def terms_to_complex(f, N):
    return np.array([[sum(c * np.exp(2j * np.pi * e / N) for c, e in px) for px in row] for row in f], dtype=complex)


ALPHAS_Q = [(1, 2), (1, 3), (1, 4), (1, 5), (1, 6), (1, 8), (3, 8), (2, 5), (-1, 4), (3, 16), (1, 7)]
ALPHAS_T = ALPHAS_Q + [(1, 9), (5, 12), (-2, 7), (1, 10)]
SHIFTS = [(0, 1), (1, 2), (-3, 2), (-1, 4), (2, 1), (5, 4), (-2, 1), (7, 2)]


def gen_cases(tier, seed):
    rng = random.Random(4242 + seed)
    cases = []
    q = tier == 'quick'
    nfwd = 2400 if q else 24000
    maxin = 5 if q else 7
    maxout = 6 if q else 8
    alphas = ALPHAS_Q if q else ALPHAS_T
    for _ in range(nfwd):
        m, n = rng.randint(1, maxin), rng.randint(1, maxin)
        M, K = rng.randint(1, maxout), rng.randint(1, maxout)
        mode = rng.random()
        if mode < 0.25:      # full period (alpha = 1/n, equal shapes)
            pr, qr, pc, qc = 1, m, 1, n
            M, K = m, n
        elif mode < 0.4:     # isotropic
            pr, qr = rng.choice(alphas)
            pc, qc = pr, qr
        else:
            pr, qr = rng.choice(alphas)
            pc, qc = rng.choice(alphas)
        sr, sq1 = rng.choice(SHIFTS)
        sc, sq2 = rng.choice(SHIFTS)
        if rng.random() < 0.3:
            sr, sq1, sc, sq2 = 0, 1, 0, 1
        sq = lcm(sq1, sq2)
        sr, sc = sr * (sq // sq1), sc * (sq // sq2)
        o_r, o_c = (0, 0) if rng.random() < 0.3 else (rng.randint(-3, 3), rng.randint(-3, 3))
        N = lcm(8, qr * sq, qc * sq)
        if N > 160:
            continue
        full = (pr, qr, pc, qc, sr, sc, o_r, o_c) == (1, m, 1, n, 0, 0, 0, 0) and (M, K) == (m, n)
        f = [[pix_terms(rng, N) for _ in range(n)] for _ in range(m)]
        thm = rng.random() < (0.12 if q else 0.05) and N <= 48
        cases.append({'k': 'fwd', 'N': N, 'f': f,
                      'g': {'pr': pr, 'qr': qr, 'pc': pc, 'qc': qc, 'sr': sr, 'sc': sc, 'sq': sq, 'or': o_r, 'oc': o_c, 'M': M, 'K': K},
                      'unitary': rng.random() < 0.6, 'thm': thm, 'full': full,
                      'big': [m + 2 * abs(o_r) + 1, n + 2 * abs(o_c) + 2],
                      'out': rng.random() < 0.35, 'scalar_args': rng.random() < 0.5})
    # families that differ in ONE argument only (same input, same everything else): a transform depends on each of its arguments -
    # offsets -3..3 on one axis, integer and half-integer shifts on one axis
    for _ in range(10 if q else 40):
        m, n = rng.randint(2, 4), rng.randint(2, 4)
        M, K = rng.randint(2, 5), rng.randint(2, 5)
        pr, qr = rng.choice(alphas[:8])
        pc, qc = rng.choice(alphas[:8])
        N0 = lcm(8, qr * 2, qc * 2)
        if N0 > 96:
            continue
        f = [[pix_terms(rng, N0, 0.05) for _ in range(n)] for _ in range(m)]
        uni = rng.random() < 0.5
        base = {'pr': pr, 'qr': qr, 'pc': pc, 'qc': qc, 'sr': 0, 'sc': 0, 'sq': 2, 'or': 0, 'oc': 0, 'M': M, 'K': K}
        fam = [dict(base, **{'or': o}) for o in range(-3, 4)] + [dict(base, oc=o) for o in range(-3, 4)] + \
              [dict(base, sr=s_) for s_ in (-4, -2, 2, 4, -1, 1)] + [dict(base, sc=s_) for s_ in (-4, -2, 2, 4, 3)]
        for g in fam:
            cases.append({'k': 'fwd', 'N': N0, 'f': f, 'g': g, 'unitary': uni, 'thm': False, 'full': False,
                          'big': [m + 2 * abs(g['or']) + 1, n + 2 * abs(g['oc']) + 2], 'out': False, 'scalar_args': False, 'family': True})
    # impulse basis on a few geometries (complete by linearity)
    for (m, n) in [(2, 3), (3, 3), (4, 2)] + ([] if q else [(5, 4), (4, 5)]):
        for x in range(m):
            for y in range(n):
                for e in (0, 2):
                    N = lcm(8, 2 * n, 4 * m)
                    f = [[([[1, e * N // 8]] if (i, j) == (x, y) else []) for j in range(n)] for i in range(m)]
                    cases.append({'k': 'fwd', 'N': N, 'f': f,
                                  'g': {'pr': 1, 'qr': 2 * m, 'pc': 1, 'qc': n, 'sr': 1, 'sc': 0, 'sq': 2, 'or': 1, 'oc': -1, 'M': m + 1, 'K': n},
                                  'unitary': True, 'thm': False, 'full': False, 'big': [m + 3, n + 4], 'out': False, 'scalar_args': False})
    # inverse on full-period geometries, both flags
    ninv = 500 if q else 4000
    for _ in range(ninv):
        m, n = rng.randint(1, maxin), rng.randint(1, maxin)
        N = lcm(8, m, n)
        f = [[pix_terms(rng, N, 0.1) for _ in range(n)] for _ in range(m)]
        cases.append({'k': 'inv', 'N': N, 'f': f,
                      'g': {'pr': 1, 'qr': m, 'pc': 1, 'qc': n, 'sr': 0, 'sc': 0, 'sq': 1, 'or': 0, 'oc': 0, 'M': m, 'K': n},
                      'unitary': rng.random() < 0.5, 'thm': False, 'full': True, 'big': [m, n],
                      'out': rng.random() < 0.3, 'scalar_args': rng.random() < 0.5})
    # unitary inverse on a zero-padded full period (alpha = 1/K, K >= input size, shape = K): energy is conserved
    for _ in range(200 if q else 1500):
        m, n = rng.randint(1, 4), rng.randint(1, 4)
        Kr, Kc = rng.randint(m, m + 3), rng.randint(n, n + 3)
        if (Kr, Kc) == (m, n):
            Kr += 1
        N = lcm(8, Kr, Kc)
        f = [[pix_terms(rng, N, 0.1) for _ in range(n)] for _ in range(m)]
        cases.append({'k': 'inv', 'N': N, 'f': f, 'padded': True,
                      'g': {'pr': 1, 'qr': Kr, 'pc': 1, 'qc': Kc, 'sr': 0, 'sc': 0, 'sq': 1, 'or': 0, 'oc': 0, 'M': Kr, 'K': Kc},
                      'unitary': True, 'thm': rng.random() < 0.1 and N <= 24, 'full': False, 'big': [Kr, Kc],
                      'out': rng.random() < 0.3, 'scalar_args': False})
    for i, c in enumerate(cases):
        c['id'] = i
        c['flagform'] = rng.choice(('py', 'py', 'numpy-bool', 'int'))     # the flag is a truth value, however it is spelled
        c['alpha_dtype'] = rng.choice(('float64', 'float64', 'float32', 'float16'))
    return cases


def call_impl(lentil, c):
    g = c['g']
    N = c['N']
    f = terms_to_complex(c['f'], N)
    ar, ac = g['pr'] / g['qr'], g['pc'] / g['qc']
    alpha = ar if (c['scalar_args'] and ar == ac) else (ar, ac)
    # dyadic alphas are the same numbers in half, single and double precision: the result may not depend on the container's dtype
    if c.get('alpha_dtype', 'float64') != 'float64' and all(q_ & (q_ - 1) == 0 for q_ in (g['qr'], g['qc'])):
        alpha = np.array([ar, ac], dtype=c['alpha_dtype'])
    shape = g['M'] if (c['scalar_args'] and g['M'] == g['K']) else (g['M'], g['K'])
    shift = (g['sr'] / g['sq'], g['sc'] / g['sq'])
    out = None
    if c['out']:
        out = np.full((g['M'], g['K']), 7.5 - 3.25j, dtype=complex)
    fin = f.copy()
    flag = {'py': bool, 'numpy-bool': np.bool_, 'int': int}[c.get('flagform', 'py')](c['unitary'])
    if c['k'] == 'fwd':
        res = lentil.fourier.dft2(fin, alpha, shape=shape, shift=shift, offset=(g['or'], g['oc']),
                                  unitary=flag, out=out)
    else:
        # idft2 "called with the same sampling and the same normalisation flag"; shape defaults to F.shape
        res = lentil.fourier.idft2(fin, alpha, shape=shape if c.get('padded') else None, unitary=flag, out=out)
    return f, fin, res, out


def sig_of(c, kind):
    g = c['g']
    return {'fn': 'dft2' if c['k'] == 'fwd' else 'idft2', 'kind': kind, 'unitary': c['unitary'], 'out': c['out'],
            'aniso': (g['pr'] * g['qc'] != g['pc'] * g['qr']), 'shift': bool(g['sr'] or g['sc']),
            'offset': bool(g['or'] or g['oc']), 'full': c['full'], 'flag_form': c.get('flagform', 'py'),
            'alpha_dtype': c.get('alpha_dtype', 'float64') if all(q_ & (q_ - 1) == 0 for q_ in (g['qr'], g['qc'])) else 'float64'}


def check_case(ctx, lentil, c, e):
    N = c['N']
    if c.get('padded'):
        return check_padded_inverse(ctx, lentil, c, e)
    ring = ring_to_complex(e['out'], N)
    expected = ring * math.sqrt(e['nsq'][0] / e['nsq'][1]) / e['div']
    try:
        f, fin, res, out = call_impl(lentil, c)
    except Exception as ex:
        ctx.violation(sig_of(c, type(ex).__name__), {'case': c, 'error': repr(ex)}, case={'case': c, 'exp': e})
        return
    scale = 1 + np.abs(f).sum()
    res = np.asarray(res)
    if res.shape != expected.shape:
        ctx.violation(sig_of(c, 'shape'), {'case': c, 'shape': res.shape}, case={'case': c, 'exp': e})
        return
    err = np.abs(res - expected).max() if res.size else 0.0
    if not err <= TOL * scale:
        ctx.violation(sig_of(c, 'value'), {'geometry': c['g'], 'max_abs_error': float(err), 'expected': expected, 'observed': res},
                      case={'case': c, 'exp': e})
        return
    if c['out']:
        if not np.abs(out - expected).max() <= TOL * scale:
            ctx.violation(sig_of(c, 'out-buffer-not-written'), {'geometry': c['g']}, case={'case': c, 'exp': e})
    if not np.array_equal(fin, f):
        ctx.violation(sig_of(c, 'input-mutated'), {'geometry': c['g']}, case={'case': c, 'exp': e})
    if c['k'] == 'inv':
        # round trip and energy through the real code, same flag on both sides
        g = c['g']
        a = (1 / g['qr'], 1 / g['qc'])
        F = lentil.fourier.dft2(f, a, unitary=c['unitary'])
        back = lentil.fourier.idft2(F, a, unitary=c['unitary'])
        if not np.abs(back - f).max() <= TOL * scale:
            ctx.violation(sig_of(c, 'roundtrip'), {'geometry': g, 'max_abs_error': float(np.abs(back - f).max())},
                          case={'case': c, 'exp': e})
        if c['unitary']:
            e_in = (np.abs(f) ** 2).sum()
            e_out = (np.abs(res) ** 2).sum()
            if not abs(e_in - e_out) <= TOL * (1 + e_in):
                ctx.violation(sig_of(c, 'energy'), {'geometry': g, 'in': float(e_in), 'out': float(e_out)}, case={'case': c, 'exp': e})


def check_padded_inverse(ctx, lentil, c, e):
    """the statement fixes only the energy of the unitary inverse outside the exact full period"""
    try:
        f, fin, res, out = call_impl(lentil, c)
    except Exception as ex:
        ctx.violation(sig_of(c, type(ex).__name__), {'case': c, 'error': repr(ex)}, case={'case': c, 'exp': e})
        return
    e_in = float((np.abs(f) ** 2).sum())
    e_out = float((np.abs(res) ** 2).sum())
    # the same energy as the forward transform called with the same arguments delivers
    g = c['g']
    fwd = lentil.fourier.dft2(f, (1 / g['qr'], 1 / g['qc']), shape=(g['M'], g['K']), unitary=True)
    e_fwd = float((np.abs(fwd) ** 2).sum())
    if abs(e_out - e_in) > TOL * (1 + e_in) or abs(e_out - e_fwd) > TOL * (1 + e_in):
        s = sig_of(c, 'energy-padded-inverse')
        ctx.violation(s, {'geometry': g, 'input_energy': e_in, 'idft2_energy': e_out, 'dft2_energy': e_fwd}, case={'case': c, 'exp': e})
    if c['out'] and (out is None or not np.array_equal(out, res)):
        ctx.violation(sig_of(c, 'out-buffer-not-written'), {'geometry': g}, case={'case': c, 'exp': e})


def run(ctx):
    lentil = import_lentil()
    cases = gen_cases(ctx.tier, ctx.seed)
    byN = {}
    for c in cases:
        byN.setdefault(c['N'], []).append(c)
    exp = {}
    from concurrent.futures import ThreadPoolExecutor
    jobs = []
    for N, cs in sorted(byN.items()):
        nparts = max(1, min(6, len(cs) // 150))
        jobs.append((N, cs, nparts))

    def do(job):
        N, cs, nparts = job
        return N, eval_cases('MC_C01', cs, nparts=nparts, env={'RING_N': N, 'PHI_FILE': phi_file(N, WORK)}, timeout=2400)
    with ThreadPoolExecutor(max_workers=4) as ex:
        for N, (e, res) in ex.map(do, jobs):
            exp.update(e)
            ctx.add_tlc(res, f'MC_C01 ring N={N}')
    nthm = 0
    for c in cases:
        check_case(ctx, lentil, c, exp[c['id']])
        g = c['g']
        key = (c['k'], len(c['f']), len(c['f'][0]), g['M'], g['K'], g['pr'], g['qr'], g['pc'], g['qc'], g['sr'], g['sc'], g['sq'],
               g['or'], g['oc'], c['unitary'], c['out'])
        ctx.case(key, nontrivial=(len(c['f']) * len(c['f'][0]) > 1))
        nthm += bool(c['thm'])
    ctx.traces += len(cases)
    ctx.sample({'case': cases[0], 'expected_ring_elements_by_TLC': exp[cases[0]['id']]}, maxn=2)
    ctx.extra['ring_theorem_cases'] = nthm
    ctx.extra['ring_orders'] = sorted(byN)
    ctx.rule = ('seeded random geometries: input <= 5x5 [7x7], output <= 6x6 [8x8], alpha_row/alpha_col drawn independently '
                'from a rational menu (incl. negative, non-unit numerators), quarter-pixel shifts, offsets +-3, both flags, with and '
                'without out=, plus impulse bases and full-period inverse cases; distinct by geometry+flags; non-trivial if the input '
                'has more than one sample')
    ctx.assumptions += ['abstraction: ring element -> complex via float64 roots of unity; tolerance 1e-9*(1+sum|f|)']


def replay(ctx, rec):
    lentil = import_lentil()
    check_case(ctx, lentil, rec['case']['case'], rec['case']['exp'])
