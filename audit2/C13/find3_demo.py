"""C13 finding 3: a one-sample Spectrum cannot be combined with another Spectrum at the
default sampling (unplanned crash), although the same pair works with explicit sampling."""
import os, sys
sys.path.insert(0, os.environ['LENTIL_REPO'])
import numpy as np
import lentil
from lentil.radiometry import Spectrum

line = Spectrum([450.], [5.])                                   # a single sample (valid Spectrum)
a = Spectrum(np.arange(400., 501., 10.), np.linspace(1., 2., 11))

# with an explicit sampling the library handles the pair and gives the expected result
grid = np.arange(400., 501., 10.)
exp = np.interp(grid, a.wave, a.value) + np.where(grid == 450., 5., 0.)
r = a.add(line, sampling=10.)
assert np.allclose(r.wave, grid) and np.allclose(r.value, exp)
r = line.add(a, sampling='right')
assert np.allclose(r.wave, grid) and np.allclose(r.value, exp)

failures = []
for label, f in [('a + line', lambda: a + line), ('line + a', lambda: line + a),
                 ('a * line', lambda: a * line), ('line * a', lambda: line * a),
                 ('a - line', lambda: a - line), ('a / line', lambda: a / line),
                 ('a ** line', lambda: a ** line)]:
    try:
        r = f()
    except Exception as e:
        failures.append(f'{label} raised {type(e).__name__}: {e}')
        continue
    if not np.allclose(r.wave, grid):
        failures.append(f'{label}: grid {r.wave}')
if failures:
    print('VIOLATION (C13, "finer sampling" for all pairs of spectra): the default sampling '
          'of a pair that contains a one-sample Spectrum crashes instead of using the '
          'sampling of the other operand')
    for f in failures:
        print('  ' + f)
    sys.exit(1)
print('ok')
sys.exit(0)
