"""C06 finding 4 (minor): reduce() of a large collection of mutually overlapping
fields fails with RecursionError - _disjoint() recurses once per merge.
"""
import os, sys
sys.path.insert(0, os.environ.get('LENTIL_REPO', '.'))
import numpy as np
from lentil.field import Field
import lentil.field

n = 1100
fields = [Field(np.ones((2, 2)), offset=[i, 0]) for i in range(n)]   # a chain, each overlaps the next
try:
    out = lentil.field.reduce(fields)
except RecursionError as e:
    print(f'C06 VIOLATED: reduce() of {n} overlapping 2x2 fields raises RecursionError '
          f'(recursion limit {sys.getrecursionlimit()}); 900 such fields reduce fine to one (901, 2) field')
    sys.exit(1)
ok = len(out) == 1 and out[0].shape == (n + 1, 2) and np.isclose(out[0].data.sum(), 4 * n)
print('ok' if ok else 'C06 VIOLATED: wrong reduce result')
sys.exit(0 if ok else 1)
