"""C03 - splitting an aperture into segments or sub-arrays never changes the result.

A: TLC checks in Z[zeta_N] that the sum of the separately propagated segment beams is identical to the
   propagation of the whole aperture (ThmSegments: coherent addition, no double counting).
B: scenario = support (any subset of a small grid) x partition into 1..k segments (restricted-growth strings:
   interleaved samples, overlapping bounding boxes, optionally a one-sample segment) x OPD x optional second
   segmented plane x propagation setting.  Every scenario is run on lentil three ways - 3-D segment mask,
   flattened 2-D mask, whole-array processing (mask of ones) - and each is compared with the exact field and
   intensity of the specification (an incoherent sum of intensities shows up on samples where segments overlap).
"""
import random
from fractions import Fraction as Fr

import numpy as np

from harness.core import import_lentil
from harness import optics as ox

LEVEL = 'model_checking'
RINGS = {16: [4], 32: [4, 8], 48: [4, 6, 12], 64: [4, 8, 16], 96: [6, 8, 12, 24]}     # 4*q | N: quarter-sample displacements


def rgs_partition(rng, npix, k):
    """random restricted-growth string: a partition of npix items into <= k blocks (all partitions reachable)"""
    lab = [0]
    for _ in range(npix - 1):
        lab.append(rng.randint(0, min(max(lab) + 1, k - 1)))
    return lab


def bbox_size(seg):
    rows = np.flatnonzero(seg.any(axis=1))
    cols = np.flatnonzero(seg.any(axis=0))
    return (rows[-1] - rows[0] + 1) * (cols[-1] - cols[0] + 1)


FULLAMP = {}        # amplitude before it was zeroed outside the support (the mask alone must do that)


def segmented_plane(rng, N, m, n, k, allow_single):
    for _ in range(200):
        sup = np.array([[rng.random() < 0.75 for _ in range(n)] for _ in range(m)])
        pix = np.argwhere(sup)
        if len(pix) < 2:
            continue
        lab = rgs_partition(rng, len(pix), k)
        nseg = max(lab) + 1
        segs = np.zeros((nseg, m, n), dtype=int)
        for (r, c), l in zip(pix, lab):
            segs[l, r, c] = 1
        single = any(bbox_size(s) == 1 for s in segs) or bbox_size(sup) == 1
        if single and not allow_single:
            continue
        full = np.array([[rng.choice((1, 2, 3)) for _ in range(n)] for _ in range(m)])
        amp = full * sup
        opd = np.array([[rng.randrange(N) for _ in range(n)] for _ in range(m)])
        FULLAMP[id(amp)] = full
        return amp, opd, segs, single
    raise RuntimeError('no aperture')


def gen_scenario(rng, tier, sid):
    q = tier == 'quick'
    N = rng.choice(list(RINGS))
    Ks = RINGS[N]
    m, n = rng.randint(2, 4 if q else 5), rng.randint(2, 4 if q else 5)
    k = rng.choice((1, 2, 3)) if q else rng.choice((1, 2, 3, 4))
    allow_single = rng.random() < 0.08
    amp, opd, segs, single = segmented_plane(rng, N, m, n, k, allow_single)
    qr, qc = rng.choice(Ks), rng.choice(Ks)
    os_ = rng.choice((1, 2))
    dx = (Fr(1, 2), Fr(1, rng.choice((2, 4))))
    z, lam = Fr(4), Fr(1, 128)
    du = (Fr(1, qr) * lam * z * os_ / dx[0], Fr(1, qc) * lam * z * os_ / dx[1])
    M, K = rng.randint(1, 4), rng.randint(1, 4)
    pM, pK = (M, K) if rng.random() < 0.6 else (rng.randint(1, M), rng.randint(1, K))
    extra = rng.choice(('none', 'none', 'wftilt', 'tiltplane', 'mask', 'wftilt+tiltplane'))
    omask = None
    if extra == 'mask':
        omask = np.zeros((M * os_, K * os_), dtype=int)
        omask[rng.randrange(M * os_), rng.randrange(K * os_)] = 1
        omask[rng.randrange(M * os_), rng.randrange(K * os_)] = 1
    prop = ox.dft(du, (M, K), (pM, pK), os_, omask)
    # quarter-sample displacement (never an exact non-zero integer): theta = s * du / (z * os)
    tq = (Fr(rng.choice((-5, -3, -1, 1, 2, 3, 6)), 4) if False else Fr(rng.choice((-5, -3, -1, 1, 3, 7)), 4),
          Fr(rng.choice((-7, -3, -1, 1, 3, 5)), 4))
    tang = (tq[0] * du[0] / (z * os_), -tq[1] * du[1] / (z * os_))
    planes = [(amp, opd, segs)]
    if rng.random() < 0.35:
        a2, o2, s2, single2 = segmented_plane(rng, N, m, n, rng.choice((1, 2)), False)
        planes.append((a2, o2, s2))
    variants = {}
    for var in ('3d', '2d', '2d-fullamp', 'whole'):
        steps = []
        for i, (a, o, s) in enumerate(planes):
            flat = (s.sum(axis=0) > 0).astype(int)
            kw = dict(px=dx, z=z) if i == 0 else dict(z=z)
            if var == '3d':
                st = ox.plane('Pupil', amp=a, opd=o, mask=s, **kw)       # (a partition into ONE segment is a cube of depth 1)
            elif var == '2d':
                st = ox.plane('Pupil', amp=a, opd=o, mask=flat, **kw)
            elif var == '2d-fullamp':
                st = ox.plane('Pupil', amp=FULLAMP.get(id(a), a), opd=o, mask=flat, **kw)
            else:
                st = ox.plane('Pupil', amp=a * flat, opd=o, mask=np.ones_like(flat), **kw)
            steps.append(st)
        if extra == 'tiltplane':
            steps.append(ox.plane('Tilt', tx=tang[0], ty=tang[1]))
        if extra == 'wftilt+tiltplane':
            # a wavefront that already carries tilt is split by the segments and THEN meets a tilt element (half a sample more:
            # the total stays an odd number of quarter samples)
            steps.append(ox.plane('Tilt', tx=Fr(1, 2) * du[0] / (z * os_), ty=-Fr(1, 2) * du[1] / (z * os_)))
        steps.append(prop)
        variants[var] = dict(sid=sid, N=N, var=var, nseg=len(segs), single=bool(single), chain=len(planes), extra=extra,
                             overlapping_bboxes=overlapping(segs), wf=ox.wf(lam, tilt=tang if extra in ('wftilt', 'wftilt+tiltplane') else None), steps=steps,
                             thm='segments' if (var == '3d' and N <= 32 and rng.random() < 0.3) else 'none')
    return list(variants.values())


def overlapping(segs):
    boxes = []
    for s in segs:
        rows = np.flatnonzero(s.any(axis=1))
        cols = np.flatnonzero(s.any(axis=0))
        boxes.append((rows[0], rows[-1], cols[0], cols[-1]))
    for i in range(len(boxes)):
        for j in range(i + 1, len(boxes)):
            a, b = boxes[i], boxes[j]
            if a[0] <= b[1] and a[1] >= b[0] and a[2] <= b[3] and a[3] >= b[2]:
                return True
    return False


def sig_of(c, k, kind):
    return {'kind': kind, 'variant': c['var'], 'single_sample_bbox': c['single'], 'step_op': c['steps'][k]['op'],
            'segments>1': c['nseg'] > 1}


def check(ctx, lentil, c, spec):
    real = ox.run_real(lentil, c)
    one = ox.one_element_involved(real)
    for (k, kind, detail) in ox.compare(c, spec['obs'], real):
        sg = sig_of(c, k, kind)
        if one:
            sg['single_sample_bbox'] = True      # a one-sample Field (e.g. the product of two segments) took part
        ctx.violation(sg, dict(detail, step=k, variant=c['var'], nseg=c['nseg']), case={'case': c, 'spec': spec})
    return real


def run(ctx):
    lentil = import_lentil()
    rng = random.Random(3003 + ctx.seed)
    cases = []
    nsc = 350 if ctx.tier == 'quick' else 3500
    for sid in range(nsc):
        cases += gen_scenario(rng, ctx.tier, sid)
    for _ in range(40 if ctx.tier == 'quick' else 300):
        b = ox.bridging_case(rng)
        b.update(sid=nsc + len(cases), var='3d', nseg=3, single=False, chain=1, overlapping_bboxes=False)
        cases.append(b)
    for i, c in enumerate(cases):
        c['id'] = i
    spec, results = ox.eval_spec(cases)
    for N, res in results:
        ctx.add_tlc(res, f'MC_Optics ring N={N}')
    for c in cases:
        check(ctx, lentil, c, spec[c['id']])
        ctx.case((c['sid'], c['var']), nontrivial=c['nseg'] > 1)
    ox.binding_selftest(ctx, lentil, cases[0], spec[cases[0]['id']])
    ctx.traces += len(cases)
    ctx.extra.update({'scenarios': nsc, 'with_overlapping_bounding_boxes': sum(1 for c in cases if c['overlapping_bboxes'] and c['var'] == '3d'),
                      'two_plane_chains': sum(1 for c in cases if c['chain'] == 2 and c['var'] == '3d'),
                      'segments_theorem_cases': sum(1 for c in cases if c['thm'] == 'segments'),
                      'one_sample_segment_scenarios': sum(1 for c in cases if c['single'] and c['var'] == '3d')})
    ctx.sample({'case': cases[0]}, maxn=1)
    ctx.rule = ('scenario = random support on a grid <= 4x4 [5x5], random partition into <= 3 [4] segments by restricted-growth '
                'string, random phases, optional second segmented pupil, random sampling/oversampling/window; three lentil '
                'descriptions per scenario; non-trivial = more than one segment')
    ctx.assumptions += ['harness/optics.py abstraction; tolerance 1e-9 relative to sum|expected|']


def replay(ctx, rec):
    lentil = import_lentil()
    check(ctx, lentil, rec['case']['case'], rec['case']['spec'])
