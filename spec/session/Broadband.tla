------------------------------ MODULE Broadband ------------------------------
(* A polychromatic exposure as a state machine.                                                                            *)
(*                                                                                                                         *)
(* The documented way to form a broadband image is a loop over wavelengths: build the monochromatic wavefront, pass the    *)
(* planes, propagate, and accumulate its weighted intensity into ONE caller-owned frame with Wavefront.insert; when the    *)
(* band is exhausted the frame is rebinned, converted to charge and digitised.  Here every wavelength is one action        *)
(*      Expose(k):  k still to do;  acc' = acc + weight_k x Intensity(chain at lambda_k);  todo' = todo \ {k}              *)
(* enabled in ANY order (TLC explores every interleaving), followed by Readout.  The wavelengths are lambda0 / {1, 2, 4}:   *)
(* with quarter-wave OPDs at lambda0 all phases and DFT kernels stay in Z[i] (N = 4), so intensities are exact rationals.   *)
(*                                                                                                                         *)
(* Properties: Confluent (the frame after the last exposure does not depend on the order), Monotone (non-negative weights:   *)
(* the frame never decreases anywhere), ReadoutOnce, and the frame conservation law of Lentil.tla at readout.                *)
EXTENDS Integers, Sequences, FiniteSets, TLC
CONSTANTS N, PhiN, Cases
L == INSTANCE Lentil

VARIABLES c,      \* index of the case (exposure set-up) this behaviour runs
          todo,   \* wavelengths (indices into the band) not yet exposed
          hist,   \* order in which the wavelengths were exposed
          acc,    \* the accumulated frame (matrix of rationals)
          dn      \* <<>> until read out, then <<digital frame record>>
vars == <<c, todo, hist, acc, dn>>

Band(k) == Cases[k].band
ZeroFrame(k) == LET sh == Cases[k].shape IN [i \in 1..sh[1] |-> [j \in 1..sh[2] |-> L!O!R(0)]]
Mono(k, b) == L!Intensity(L!O!FinalW(Band(k)[b].prog))
AddW(a, m, w) == [i \in 1..Len(a) |-> [j \in 1..Len(a[1]) |-> L!O!RAdd(a[i][j], L!O!RMul(w, m[i][j]))]]

Init == /\ c \in 1..Len(Cases)
        /\ todo = 1..Len(Band(c))
        /\ hist = <<>>
        /\ acc = ZeroFrame(c)
        /\ dn = <<>>

Expose(b) == /\ b \in todo /\ dn = <<>>
             /\ acc' = TLCEval(AddW(acc, Mono(c, b), Band(c)[b].weight))
             /\ todo' = todo \ {b}
             /\ hist' = Append(hist, b)
             /\ UNCHANGED <<c, dn>>

Detect(frame, det) ==
    LET native == L!RebinR(frame, det.os)
        e == [i \in 1..Len(native) |-> [j \in 1..Len(native[1]) |-> L!O!RMul(native[i][j], det.qe)]]
        clip(x) == IF det.sat # <<>> /\ L!O!RLt(L!O!R(det.sat[1]), x) THEN L!O!R(det.sat[1]) ELSE x
        dnr == [i \in 1..Len(e) |-> [j \in 1..Len(e[1]) |-> L!O!RMul(det.gain, clip(e[i][j]))]]
    IN [dn |-> [i \in 1..Len(dnr) |-> [j \in 1..Len(dnr[1]) |-> IF L!O!RFloor(dnr[i][j]) < 0 THEN 0 ELSE L!O!RFloor(dnr[i][j])]],
        tie |-> [i \in 1..Len(dnr) |-> [j \in 1..Len(dnr[1]) |-> dnr[i][j][2] = 1]]]

Readout == /\ todo = {} /\ dn = <<>>
           /\ dn' = <<TLCEval(Detect(acc, Cases[c].det))>>
           /\ UNCHANGED <<c, todo, hist, acc>>

Next == (\E b \in todo : Expose(b)) \/ Readout
Spec == Init /\ [][Next]_vars

-----------------------------------------------------------------------------
RECURSIVE Total(_, _)
Total(k, n) == IF n = 0 THEN ZeroFrame(k) ELSE AddW(Total(k, n - 1), Mono(k, n), Band(k)[n].weight)

Confluent == (todo = {}) => acc = Total(c, Len(Band(c)))
NonNegFrame == \A i \in 1..Len(acc) : \A j \in 1..Len(acc[1]) : L!O!RLe(L!O!R(0), acc[i][j])
Monotone == [][\A i \in 1..Len(acc) : \A j \in 1..Len(acc[1]) : L!O!RLe(acc[i][j], acc'[i][j])]_vars
ReadoutOnce == [][dn # <<>> => dn' = dn]_vars
HistOK == Len(hist) + Cardinality(todo) = Len(Band(c)) /\ (\A a, b \in 1..Len(hist) : a # b => hist[a] # hist[b])
=============================================================================
