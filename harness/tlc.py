"""Running TLC and reading what it says.

Every TLC call in /verif goes through run_tlc(): it runs under `timeout`, with its own metadir
under /verif/.work (removed afterwards), parses the state counts, the per-action coverage and the
JSON records the specifications print with  PrintT(<<"EMIT", ToJson(rec)>>).
"""
import json
import os
import re
import shutil
import subprocess
import tempfile
import time
from concurrent.futures import ThreadPoolExecutor

VERIF = os.path.dirname(os.path.dirname(os.path.abspath(__file__)))
WORK = os.path.join(VERIF, '.work')
SPEC = os.path.join(VERIF, 'spec')
JAR = '/opt/veriftools/tla/tla2tools.jar:/opt/veriftools/tla/CommunityModules-deps.jar'


def _unlimit():
    """the JVM reserves far more address space than it uses: lift the cap ./check puts on its own (python) process"""
    import resource
    hard = resource.getrlimit(resource.RLIMIT_AS)[1]
    resource.setrlimit(resource.RLIMIT_AS, (hard, hard))


class TLCError(Exception):
    """Machinery failure (TLC crashed, timed out, spec error) - exit code 2, never a VIOLATION."""


class TLCResult:
    def __init__(self):
        self.generated = 0      # "states generated"  (= transitions taken, incl. initial states)
        self.distinct = 0       # "distinct states found"
        self.emits = []         # parsed EMIT records
        self.prints = []        # other PrintT lines
        self.coverage = {}      # action name -> (distinct, total)
        self.invariant_violated = None
        self.stdout = ''
        self.wall = 0.0
        self.rc = None


def _spec_dirs():
    out = []
    for root, dirs, files in os.walk(SPEC):
        if any(f.endswith('.tla') for f in files):
            out.append(root)
    return out


_EMIT_RE = re.compile(r'^<<"EMIT", "(.*)">>$')


def _unescape(s):
    # TLC prints a TLA+ string: backslash and quote are escaped
    return s.replace('\\"', '"').replace('\\\\', '\\')


def parse_output(text, res):
    for line in text.splitlines():
        m = _EMIT_RE.match(line)
        if m:
            res.emits.append(json.loads(_unescape(m.group(1))))
            continue
        if line.startswith('<<"'):
            res.prints.append(line)
        m = re.match(r'^(\d+) states generated, (\d+) distinct states found', line)
        if m:
            res.generated = int(m.group(1))
            res.distinct = int(m.group(2))
        m = re.match(r'^<(\w+) line \d+, col \d+ to line \d+, col \d+ of module (\w+)>: (\d+):(\d+)', line)
        if m:
            res.coverage[m.group(1)] = (int(m.group(3)), int(m.group(4)))
        m = re.match(r'^Error: Invariant (\w+) is violated', line)
        if m:
            res.invariant_violated = m.group(1)
        m = re.match(r'^Error: Action property (\w+) is violated', line)
        if m:
            res.invariant_violated = m.group(1)


def run_tlc(module, cfg=None, workers=1, timeout=600, env=None, simulate=None, depth=None,
            coverage=False, seed=None, extra=None, deadlock=False, allow_violation=False,
            xmx=None, gcthreads=2, dfs=False, light=None):
    """Run TLC on spec/mc/<module>.tla (or an absolute path).  Returns TLCResult.

    allow_violation: an invariant violation is returned (res.invariant_violated) instead of raising.
    """
    os.makedirs(WORK, exist_ok=True)
    if not os.path.isabs(module):
        cand = [os.path.join(d, module + '.tla') for d in _spec_dirs()]
        cand = [c for c in cand if os.path.exists(c)]
        if not cand:
            raise TLCError('no such module ' + module)
        module = cand[0]
    moddir = os.path.dirname(module)
    if cfg is None:
        cfg = module[:-4] + '.cfg'
    elif not os.path.isabs(cfg):
        cfg = os.path.join(moddir, cfg)
    meta = tempfile.mkdtemp(prefix='tlc_', dir=WORK)
    libs = os.pathsep.join(d for d in _spec_dirs() if d != moddir)
    # JVM sizing matters a lot when several TLC processes run side by side: with default ergonomics 14
    # JVMs on 16 cores spend most of their time in GC/JIT thread contention (measured 46 s vs 5.6 s).
    if xmx is None:
        # small heaps: with transparent huge pages 'always', every heap expansion is zeroed by the kernel
        # (measured: 14 parallel JVMs, -Xmx3g 22 s wall / 228 s sys; -Xmx512m 5 s wall / 7 s sys)
        xmx = '768m' if workers == 1 else '4g'
    if workers == 1:
        jopts = f'-XX:+UseSerialGC -XX:ActiveProcessorCount=1 -Xmx{xmx} -Xss16m -DTLA-Library={libs}'
        if light is None or light:
            jopts += ' -XX:TieredStopAtLevel=1'
    else:
        jopts = (f'-XX:+UseParallelGC -XX:ParallelGCThreads={max(2, workers // 2)} -XX:ActiveProcessorCount={workers} '
                 f'-Xmx{xmx} -Xss16m -DTLA-Library={libs}')
    if dfs:
        jopts += ' -Dtlc2.tool.queue.IStateQueue=StateDeque'
    cmd = ['timeout', str(int(timeout)), 'java'] + jopts.split() + [
        '-cp', JAR, 'tlc2.TLC', '-metadir', meta, '-noGenerateSpecTE',
        '-workers', str(workers), '-fpmem', '0.1', '-config', cfg]
    if not deadlock:
        cmd += ['-deadlock']
    if coverage:
        cmd += ['-coverage', '1']
    if simulate:
        cmd += ['-simulate', simulate]
    if depth:
        cmd += ['-depth', str(depth)]
    if seed is not None:
        cmd += ['-seed', str(seed)]
    if extra:
        cmd += list(extra)
    cmd.append(module)
    e = dict(os.environ)
    e.pop('JAVA_TOOL_OPTIONS', None)
    if env:
        e.update({k: str(v) for k, v in env.items()})
    t0 = time.time()
    try:
        p = subprocess.run(cmd, cwd=moddir, env=e, preexec_fn=_unlimit, stdout=subprocess.PIPE, stderr=subprocess.STDOUT,
                           text=True)
    finally:
        shutil.rmtree(meta, ignore_errors=True)
    res = TLCResult()
    res.wall = time.time() - t0
    res.stdout = p.stdout
    res.rc = p.returncode
    parse_output(p.stdout, res)
    if p.returncode == 124:
        raise TLCError(f'TLC timed out after {timeout}s on {os.path.basename(module)}\n' + p.stdout[-2000:])
    ok = 'Model checking completed. No error has been found.' in p.stdout or \
         (simulate and p.returncode == 0)
    if not ok:
        if res.invariant_violated and allow_violation:
            return res
        out = '\n'.join(l for l in p.stdout.splitlines() if not l.startswith('<<"EMIT"'))
        k = out.find('Error:')
        raise TLCError(f'TLC failed (rc={p.returncode}) on {os.path.basename(module)} cfg={os.path.basename(cfg)}:\n'
                       + (out[k:k + 3500] if k >= 0 else out[-3500:]))
    return res


def run_parts(module, nparts, cfg=None, env=None, maxproc=14, **kw):
    """Run the same model NPARTS times with env PART=i NPARTS=n in parallel TLC processes
    (one worker each) and merge the results."""
    def one(i):
        e = dict(env or {})
        e['PART'] = i
        e['NPARTS'] = nparts
        return run_tlc(module, cfg=cfg, env=e, workers=1, **kw)
    with ThreadPoolExecutor(max_workers=maxproc) as ex:
        results = list(ex.map(one, range(nparts)))
    tot = TLCResult()
    for r in results:
        tot.generated += r.generated
        tot.distinct += r.distinct
        tot.emits += r.emits
        tot.prints += r.prints
        tot.wall = max(tot.wall, r.wall)
        for k, (a, b) in r.coverage.items():
            pa, pb = tot.coverage.get(k, (0, 0))
            tot.coverage[k] = (pa + a, pb + b)
    return tot


def sany(path):
    p = subprocess.run(['java', '-cp', JAR, f'-DTLA-Library={os.pathsep.join(_spec_dirs())}',
                        'tla2sany.SANY', path],
                       cwd=os.path.dirname(path), preexec_fn=_unlimit, stdout=subprocess.PIPE, stderr=subprocess.STDOUT, text=True)
    bad = p.returncode != 0 or 'rror' in p.stdout.replace('Semantic errors:', 'Semantic rrors:') and \
        ('*** Errors' in p.stdout or 'Fatal' in p.stdout or 'Parse Error' in p.stdout)
    return (not bad), p.stdout


def eval_cases(module, cases, nparts=12, env=None, timeout=900, cfg=None, keep_order=True, multi=False):
    """Feed `cases` (list of dicts, each with a unique 'id') to a case-evaluating model
    (Cases == JsonDeserialize(IOEnv.CASES), one state per case, EMIT per case).
    Returns (dict id -> emitted record, merged TLCResult)."""
    os.makedirs(WORK, exist_ok=True)
    nparts = max(1, min(nparts, len(cases)))
    files = []
    import uuid
    tag = f'{os.getpid()}_{uuid.uuid4().hex[:12]}'
    for p in range(nparts):
        fn = os.path.join(WORK, f'cases_{tag}_{p}.json')
        with open(fn, 'w') as f:
            json.dump(cases[p::nparts], f)
        files.append(fn)

    def one(p):
        e = dict(env or {})
        e['CASES'] = files[p]
        return run_tlc(module, cfg=cfg, env=e, workers=1, timeout=timeout)
    try:
        with ThreadPoolExecutor(max_workers=14) as ex:
            results = list(ex.map(one, range(nparts)))
    finally:
        for fn in files:
            try:
                os.unlink(fn)
            except OSError:
                pass
    tot = TLCResult()
    out = {}
    for r in results:
        tot.generated += r.generated
        tot.distinct += r.distinct
        tot.wall = max(tot.wall, r.wall)
        if not multi:
            for rec in r.emits:
                out[rec['id']] = rec
        tot.emits += r.emits
    if not multi and len(out) != len(cases):
        raise TLCError(f'{module}: {len(cases)} cases in, {len(out)} records out')
    return out, tot


def validate_trace(ctx, module, events, nparts=10, timeout=1800):
    """Batch trace validation: events (each with a unique 'id') are split over nparts TLC processes running the trace
    specification `module` (Trace == JsonDeserialize(IOEnv.TRACE_FILE); emits [n, bad]).  Returns the list of
    <<event id, failing clauses>>; every part must consume its whole trace (POSTCONDITION + count)."""
    import uuid
    os.makedirs(WORK, exist_ok=True)
    files = []
    for p in range(nparts):
        part = events[p::nparts]
        if not part:
            continue
        fn = os.path.join(WORK, f'trace_{module}_{uuid.uuid4().hex[:10]}.json')
        with open(fn, 'w') as f:
            json.dump(part, f)
        files.append((fn, len(part)))

    def one(x):
        fn, n = x
        r = run_tlc(module, env={'TRACE_FILE': fn}, workers=1, timeout=timeout)
        if len(r.emits) != 1 or r.emits[0]['n'] != n:
            raise TLCError(f'{module}: trace not consumed to its end')
        return r
    try:
        with ThreadPoolExecutor(max_workers=12) as ex:
            rs = list(ex.map(one, files))
    finally:
        for fn, _ in files:
            try:
                os.unlink(fn)
            except OSError:
                pass
    bad = []
    for r in rs:
        ctx.states += r.distinct
        ctx.transitions += r.generated
        bad += r.emits[0]['bad']
    ctx.tlc_runs.append({'model': f'{module} ({len(events)} events in {len(files)} parts)', 'distinct_states': sum(r.distinct for r in rs),
                         'states_generated': sum(r.generated for r in rs), 'wall_s': round(max(r.wall for r in rs), 2)})
    return bad
