------------------------------ MODULE Sampling ------------------------------
(* Sampling of the focal plane (growth of the specification beyond the twenty properties).            *)
(*                                                                                                     *)
(* lentil ties three quantities together without saying so in one place:                               *)
(*   util.pixelscale_nyquist(wave, F#)  = F# wave / 2        "Nyquist sampled for intensity"            *)
(*   util.min_sampling(wave, z, du, shape, q)                the pupil sample spacing that gives Q = q   *)
(*   propagate's alpha = dx du / (wave z)                    the kernel step of the transform            *)
(* With F# = z / (n dx) (n pupil samples across the diameter) they are one statement about                *)
(*   Q = wave z / (dx du n) = 1 / (alpha n),   the number of output samples per wave/D:                   *)
(* pixelscale_nyquist gives Q = 2, min_sampling gives Q = q, and the period of the transform is K = Q n.   *)
(*                                                                                                     *)
(* What "Nyquist sampled for intensity" MEANS is the second half of the module, exact in Z[zeta_N]:      *)
(* on a full period K_r x K_c the transform of the INTENSITY |F|^2 is K_r K_c times the circular          *)
(* autocorrelation of the pupil field zero-padded onto the period (ThmAutocorr, Wiener-Khinchin); lags     *)
(* of n or more samples do not occur in a pupil of n samples, so for K >= 2n nothing wraps around and      *)
(* the spectrum of the intensity is empty at the Nyquist frequency (ThmNyquistNull) - while for Q < 2      *)
(* the wrapped lags add up (aliasing), which ThmAutocorr describes just as exactly.                        *)
EXTENDS Integers, Sequences, TLC
CONSTANTS N, PhiN
O == INSTANCE Optics

\* ---- the rational half ---------------------------------------------------------------------------------
Nyquist(lam, F)          == O!RDiv(O!RMul(F, lam), O!R(2))                         \* util.pixelscale_nyquist
FNumber(z, n, dx)        == O!RDiv(z, O!RMul(O!R(n), dx))
Q(lam, z, dx, du, n)     == O!RDiv(O!RMul(lam, z), O!RMul(O!RMul(dx, du), O!R(n)))
MinSampling(lam, z, du, shape, q) ==                                                \* util.min_sampling
    <<O!RDiv(O!RMul(lam, z), O!RMul(O!RMul(q, du[1]), O!R(shape[1]))),
      O!RDiv(O!RMul(lam, z), O!RMul(O!RMul(q, du[2]), O!R(shape[2])))>>

ThmNyquistQ(lam, z, dx, n) == Q(lam, z, dx, Nyquist(lam, FNumber(z, n, dx)), n) = O!R(2)
ThmMinSamplingQ(lam, z, du, shape, q) ==
    LET dx == MinSampling(lam, z, du, shape, q) IN
    \A k \in 1..2 : Q(lam, z, dx[k], du[k], shape[k]) = q
\* Q and the kernel step: alpha = 1 / (Q n), so the period of the transform is K = Q n samples
ThmPeriod(w, c, n) == LET a == O!Alpha(w, c) IN
    \A k \in 1..2 : O!RMul(a[k], O!RMul(Q(w.lam, w.z, w.px[k], c.du[k], n[k]), O!R(n[k] * c.os))) = O!R(1)

\* ---- the ring half -------------------------------------------------------------------------------------
IntensityRing(F) == TLCEval([u \in 1..Len(F) |-> TLCEval([v \in 1..Len(F[1]) |-> O!AbsSq(F[u][v])])])

\* circular autocorrelation at lag (dr, dc) of f zero-padded onto a period of Kr x Kc samples:
\*    SUM f[x1][y1] conj(f[x2][y2])   over   x2 = x1 + dr (mod Kr),  y2 = y1 + dc (mod Kc)   inside the array
AutoAt(f, Kr, Kc, dr, dc) ==
    LET m == Len(f)  n == Len(f[1])
        RECURSIVE S(_, _, _)
        S(x, y, acc) ==
            IF x > m THEN acc
            ELSE IF y > n THEN S(x + 1, 1, acc)
            ELSE LET xs == {x2 \in 1..m : (x2 - x - dr) % Kr = 0}
                     ys == {y2 \in 1..n : (y2 - y - dc) % Kc = 0}
                     RECURSIVE T(_, _)
                     T(ps, a) == IF ps = {} THEN a
                                 ELSE LET p == CHOOSE q \in ps : TRUE IN
                                      T(ps \ {p}, O!Add(a, O!Mul(f[x][y], O!Conj(f[p[1]][p[2]]))))
                 IN S(x, y + 1, T(xs \X ys, acc))
    IN S(1, 1, O!Zero)

FullPeriodPre(w, c) == LET a == O!Alpha(w, c)  osh == O!OutShape(c) IN
    /\ a[1][1] = 1 /\ a[2][1] = 1 /\ osh = <<a[1][2], a[2][2]>>
    /\ w.shape[1] <= osh[1] /\ w.shape[2] <= osh[2]
    /\ \A bi \in 1..Len(w.beams) : w.beams[bi].tilts = <<>>

\* the transform of the intensity over the period (origin at index floor(K/2) on both sides)
IntensitySpectrum(w, c) ==
    LET osh == O!OutShape(c)
        F == O!Forward(O!FieldOf(w), O!Geom(O!Alpha(w, c), <<O!R(0), O!R(0)>>, osh))
    IN O!Forward(IntensityRing(F), O!FullPeriod(osh[1], osh[2]))

\* the lag table the implementation is compared with (lentil's unitary factor 1/(K_r K_c) cancels the K_r K_c below)
AutoTable(w, c) == LET osh == O!OutShape(c)  f == O!FieldOf(w) IN
    TLCEval([u \in 1..osh[1] |-> TLCEval([v \in 1..osh[2] |->
        AutoAt(f, osh[1], osh[2], u - 1 - O!C(osh[1]), v - 1 - O!C(osh[2]))])])

ThmAutocorr(w, c) == FullPeriodPre(w, c) =>
    LET osh == O!OutShape(c)  S == IntensitySpectrum(w, c)  A == AutoTable(w, c) IN
    \A u \in 1..osh[1] : \A v \in 1..osh[2] : O!Eq(S[u][v], O!Scale(osh[1] * osh[2], A[u][v]))

\* Nyquist: with K >= 2n on an axis, the lags of magnitude >= n carry nothing; for even K the first index IS the
\* Nyquist frequency (lag -K/2)
ThmNyquistNull(w, c) == FullPeriodPre(w, c) =>
    LET osh == O!OutShape(c)  S == IntensitySpectrum(w, c) IN
    /\ 2 * w.shape[1] <= osh[1] =>
          \A u \in 1..osh[1] : \A v \in 1..osh[2] :
             (u - 1 - O!C(osh[1]) >= w.shape[1] \/ O!C(osh[1]) - (u - 1) >= w.shape[1]) => O!IsZero(S[u][v])
    /\ 2 * w.shape[2] <= osh[2] =>
          \A u \in 1..osh[1] : \A v \in 1..osh[2] :
             (v - 1 - O!C(osh[2]) >= w.shape[2] \/ O!C(osh[2]) - (v - 1) >= w.shape[2]) => O!IsZero(S[u][v])
=============================================================================
