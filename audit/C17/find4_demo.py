"""C17 finding 4: Plane.rescale / Plane.resample crash with an unrelated
TypeError ('iteration over a 0-d array') for any plane that has no mask
array, e.g. a plane that only carries an OPD map (default amplitude=1,
mask=None).  Even the identity rescale(1) fails.
"""
import os, sys
sys.path.insert(0, os.environ.get('LENTIL_REPO', '.'))
import numpy as np
import lentil

n = 64
r, c = lentil.helper.mesh((n, n))
opd = 80e-9*((r/n)**2 + (c/n)**2) + 5e-9

fails = []
for label, make in [('Plane(opd=<64x64>, pixelscale=1/64)', lambda: lentil.Plane(opd=opd, pixelscale=1/n)),
                    ('Pupil(opd=<64x64>, pixelscale=1/64, focal_length=10)',
                     lambda: lentil.Pupil(opd=opd, pixelscale=1/n, focal_length=10))]:
    for call, f in [('rescale(1)', lambda p: p.rescale(1)), ('rescale(2)', lambda p: p.rescale(2)),
                    ('resample(1/128)', lambda p: p.resample(1/128))]:
        p = make()
        try:
            q = f(p)
            print(f'{label}.{call}: ok, opd shape {q.opd.shape}, pixelscale {q.pixelscale}')
        except Exception as e:
            print(f'{label}.{call}: raised {type(e).__name__}: {e}')
            fails.append((label, call, e))

if fails:
    print('\nVIOLATION: a plane without a mask array cannot be rescaled (not even by s = 1); '
          'the exception is an accidental TypeError, not a documented refusal.')
    sys.exit(1)
print('no violation observed')
sys.exit(0)
