"""C18 finding 1: Gaussian shot noise is biased low by half a count.

shot_noise(img, method='gaussian') draws Normal(img, sqrt(img)) and converts the
draw to integers with a truncating cast (np.asarray(..., dtype=int)), so the
mean of the result is signal - 0.5 instead of signal.  The Poisson method run
on the same frames is used as a control for the statistical test.
"""
import os
import sys

sys.path.insert(0, os.environ.get('LENTIL_REPO', '.'))

import numpy as np
import lentil

N = (1000, 1000)            # 1e6 independent pixels per frame
violations = []
control_bad = []

for lam in (1000.0, 2500.0, 10000.0):   # documented regime: lambda > 1000
    img = np.full(N, lam)
    se = np.sqrt(lam / img.size)         # standard error of the frame mean
    for seed in range(5):
        g = lentil.detector.shot_noise(img, method='gaussian', seed=seed)
        p = lentil.detector.shot_noise(img, method='poisson', seed=seed)
        zg = (g.mean() - lam) / se
        zp = (p.mean() - lam) / se
        print(f'lam={lam:8.0f} seed={seed}  gaussian: mean-lam={g.mean()-lam:+.4f} '
              f'({zg:+6.1f} s.e.)   poisson: mean-lam={p.mean()-lam:+.4f} ({zp:+5.1f} s.e.)')
        if abs(zg) > 6:
            violations.append((lam, seed, g.mean() - lam, zg))
        if abs(zp) > 6:
            control_bad.append((lam, seed, zp))

if control_bad:
    print('control (poisson) failed the same test - test is unsound', control_bad)
    sys.exit(0)

if violations:
    worst = max(violations, key=lambda v: abs(v[3]))
    print()
    print(f'VIOLATION: in {len(violations)} of 15 frames the mean of Gaussian shot '
          f'noise differs from the signal by more than 6 standard errors '
          f'(worst: lam={worst[0]}, seed={worst[1]}, bias={worst[2]:+.4f} counts, '
          f'{worst[3]:+.1f} s.e.). The bias is -0.5 count: the normal draw is '
          f'truncated toward zero instead of rounded. The Poisson method passes '
          f'the same test for every frame.')
    sys.exit(1)

print('no violation observed')
sys.exit(0)
