"""C08 finding 2: lentil.Flip cannot be multiplied with any wavefront.

Flip is documented (planes.rst) as a `transform` plane; the multiplication table
(wavefront.rst) allows a transform plane on every wavefront type and keeps the
wavefront's type. diffraction.rst even names Flip as the step between two like
planes. Flip.multiply raises AttributeError for every wavefront type and axis.
"""
import os, sys
sys.path.insert(0, os.environ['LENTIL_REPO'])
import numpy as np
import lentil

assert os.path.realpath(lentil.__file__).startswith(os.path.realpath(os.environ['LENTIL_REPO']))

amp = lentil.circle((32, 32), 14)


def wavefronts():
    w_none = lentil.Wavefront(650e-9)
    w_none_arr = lentil.Wavefront(650e-9) * lentil.Plane(amplitude=amp, pixelscale=1/32)
    w_pupil = lentil.Wavefront(650e-9) * lentil.Pupil(amplitude=amp, pixelscale=1/32,
                                                      focal_length=10)
    w_image = lentil.propagate_dft(w_pupil, pixelscale=5e-6, shape=(16, 16), oversample=2)
    return {'none (plane wave)': w_none, 'none (sampled)': w_none_arr,
            'pupil': w_pupil, 'image': w_image}


documented = {'none (plane wave)': 'none', 'none (sampled)': 'none',
              'pupil': 'pupil', 'image': 'image'}

bad = []
for axis in (None, 0, 1, (0, 1), -1):
    for name, w in wavefronts().items():
        flip = lentil.Flip(axis=axis)
        try:
            out = w * flip
            got = str(out.ptype)
        except TypeError as e:
            got = f'TypeError: {e}'
        except Exception as e:
            got = f'{type(e).__name__}: {e}'
        if got != documented[name]:
            bad.append((axis, name, documented[name], got))

if bad:
    print('VIOLATION: Flip (documented ptype: transform) cannot be applied to a wavefront')
    for axis, name, exp, got in bad:
        print(f'  Flip(axis={axis!r}) x wavefront[{name}]: documented result type {exp!r}, '
              f'got {got}')
    sys.exit(1)
print('ok: Flip can be applied to every wavefront type')
sys.exit(0)
