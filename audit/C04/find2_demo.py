"""C04 finding 2: Plane.fit_tilt(inplace=True) of a monolithic plane subtracts the
fitted ramp from the caller's OPD array (the array passed to the constructor),
not only from the plane.  Every other plane built on the same array silently
loses its tilt without recording it, so "tilt in the OPD" and "tilt extracted
by fitting" no longer propagate to the same field.  (The segmented branch
rebinds plane.opd to a new array and does not have the side effect.)

exit code 1 = violation observed, 0 = not observed
"""
import os
import sys

sys.path.insert(0, os.environ.get('LENTIL_REPO', '.'))

import numpy as np
import lentil


def propagate(p):
    w = lentil.Wavefront(650e-9) * p
    return lentil.propagate_dft(w, pixelscale=5e-6, shape=(64, 64), oversample=2)


def main():
    n = 32
    dx = 1e-3
    amp = lentil.circle((n, n), 14)
    r, c = lentil.helper.mesh((n, n))
    tx, ty = 6e-6, -4e-6                       # 4.8 and 3.2 oversampled pixels
    opd = tx * r * dx - ty * c * dx            # tilt expressed as an OPD ramp
    opd_before = opd.copy()

    raw = lentil.Pupil(amplitude=amp, opd=opd, pixelscale=dx, focal_length=2.0)
    fit = lentil.Pupil(amplitude=amp, opd=opd, pixelscale=dx, focal_length=2.0)

    ref = propagate(raw).field                 # field of the ramp, before any fitting

    fit.fit_tilt(inplace=True)                 # "modify the original object in place"

    changed = np.abs(opd - opd_before).max()
    print(f"caller's OPD array changed by fit_tilt(inplace=True): max |delta| = {changed:.3e} m")
    print(f'raw plane (never fitted) OPD peak-to-valley now: {np.ptp(raw.opd):.3e} m, '
          f'recorded tilts: {len(raw.tilt)}')

    a = propagate(raw).field                   # tilt "in the OPD"
    b_w = propagate(fit)
    b = b_w.field                              # tilt extracted by fitting
    ev = np.zeros(b_w.shape, dtype=complex)
    for f in b_w.data:
        ev = lentil.field.insert(lentil.field.Field(np.ones(f.shape), offset=f.offset), ev)
    ev = ev.real > 0
    rel_ab = np.abs(a - b)[ev].max() / np.abs(b).max()
    rel_ref = np.abs(ref - b)[ev].max() / np.abs(b).max()
    pk = lambda x: tuple(int(i) for i in np.unravel_index(np.argmax(np.abs(x)), x.shape))
    print(f'peak of raw-plane image before fit: {pk(ref)}, after fitting the OTHER plane: {pk(a)}, '
          f'fitted plane: {pk(b)}')
    print(f'relative field difference fitted vs raw plane (after): {rel_ab:.3e}; '
          f'fitted vs raw plane (before): {rel_ref:.3e}')

    # control: the segmented branch does not touch the caller's array
    mask = np.zeros((2, n, n), dtype=int)
    mask[0, 2:14, 2:30] = 1
    mask[1, 18:30, 2:30] = 1
    opd2 = opd_before.copy()
    seg = lentil.Pupil(amplitude=mask.sum(0), opd=opd2, mask=mask, pixelscale=dx, focal_length=2.0)
    seg.fit_tilt(inplace=True)
    print(f"control, segmented plane: caller's array changed by {np.abs(opd2 - opd_before).max():.3e} m")

    if changed > 0 and rel_ab > 1e-9 and rel_ref < 1e-9:
        print("VIOLATION: fitting one plane in place removed the (unrecorded) tilt from the "
              "caller's OPD array and from every plane sharing it")
        return 1
    print('no violation observed')
    return 0


if __name__ == '__main__':
    sys.exit(main())
