"""Replay of PlaneHist.tla behaviours on a real lentil.Pupil (part of C10)."""
import random
from fractions import Fraction as Fr

import numpy as np

from harness.tlc import run_tlc
from harness import optics as ox

N = 64
Q = 8                      # alpha = 1/8: ramp step k <-> displacement k/8 samples
SHAPE = (4, 5)
LAM, Z, DX = Fr(1, 128), Fr(4), (Fr(1, 2), Fr(1, 4))
OS = 2
DU = (LAM * Z * OS / (Q * DX[0]), LAM * Z * OS / (Q * DX[1]))
OUT = (3, 4)
AMP = np.array([[1, 2, 1, 1, 3], [2, 1, 1, 2, 1], [1, 1, 3, 1, 1], [1, 2, 1, 1, 2]])
U = np.array([1, -2, 0, 1])
V = np.array([2, 0, -1, 1, -2])
BASES = {0: np.full(SHAPE, 5), 1: np.outer(U, V) + 9}      # piston / zero-sum separable residual + piston (FitPre holds)


def ramp(k):
    return np.array([[k[0] * (i - SHAPE[0] // 2) + k[1] * (j - SHAPE[1] // 2) for j in range(SHAPE[1])] for i in range(SHAPE[0])])


def expected_fields(ctx, effs):
    cases = []
    for i, (b, t) in enumerate(sorted(effs)):
        cases.append({'id': i, 'N': N, 'eff': [b, list(t)], 'wf': ox.wf(LAM), 'thm': 'none',
                      'steps': [ox.plane('Pupil', amp=AMP, opd=BASES[b] + ramp(t), px=DX, z=Z, mask=np.ones(SHAPE, int)),
                                ox.dft(DU, OUT, None, OS)]})
    spec, results = ox.eval_spec(cases)
    for n, res in results:
        ctx.add_tlc(res, f'MC_Optics (effective plane states) ring N={n}')
    out = {}
    for c in cases:
        f, _ = ox.ring_field(spec[c['id']]['obs'][-1], N)
        out[(c['eff'][0], tuple(c['eff'][1]))] = f
    return out


def replay(lentil, rec, fields, ctx):
    unit = float(LAM) / N
    pool = {'P': lentil.Pupil(amplitude=AMP.astype(float), opd=BASES[0] * unit, mask=np.ones(SHAPE, int),
                              pixelscale=(float(DX[0]), float(DX[1])), focal_length=float(Z))}
    hist = []
    kept = []            # wavefronts the caller holds (actions Pass, PassVia)
    mk_plane = lambda opd: lentil.Pupil(amplitude=AMP.astype(float), opd=opd, mask=np.ones(SHAPE, int),
                                        pixelscale=(float(DX[0]), float(DX[1])), focal_length=float(Z))
    ang_of = lambda k: mk_plane(ramp(k) * unit).fit_tilt().tilt[-1]          # the Tilt that a ramp of k steps is worth (fit_tilt's own convention)

    def disp_coef(k):
        x, y = ang_of(k).shift(xs=0.0, ys=0.0, z=float(Z))                   # focal-plane displacement in metres
        return [0.0, float(y)], [1.0, float(LAM) - float(x)]                 # first-order trace y = 0 x + t0, dispersion lambda = 1 d + d1

    if rec.get('kind', 'ang') == 'ang':
        import copy as _copy
        elem = _copy.copy(ang_of([0, 0]))
        elem.x, elem.y = np.array(elem.x, dtype=float), np.array(elem.y, dtype=float)      # angles held in (0-d) arrays
    else:
        tr0, di0 = disp_coef([0, 0])
        elem = lentil.DispersiveTilt(trace=tr0, dispersion=di0)

    def steer(k, inplace):
        if rec.get('kind', 'ang') == 'ang':
            t = ang_of(k)
            if inplace:
                elem.x[...] = t.x
                elem.y[...] = t.y
            else:
                elem.x, elem.y = np.array(t.x, dtype=float), np.array(t.y, dtype=float)
        else:
            tr, di = disp_coef(k)
            if inplace:
                elem.trace[1] = tr[1]
                elem.dispersion[1] = di[1]
            else:
                elem.trace, elem.dispersion = np.array(tr), np.array(di)

    def observe(s, eff, k, w=None):
        if w is None:
            w = lentil.Wavefront(float(LAM)) * pool[s]
        o = lentil.propagate_dft(w, pixelscale=(float(DU[0]), float(DU[1])), shape=OUT, oversample=OS)
        f = o.field
        e = fields[(eff['base'], tuple(eff['total']))]
        ctx.case(tuple(hist), nontrivial=len(hist) > 1)
        if f.shape != e.shape or not np.abs(f - e).max() <= 1e-8 * (1 + np.abs(e).sum()):
            # structural signature of the history: which kinds of steps precede the observation
            acts = [h.split(':')[0] for h in hist]
            nfit = sum(1 for a in acts if a.startswith('Fit'))
            ctx.violation({'kind': 'observation-depends-on-history', 'fits_before': min(nfit, 2),
                           'copied': any(a in ('Copy', 'FitCopy') for a in acts), 'held_wavefront': w is not None and acts[-1] != 'ObserveVia',
                           'element': rec.get('kind', 'ang') if any(a in ('PassVia', 'ObserveVia') for a in acts) else 'none',
                           'element_steered': any(a in ('Steer', 'EditElem') for a in acts),
                           'tilt_trimmed': 'TrimTilt' in acts, 'shallow_fit': 'ShallowFit' in acts},
                          {'history': list(hist), 'observed_plane': s if w is None else 'a wavefront held since it passed', 'effective_state': eff,
                           'max_abs_error': float(np.abs(f - e).max()) if f.shape == e.shape else None},
                          case={'record': rec})
            return False
        return True

    for k, st in enumerate(rec['prog']):
        a, s = st['act'], st['s']
        hist.append(f"{a}:{s}:{st['arg']}")
        if a == 'AddRamp':
            pool[s].opd = pool[s].opd + ramp(st['arg']) * unit
        elif a == 'AddRampInplace':
            pool[s].opd[...] = pool[s].opd + ramp(st['arg']) * unit       # writes into the array, no setter involved
        elif a == 'SetBase':
            pool[s].opd = BASES[st['arg']] * unit
        elif a == 'FitInplace':
            pool[s].fit_tilt(inplace=True)
        elif a == 'FitCopy':
            pool[st['arg']] = pool[s].fit_tilt(inplace=False)
        elif a == 'Copy':
            pool[st['arg']] = pool[s].copy()
        elif a == 'Pass':
            kept.append(lentil.Wavefront(float(LAM)) * pool[s])
        elif a == 'PassVia':
            kept.append(lentil.Wavefront(float(LAM)) * pool[s] * elem)
        elif a == 'Steer':
            steer(st['arg'], inplace=False)
        elif a == 'EditElem':
            steer(st['arg'], inplace=True)
        elif a == 'ObserveVia':
            if not observe(s, st['exp'], k, w=lentil.Wavefront(float(LAM)) * pool[s] * elem):
                return
        elif a == 'TrimTilt':
            # the angles that a ramp of k steps is worth, in the convention fit_tilt itself records them
            d = ang_of(st['arg'])
            t = pool[s].tilt[-1]
            t.x += d.x
            t.y += d.y
        elif a == 'ShallowFit':
            import copy
            copy.copy(pool[s]).fit_tilt(inplace=True)
        elif a == 'ObserveHeld':
            if not observe('-', st['exp'], k, w=kept[st['arg'] - 1]):
                return
        elif a == 'Observe':
            if not observe(s, st['exp'], k):
                return
    for s, fin in rec['final'].items():
        if fin['present']:
            hist.append(f'Observe:{s}:final')
            if not observe(s, fin['eff'], len(rec['prog'])):
                return
            hist.pop()
    for i, eff in enumerate(rec.get('held', [])):
        hist.append(f'ObserveHeld:{i + 1}:final')
        if not observe('-', eff, len(rec['prog']), w=kept[i]):
            return
        hist.pop()


def run(ctx, lentil):
    q = ctx.tier == 'quick'
    recs = []
    # (exhaustive to length 3 in both tiers: with the held wavefronts and the tilt element the graph of length 4 has about a
    #  million behaviours; the thorough tier adds depth by simulation instead)
    r = run_tlc('MC_PlaneHist', env={'PH_LEN': 3}, workers=4, timeout=900, coverage=True)
    ctx.add_tlc(r, "MC_PlaneHist exhaustive length 3")
    ctx.require_coverage(r, ['AddRamp', 'AddRampIn', 'SetBase', 'FitIn', 'FitCopy', 'Copy', 'Observe', 'Pass', 'TrimTilt', 'ShallowFit', 'ObserveHeld', 'Steer', 'EditElem', 'PassVia', 'ObserveVia'])
    recs += r.emits
    r2 = run_tlc('MC_PlaneHist', env={'PH_LEN': 8}, workers=1, timeout=900, simulate=f"num={1500 if q else 40000}", depth=9, seed=ctx.seed + 11)
    ctx.add_tlc(r2, 'MC_PlaneHist simulate length 8')
    recs += r2.emits
    effs = set()
    for rec in recs:
        for st in rec['prog']:
            if st['act'] in ('Observe', 'ObserveHeld', 'ObserveVia'):
                effs.add((st['exp']['base'], tuple(st['exp']['total'])))
        for s, fin in rec['final'].items():
            if fin['present']:
                effs.add((fin['eff']['base'], tuple(fin['eff']['total'])))
        for eff in rec.get('held', []):
            effs.add((eff['base'], tuple(eff['total'])))
    fields = expected_fields(ctx, effs)
    for rec in recs:
        replay(lentil, rec, fields, ctx)
    ctx.traces += len(recs)
    ctx.extra['plane_histories_replayed'] = len(recs)
    ctx.extra['distinct_effective_states'] = len(effs)
    ctx.sample({'plane_history': recs[-1]}, maxn=3)
