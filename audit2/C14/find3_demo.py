"""C14 finding 3 (minor): planck_radiance / planck_exitance lose accuracy, and finally
all meaning, in the Rayleigh-Jeans regime (hc/(lambda k T) << 1) because the
denominator is formed as exp(x) - 1 instead of expm1(x).  The relative error is
about 1e-16/x: it passes 1e-12 for lambda*T > ~1e2 m K and reaches 1e-6 .. 100 %
for radio wavelengths of hot sources.  Wavelengths in metres are a supported unit
and the property quantifies over all wavelengths and temperatures.
The reference below uses the library's own constants, so only the arithmetic is
compared.
"""
import os, sys, warnings
sys.path.insert(0, os.environ.get('LENTIL_REPO', '.'))
import numpy as np
import lentil
from lentil import radiometry as r
print('lentil from', lentil.__file__)
H, C, K = r.H, r.C, r.K

def planck_ref(w, T):            # W m^-2 sr^-1 m^-1, same constants, expm1
    return 2*H*C**2/(w**5*np.expm1(H*C/(w*K*T)))

bad = []
cases = [(0.21, 1e4,  'HI line, warm gas'),
         (1.0, 6000., 'Sun at 300 MHz'),
         (1.0, 1e5,   ''),
         (100., 1e6,  'solar corona at 3 MHz'),
         (1e3, 1e9,   ''),
         (1e4, 1e10,  '')]
for w, T, note in cases:
    with warnings.catch_warnings():
        warnings.simplefilter('ignore')
        got_m = float(r.planck_radiance(w, T, 'm', 'wlam'))
        got_nm = float(r.planck_radiance(w*1e9, T, 'nm', 'wlam'))*1e9
        got_ex = float(r.planck_exitance(w, T, 'm', 'wlam'))/np.pi
    ref = planck_ref(w, T)
    x = H*C/(w*K*T)
    errs = [g/ref - 1 for g in (got_m, got_nm, got_ex)]
    print('lambda=%-7g m T=%-7g K x=%.2e  rel.err radiance(m) %.2e  radiance(nm) %.2e  exitance/pi %.2e  %s'
          % (w, T, x, errs[0], errs[1], errs[2], note))
    if max(abs(e) for e in errs) > 1e-11:
        bad.append('lambda=%g m, T=%g K: relative error %.1e' % (w, T, max(abs(e) for e in errs)))

if bad:
    print('\nVIOLATION (C14): the returned radiance is not the Planck radiance (beyond rounding):')
    for b in bad:
        print(' -', b)
    sys.exit(1)
print('no violation observed')
sys.exit(0)
