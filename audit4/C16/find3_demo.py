"""C16 finding 3: when the QE Spectrum stores its wavelengths in float32 (or float16) and
collect_charge is called with wavelengths in another unit, Spectrum.to converts the spectrum's
wavelength grid in that narrow precision; the grid is displaced by ~6e-8 (1e-3 for float16)
relative and the efficiency used at interior wavelengths is wrong by far more than rounding.
The same spectrum with float64 wavelengths, or called in its own unit, is exact."""
import os, sys
sys.path.insert(0, os.environ['LENTIL_REPO'])
import numpy as np
import lentil
from lentil.radiometry import Spectrum

# a detector QE with a sharp cut-on, tabulated every nm (all wavelengths exact in float32/float16)
wave_nm = np.arange(690., 711.)
qe = np.where(wave_nm <= 700, 0.0, 0.9)
qe[wave_nm == 701] = 0.9

rng = np.random.default_rng(0)
photons = rng.uniform(100, 1000, (wave_nm.size, 3, 3))
# do not use the two end wavelengths (known, separate issue: end of range after unit conversion)
photons[0] = 0
photons[-1] = 0
exact = sum(photons[i] * qe[i] for i in range(wave_nm.size))

bad = False
for wdt in (np.float64, np.float32, np.float16):
    s = Spectrum(wave_nm.astype(wdt), qe, waveunit='nm')
    assert np.array_equal(s.wave.astype(float), wave_nm)         # stored exactly
    same = lentil.detector.collect_charge(photons, wave_nm, s, waveunit='nm')
    um = lentil.detector.collect_charge(photons, wave_nm * 1e-3, s, waveunit='um')
    e_same = np.abs(same - exact).max() / exact.max()
    e_um = np.abs(um - exact).max() / exact.max()
    print(f'spectrum wave {np.dtype(wdt).name:8s}: called in nm rel.err {e_same:.1e}   called in um rel.err {e_um:.1e}')
    if e_um > 1e-10:
        bad = True
if bad:
    print('VIOLATION: the charge depends on the wavelength unit of the call when the spectrum keeps its\n'
          'wavelengths in single/half precision: Spectrum.to multiplies the grid by the conversion factor\n'
          'in the dtype of Spectrum.wave.')
    sys.exit(1)
sys.exit(0)
