"""C03 finding 2: a cropped sub-array that holds a single sample loses its offset.

Only monolithic (non segmented) planes are used here.  lentil never multiplies
whole arrays: every plane is cropped to the bounding box of its mask and the
crop carries an offset.  The result must equal the product of the whole
arrays.  It does not as soon as a crop (or the intersection of two crops)
consists of exactly one sample:

  case A: a pupil whose support is one off-centre sample gives an EMPTY
          wavefront (field == 0 everywhere, zero intensity after propagation).
  case B: two masks whose bounding boxes share exactly one sample, followed by
          a third, full plane: the single surviving sample is broadcast over
          the full third plane (36 bright samples instead of 1).
  case C: the same one-sample field followed by a plane without a mask
          (lentil.Tilt): the field is dropped, the wavefront becomes empty.
  case D: a one-sample field stop (pinhole) in an image plane transmits the
          complete image instead of one sample.

The reference is plain numpy on whole arrays (and lentil.fourier.dft2 of the
whole array for the propagated field).

exit code 1 = violation observed, 0 = not observed.
"""
import os
import sys

sys.path.insert(0, os.environ.get('LENTIL_REPO', '.'))

import numpy as np
import lentil
import lentil.fourier
import lentil.propagate

WL = 500e-9
DX = 1e-3
DU = 5e-6
Z = 1.0
NPIX = 16
OS = 2
rng = np.random.default_rng(1)


def pupil(amp, opd=0):
    return lentil.Pupil(amplitude=amp, opd=opd, pixelscale=DX, focal_length=Z)


def propagate(w):
    return lentil.propagate_dft(w, pixelscale=DU, shape=NPIX, oversample=OS)


def whole_array_dft(field):
    alpha = lentil.propagate._dft_alpha(dx=(DX, DX), du=(DU, DU), z=Z,
                                        wavelength=WL, oversample=OS)
    return lentil.fourier.dft2(field, alpha, shape=(NPIX * OS, NPIX * OS))


bad = False

# sanity: the whole-array reference agrees with lentil for an ordinary crop
a = np.zeros((7, 7)); a[1:3, 4:6] = 1
o = rng.normal(size=(7, 7)) * 2e-8
w = lentil.Wavefront(WL) * pupil(a, o)
ref = a * np.exp(2j * np.pi * o / WL)
assert np.abs(w.field - ref).max() < 1e-12
assert np.abs(propagate(w).field - whole_array_dft(ref)).max() < 1e-12
print('sanity (2x2 off-centre aperture): lentil == whole-array reference')

# ---- case A ----------------------------------------------------------------
a = np.zeros((7, 7)); a[1, 4] = 1          # one sample, centre would be (3, 3)
w = lentil.Wavefront(WL) * pupil(a, o)
ref = a * np.exp(2j * np.pi * o / WL)
img = propagate(w)
ref_img = whole_array_dft(ref)
print('\ncase A: pupil with the single off-centre sample (1, 4) of a 7x7 array')
print('   number of fields in the wavefront :', len(w.data), '(expected 1)')
print('   sum |field|^2  lentil / reference :', np.sum(np.abs(w.field)**2), '/',
      np.sum(np.abs(ref)**2))
print('   sum intensity after propagation   :', img.intensity.sum(), '/',
      np.sum(np.abs(ref_img)**2))
if np.abs(w.field - ref).max() > 1e-9 or np.abs(img.field - ref_img).max() > 1e-9:
    bad = True
    print('   -> MISMATCH')

# ---- case B ----------------------------------------------------------------
n = 6
a1 = np.zeros((n, n)); a1[0:3, 0:3] = 1     # rows/cols 0..2
a2 = np.zeros((n, n)); a2[2:6, 2:6] = 1     # rows/cols 2..5 -> overlap = (2, 2)
a3 = np.ones((n, n))
o3 = rng.normal(size=(n, n)) * 2e-8
w2 = lentil.Wavefront(WL) * pupil(a1) * pupil(a2)
w3 = w2 * pupil(a3, o3)
ref = a1 * a2 * a3 * np.exp(2j * np.pi * o3 / WL)
print('\ncase B: three monolithic planes, the first two overlap in sample (2, 2) only')
print('   after two planes : field shape', w2.data[0].shape, 'offset',
      tuple(int(v) for v in w2.data[0].offset), '-> correct so far:',
      bool(np.abs(w2.field - a1 * a2).max() < 1e-12))
print('   after third plane: number of non-zero samples lentil / reference :',
      np.count_nonzero(w3.field), '/', np.count_nonzero(ref))
print(np.array2string(np.abs(w3.field), precision=2))
d_img = np.abs(propagate(w3).field - whole_array_dft(ref)).max()
print('   propagated field, max abs difference to reference:', f'{d_img:.3e}')
if np.abs(w3.field - ref).max() > 1e-9 or d_img > 1e-9:
    bad = True
    print('   -> MISMATCH')

# ---- case C ----------------------------------------------------------------
w3 = w2 * lentil.Tilt(x=0, y=0)             # a plane that changes nothing
print('\ncase C: the same one-sample field times lentil.Tilt(x=0, y=0)')
print('   number of fields lentil / expected :', len(w3.data), '/ 1')
if len(w3.data) != 1:
    bad = True
    print('   -> MISMATCH (the wavefront is empty)')

# ---- case D ----------------------------------------------------------------
ap = np.ones((8, 8))
w = propagate(lentil.Wavefront(WL) * pupil(ap))
before = w.field
stop = np.zeros(before.shape); stop[NPIX * OS // 2, NPIX * OS // 2 + 3] = 1
w_stop = w * lentil.Image(amplitude=stop, pixelscale=w.pixelscale)
ref = before * stop
print('\ncase D: image plane field stop with one open sample')
print('   non-zero samples behind the stop lentil / reference :',
      np.count_nonzero(w_stop.field), '/', np.count_nonzero(ref))
print('   transmitted power lentil / reference :',
      f'{w_stop.intensity.sum():.4e} / {np.sum(np.abs(ref)**2):.4e}')
if np.abs(w_stop.field - ref).max() > 1e-9:
    bad = True
    print('   -> MISMATCH')

if bad:
    print('\nVIOLATION: processing a plane as a cropped sub-array with an offset '
          'gives a different field than processing the whole array when the '
          'crop holds exactly one sample.')
    sys.exit(1)
print('\nno violation observed')
sys.exit(0)
