"""(all tilt shifts used here are k+0.25 / k+0.75 samples: nowhere near a np.fix tie)
C05 finding 2: with differently tilted segments (fitted tilt), propagate_dft
returns MORE than the input power on a full-period grid, and a window can capture
less than a window it contains.

exit 1 = violation observed, exit 0 = not observed.
"""
import os
import sys
sys.path.insert(0, os.environ.get('LENTIL_REPO', '.'))
import numpy as np
import lentil

z = 10.0
dx, du = 1e-3, 5e-6
fail = False


def segmented_wavefront(m, n, M, os_, s1, s2):
    """m x n pupil of unit amplitude split in a left and a right segment; segment k
    carries an OPD ramp that moves its image by s_k (oversampled) output columns."""
    wl = dx * du * M / (z * os_)                  # 1/alpha = M exactly, on both axes
    lab = np.ones((m, n), int)
    lab[:, n // 2:] = 2
    mask = np.array([(lab == 1).astype(int), (lab == 2).astype(int)])
    c = np.mgrid[0:m, 0:n][1]
    opd = (lab == 1) * (wl * s1 * c / M) + (lab == 2) * (wl * s2 * c / M)
    pupil = lentil.Pupil(amplitude=np.ones((m, n)), opd=opd, mask=mask,
                         pixelscale=dx, focal_length=z).fit_tilt()
    w = lentil.Wavefront(wl) * pupil
    return w, float(np.sum(np.abs(w.field) ** 2))


# (a) full-period output holds more than the input power ---------------------------
for (m, M, os_, s1, s2) in [(4, 4, 1, 0.75, -2.25), (8, 16, 2, -5.25, 3.75), (16, 32, 2, -6.25, 6.25)]:
    w, pin = segmented_wavefront(m, m, M, os_, s1, s2)
    shape = (M // os_, M // os_)
    img = lentil.propagate_dft(w, du, shape=shape, oversample=os_).intensity
    ratio = img.sum() / pin
    print('pupil %dx%d, 1/alpha=%d, oversample=%d, output %s, segment shifts (%g, %g) px: '
          'input power = %.12g, output total = %.12g, ratio = %.6f, min intensity = %.3g'
          % (m, m, M, os_, img.shape, s1, s2, pin, img.sum(), ratio, img.min()))
    if ratio > 1 + 1e-9:
        fail = True

# (b) nested windows are not monotone ----------------------------------------------
w, pin = segmented_wavefront(8, 8, 16, 2, 2.25, -3.25)
prev = None
for k in range(1, 9):
    tot = lentil.propagate_dft(w, du, shape=(k, k), oversample=2).intensity.sum()
    print('window %dx%d (centred, contained in the next one): captured = %.6f of input %.6f'
          % (k, k, tot, pin))
    if prev is not None and tot < prev - 1e-9 * pin:
        print('   -> smaller than the window it contains (%.6f)' % prev)
        fail = True
    prev = tot

# (c) related: a single fitted tilt of >= 1 output sample on a full-period grid ---------
m, M, os_ = 8, 16, 2
wl = dx * du * M / (z * os_)
c = np.mgrid[0:m, 0:m][1]
for s in [0.5, 1.25, 4.25]:
    pupil = lentil.Pupil(amplitude=np.ones((m, m)), opd=wl * s * c / M, pixelscale=dx,
                         focal_length=z).fit_tilt()
    w = lentil.Wavefront(wl) * pupil
    tot = lentil.propagate_dft(w, du, shape=(M // os_, M // os_), oversample=os_).intensity.sum()
    print('single segment, fitted tilt of %g px, full-period output: total/input = %.6f'
          % (s, tot / (m * m)))

if fail:
    print('VIOLATION: output of a full-period grid exceeds sum|field|^2 and/or a window '
          'captures less than a window nested inside it. Each tilted field is transformed '
          'onto its own integer-shifted chip; chips are added coherently only where they '
          'happen to overlap.')
    sys.exit(1)
print('no violation observed')
sys.exit(0)
