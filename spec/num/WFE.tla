-------------------------------- MODULE WFE --------------------------------
(* Wavefront error generators that are closed formulas (growth of the specification beyond the twenty listed   *)
(* properties): wfe.translation_defocus.                                                                       *)
(*                                                                                                             *)
(* Moving the focal plane by delta along the axis of an F/# beam is a defocus of  delta / (8 F#^2)  peak to     *)
(* valley over the pupil.  lentil draws it as the Noll-4 polynomial (proportional to 2 rho^2 - 1) on the         *)
(* non-antialiased CIRCLE that circumscribes the bounding box of the mask (radius ceil(extent / 2), centred on  *)
(* the array centre), scales it to a peak-to-valley of 1 over the ARRAY and multiplies by the mask.  Since       *)
(* rho^2 is rational (Zernike!RhoSq: squared distance from the centroid of the circle over the largest one),     *)
(* the whole map is rational; the normalisation sqrt(3) of the mode cancels.                                     *)
EXTENDS Zernike

Max2(a, b) == IF a >= b THEN a ELSE b
\* bounding box of the support (1-based, inclusive) and lentil's "extent": the larger index DIFFERENCE
Extent(mask) == LET S == Support(mask)
                    rs == {ij[1] : ij \in S}  cs == {ij[2] : ij \in S}
                    lo(X) == CHOOSE x \in X : \A y \in X : x <= y
                    hi(X) == CHOOSE x \in X : \A y \in X : x >= y
                IN Max2(hi(rs) - lo(rs), hi(cs) - lo(cs))
CeilHalf(n) == (n + 1) \div 2
\* shape.circle(shape, radius, antialias=False): samples closer than radius + 1/2 to the centre sample floor(n/2)
\*   d^2 < (r + 1/2)^2  <=>  d^2 <= r^2 + r   for integers
Circle(m, n, r) == [i \in 1..m |-> [j \in 1..n |->
                      LET di == (i - 1) - (m \div 2)  dj == (j - 1) - (n \div 2) IN
                      IF di * di + dj * dj <= r * r + r THEN 1 ELSE 0]]

RMinOf(S) == CHOOSE x \in S : \A y \in S : RLe(x, y)
RMaxOf(S) == CHOOSE x \in S : \A y \in S : RLe(y, x)

\* the map, as exact rationals
Defocus(mask, F, delta) ==
    LET m == Len(mask)  n == Len(mask[1])
        circ == Circle(m, n, CeilHalf(Extent(mask)))
        rho2 == RhoSq(circ)
        \* unnormalised mode on the circle (2 rho^2 - 1), zero elsewhere
        z(i, j) == IF circ[i][j] # 0 THEN RSub(RMul(R(2), rho2[i][j]), R(1)) ELSE R(0)
        vals == {z(ij[1], ij[2]) : ij \in (1..m) \X (1..n)}
        pv == RSub(RMaxOf(vals), RMinOf(vals))
        coeff == RDiv(delta, RMul(R(8), RMul(F, F)))
    IN [i \in 1..m |-> [j \in 1..n |->
           IF mask[i][j] = 0 THEN R(0) ELSE RMul(RDiv(z(i, j), pv), coeff)]]

PV(a) == LET vals == {a[ij[1]][ij[2]] : ij \in (1..Len(a)) \X (1..Len(a[1]))} IN RSub(RMaxOf(vals), RMinOf(vals))
RAbsQ(x) == IF x[1] < 0 THEN <<-x[1], x[2]>> ELSE x
Covers(mask) == LET circ == Circle(Len(mask), Len(mask[1]), CeilHalf(Extent(mask))) IN
                \A ij \in Support(circ) : mask[ij[1]][ij[2]] # 0

\* peak to valley delta / (8 F#^2) when the mask holds the whole circle (and something of the array lies at the level 0
\* of the mode or the circle fills it: the scaling is over the ARRAY)
ThmPV(mask, F, delta) == Covers(mask) => PV(Defocus(mask, F, delta)) = RAbsQ(RDiv(delta, RMul(R(8), RMul(F, F))))
\* linear in the translation, inverse-square in the F-number, nothing without translation
ThmLinear(mask, F, delta, k) ==
    LET a == Defocus(mask, F, delta)  b == Defocus(mask, F, RMul(k, delta)) IN
    \A i \in 1..Len(mask) : \A j \in 1..Len(mask[1]) : b[i][j] = RMul(k, a[i][j])
ThmFNumber(mask, F, delta) ==
    LET a == Defocus(mask, F, delta)  b == Defocus(mask, RMul(R(2), F), delta) IN
    \A i \in 1..Len(mask) : \A j \in 1..Len(mask[1]) : RMul(R(4), b[i][j]) = a[i][j]
ThmZero(mask, F) == \A i \in 1..Len(mask) : \A j \in 1..Len(mask[1]) : Defocus(mask, F, R(0))[i][j][1] = 0
\* the sign: moving the focal plane in the positive direction makes the EDGE of the pupil lead the centre
ThmSign(mask, F, delta) ==
    LET a == Defocus(mask, F, delta)  m == Len(mask)  n == Len(mask[1]) IN
    (Covers(mask) /\ delta[1] > 0) => RLe(a[m \div 2 + 1][n \div 2 + 1], R(0))
=============================================================================
