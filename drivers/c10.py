"""C10 - calls are pure: no hidden mutation of inputs and no dependence on call history.

C (code -> spec): seeded random SESSIONS of public API calls on a shared pool of caller-owned arrays / planes /
   wavefronts / spectra are executed on lentil; an external wrapper records, at every return (also the exceptional
   one), content digests of every pool object before and after, the result digest, the digest of numpy's global
   generator state and a call key.  TLC validates the recorded traces against Purity.tla (Frame, Memo,
   RngIsolation, Continuity) - the API table of documented in-place targets lives in the specification.
   The same sessions are recorded a second time by a fresh process in reverse session order and both recordings are
   validated as ONE trace: Memo then compares results across two histories of the library's module-level state.
B (spec -> code): PlaneHist.tla, a model of one plane's state under OPD updates, ramps, tilt fits (in place / copy)
   and copies; TLC generates all short behaviours and random long ones; each is replayed on a real Pupil and every
   observation (propagated field) must be the one of the plane's EFFECTIVE state, whatever the history.
"""
import hashlib
import pickle
import json
import os
import random
import uuid
import warnings
from fractions import Fraction as Fr

import numpy as np

from harness.core import import_lentil
from harness.tlc import run_tlc, WORK, TLCError
from harness import optics as ox

LEVEL = 'model_checking'


# ------------------------------------------------------------------------------------------ digests
def digest(o):
    h = hashlib.blake2b(digest_size=10)

    def feed(x, depth=0):
        if isinstance(x, np.ndarray):
            h.update(b'A' + str((x.dtype.str, x.shape)).encode())
            h.update(np.ascontiguousarray(x).tobytes())
        elif isinstance(x, (list, tuple)):
            h.update(b'[' if isinstance(x, list) else b'(')
            for y in x:
                feed(y, depth + 1)
            h.update(b']')
        elif isinstance(x, dict):
            for k in sorted(x, key=repr):
                h.update(repr(k).encode())
                feed(x[k], depth + 1)
        elif isinstance(x, (int, float, complex, str, bool, type(None), np.generic)):
            h.update(repr(x).encode())
        elif isinstance(x, slice) or x is Ellipsis:
            h.update(repr(x).encode())
        elif hasattr(x, '__dict__') or hasattr(x, '__slots__'):
            h.update(b'O' + type(x).__name__.encode())
            names = sorted(set(list(getattr(x, '__slots__', ())) + list(getattr(x, '__dict__', {}).keys())))
            for n in names:
                h.update(n.encode())
                feed(getattr(x, n, None), depth + 1)
        else:
            h.update(repr(x).encode())
    feed(o)
    return h.hexdigest()


def rng_digest():
    st = np.random.get_state()
    return hashlib.blake2b(st[1].tobytes() + repr(st[2:]).encode(), digest_size=8).hexdigest()


# ------------------------------------------------------------------------------------------ sessions
class Session:
    def __init__(self, lentil, tid, rng):
        self.l = lentil
        self.tid = tid
        self.rng = rng
        self.pool = {}
        self.events = []
        self.seq = 0
        nrng = np.random.default_rng(rng.randrange(10 ** 9))
        sh = [(4, 4), (5, 4), (6, 6), (4, 6)]
        s0 = rng.choice(sh)
        self.shape = s0
        # caller-owned objects
        self.pool['A1'] = nrng.uniform(0.5, 2.0, size=s0)                    # amplitude-like
        self.pool['A2'] = np.round(nrng.uniform(0, 3, size=s0))              # has zeros
        self.pool['O1'] = nrng.normal(scale=1e-7, size=s0)                    # OPD-like
        m = (nrng.uniform(size=s0) < 0.8).astype(float) * 3.0                 # "mask" with values != 1
        m[0, 0] = m[-1, -1] = 3.0
        m[1, 1] = 3.0
        self.pool['M1'] = m
        self.pool['Mi'] = (m != 0).astype(int) * 2
        # a cube of two BINARY segment masks that share a column of samples (already 0/1: nothing to binarise, something to de-duplicate)
        cols_ = np.arange(s0[1])[None, :]
        self.pool['M3'] = np.array([(m != 0) & (cols_ <= s0[1] // 2), (m != 0) & (cols_ >= s0[1] // 2)]).astype(int)
        self.pool['E1'] = np.round(nrng.uniform(-20, 400, size=s0))           # electrons, some negative / above saturation
        self.pool['E2'] = np.round(nrng.uniform(50, 5000, size=s0))
        self.pool['C1'] = nrng.uniform(0, 10, size=(3,) + s0)                 # photon cube
        self.pool['Z1'] = (nrng.normal(size=s0) + 1j * nrng.normal(size=s0))  # complex field
        self.pool['OUT'] = np.zeros(s0, dtype=complex)
        self.pool['ACC'] = nrng.uniform(size=s0)
        self.pool['SCR'] = (nrng.normal(size=(20, 20)) + 0j)
        self.pool['ANG'] = np.array(0.5)                                         # an angle held in a 0-d array
        r = lentil.radiometry
        self.pool['S1'] = r.Spectrum(wave=np.arange(400, 411, dtype=float), value=nrng.uniform(1, 2, size=11), waveunit='nm', valueunit=None)
        self.pool['S2'] = r.Spectrum(wave=np.arange(402, 414, 2, dtype=float), value=nrng.uniform(1, 2, size=6), waveunit='nm', valueunit=None)
        # (the plane is built ON the caller's OPD array: fitting tilt in place changes the plane, not the caller's array)
        self.pool['P1'] = lentil.Pupil(amplitude=self.pool['A1'].copy(), opd=self.pool['O1'], mask=(m != 0).astype(int),
                                       pixelscale=0.5, focal_length=4.0)
        self.pool['W1'] = lentil.Wavefront(2.0 ** -7) * self.pool['P1']
        # a wavefront that carries tilt from its creation, and a plane given by a mask only (scalar amplitude and OPD)
        self.pool['W2'] = lentil.Wavefront(2.0 ** -7, tilt=[1e-4, -5e-5]) * self.pool['P1']
        self.pool['P3'] = lentil.Pupil(mask=(m != 0).astype(int), pixelscale=0.5, focal_length=4.0)
        # an image-plane element with a sampled OPD (a field stop with a phase error)
        # a tilt element its owner keeps updating (a jitter loop), and a wavefront that went through it
        self.pool['T1'] = lentil.Tilt(x=1e-4, y=-2e-4)
        self.pool['W3'] = self.pool['W1'] * self.pool['T1']
        # a dispersive element whose owner edits its coefficient arrays IN PLACE, and a wavefront that went through it; a wavefront
        # through a plane whose FITTED tilt objects the owner trims afterwards (plane.tilt is a public list of Tilt objects)
        self.pool['T2'] = lentil.DispersiveTilt(trace=[1., 0.], dispersion=[2.0 ** -3, 2.0 ** -7 - 2.0 ** -10])
        self.pool['W4'] = self.pool['W1'] * self.pool['T2']
        self.pool['W5'] = lentil.Wavefront(2.0 ** -7) * self.pool['P1']
        self.pool['I1'] = lentil.Image(amplitude=self.pool['A1'].copy(), opd=self.pool['O1'] * 2.0, mask=(m != 0).astype(int), pixelscale=0.5)

    # -- recording -----------------------------------------------------------------------------------
    def call(self, name, fn, arg_ids, params, store=None):
        pre = {k: digest(v) for k, v in self.pool.items()}
        r0 = rng_digest()
        # documented transparent work space (scratch) is not part of what a result may depend on: the key of a call with a
        # scratch buffer is the key of the same call without one
        kname = 'propagate_fft' if name == 'propagate_fft_scratch' else name
        key = kname + '|' + repr(params) + '|' + ','.join(pre[a] for a in arg_ids if not (name == 'propagate_fft_scratch' and a == 'SCR'))
        with warnings.catch_warnings():
            warnings.simplefilter('ignore')
            try:
                res = fn()
                rd = digest(res)
            except Exception as ex:
                res = None
                rd = 'exc:' + type(ex).__name__
        post = {k: digest(v) for k, v in self.pool.items()}
        r1 = rng_digest()
        self.seq += 1
        self.events.append({'tid': self.tid, 'seq': self.seq, 'f': name, 'args': list(arg_ids),
                            'key': hashlib.blake2b(key.encode(), digest_size=10).hexdigest(), 'keytext': name + '|' + repr(params),
                            'pre': pre, 'post': post, 'res': rd, 'rng': [r0, r1]})
        if store and res is not None:
            self.caller('caller_rebind', [store], lambda: self.pool.__setitem__(store, res))
        return res

    def caller(self, name, ids, mutate):
        """an update made by the CALLER between library calls (rebinding a name, setting an attribute): logged as an
        event whose documented targets are the objects named, so that Continuity stays checkable"""
        pre = {k: digest(v) for k, v in self.pool.items()}
        r0 = rng_digest()
        mutate()
        post = {k: digest(v) for k, v in self.pool.items()}
        self.seq += 1
        self.events.append({'tid': self.tid, 'seq': self.seq, 'f': name, 'args': list(ids), 'key': uuid.uuid4().hex[:20],
                            'keytext': name, 'pre': {k: pre.get(k, post[k]) for k in post}, 'post': post, 'res': 'none', 'rng': [r0, r0]})

    # -- the call menu ----------------------------------------------------------------------------------
    def step(self):
        l, p, rng = self.l, self.pool, self.rng
        d, u, z = l.detector, l.util, l.zernike
        import sys
        zmod = sys.modules['lentil.zernike']
        seed = rng.choice((0, 1, 2, 3))          # 0 is a legal seed like any other
        arr = rng.choice(('A1', 'A2', 'ACC'))
        os_ = rng.choice((1, 2))
        px = rng.choice((1.0, 2.0))
        psx = rng.choice((0.01, 0.02))
        nz = rng.choice((True, False))
        menu = [
            ('Plane', lambda: l.Plane(amplitude=p['A1'], mask=p['M1']), ['A1', 'M1'], ()),
            ('Rotate', lambda: l.Rotate(angle=p['ANG'], unit='radians').angle, ['ANG'], ('radians',)),
            ('Tilt_ctor', lambda: (lambda t: (t.x, t.y))(l.Tilt(x=p['ANG'], y=p['ANG'])), ['ANG'], ()),
            ('Pupil', lambda: l.Pupil(amplitude=p['A2'], opd=p['O1'].copy(), mask=p['Mi'], pixelscale=0.5, focal_length=4.0), ['A2', 'O1', 'Mi'], ()),
            ('Pupil_nomask', lambda: l.Pupil(amplitude=p['A2'], opd=p['O1'].copy(), pixelscale=0.5, focal_length=4.0), ['A2', 'O1'], (), 'P2'),
            ('Image', lambda: l.Image(amplitude=p['A1'], mask=p['M1']), ['A1', 'M1'], ()),
            ('Plane_segments', lambda: l.Plane(amplitude=p['A1'], mask=p['M3']), ['A1', 'M3'], ()),
            ('Pupil_segments', lambda: l.Wavefront(2.0 ** -7) * l.Pupil(amplitude=p['A1'], mask=p['M3'], pixelscale=0.5, focal_length=4.0), ['A1', 'M3'], ()),
            ('multiply', lambda: l.Wavefront(2.0 ** -7) * p['P1'], ['P1'], (), 'W1'),
            ('multiply_tilt', lambda: p['W1'] * l.Tilt(x=1e-4, y=-2e-4), ['W1'], ()),
            ('multiply_tilt', lambda: p['W2'] * l.Tilt(x=1e-4, y=-2e-4), ['W2'], ('w2',)),
            ('multiply', lambda: p['W2'] * p['P3'], ['W2', 'P3'], ('w2p3',)),
            ('propagate_dft', lambda: l.propagate_dft(p['W2'], pixelscale=2.0 ** -6, shape=(4, 5), oversample=2), ['W2'], (4, 5, 2)),
            ('multiply', lambda: l.Wavefront(2.0 ** -7) * p['P3'], ['P3'], ('p3',)),
            ('rescale_multiply', lambda: l.Wavefront(2.0 ** -7) * p['P3'].rescale(1.5), ['P3'], (1.5,)),
            ('resample_multiply', lambda: l.Wavefront(2.0 ** -7) * p['P3'].resample(0.25), ['P3'], (0.25,)),
            ('propagate_dft', lambda: l.propagate_dft(p['W1'], pixelscale=2.0 ** -6, shape=(4, 5), oversample=2), ['W1'], (4, 5, 2)),
            ('propagate_dft', lambda: l.propagate_dft(p['W1'], pixelscale=2.0 ** -6, shape=(3, 3), prop_shape=(2, 3), oversample=1), ['W1'], (3, 3, 1)),
            ('propagate_fft', lambda: l.propagate_fft(p['W1'], pixelscale=2.0 ** -6, shape=(4, 4), oversample=2), ['W1'], (4, 4, 2)),
            ('propagate_fft', lambda: l.propagate_fft(p['W1'], pixelscale=(2.0 ** -6, 2.0 ** -7), shape=(4, 4), oversample=2), ['W1'], ('aniso',)),
            ('propagate_fft_scratch', lambda: l.propagate_fft(p['W1'], pixelscale=2.0 ** -6, shape=(4, 4), oversample=2, scratch=p['SCR']), ['W1', 'SCR'], (4, 4, 2)),
            ('propagate_fft_scratch', lambda: l.propagate_fft(p['W1'], pixelscale=(2.0 ** -6, 2.0 ** -7), shape=(4, 4), oversample=2, scratch=p['SCR']),
             ['W1', 'SCR'], ('aniso',)),
            ('field', lambda: p['W1'].field, ['W1'], ()),
            ('intensity', lambda: p['W1'].intensity, ['W1'], ()),
            ('wavefront_insert', lambda: p['W1'].insert(p['ACC'], weight=0.5), ['W1', 'ACC'], (0.5,)),
            ('fit_tilt_copy', lambda: p['P1'].fit_tilt(inplace=False), ['P1'], ()),
            ('fit_tilt_inplace', lambda: p['P1'].fit_tilt(inplace=True), ['P1'], ()),
            ('plane_copy', lambda: p['P1'].copy(), ['P1'], ()),
            # fitting in place on a SHALLOW copy of the plane is an edit of that copy
            ('fit_tilt_inplace_on_shallow_copy', lambda: __import__('copy').copy(p['P1']).fit_tilt(inplace=True), ['P1'], ()),
            ('multiply_tilt_element', lambda: p['W1'] * p['T1'], ['W1', 'T1'], (), 'W3'),
            ('propagate_dft', lambda: l.propagate_dft(p['W3'], pixelscale=2.0 ** -6, shape=(4, 5), oversample=2), ['W3'], ('w3',)),
            ('multiply_disp_element', lambda: p['W1'] * p['T2'], ['W1', 'T2'], (), 'W4'),
            ('propagate_dft', lambda: l.propagate_dft(p['W4'], pixelscale=2.0 ** -6, shape=(4, 5), oversample=2), ['W4'], ('w4',)),
            ('multiply_plane_keep', lambda: l.Wavefront(2.0 ** -7) * p['P1'], ['P1'], ('w5',), 'W5'),
            ('propagate_dft', lambda: l.propagate_dft(p['W5'], pixelscale=2.0 ** -6, shape=(4, 5), oversample=2), ['W5'], ('w5',)),
            ('spectrum_to_unknown_unit', lambda: p['S2'].to('um', 'photlamm'), ['S2'], ()),
            # the caller goes on to EDIT the plane that fit_tilt(inplace=False) / copy() handed back: that is its own plane to edit
            ('fit_tilt_copy_then_edit', lambda: (lambda r: (setattr(r, 'opd', np.asarray(r.opd) * 0.0), setattr(r, 'amplitude', np.asarray(r.amplitude) * 2.0), 1)[-1])
             (p['P1'].fit_tilt(inplace=False)), ['P1'], ()),
            ('fit_tilt_copy_then_edit', lambda: (lambda r: (setattr(r, 'opd', np.asarray(r.opd) * 0.0), setattr(r, 'amplitude', np.asarray(r.amplitude) * 2.0), 1)[-1])
             (p['I1'].fit_tilt(inplace=False)), ['I1'], ('image',)),
            ('fit_tilt_copy_then_edit', lambda: (lambda r: (setattr(r, 'opd', np.asarray(r.opd) * 0.0), setattr(r, 'amplitude', np.asarray(r.amplitude) * 2.0), 1)[-1])
             (p['P3'].fit_tilt(inplace=False)), ['P3'], ('maskonly',)),
            ('multiply', lambda: l.Wavefront(2.0 ** -7, ptype='image') * p['I1'], ['I1'], ('i1',)),
            ('rescale', lambda: p['P1'].rescale(1.5), ['P1'], (1.5,)),
            ('resample', lambda: p['P1'].resample(0.25), ['P1'], (0.25,)),
            ('dft2', lambda: l.fourier.dft2(p['Z1'], 0.2, shape=self.shape), ['Z1'], (0.2,)),
            ('dft2', lambda: l.fourier.dft2(p['Z1'], (0.25, 0.125), shape=self.shape, shift=(0.5, -1), offset=(1, 2)), ['Z1'], ('b',)),
            ('dft2_out', lambda: l.fourier.dft2(p['Z1'], 0.2, shape=self.shape, out=p['OUT']), ['Z1', 'OUT'], (0.2,)),
            ('idft2', lambda: l.fourier.idft2(p['Z1'], 0.2), ['Z1'], (0.2,)),
            ('collect_charge', lambda: d.collect_charge(p['C1'], [500, 600, 700], [0.5, 0.6, 0.7]), ['C1'], ()),
            ('collect_charge_spectrum', lambda: d.collect_charge(p['C1'], [402, 405, 409], p['S1']), ['C1', 'S1'], ()),
            ('collect_charge_bayer', lambda: d.collect_charge_bayer(p['C1'][:, :4, :4], [500, 600, 700], [.1, .2, .3], [.4, .5, .6], [.7, .8, .9],
                                                                   'RGGB', oversample=os_), ['C1'], (os_,)),
            ('pixel', lambda: d.pixel(p[arr], oversample=os_), [arr], (os_,)),
            ('pixelate', lambda: d.pixelate(p['A1'][:4, :4], oversample=os_), ['A1'], (os_,)),
            ('adc', lambda: d.adc(p['E1'], gain=0.5, saturation_capacity=300), ['E1'], (0.5, 300)),
            ('adc', lambda: d.adc(p['E2'], gain=[1e-4, 0.5], saturation_capacity=2000, warn_saturate=True, dtype=np.uint16), ['E2'], ('poly',)),
            ('adc', lambda: d.adc(p['E2'], gain=np.full(self.shape, 0.25)), ['E2'], ('px',)),
            ('shot_noise', lambda: d.shot_noise(p['E2'], method='poisson', seed=seed), ['E2'], ('poisson', seed)),
            ('shot_noise', lambda: d.shot_noise(p['E2'], method='gaussian', seed=seed), ['E2'], ('gaussian', seed)),
            ('read_noise', lambda: d.read_noise(p['E2'], 10, seed=seed), ['E2'], (10, seed)),
            ('dark_current', lambda: d.dark_current(50.5, shape=self.shape, fpn_factor=0.1, seed=seed), [], (50.5, self.shape, seed)),
            ('rule07_dark_current', lambda: d.rule07_dark_current(150, 5e-6, 18e-6, shape=self.shape, fpn_factor=0.05, seed=seed), [], (self.shape, seed)),
            ('charge_diffusion', lambda: d.charge_diffusion(p[arr], 0.7, oversample=1), [arr], (0.7,)),
            ('cosmic_rays', lambda: d.cosmic_rays((6, 6), (5e-6, 5e-6, 3e-6), 2000.0, rate=4e8), [], ()),
            ('jitter', lambda: l.jitter(p[arr], 0.7, pixelscale=px, oversample=os_), [arr], (0.7, px, os_)),
            ('smear', lambda: l.smear(p[arr], 1.5, angle=30, pixelscale=px, oversample=os_), [arr], (1.5, 30, px, os_)),
            ('smear_random_angle', lambda: l.smear(p[arr], 1.5), [arr], (1.5,)),
            ('centroid', lambda: u.centroid(p['A1']), ['A1'], ()),
            ('pad', lambda: u.pad(p['A1'], (7, 8)), ['A1'], (7, 8)),
            ('pad', lambda: u.pad(p['C1'], (3, 3)), ['C1'], (3, 3)),
            ('subarray', lambda: u.subarray(p['A1'], (2, 3), shift=(1, 0)), ['A1'], ()),
            ('window', lambda: u.window(p['A1'], shape=(2, 2)), ['A1'], ()),
            ('boundary', lambda: u.boundary(p['M1']), ['M1'], ()),
            ('rebin', lambda: u.rebin(p['A1'][:4, :4], 2 * os_), ['A1'], (2 * os_,)),
            ('util_rescale', lambda: u.rescale(p['A1'], 1.5), ['A1'], (1.5,)),
            ('normalize_power', lambda: u.normalize_power(p['A1'], 2.0), ['A1'], (2.0,)),
            ('zernike', lambda: l.zernike(p['Mi'], 4, normalize=nz), ['Mi'], (4, nz)),
            ('zernike_compose', lambda: l.zernike_compose(p['Mi'], [0, 1e-7, 2e-7, 0, 3e-8]), ['Mi'], ()),
            ('zernike_fit', lambda: l.zernike_fit(p['O1'], p['Mi'], [1, 2, 3, 4], normalize=nz), ['O1', 'Mi'], (nz,)),
            ('zernike_remove', lambda: l.zernike_remove(p['O1'], p['Mi'], [1, 2, 3]), ['O1', 'Mi'], ()),
            ('zernike_basis', lambda: l.zernike_basis(p['Mi'], [1, 3, 5], normalize=nz), ['Mi'], (nz,)),
            ('zernike_coordinates', lambda: l.zernike_coordinates(p['M1']), ['M1'], ()),
            ('power_spectrum', lambda: l.power_spectrum(p['Mi'], psx, 5e-8, 8, 3, seed=seed), ['Mi'], (psx, seed)),
            ('translation_defocus', lambda: l.translation_defocus(p['Mi'], 10, 1e-4), ['Mi'], ()),
            ('circle', lambda: l.circle((8, 9), 3, shift=(1, 0)), [], ()),
            ('spectrum_add', lambda: p['S1'] + p['S2'], ['S1', 'S2'], ()),
            ('spectrum_mul', lambda: p['S1'] * p['S2'], ['S1', 'S2'], ()),
            ('spectrum_mul_scalar', lambda: p['S1'] * 2.0, ['S1'], ()),
            ('spectrum_sample', lambda: p['S1'].sample([401.5, 405.25], waveunit='nm'), ['S1'], ()),
            ('spectrum_sample_um', lambda: p['S1'].sample([0.4015, 0.40525], waveunit='um'), ['S1'], ()),
            ('spectrum_integrate', lambda: p['S1'].integrate(), ['S1'], ()),
            ('spectrum_bin', lambda: p['S1'].bin([402., 404., 406., 408.], waveunit='nm'), ['S1'], ()),
            ('spectrum_to_copy', lambda: p['S2'].to('um', copy=True) if 'copy' in p['S2'].to.__code__.co_varnames else None, ['S2'], ()),
        ]
        ent = rng.choice(menu)
        name, fn, ids, params = ent[:4]
        self.call(name, fn, ids, params, store=ent[4] if len(ent) > 4 else None)
        # environment perturbation between calls: the global generator is re-seeded / advanced
        if rng.random() < 0.3:
            np.random.seed(rng.randrange(2 ** 31))
        elif rng.random() < 0.3:
            np.random.uniform(size=rng.randint(1, 5))
        if rng.random() < 0.1:
            # the owner of the tilt element steers it somewhere else (its documented attributes)
            nx = rng.choice((0.0, 5e-5, -3e-4))
            self.caller('caller_update', ['T1'], lambda: (setattr(p['T1'], 'x', nx), setattr(p['T1'], 'y', 2 * nx)))
        if rng.random() < 0.1:
            # ... or edits the coefficient arrays of its dispersive element in place
            which, val = rng.choice((('dispersion', 2.0 ** -7 - 2.0 ** -9), ('dispersion', 2.0 ** -7), ('trace', 0.25), ('trace', 0.0)))
            self.caller('caller_update', ['T2'], lambda: getattr(p['T2'], which).__setitem__(1, val))
        if rng.random() < 0.05:
            # ... or assigns them anew as plain lists (later in-place edits then act on the lists)
            self.caller('caller_update', ['T2'], lambda: (setattr(p['T2'], 'trace', [float(v) for v in np.asarray(p['T2'].trace)]),
                                                          setattr(p['T2'], 'dispersion', [float(v) for v in np.asarray(p['T2'].dispersion)])))
        if rng.random() < 0.1 and len(p['P1'].tilt) > 0:
            # ... or trims the tilt that fit_tilt(inplace=True) recorded on its plane
            self.caller('caller_update', ['P1'], lambda: setattr(p['P1'].tilt[0], 'x', p['P1'].tilt[0].x + 2e-6))
        if rng.random() < 0.1:
            # caller updates a plane attribute between calls (new OPD through the public setter)
            f = rng.choice((1.0, 2.0))
            self.caller('caller_update', ['P1'], lambda: setattr(p['P1'], 'opd', p['O1'] * f + 0.0))


def run_sessions(seed, lentil, nsess, ncalls, reverse=False, tid0=0):
    """every session draws from its own generator (a function of seed and session number), so the same sessions can be run
    in another order by another process"""
    events = []
    for tid in (reversed(range(nsess)) if reverse else range(nsess)):
        s = Session(lentil, tid0 + tid, random.Random((1010 + seed) * 100003 + tid))
        for _ in range(ncalls):
            s.step()
        events += s.events
    return events


def run_sessions_fresh_process(ctx, nsess, ncalls, tid0):
    """the same sessions, last one first, in a fresh interpreter: module-level state (caches) of lentil is warmed in the opposite
    order.  Their events are validated together with the forward ones, so Memo compares results across the two histories."""
    import subprocess
    import sys
    import tempfile
    here = os.path.dirname(os.path.dirname(os.path.abspath(__file__)))
    os.makedirs(WORK, exist_ok=True)
    out = os.path.join(WORK, f'rev_c10_{uuid.uuid4().hex[:10]}.json')
    code = ('import sys, json; sys.path.insert(0, %r); from harness.core import import_lentil; from drivers import c10; '
            'json.dump(c10.run_sessions(%d, import_lentil(), %d, %d, reverse=True, tid0=%d), open(%r, "w"))'
            % (here, ctx.seed, nsess, ncalls, tid0, out))
    p = subprocess.run([sys.executable, '-c', code], capture_output=True, text=True, timeout=3600)
    try:
        if p.returncode != 0:
            raise TLCError('reverse-order session recorder failed: ' + p.stderr[-2000:])
        with open(out) as f:
            return json.load(f)
    finally:
        if os.path.exists(out):
            os.unlink(out)


def validate(ctx, events, name='Trace_C10'):
    os.makedirs(WORK, exist_ok=True)
    fn = os.path.join(WORK, f'trace_c10_{uuid.uuid4().hex[:10]}.json')
    slim = [{k: v for k, v in e.items() if k != 'keytext'} for e in events]
    with open(fn, 'w') as f:
        json.dump(slim, f)
    try:
        res = run_tlc(name, env={'TRACE_FILE': fn}, workers=1, timeout=1800, light=False, xmx='3g')
    finally:
        os.unlink(fn)
    ctx.add_tlc(res, f'{name} ({len(events)} events)')
    if len(res.emits) != 1 or res.emits[0]['n'] != len(events):
        raise TLCError('trace not consumed to its end')
    return res.emits[0]


def validate_all(ctx, events, nsess):
    """one TLC run for a trace of ordinary size; a long trace (thorough tier) is validated in parts, sessions dealt round-robin, a session
    and its twin recorded by the fresh process in the same part (Memo then ranges over the sessions of a part; the history variable makes
    one long run slower than linear)"""
    if len(events) <= 30000:
        return validate(ctx, events)
    from concurrent.futures import ThreadPoolExecutor
    nparts = 8
    parts = [[] for _ in range(nparts)]
    for e in events:
        parts[(e['tid'] % nsess) % nparts].append(e)
    with ThreadPoolExecutor(max_workers=4) as ex:
        outs = list(ex.map(lambda p_: validate(ctx, p_), [p_ for p_ in parts if p_]))
    return {'bad': [b for o in outs for b in o['bad']], 'memo': sum(o['memo'] for o in outs), 'n': sum(o['n'] for o in outs)}


def report_bad(ctx, events, verdict):
    byts = {(e['tid'], e['seq']): e for e in events}
    for b in verdict['bad']:
        tid, seq, f, clause, objs = b
        e = byts[(tid, seq)]
        sig = {'clause': clause, 'f': f, 'objects': sorted(objs) if clause in ('Frame', 'Continuity') else []}
        if clause == 'Memo':
            sig['call'] = e['keytext']
        ctx.violation(sig, {'tid': tid, 'seq': seq, 'event': {k: e[k] for k in ('f', 'args', 'res', 'rng', 'keytext')},
                            'session_so_far': [x['f'] for x in events if x['tid'] == tid and x['seq'] <= seq]},
                      case={'tid': tid, 'seq': seq})


# ------------------------------------------------------------------------------------------ binding self-test
def selftest(ctx, events):
    """corrupt one logged digest / drop one event of an accepted trace: TLC must reject both"""
    import copy
    ev = copy.deepcopy(events[:60])
    # 1. an input array changes although it is not a documented target
    k = next(i for i, e in enumerate(ev) if e['f'] == 'pad' or e['f'] == 'centroid' or e['pre'])
    obj = sorted(ev[k]['post'])[0]
    ev[k]['post'][obj] = 'deadbeef'
    v1 = validate(ctx, ev)
    ok1 = any(b[3] == 'Frame' for b in v1['bad'])
    # 2. an event is dropped: the next event's pre-state no longer continues the previous post-state
    ev2 = copy.deepcopy(events[:60])
    tgt = next((i for i, e in enumerate(ev2[:-1]) if e['seq'] > 1 and e['pre'] != e['post'] and ev2[i + 1]['tid'] == e['tid']), None)
    ok2 = True
    if tgt is not None:
        del ev2[tgt]
        v2 = validate(ctx, ev2)
        ok2 = any(b[3] == 'Continuity' for b in v2['bad'])
    # 3. a repeated call returns something else
    ev3 = copy.deepcopy(events[:200])
    seen = {}
    ok3 = True
    for e in ev3:
        if e['key'] in seen and not e['f'] in ('cosmic_rays', 'smear_random_angle'):
            e['res'] = 'feedface'
            v3 = validate(ctx, ev3)
            ok3 = any(b[3] == 'Memo' for b in v3['bad'])
            break
        seen[e['key']] = 1
    ctx.extra['binding_selftest'] = {'corrupted_digest_rejected': ok1, 'dropped_event_rejected': ok2, 'changed_result_rejected': ok3}
    if not (ok1 and ok2 and ok3):
        ctx.machinery_errors.append('binding self-test failed: a corrupted trace was accepted')


# ------------------------------------------------------------------------------------------ plane histories
def plane_histories(ctx, lentil):
    from drivers import c10_planehist
    c10_planehist.run(ctx, lentil)


def element_states(ctx, lentil):
    """the same element state reached by construction or by attribute updates (of the same or of another polynomial order) gives the same
    displacement and the same propagated field"""
    rng = random.Random(77 + ctx.seed)
    pm = lentil.circle((16, 16), 6, antialias=False)
    n = 0
    for _ in range(40):
        to, do = rng.choice((1, 2, 3)), rng.choice((1, 2, 3))
        trace = [rng.uniform(-0.3, 0.3) for _ in range(to - 1)] + [rng.uniform(-1.0, 1.0), rng.uniform(-1e-4, 1e-4)]
        disp = [rng.uniform(-1e-9, 1e-9) for _ in range(do - 1)] + [rng.choice((-1, 1)) * rng.uniform(2e-6, 8e-6), 600e-9]
        lam = 600e-9 + rng.choice((-20e-9, 15e-9))
        direct = lentil.DispersiveTilt(trace=trace, dispersion=disp)
        to0, do0 = rng.choice((1, 2, 3)), rng.choice((1, 2, 3))
        via = lentil.DispersiveTilt(trace=[0.1] * to0 + [0.0], dispersion=[1e-10] * (do0 - 1) + [3e-6, 600e-9])
        via.shift(wavelength=lam)                     # used once in its first state
        via.trace = np.asarray(trace)
        via.dispersion = np.asarray(disp)
        n += 1
        ctx.case(('element-state', to, do, to0, do0))
        a, b = direct.shift(wavelength=lam), via.shift(wavelength=lam)
        if not np.allclose(np.ravel(a), np.ravel(b), rtol=1e-9, atol=1e-15):
            ctx.violation({'kind': 'state-reached-by-attribute-updates', 'cls': 'DispersiveTilt', 'order_changed': (to, do) != (to0, do0)},
                          {'trace': trace, 'dispersion': disp, 'first_orders': [to0, do0], 'direct': np.ravel(a), 'updated': np.ravel(b)}, case=None)
    ctx.extra['element_states_compared'] = n


def run(ctx):
    lentil = import_lentil()
    q = ctx.tier == 'quick'
    nsess, ncalls = (120 if q else 1000), (30 if q else 40)
    events = run_sessions(ctx.seed, lentil, nsess, ncalls)
    nfwd = len(events)
    events += run_sessions_fresh_process(ctx, nsess, ncalls, tid0=nsess)
    ctx.extra['events_forward'] = nfwd
    # a copy of a source is a source of its own - also a shallow copy, also of a source defined by a law (Blackbody.vegamag): what it
    # returns depends on ITS attributes now, not on those of the object it was copied from
    import copy as _copy
    R_ = lentil.radiometry
    qw = np.array([450., 550., 650.])
    for how in ('copy.copy', 'copy.deepcopy', 'Spectrum.copy', 'pickle'):
        star = R_.Blackbody.vegamag(np.arange(400., 701., 10.), 5000, mag=3, band='V')
        other = {'copy.copy': _copy.copy, 'copy.deepcopy': _copy.deepcopy, 'Spectrum.copy': lambda o: o.copy(),
                 'pickle': lambda o: pickle.loads(pickle.dumps(o))}[how](star)
        ctx.case(('copied-law-source', how))
        before = np.array(other.sample(qw), dtype=float)
        star.mag = 8
        after = np.array(other.sample(qw), dtype=float)
        other.mag = 5
        own = np.array(other.sample(qw), dtype=float)
        ref5 = np.array(R_.Blackbody.vegamag(np.arange(400., 701., 10.), 5000, mag=5, band='V').sample(qw), dtype=float)
        if not (np.allclose(after, before, rtol=1e-12) and np.allclose(own, ref5, rtol=1e-12)):
            ctx.violation({'clause': 'Memo', 'f': 'sample-of-a-copied-source', 'copied_with': how},
                          {'changed_by_the_original': not np.allclose(after, before, rtol=1e-12), 'ignores_its_own_attributes': not np.allclose(own, ref5, rtol=1e-12)}, case=None)
    # what fit_tilt records for a plane does not depend on which OTHER planes were fitted earlier in the process: the same physical
    # wavefront error sampled with square and with anamorphic pixels (same array shape, same row pixel scale) has the same tilt,
    # whichever of the two planes is fitted first
    for order in (('square', 'anamorphic'), ('anamorphic', 'square'), ('square', 'anamorphic')):
        shape_ = tuple(int(v) for v in np.random.default_rng(ctx.seed + len(order[0])).choice((10, 12, 14), 2))
        rr_, cc_ = lentil.helper.mesh(shape_)
        rec = {}
        for which in order:
            px_ = (0.5, 0.5) if which == 'square' else (0.5, 0.125)
            opd_ = 2e-7 * rr_ * px_[0] - 3e-7 * cc_ * px_[1]          # the same ramp in physical units
            pl_ = lentil.Pupil(amplitude=np.ones(shape_), opd=opd_, pixelscale=px_, focal_length=4.0).fit_tilt()
            rec[which] = (pl_.tilt[-1].x, pl_.tilt[-1].y, float(np.abs(pl_.opd).max()))
        ctx.case(('fit-after-another-plane', order, shape_))
        a_, b_ = rec['square'], rec['anamorphic']
        if not (np.allclose(a_[:2], b_[:2], rtol=1e-9, atol=1e-18) and a_[2] < 1e-15 and b_[2] < 1e-15):
            ctx.violation({'clause': 'Memo', 'f': 'fit_tilt-after-a-plane-of-the-same-shape', 'order': '-then-'.join(order)},
                          {'recorded_square_pixels': a_, 'recorded_anamorphic_pixels': b_}, case=None)
    ctx.extra['events_reverse_session_order_fresh_process'] = len(events) - nfwd
    verdict = validate_all(ctx, events, nsess)
    report_bad(ctx, events, verdict)
    selftest(ctx, events)
    for e in events:
        ctx.case(e['key'], nontrivial=True)
    ctx.traces += len({e['tid'] for e in events})
    ctx.extra.update({'events_validated': len(events), 'distinct_call_keys': verdict['memo'],
                      'callables_exercised': sorted({e['f'] for e in events})})
    ctx.sample({k: (v if k not in ('pre', 'post') else dict(list(v.items())[:3])) for k, v in events[5].items()}, maxn=1)
    plane_histories(ctx, lentil)
    element_states(ctx, lentil)
    ctx.rule = ('sessions of 30 [40] random public calls on a shared pool (18 caller-owned objects); every event is judged by TLC; '
                'a case = one call key (callable, parameters, argument contents); plus plane histories generated by TLC from '
                'PlaneHist.tla (all of length <= 3, random of length 8; planes, a tilt element and held wavefronts) replayed on a real Pupil')
    ctx.assumptions += ['content digests (blake2b over dtype/shape/bytes, object attributes) identify object state',
                        'the pool plane P1 is built on the caller-owned array O1 (no copy): documented in-place targets are the plane objects, never the arrays they were built from']


def replay(ctx, rec):
    print('C10 traces are re-recorded, not replayed from file: rerun ./check C10 (same VERIF_SEED reproduces the session)')
