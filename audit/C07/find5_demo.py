"""C07 finding 5 (minor): a plane with default attributes does not "change nothing":
it discards the wavefront's `diameter`.

Plane.multiply builds the output with Wavefront.empty(wavelength, pixelscale,
focal_length, shape, ptype) and never forwards `diameter` (plane.py lines 442-446).
"""
import os
import sys

sys.path.insert(0, os.environ.get('LENTIL_REPO', '.'))

import numpy as np
import lentil

w0 = lentil.Wavefront(1e-6, pixelscale=1e-3, diameter=2.0, focal_length=3.0)
w1 = lentil.Plane() * w0
same = dict(
    wavelength=w1.wavelength == w0.wavelength,
    pixelscale=np.array_equal(w1.pixelscale, w0.pixelscale),
    focal_length=w1.focal_length == w0.focal_length,
    ptype=w1.ptype == w0.ptype,
    shape=w1.shape == w0.shape,
    field=np.array_equal(w1.field, w0.field),
    diameter=w1.diameter == w0.diameter,
)
print(same)
print('diameter before:', w0.diameter, ' after Plane():', w1.diameter)
if not all(same.values()):
    print('VIOLATION - default Plane() changed:', [k for k, v in same.items() if not v])
    sys.exit(1)
sys.exit(0)
