----------------------------- MODULE MC_Spectrum -----------------------------
(* Evaluates Spectrum.tla on a case file (C13, C14, parts of C15) and emits the exact rational results. *)
EXTENDS Spectrum, Json, IOUtils
Cases == JsonDeserialize(IOEnv.CASES)
ASSUME ThmUnits
VARIABLE i
Init == i = 0
Next == i < Len(Cases) /\ i' = i + 1
Spec == Init /\ [][Next]_i

Dstep(c) == IF c.how = "float" THEN c.d ELSE Sampling(c.s1, ToWave(c.s2, c.s1.e), c.how)

Expected(c) ==
    CASE c.k = "binop" ->
            LET r == BinOp(c.op, c.s1, c.s2, c.num, c.fill) IN
            [id |-> c.id, w |-> r.w, v |-> r.v, ties |-> BinOpTies(c.s1, c.s2, c.num),
             gridok |-> GridOK(c.s1, ToWave(c.s2, c.s1.e), c.num, Dstep(c)), e |-> r.e, vu |-> r.vu]
      [] c.k = "to" -> LET t == ToWave(c.s, c.e2) IN [id |-> c.id, w |-> t.w, v |-> t.v, thm |-> ThmToWave(c.s, c.e2)]
      [] c.k = "units" -> [id |-> c.id,
                           wave |-> [A \in WaveUnits |-> [B \in WaveUnits |-> WaveFac(A, B)]],
                           flux |-> [X \in FluxUnits |-> [Y \in FluxUnits |-> FluxFac(X, Y)]]]
      [] c.k = "trapz" -> [id |-> c.id, val |-> Trapz(c.s, c.lo, c.hi), all |-> TrapzAll(c.s), exact |-> TrapzExact(c.s, c.lo, c.hi)]
      [] c.k = "bin" -> LET b == BinTrapz(c.s, c.c, c.ends, c.fill) IN
                        [id |-> c.id, bins |-> b, sum |-> SeqSum(b), span |-> Trapz(c.s, c.c[1], c.c[Len(c.c)])]
Emit == i > 0 => PrintT(<<"EMIT", ToJson(Expected(Cases[i]))>>)

\* theorems on every case that carries spectra
Theorems == i > 0 =>
    LET c == Cases[i] IN
    CASE c.k = "binop" -> /\ WF(c.s1) /\ WF(c.s2)
                          \* commutativity of + and x on the semantics (same grid when the operands are swapped and share a unit)
                          /\ (c.op \in {"add", "mul"} /\ c.s1.e = c.s2.e) =>
                                BinOp(c.op, c.s1, c.s2, c.num, c.fill).v = BinOp(c.op, c.s2, c.s1, c.num, c.fill).v
      [] c.k = "to" -> WF(c.s) /\ ThmToWave(c.s, c.e2)
      [] c.k = "trapz" ->      \* additivity at a sample point and linearity in the values
            /\ WF(c.s)
            /\ \A k \in 1..Len(c.s.w) : REq(RAdd(Trapz(c.s, c.s.w[1], c.s.w[k]), Trapz(c.s, c.s.w[k], c.s.w[Len(c.s.w)])), TrapzAll(c.s))
            /\ REq(TrapzAll([c.s EXCEPT !.v = [k \in 1..Len(c.s.v) |-> RMul(R(3), c.s.v[k])]]), RMul(R(3), TrapzAll(c.s)))
            \* for bounds at samples the two readings of the integral coincide
            /\ \A a, b \in 1..Len(c.s.w) : a <= b => REq(TrapzExact(c.s, c.s.w[a], c.s.w[b]), Trapz(c.s, c.s.w[a], c.s.w[b]))
      [] OTHER -> TRUE
=============================================================================
