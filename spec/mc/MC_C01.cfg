SPECIFICATION Spec
INVARIANT GeomInv
INVARIANT Theorems
CONSTRAINT Emit
