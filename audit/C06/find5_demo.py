"""C06 finding 5 (minor, aliasing): Field keeps the caller's offset list by
reference but computes .extent once at construction.  Re-using one offset list
to build several fields makes offset and extent of the earlier fields disagree;
product/insert then use one position (offset) and merge/reduce/overlap/boundary another.
"""
import os, sys
sys.path.insert(0, os.environ.get('LENTIL_REPO', '.'))
import numpy as np
from lentil.field import Field
import lentil.field, lentil.extent

off = [0, 0]
fields = []
for k in range(2):
    off[0] = 10 * k                      # caller re-uses its scratch list
    fields.append(Field(np.full((2, 2), k + 1.0), offset=off))
a, b = fields                            # intended: a at (0,0), b at (10,0)

bad = []
if a.extent != lentil.extent.array_extent(a.shape, a.offset):
    bad.append(f'a.offset = {a.offset} but a.extent = {a.extent}')
z = lambda: np.zeros((30, 30), complex)
total = lentil.field.insert(a, z()) + lentil.field.insert(b, z())
red = sum(lentil.field.insert(f, z()) for f in lentil.field.reduce([a, b]))
mrg = lentil.field.insert(lentil.field.merge(a, b, enforce_overlap=False), z())
if not np.allclose(total, mrg):
    bad.append('insert(merge(a,b)) != insert(a) + insert(b)')
if lentil.field.overlap((a, b)) != bool((a * b).size):
    bad.append(f'overlap((a,b)) = {lentil.field.overlap((a, b))} but a*b has {(a*b).size} samples')
if bad:
    print('C06 VIOLATED (offset stored by reference, extent by value):')
    for x in bad:
        print('  -', x)
    sys.exit(1)
print('ok'); sys.exit(0)
