"""C05 finding 1: a pupil (or pupil segment) whose support is one single sample
that is not the array's origin sample is silently dropped by Wavefront * Pupil,
so its power never reaches the image plane (DFT and FFT propagators alike)."""
import os, sys
sys.path.insert(0, os.environ['LENTIL_REPO'])
import numpy as np
import lentil

lam, fl, dx = 500e-9, 10.0, 1e-3
n, M, osamp = 4, 8, 2                 # input 4x4, one period = M*osamp = 16 >= 4 samples
du = lam * fl / (dx * M)              # -> alpha = 1/(M*osamp) exactly commensurate
bad = []

def image_totals(pupil):
    w = lentil.Wavefront(lam) * pupil
    d = lentil.propagate_dft(w, du, shape=M, oversample=osamp).intensity.sum()
    f = lentil.propagate_fft(w, du, oversample=osamp).intensity.sum()
    return d, f, len(w.data)

# (a) monolithic pupil: a single illuminated sample, normalised to power p = 2.5
for pos in [(2, 2), (0, 1), (3, 3), (2, 1)]:          # (2, 2) is the origin sample n//2
    amp = np.zeros((n, n)); amp[pos] = 7.0
    amp = lentil.normalize_power(amp, 2.5)
    P = np.sum(np.abs(amp)**2)
    d, f, nf = image_totals(lentil.Pupil(amplitude=amp, pixelscale=dx, focal_length=fl))
    print(f'single sample at {pos}: input power {P:.6f}  DFT total {d:.6f}  FFT total {f:.6f}  fields {nf}')
    if abs(d - P) > 1e-9 * P or abs(f - P) > 1e-9 * P:
        bad.append(f'sample at {pos}: power {P} images to {d} (DFT) / {f} (FFT)')

# (b) segmented pupil: segment 0 is a 2x4 block, segment 1 is the single sample (3, 0)
mask = np.zeros((2, n, n), dtype=int)
mask[0, :2, :] = 1
mask[1, 3, 0] = 1
amp = lentil.normalize_power(mask.sum(axis=0).astype(float), 1.0)
P = np.sum(amp**2)
d, f, nf = image_totals(lentil.Pupil(amplitude=amp, mask=mask, pixelscale=dx, focal_length=fl))
print(f'segmented pupil (8 + 1 samples): input power {P:.6f}  DFT total {d:.6f}  FFT total {f:.6f}  fields {nf}')
if abs(d - P) > 1e-9 * P or abs(f - P) > 1e-9 * P:
    bad.append(f'segmented pupil: power {P} images to {d} (DFT) / {f} (FFT); the 1-sample segment (1/9 of the power) is lost')

if bad:
    print('\nVIOLATION of C05 (full-period output must carry sum|field|^2; normalised amplitude must image to p):')
    for b in bad:
        print('  -', b)
    print('cause: Field.__mul__ treats any size-1 array as a scalar; _mul_scalar returns an empty product '
          'when the offsets of the two "scalars" differ (lentil/field.py)')
    sys.exit(1)
print('no violation observed')
sys.exit(0)
