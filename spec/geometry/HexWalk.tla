------------------------------ MODULE HexWalk ------------------------------
(* The walk that builds a ring of hexagonal segments (lentil.segmented.hex_ring and the cube-coordinate helpers   *)
(* hex_add / hex_direction / hex_neighbor / hex_to_xy / hex_to_rc), as a state machine - growth of the             *)
(* specification beyond the twenty listed properties (C20 counts the segments of an aperture; Geometry!HexRingSet   *)
(* says WHICH cells a ring holds; this module says how the code gets there, step by step, and where the cells'      *)
(* centres lie).                                                                                                    *)
(*                                                                                                                  *)
(* hex_ring(k): start at <<-k, k, 0>>; for each of the six directions in turn, k times: record the cell, step.       *)
(* One action per loop iteration (Record-and-Step) and one per change of direction (Turn).                          *)
EXTENDS Integers, Sequences, FiniteSets, TLC
CONSTANT KMax
VARIABLES k,        \* ring number of this behaviour (chosen in Init)
          hex,      \* current cell <<q, r, s>>
          i, j,     \* direction index 0..5, steps taken in this direction
          results   \* cells recorded so far, in order
vars == <<k, hex, i, j, results>>

Dirs == << <<1, 0, -1>>, <<1, -1, 0>>, <<0, -1, 1>>, <<-1, 0, 1>>, <<-1, 1, 0>>, <<0, 1, -1>> >>     \* hex_directions
Add(a, b) == <<a[1] + b[1], a[2] + b[2], a[3] + b[3]>>                                               \* hex_add
Neighbor(h, d) == Add(h, Dirs[d + 1])                                                                \* hex_neighbor
AbsI(x) == IF x < 0 THEN -x ELSE x
Dist(h) == LET m(a, b) == IF a >= b THEN a ELSE b IN m(m(AbsI(h[1]), AbsI(h[2])), AbsI(h[3]))
Start(r) == <<-r, r, 0>>

Init == /\ k \in 1..KMax /\ hex = Start(k) /\ i = 0 /\ j = 0 /\ results = <<>>
Step == /\ i <= 5 /\ j < k
        /\ results' = Append(results, hex)
        /\ hex' = Neighbor(hex, i)
        /\ j' = j + 1
        /\ UNCHANGED <<k, i>>
Turn == /\ i <= 5 /\ j = k
        /\ i' = i + 1 /\ j' = 0
        /\ UNCHANGED <<k, hex, results>>
Next == Step \/ Turn
Spec == Init /\ [][Next]_vars
Done == i = 6

\* ---- invariants of the walk ------------------------------------------------------------------------------------
Cube == hex[1] + hex[2] + hex[3] = 0 /\ \A n \in 1..Len(results) : results[n][1] + results[n][2] + results[n][3] = 0
OnRing == Dist(hex) = k /\ \A n \in 1..Len(results) : Dist(results[n]) = k         \* the walk never leaves the ring
NoRepeat == \A a, b \in 1..Len(results) : a # b => results[a] # results[b]
Progress == Len(results) = i * k + j \/ (i = 6 /\ Len(results) = 6 * k)
RingSet(r) == {h \in (-r..r) \X (-r..r) \X (-r..r) : h[1] + h[2] + h[3] = 0 /\ Dist(h) = r}
\* at the end: every cell of the ring exactly once, and the walk is closed
Complete == Done => /\ Len(results) = 6 * k
                    /\ {results[n] : n \in 1..Len(results)} = RingSet(k)
                    /\ hex = Start(k)
\* consecutive cells are neighbours (so are the last and the first)
Adjacent == \A n \in 1..(Len(results) - 1) : Dist(Add(results[n + 1], <<-results[n][1], -results[n][2], -results[n][3]>>)) = 1

\* ---- centres (hex_to_xy): numbers a + b sqrt(3), written <<a, b>> with a, b in halves (integers: twice the value) ---
\* rotate = FALSE: x = R (3/2) q,             y = R sqrt(3) (q/2 + r)
\* rotate = TRUE : x = R sqrt(3) (q + r/2),   y = R (3/2) r                      (R = radius of a segment, factored out)
XY2(h, rot) == IF rot THEN << <<0, 2 * h[1] + h[2]>>, <<3 * h[2], 0>> >>          \* <<2x/R, 2y/R>>, each <<rational part, sqrt(3) part>>
                      ELSE << <<3 * h[1], 0>>, <<0, h[1] + 2 * h[2]>> >>
RC2(h, rot) == LET p == XY2(h, rot) IN << <<-p[2][1], -p[2][2]>>, p[1] >>          \* hex_to_rc = (-y, x)
\* squared distance between two centres, times 4 / R^2:  (a + b sqrt3)^2 summed over x and y; cross terms vanish because
\* every coordinate is purely rational or purely a multiple of sqrt(3)
D2(h1, h2, rot) == LET p == XY2(h1, rot)  q == XY2(h2, rot)
                       sq(u, v) == (u[1] - v[1]) * (u[1] - v[1]) + 3 * (u[2] - v[2]) * (u[2] - v[2])
                   IN sq(p[1], q[1]) + sq(p[2], q[2])
Pure == \A rot \in BOOLEAN : \A c \in 1..2 : XY2(hex, rot)[c][1] = 0 \/ XY2(hex, rot)[c][2] = 0
\* neighbouring cells are sqrt(3) R apart (flat to flat of a hexagon of circumradius R): 4 * 3 = 12 in these units, and
\* every recorded cell is at least that far from every other one
NeighbourDist == \A rot \in BOOLEAN : \A d \in 0..5 : D2(hex, Neighbor(hex, d), rot) = 12
Separated == \A rot \in BOOLEAN : \A a, b \in 1..Len(results) : a # b => D2(results[a], results[b], rot) >= 12
\* the two orientations are one lattice turned by 90 degrees and mirrored: (x, y) with rotate = (y, x) without, for the
\* cell with q and r exchanged
Rotated == LET sw == <<hex[2], hex[1], hex[3]>> IN XY2(hex, TRUE) = <<XY2(sw, FALSE)[2], XY2(sw, FALSE)[1]>>
=============================================================================
