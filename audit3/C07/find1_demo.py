"""C07 finding 1: a sample that belongs to two segment masks is multiplied by
2*amplitude*exp(i*phase) instead of amplitude*exp(i*phase).

exit code 1 (and an explanation) when the violation is observed, 0 otherwise.
"""
import os
import sys

sys.path.insert(0, os.environ.get('LENTIL_REPO', '.'))

import numpy as np
import lentil

wl = 1e-6
fail = False

# ---------------------------------------------------------------- part A
# hand-made plane: two rectangular segments that share column 3
mask = np.zeros((2, 6, 7), dtype=int)
mask[0, 1:5, 1:4] = 1          # columns 1..3
mask[1, 1:5, 3:6] = 1          # columns 3..5  (column 3 is in both segments)
rng = np.random.default_rng(0)
amp = rng.uniform(0.5, 1.0, (6, 7))
opd = rng.normal(size=(6, 7)) * 1e-7

plane = lentil.Plane(amplitude=amp, opd=opd, mask=mask)
w = lentil.Wavefront(wl) * plane

inside = np.sum(plane.mask, axis=0) != 0          # the plane's (global) mask
expected = np.where(inside, amp * np.exp(2j*np.pi*opd/wl), 0)
got = w.field

err = np.abs(got - expected)
if err.max() > 1e-9:
    fail = True
    r, c = np.unravel_index(np.argmax(err), err.shape)
    print('A: two segments sharing one column of samples')
    print(f'   field[{r},{c}]      = {got[r, c]:.6f}')
    print(f'   amp*exp(i phi)   = {expected[r, c]:.6f}')
    print(f'   ratio            = {got[r, c]/expected[r, c]:.6f}  (expected 1)')
    print(f'   intensity there  = {w.intensity[r, c]:.6f}, amp**2 = {amp[r, c]**2:.6f}')
    print(f'   samples wrong: {np.argwhere(err > 1e-9).tolist()}')

# ---------------------------------------------------------------- part B
# the library's own segment generator: antialiased hexagons with a gap of
# half a pixel share their (partially covered) edge samples
seg = lentil.hex_segments(rings=1, seg_radius=16, seg_gap=0.5, antialias=True, drop=())
amp = np.sum(seg, axis=0)                 # flattened, antialiased amplitude: max is 1
pupil = lentil.Pupil(amplitude=amp, mask=seg, pixelscale=1e-3, focal_length=10)
w = lentil.Wavefront(wl) * pupil
inside = np.sum(pupil.mask, axis=0) != 0
expected = np.where(inside, amp, 0).astype(complex)
err = np.abs(w.field - expected)
nshared = int(np.sum(np.sum(seg != 0, axis=0) > 1))
if err.max() > 1e-9:
    fail = True
    print('B: lentil.hex_segments(rings=1, seg_radius=16, seg_gap=0.5), amplitude = flattened mask')
    print(f'   samples shared by two or three segments: {nshared}')
    print(f'   samples where field != amplitude:        {int(np.sum(err > 1e-9))}')
    print(f'   max amplitude = {amp.max():.3f}, max |field| = {np.abs(w.field).max():.3f}')
    print(f'   sum(intensity) = {w.intensity.sum():.3f}, sum(amplitude**2) = {np.sum(amp**2):.3f}')

if fail:
    print('VIOLATION: inside the mask the field must be amplitude*exp(2 pi i OPD/wavelength); '
          'on samples that belong to several segment masks Plane.multiply applies the '
          'phasor once per segment and Wavefront.field/intensity add the copies up.')
    sys.exit(1)
print('no violation observed')
sys.exit(0)
