"""C16 finding 5: with an integer-typed frame the saturation clip is written into an integer
copy of the frame, so a non-integral saturation capacity is truncated before the gain is applied."""
import os, sys
sys.path.insert(0, os.environ['LENTIL_REPO'])
import numpy as np
from lentil.detector import adc

fail = []
cap, gain = 1000.7, 10
e_int = np.array([[2000, 1001, 10]])
out_int = adc(e_int, gain, saturation_capacity=cap)
out_flt = adc(e_int.astype(float), gain, saturation_capacity=cap)
want = np.floor(gain*np.minimum(e_int, cap))
print('electrons', e_int[0], 'capacity', cap, 'gain', gain)
print('  int frame  ->', out_int[0])
print('  float frame->', out_flt[0])
print('  expected   ->', want[0])
if not np.array_equal(out_int, want):
    fail.append('integer frame: saturated pixels digitised to %s instead of %s' % (out_int[0, 0], want[0, 0]))
# per-pixel gain form, same path
out2 = adc(e_int.astype(np.uint16), np.full((1, 3), 10.0), saturation_capacity=cap)
if not np.array_equal(out2, want):
    fail.append('uint16 frame, per-pixel gain: %s instead of %s' % (out2[0], want[0]))

if fail:
    print('\nVIOLATION of C16 (floor of the gain polynomial at the electron count clipped to the saturation capacity):')
    for f in fail:
        print('  -', f)
    sys.exit(1)
print('no violation observed')
sys.exit(0)
