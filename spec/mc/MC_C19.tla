------------------------------- MODULE MC_C19 -------------------------------
EXTENDS Blur, Json, IOUtils
Cases == JsonDeserialize(IOEnv.CASES)
VARIABLE i
Init == i = 0
Next == i < Len(Cases) /\ i' = i + 1
Spec == Init /\ [][Next]_i
Expected(c) == [id |-> c.id,
                pixel |-> PixelArgs(c.R, c.C, c.os),
                jitter |-> JitterArgs(c.R, c.C, c.scale, c.px, c.os),
                smear |-> SmearArgs(c.R, c.C, c.dist, c.px, c.os, c.sn, c.cs),
                nyq |-> [r \in 1..c.R |-> [cc \in 1..c.C |-> Nyquist(c.R, r) \/ Nyquist(c.C, cc)]]]
Emit == i > 0 => PrintT(<<"EMIT", ToJson(Expected(Cases[i]))>>)
Theorems == i > 0 => LET c == Cases[i] IN
    /\ ThmDC(c.R, c.C, c.os, c.scale, c.dist, c.px, c.sn, c.cs)
    /\ ThmHermitian(c.R, c.C, c.os, c.scale, c.dist, c.px, c.sn, c.cs)
    /\ ThmUnits(c.R, c.C, c.os, c.scale, c.dist, c.px, c.sn, c.cs)
    /\ ThmZeroExtent(c.R, c.C, c.px, c.os, c.sn, c.cs)
=============================================================================
