"""C13 finding 5: subtraction, division and exponentiation with a scalar or an
equal-length vector on the LEFT (1 - s, 1 / s, 2 ** s, arr - s ...) are refused with
TypeError: only __radd__ and __rmul__ are defined.  `1 - reflectance` / `1 - transmission`
(emissivity, absorptance) is the canonical radiometric use."""
import os
import sys

sys.path.insert(0, os.environ['LENTIL_REPO'])

import numpy as np
from lentil.radiometry import Spectrum

w = np.array([400., 500., 600., 700.])
v = np.array([.5, .25, .8, .4])
s = Spectrum(w, v)
arr = np.array([1., 2., 3., 4.])

# control: the reflected forms that exist work and keep the grid
assert np.allclose((1 + s).value, 1 + v) and np.allclose((arr*s).value, arr*v)

cases = [('1 - s', lambda: 1 - s, 1 - v), ('1.0 / s', lambda: 1.0/s, 1.0/v),
         ('2 ** s', lambda: 2**s, 2**v), ('arr - s', lambda: arr - s, arr - v),
         ('arr / s', lambda: arr/s, arr/v), ('arr ** s', lambda: arr**s, arr**v),
         ('[1,2,3,4] - s', lambda: [1., 2., 3., 4.] - s, arr - v),
         ('np.float64(1) - s', lambda: np.float64(1) - s, 1 - v)]
fail = []
for name, f, want in cases:
    try:
        r = f()
    except TypeError as e:
        fail.append('%-18s -> TypeError: %s' % (name, e))
        continue
    if not (isinstance(r, Spectrum) and np.array_equal(r.wave, w) and np.allclose(r.value, want)):
        fail.append('%-18s -> wrong result %r' % (name, r))

if fail:
    print('VIOLATION of C13 (all five operators with scalars / equal-length vectors act '
          'element-wise):')
    for f in fail:
        print('  -', f)
    sys.exit(1)
print('no violation observed')
sys.exit(0)
