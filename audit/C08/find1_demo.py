"""C08 finding 1: lentil.Rotate cannot be applied to ANY wavefront.

Rotate is a documented public plane class (docs/user/fundamentals/planes.rst
lines 32 and 116, docs/ref/planes.rst) of documented plane type 'transform'.
The documented table (docs/user/fundamentals/wavefront.rst, "Multiplication
rules") says a transform plane may be applied to a none, pupil or image
wavefront and leaves the wavefront type unchanged.  In the code as it stands
Rotate.multiply raises AttributeError for every wavefront, whatever its type,
shape or the rotation angle.
"""
import os
import sys
import warnings

sys.path.insert(0, os.environ['LENTIL_REPO'])
warnings.simplefilter('ignore')

import numpy as np
import lentil

amp = lentil.circle((16, 16), 6)


def wavefronts():
    # one infinite and one finite wavefront of every wavefront type
    yield 'none/infinite', lentil.Wavefront(500e-9), 'none'
    yield 'none/finite', lentil.Wavefront(500e-9) * lentil.Plane(amplitude=amp), 'none'
    yield 'pupil/infinite', lentil.Wavefront(500e-9, ptype=lentil.pupil), 'pupil'
    yield 'pupil/finite', (lentil.Wavefront(500e-9) *
                           lentil.Pupil(amplitude=amp, pixelscale=1e-3, focal_length=10)), 'pupil'
    yield 'image/infinite', lentil.Wavefront(500e-9, ptype=lentil.image), 'image'
    yield 'image/finite', lentil.Wavefront(500e-9) * lentil.Image(amplitude=amp), 'image'


bad = []
for angle, unit in ((0, 'degrees'), (90, 'degrees'), (30, 'degrees'), (np.pi/2, 'radians')):
    for name, w, expected in wavefronts():
        plane = lentil.Rotate(angle=angle, unit=unit)
        try:
            out = w * plane
            got = str(out.ptype)
            if got != expected:
                bad.append(f'Rotate({angle}, {unit}) x {name}: ptype {got}, documented {expected}')
        except TypeError as e:
            bad.append(f'Rotate({angle}, {unit}) x {name}: refused with TypeError ({e}); '
                       f'documented result is {expected}')
        except Exception as e:
            bad.append(f'Rotate({angle}, {unit}) x {name}: {type(e).__name__}: {e}; '
                       f'documented result is a wavefront of type {expected}')

if bad:
    print('VIOLATION of C08: the documented plane class lentil.Rotate cannot be '
          'applied to a compatible wavefront')
    for b in bad:
        print('  ' + b)
    sys.exit(1)
print('ok: Rotate can be applied to every wavefront type')
sys.exit(0)
