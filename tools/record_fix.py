#!/venv/bin/python
"""usage: tools/record_fix.py <property> <what failed>   - appends a `fixed:` entry for /repo's HEAD commit to known_findings.json"""
import json, subprocess, sys
pid, what = sys.argv[1], sys.argv[2]
h = subprocess.run(['git', '-C', '/repo', 'rev-parse', '--short', 'HEAD'], capture_output=True, text=True).stdout.strip()
p = '/verif/known_findings.json'
k = json.load(open(p))
k['fixed'].append(f'fixed: property={pid} {h} {what}')
json.dump(k, open(p, 'w'), indent=1)
print(h)
