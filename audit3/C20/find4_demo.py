"""subarray of a cube (depth, rows, cols) crops the depth and row axes instead of the
row and column axes (pad / window / rebin treat the same cube depth-first)."""
import os, sys
sys.path.insert(0, os.environ.get('LENTIL_REPO', '.'))
import numpy as np
import lentil

fail = False
cube = np.arange(8*10*12, dtype=float).reshape(8, 10, 12)
shape = (4, 6)

ref = np.stack([lentil.subarray(img, shape) for img in cube])      # slice by slice
win = lentil.window(cube, shape)                                   # centred crop of the cube
print('slice-by-slice subarray :', ref.shape, ' window(cube, shape):', win.shape,
      ' equal:', np.array_equal(ref, win))

try:
    out = lentil.subarray(cube, shape)
    print('subarray(cube, (4, 6))   :', out.shape)
    if out.shape != ref.shape or not np.array_equal(out, ref):
        print('  -> VIOLATION: expected the (8, 4, 6) cube of centred sub-images; got cube[2:6, 2:8] '
              '(depth and row axes cropped, all 12 columns kept):', np.array_equal(out, cube[2:6, 2:8]))
        fail = True
except Exception as e:      # an explicit refusal would be acceptable
    print('subarray(cube) refused:', e)

# with a shift the shift is applied to the depth axis
out = lentil.subarray(cube, shape, shift=(1, -2))
ref = np.stack([lentil.subarray(img, shape, shift=(1, -2)) for img in cube])
if out.shape != ref.shape or not np.array_equal(out, ref):
    print('subarray(cube, (4, 6), shift=(1, -2)) ->', out.shape, 'expected', ref.shape)
    fail = True

sys.exit(1 if fail else 0)
