----------------------------- MODULE MC_Broadband -----------------------------
EXTENDS Integers, Sequences, TLC, Json, IOUtils
RingPhi == JsonDeserialize(IOEnv.PHI_FILE)
CaseFile == JsonDeserialize(IOEnv.CASES)
VARIABLES c, todo, hist, acc, dn
INSTANCE Broadband WITH N <- 4, PhiN <- RingPhi, Cases <- CaseFile
\* every reachable state is printed: the harness replays every behaviour (order of exposures) into lentil
Emit == PrintT(<<"EMIT", ToJson([id |-> <<CaseFile[c].id, hist, IF dn = <<>> THEN 0 ELSE 1>>, case |-> CaseFile[c].id, hist |-> hist,
                                 acc |-> acc, read |-> dn # <<>>,
                                 dn |-> IF dn = <<>> THEN <<>> ELSE dn[1].dn, tie |-> IF dn = <<>> THEN <<>> ELSE dn[1].tie])>>)
=============================================================================
