"""C02 / propagate_fft with per-axis pixel scales: the field it returns is not the
Fraunhofer sum at the wavelength it reports (nor at the input wavelength, nor at ANY
single wavelength) - the two axes are evaluated at two different wavelengths.

With a scalar pixel scale propagate_fft is exact at the (grid-fitted) wavelength it
reports - that is the known, accepted behaviour and is used below as the control."""
import os, sys
sys.path.insert(0, os.environ.get('LENTIL_REPO', '.'))
import numpy as np
import lentil


def fraunhofer(E, dx, du, wl, z, osamp, shape_out):
    # unitary Fraunhofer sum, optical axis at floor(n/2) of both planes
    dx = np.broadcast_to(np.asarray(dx, float), (2,))
    du = np.broadcast_to(np.asarray(du, float), (2,))
    a = dx*du/(wl*z*osamp)
    m, n = E.shape
    M, N = shape_out
    R, S = np.arange(m) - m//2, np.arange(n) - n//2
    U, V = np.arange(M) - M//2, np.arange(N) - N//2
    A = np.exp(-2j*np.pi*a[0]*np.outer(U, R))
    B = np.exp(-2j*np.pi*a[1]*np.outer(S, V))
    return np.sqrt(a[0]*a[1]) * (A @ E @ B)


rng = np.random.default_rng(1)
npix = 40
amp = lentil.circle((npix, npix), 18)                       # 0.18 m aperture
opd = 30e-9*rng.normal(size=(npix, npix))
dx, z, wl, osamp = 5e-3, 10.0, 650e-9, 2
pupil = lentil.Pupil(amplitude=amp, opd=opd, pixelscale=dx, focal_length=z)


def run(du):
    w = lentil.Wavefront(wl) * pupil
    out = lentil.propagate_fft(w, pixelscale=du, oversample=osamp)
    f = out.field
    # the input-plane field at the wavelength the result says it is for
    E = amp*np.exp(2j*np.pi*opd/wl)
    ref_rep = fraunhofer(E, dx, du, out.wavelength, z, osamp, f.shape)
    ref_in = fraunhofer(E, dx, du, wl, z, osamp, f.shape)
    peak = np.abs(ref_rep).max()
    e_rep = np.abs(f - ref_rep).max()/peak
    e_in = np.abs(f - ref_in).max()/peak
    # best single wavelength: scan the interval spanned by the two per-axis wavelengths
    K = np.asarray(f.shape)
    dua = np.broadcast_to(np.asarray(du, float), (2,))
    wl_axis = K*dx*dua/(z*osamp)                 # wavelength each axis is really evaluated at
    best = min(np.abs(f - fraunhofer(E, dx, du, x, z, osamp, f.shape)).max()/peak
               for x in np.linspace(wl_axis.min(), wl_axis.max(), 21))
    return out, e_rep, e_in, best, wl_axis


bad = False
out, e_rep, e_in, best, wl_axis = run(5e-6)
print(f'scalar du=5e-6       : grid {out.shape}, reported wavelength {out.wavelength:.6e}')
print(f'    max |field - Fraunhofer sum at reported wavelength| / peak = {e_rep:.2e}  (control, exact)')
if e_rep > 1e-9:
    print('control failed - unexpected'); bad = True

out, e_rep, e_in, best, wl_axis = run((5e-6, 6e-6))
print(f'per-axis du=(5e-6,6e-6): grid {out.shape}, reported wavelength {out.wavelength:.6e}')
print(f'    wavelength really evaluated on the row axis {wl_axis[0]:.6e}, on the column axis {wl_axis[1]:.6e}')
print(f'    max |field - Fraunhofer sum at reported wavelength| / peak = {e_rep:.2e}')
print(f'    max |field - Fraunhofer sum at input    wavelength| / peak = {e_in:.2e}')
print(f'    smallest error over single wavelengths between the two   = {best:.2e}')
if e_rep > 1e-6 and e_in > 1e-6 and best > 1e-6:
    print('VIOLATION: with per-axis pixel scales propagate_fft returns a field that is the Fraunhofer sum\n'
          'of the input field with alpha_k = dx_k*du_k/(wavelength*f*oversample) for NO single wavelength:\n'
          'each axis is fitted to its own grid (its own wavelength) and only the smaller one is reported.')
    bad = True
sys.exit(1 if bad else 0)
