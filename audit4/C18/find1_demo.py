"""C18 / finding 1: cosmic_rays raises IndexError for some states of the global
random generator (no frame is returned).

Property clause: "Cosmic-ray frames have the requested shape and are non-negative
and finite for every random state."

Failing inputs (all arguments are ordinary; the first two use the pixel size of the
docstring example; the frames are long strips whose long side is below the int16
limit documented in _cubeplane_ray_intersection):

    np.random.seed(1074285); cosmic_rays((30000, 4),  (5e-6, 5e-6, 3e-6), 700)
    np.random.seed(1848);    cosmic_rays((4, 30000),  (5e-6, 5e-6, 3e-6), 400)
    np.random.seed(92193);   cosmic_rays((30000, 16), (5e-6, 5e-6, 5e-5), 200)

exit code 1 = violation observed, 0 = not observed.
"""
import os
import sys

sys.path.insert(0, os.environ.get('LENTIL_REPO', '.'))

import numpy as np
import lentil
import lentil.detector as det

print('lentil imported from', lentil.__file__)

# (seed of the global generator, shape, pixelscale (y, x, z) in m, integration time in s,
#  index of the offending ray within the call - used by the diagnostic only)
CASES = [
    (1074285, (30000, 4), (5e-6, 5e-6, 3e-6), 700, 73),
    (1848, (4, 30000), (5e-6, 5e-6, 3e-6), 400, 46),
    (92193, (30000, 16), (5e-6, 5e-6, 5e-5), 200, 92),
]

violated = False


def replay(seed, shape, pixelscale, k):
    """Replay ray number k of the call (draws 5k .. 5k+4 of the stream) and print the
    grid-plane 'intersections' that _propagate_ray returns for it."""
    np.random.seed(seed)
    u = np.random.random_sample(5 * (k + 1)).reshape(k + 1, 5)[k]
    r = u[1] * (shape[0] - 1)
    c = u[2] * (shape[1] - 1)
    theta = u[3] * 2 * np.pi
    phi = u[4] * np.pi
    direction = np.array([np.cos(theta) * np.cos(phi), np.sin(theta) * np.cos(phi), -np.sin(phi)])
    ps = np.asarray(pixelscale)
    direction /= ps / ps.max()
    direction /= np.linalg.norm(direction)
    extent = (0, shape[0] - 1, 0, shape[1] - 1, 0, -1)
    ray = det._propagate_ray(np.array([r, c, 0.0]), direction, extent)
    print('   ray %d: start (row, col, z) = (%.6f, %.6f, 0), direction = %s' % (k, r, c, direction))
    print('   float32 spacing at the start: row %g, col %g'
          % (np.spacing(np.float32(r)), np.spacing(np.float32(c))))
    print('   intersection points returned by _propagate_ray (row, col, z):')
    for p in ray[-4:]:
        inside = (0 <= np.floor(p[0]) < shape[0]) and (0 <= np.floor(p[1]) < shape[1]) and p[2] > -1.001
        print('      ', p, '' if inside else '   <-- beyond the exit point of the ray (outside the pixel slab)')


for seed, shape, pixelscale, ts, k in CASES:
    np.random.seed(seed)
    try:
        frame = det.cosmic_rays(shape, pixelscale, ts)
    except Exception as e:   # the property requires a frame for every random state
        violated = True
        print('VIOLATION: np.random.seed(%d); cosmic_rays(%r, %r, %r) raised %s: %s'
              % (seed, shape, pixelscale, ts, type(e).__name__, e))
        try:
            replay(seed, shape, pixelscale, k)
        except Exception as e2:   # diagnostic only
            print('   (diagnostic replay failed: %r)' % (e2,))
    else:
        ok = (frame.shape == tuple(shape) and np.all(np.isfinite(frame)) and np.all(frame >= 0))
        print('seed %d, shape %r: frame returned, finite and non-negative: %s' % (seed, shape, bool(ok)))
        if not ok:
            violated = True
            print('VIOLATION: frame has wrong shape or non-finite / negative samples')

if violated:
    sys.exit(1)
print('no violation observed')
sys.exit(0)
