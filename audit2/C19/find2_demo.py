"""C19 finding 2 (extreme magnitudes): a frame whose total is a perfectly finite
float64 comes back as NaN from pixel / jitter / smear - even for zero extent,
where the blur must be the identity - because the un-normalised inverse FFT
(n * value) overflows before the 1/n normalisation is applied.
"""
import os
import sys
import warnings

sys.path.insert(0, os.environ.get('LENTIL_REPO', '.'))
import numpy as np
import lentil


def main():
    warnings.simplefilter('ignore')
    img = np.zeros((64, 48))
    img[10, 20] = 1e307          # one bright sample; total = 1e307, finite
    assert np.isfinite(img.sum())

    results = {
        'detector.pixel(img, 0)  [identity]': lentil.detector.pixel(img, 0),
        'jitter(img, 0)          [identity]': lentil.jitter(img, 0),
        'smear(img, 0, 30)       [identity]': lentil.smear(img, 0, 30),
        'detector.pixel(img, 2)': lentil.detector.pixel(img, 2),
        'jitter(img, 0.4)': lentil.jitter(img, 0.4),
        'smear(img, 1.5, 30)': lentil.smear(img, 1.5, 30),
    }
    # the same frame 1e-10 times fainter is handled without trouble, so the
    # result for the bright frame is well defined and finite
    ok = lentil.jitter(img * 1e-10, 0.4) * 1e10
    assert np.all(np.isfinite(ok)) and abs(ok.sum() / 1e307 - 1) < 1e-12

    bad = False
    for name, out in results.items():
        n_nan = int(np.isnan(out).sum())
        print('%-40s total in = %.3e  total out = %r  NaN samples = %d / %d'
              % (name, img.sum(), float(out.sum()), n_nan, out.size))
        if n_nan or not np.isfinite(out.sum()) or abs(out.sum() / img.sum() - 1) > 1e-9:
            bad = True
    if bad:
        print()
        print('VIOLATION: non-negative frame with finite total -> NaN output; the zero-extent')
        print('blur is not the identity and the total signal is not kept.')
        return 1
    print('no violation observed')
    return 0


if __name__ == '__main__':
    sys.exit(main())
