"""C05 finding 2: normalize_power returns an all-zero (or non-finite) amplitude,
not an amplitude of power p, when |a|^2 leaves the double range although the
normalised amplitude itself is perfectly representable."""
import os
import sys
import warnings

sys.path.insert(0, os.environ.get('LENTIL_REPO', '.'))

import numpy as np
import lentil

warnings.simplefilter('ignore')
P_TARGET = 2.0
rng = np.random.default_rng(0)
shape = rng.random((8, 8)) + 0.5          # an ordinary amplitude profile


def image_total(amp):
    pupil = lentil.Pupil(amplitude=amp, pixelscale=1.0, focal_length=1.0)
    w = lentil.Wavefront(wavelength=1.0) * pupil
    # alpha = 1/16 on both axes, output = one full period
    return lentil.propagate_dft(w, pixelscale=1 / 16, shape=16, oversample=1).intensity.sum()


failed = False
for scale in (1.0, 1e100, 1e-100, 1e160, 1e-170, 1e160 * (1 + 1j)):
    a = shape * scale
    out = lentil.normalize_power(a, P_TARGET)
    power = np.sum(np.abs(out) ** 2)
    # what the result should be: scale the data before squaring
    ref = (a / np.max(np.abs(a)))
    ref = ref * np.sqrt(P_TARGET / np.sum(np.abs(ref) ** 2))
    try:
        total = image_total(out)
    except Exception as exc:          # non-finite amplitudes
        total = 'exception: %s' % type(exc).__name__
    print('amplitude scale %-22s -> power of normalize_power(a, %g) = %-22r image total = %r '
          '(reference power %.15g)' % (scale, P_TARGET, power, total,
                                      np.sum(np.abs(ref) ** 2)))
    if not (abs(power - P_TARGET) <= 1e-9 * P_TARGET):
        failed = True

if failed:
    print('\nVIOLATION: for finite, non-zero amplitudes whose squares overflow / underflow '
          'the returned array has power 0 (all zeros) or inf/nan instead of p, and images '
          'to that instead of p; no exception is raised.')
    sys.exit(1)
print('no violation observed')
sys.exit(0)
