"""C08 finding 2: lentil.Flip (documented plane class, documented ptype
'transform') cannot be multiplied with ANY wavefront: Flip.multiply calls
wavefront.copy(), which Wavefront does not have -> AttributeError for
wavefronts of type none, pupil and image, although the documented table allows
'transform' planes for all three wavefront types."""
import os, sys, warnings
sys.path.insert(0, os.environ.get('LENTIL_REPO', '.'))
import numpy as np
import lentil
warnings.simplefilter('ignore')

amp = lentil.circle((32, 32), 12)
pupil = lentil.Pupil(amplitude=amp, pixelscale=1/24, focal_length=10)


def wavefronts():
    w_none = lentil.Wavefront(650e-9) * lentil.Plane(amplitude=amp)
    w_pupil = lentil.Wavefront(650e-9) * pupil
    w_image = lentil.propagate_dft(w_pupil, pixelscale=5e-6, shape=32, oversample=1)
    # also the freshly constructed ("infinite") wavefronts of every type
    return {'none': w_none, 'pupil': w_pupil, 'image': w_image,
            'none(new)': lentil.Wavefront(650e-9),
            'pupil(new)': lentil.Wavefront(650e-9, ptype=lentil.pupil),
            'image(new)': lentil.Wavefront(650e-9, ptype=lentil.image)}


def snap(w):
    return (str(w.ptype), tuple(np.atleast_1d(w.shape)), w.focal_length,
            [(f.data.tobytes(), tuple(f.offset), len(f.tilt)) for f in w.data])


bad = []
for axis in (None, 0, 1, (0, 1)):
    for name, w in wavefronts().items():
        want = name.split('(')[0]
        if '(new)' in name and axis is not None:
            continue  # a 0-d (infinite) field has no axes to name
        assert str(w.ptype) == want
        plane = lentil.Flip(axis=axis)
        before = snap(w)
        try:
            out = w * plane
        except Exception as e:  # the table says this cell is allowed
            bad.append(f"Wavefront('{name}') * Flip(axis={axis}) raised "
                       f"{type(e).__name__}: {e}")
            if snap(w) != before:
                bad.append("  ... and the wavefront operand was modified")
            continue
        if str(out.ptype) != want:
            bad.append(f"Wavefront('{name}') * Flip(axis={axis}) has ptype "
                       f"{out.ptype}, documented: {want}")

if bad:
    print("VIOLATION: the documented plane class lentil.Flip cannot be applied "
          "to a compatible wavefront:")
    print("\n".join(bad))
    sys.exit(1)
print("ok: Flip can be applied to none/pupil/image wavefronts with the documented result type")
sys.exit(0)
