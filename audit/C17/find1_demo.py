"""C17 finding 1: rescaling a segmented plane that carries fitted tilts
(Plane.fit_tilt) changes the propagated image far beyond interpolation
accuracy whenever the input or output sample count is odd.

Plane.rescale -> lentil.util.rescale interpolates about the point N/2
(a half-sample position for odd N) instead of the library's array centre
floor(N/2) used by helper.mesh / ptt_vector / fourier.dft2.  The plane
content is therefore translated by

    delta = 0.5*[N odd] - 0.5*[N' odd]/s      (input samples)

relative to the array centre.  The Tilt objects produced by fit_tilt pivot
about the array centre and are copied unchanged, so every segment k acquires
a spurious piston  tilt_k * delta * pixelscale.
"""
import os, sys
sys.path.insert(0, os.environ.get('LENTIL_REPO', '.'))
import numpy as np
import lentil

WL = 650e-9


def psf(p):
    w = lentil.Wavefront(WL) * p
    return lentil.propagate_dft(w, shape=(64, 64), pixelscale=5e-6, oversample=3).intensity


def make(shape):
    """Three smooth (Gaussian) sub-apertures, one smooth global OPD (defocus)."""
    r, c = lentil.helper.mesh(shape)
    n = min(shape)
    cent = [(-20, -20), (-20, 22), (21, 0)]
    gs = [np.exp(-((r - a)**2 + (c - b)**2)/(2*4.0**2)) for a, b in cent]
    masks = np.array([(g > 1e-4).astype(int) for g in gs])
    assert masks.sum(axis=0).max() == 1
    amp = sum(g*m for g, m in zip(gs, masks))
    opd = 1.0e-5*((r/n)**2 + (c/n)**2)       # <= 0.45 rad/sample inside the segments
    return lentil.Pupil(amplitude=amp, opd=opd, mask=masks, pixelscale=1/n, focal_length=10)


def relerr(a, b):
    return np.abs(a - b).max()/b.max()


bad = []
print('shape      s     N\'        |no fit_tilt   |fit->rescale  |rescale->fit')
for shape, s in [((96, 96), 2), ((96, 96), 0.5), ((96, 96), 1.5),      # N, N' even: no translation
                 ((97, 97), 2), ((97, 97), 0.5), ((97, 121), 1.5), ((96, 96), 3.3), ((96, 96), 0.76)]:
    p = make(shape)
    pf = p.fit_tilt()
    I_ref = psf(p)
    I_fit = psf(pf)
    assert relerr(I_fit, I_ref) < 1e-3          # fit_tilt itself does not change the image
    e_plain = relerr(psf(p.rescale(s)), I_ref)              # rescale without fitted tilt
    e_fit_rs = relerr(psf(pf.rescale(s)), I_fit)            # fit_tilt, then rescale
    e_rs_fit = relerr(psf(p.rescale(s).fit_tilt()), I_ref)  # rescale, then fit_tilt
    q = pf.rescale(s)
    print(f'{str(shape):10s} {s:<5} {str(q.shape):10s} {e_plain:12.2e}   {e_fit_rs:12.2e}   {e_rs_fit:12.2e}')
    if e_fit_rs > 20*max(e_plain, e_rs_fit, 1e-4):
        bad.append((shape, s, e_fit_rs, e_plain))

if bad:
    print('\nVIOLATION: the image of a plane with fitted tilts is not preserved by rescale:')
    for shape, s, e, e0 in bad:
        print(f'  shape={shape} scale={s}: max|dI|/max(I) = {e:.3f} '
              f'(same plane without fit_tilt: {e0:.1e})')
    sys.exit(1)
print('no violation observed')
sys.exit(0)
