"""C15 finding 3: Spectrum.crop(min_wave, max_wave) with a range lying entirely above the
last sample raises an IndexError *after* it has already removed every sample, while a
range lying below the first sample, or between two samples, silently leaves an empty
spectrum.  The empty spectrum that crop leaves behind then breaks crop / pad / integrate."""
import os
import sys

sys.path.insert(0, os.environ.get('LENTIL_REPO', '.'))

import numpy as np
import lentil
from lentil.radiometry import Spectrum

print('lentil from', lentil.__file__)


def make():
    return Spectrum(np.array([400., 500., 600., 700.]), np.array([1., 2., 3., 4.]))


bad = False

# reference: a range without samples below / inside the grid is accepted (result: no samples)
for rng in [(100., 200.), (520., 580.)]:
    s = make()
    s.crop(*rng)
    print(f'crop{rng}: returned normally, wave = {s.wave}, value = {s.value}')

# a range without samples above the grid
s = make()
try:
    s.crop(800., 900.)
except Exception as e:                      # noqa
    print(f'crop(800, 900): raised {type(e).__name__}: {e}')
    print(f'   ... and the spectrum was modified nevertheless: wave = {s.wave}, value = {s.value}')
    if s.wave.size != 4:
        bad = True
else:
    print(f'crop(800, 900): returned normally, wave = {s.wave}')

# a sequence of two crops: the second one fails on the (legitimately) empty result of the first
s = make()
s.crop(520., 580.)
try:
    s.crop(300., 800.)
    print('crop; crop: ok', s.wave)
except Exception as e:                      # noqa
    print(f'crop(520, 580) followed by crop(300, 800): raised {type(e).__name__}: {e}')
    bad = True

if bad:
    print('\nVIOLATION: crop raises although it has already changed the spectrum (range above the '
          'last sample), and a crop that follows a crop which retained no sample raises IndexError.')
    sys.exit(1)
sys.exit(0)
