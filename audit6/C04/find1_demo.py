"""C04 finding 1: Plane.fit_tilt reads the OPD samples OUTSIDE the mask.

A plane transmits only what lies inside its mask (Plane.multiply selects amplitude
and OPD with the mask since the repair "what a plane's arrays hold outside its mask
is not transmitted": NaN / inf / a sentinel where a measured map has no data is
accepted).  fit_tilt did not get the same treatment: it hands the WHOLE opd array
to numpy.linalg.lstsq and multiplies it by the mask afterwards, so

  (a) NaN (or inf) outside the aperture -> the recorded tilt is NaN and the whole
      OPD becomes NaN, silently; the plane that propagated fine before the fit can
      no longer be propagated;
  (b) a finite sentinel outside the aperture (1e6, 1e30) -> the recorded angles are
      not the least-squares tip/tilt of the segment's OPD (off by 0.5 % for 1e6,
      by 1e16 rad for 1e30, which throws every segment image out of the frame).

exit code 1 if the violation is observed, 0 otherwise.
"""
import os
import sys

sys.path.insert(0, os.environ.get('LENTIL_REPO', '.'))
import numpy as np
import lentil

WL, DU, F, PS = 650e-9, 5e-6, 10.0, 1e-3
bad = []


def ls_tilt(opd, mask, ps):
    """independent least-squares piston/tip/tilt over the samples of one mask"""
    r, c = lentil.helper.mesh(mask.shape)
    idx = mask != 0
    A = np.stack([np.ones(idx.sum()), r[idx]*ps, -c[idx]*ps], axis=1)
    return np.linalg.lstsq(A, opd[idx], rcond=None)[0]


def image(plane, shape=64):
    w = lentil.Wavefront(WL) * plane
    return lentil.propagate_dft(w, pixelscale=DU, shape=shape, oversample=2)


# ---------------------------------------------------------------- (a) monolithic, NaN
n = (64, 64)
amp = lentil.circle(n, 20, antialias=False)
r, c = lentil.helper.mesh(n)
opd_in = 2e-6*r*PS - 1e-6*c*PS + 1e-9*r**2            # x tilt 2 urad, y tilt 1 urad, some power
for name, outside in (('nan', np.nan), ('inf', np.inf)):
    opd = np.where(amp > 0, opd_in, outside)           # measured map: no data outside the aperture
    p = lentil.Pupil(amplitude=amp, opd=opd, pixelscale=PS, focal_length=F)
    f0 = image(p).field
    ok_before = bool(np.isfinite(f0).all())            # the plane itself is fine
    ref = ls_tilt(opd, amp, PS)
    pf = p.fit_tilt()
    rec = (pf.tilt[0].y, pf.tilt[0].x)                  # (x tilt, y tilt) as recorded
    inside_ok = bool(np.isfinite(pf.opd[amp > 0]).all())
    try:
        f1 = image(pf).field
        after = 'finite' if np.isfinite(f1).all() else 'not finite'
    except Exception as e:                              # noqa
        after = f'{type(e).__name__}: {e}'
    print(f'[mono, {name} outside mask] propagates before fit: {ok_before}; '
          f'least-squares tilt over the mask = ({ref[1]:.6g}, {ref[2]:.6g}); '
          f'recorded = {rec}; fitted OPD finite inside mask: {inside_ok}; '
          f'propagation after fit: {after}')
    if ok_before and not (np.allclose(rec, ref[1:3], rtol=1e-9, atol=0) and inside_ok):
        bad.append(f'monolithic plane, {name} outside the mask: recorded tilt {rec} '
                   f'instead of ({ref[1]:.6g}, {ref[2]:.6g})')

# ---------------------------------------------------------------- (b) segmented, finite sentinel
m = lentil.hex_segments(rings=1, seg_radius=10, seg_gap=2, flatten=False, antialias=False)
gm = m.sum(axis=0)
r, c = lentil.helper.mesh(gm.shape)
opd_in = np.zeros(gm.shape)
for k, s in enumerate(m):
    opd_in += s*((k - 3)*1e-6*r*PS + (k % 3)*1e-6*c*PS + k*1e-8)
for sentinel in (0.0, 1e6, 1e30):
    opd = np.where(gm > 0, opd_in, sentinel)
    p = lentil.Pupil(amplitude=gm, mask=m, opd=opd, pixelscale=PS, focal_length=F)
    ok_before = bool(np.isfinite(image(p).field).all())
    pf = p.fit_tilt()
    worst = 0.0
    for k, s in enumerate(p.mask):
        ref = ls_tilt(opd, s, PS)
        rec = np.array([pf.tilt[k].y, pf.tilt[k].x])
        worst = max(worst, np.abs(rec - ref[1:3]).max() / 3e-6)
    nfields = len(image(pf).data)
    print(f'[segmented, {sentinel:g} outside masks] propagates before fit: {ok_before}; '
          f'worst error of a recorded angle / 3 urad = {worst:.3g}; '
          f'segment images that still reach the 64x64 frame after the fit: {nfields} of {len(m)}')
    if ok_before and worst > 1e-9:
        bad.append(f'segmented plane, {sentinel:g} outside the masks: recorded angles off by '
                   f'{worst:.3g} of the tilt scale')

if bad:
    print('\nVIOLATION of C04 (tilt fitting removes exactly the least-squares tip and tilt of each '
          "segment's OPD and records the removed angles):")
    for b in bad:
        print('  -', b)
    sys.exit(1)
print('no violation observed')
sys.exit(0)
