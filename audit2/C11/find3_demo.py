"""C11 finding 3: the piston mode (j = 1) is not a computed array: zernike()
returns the boolean mask object itself. When the caller's mask already is a
boolean ndarray (mask = amp > 0, mask = opd != 0, circle(...).astype(bool) ...)
np.asarray(mask, dtype=bool) makes no copy, so the returned "mode" IS the
caller's mask. Writing to the returned mode (e.g. blanking the outside with NaN
for display, which on a bool array stores True) rewrites the mask, and every
later mode computed "for the same mask" changes: non-zero outside the original
support, different origin and different rho normalisation."""
import os, sys
sys.path.insert(0, os.environ.get('LENTIL_REPO', '.'))
import numpy as np
import lentil

mask = lentil.circle((32, 32), 12, antialias=False).astype(bool)
support = mask.copy()

z4_before = lentil.zernike(mask, 4)
z2 = lentil.zernike(mask, 2)
z1 = lentil.zernike(mask, 1)

fail = False
print("mode 1: dtype", z1.dtype, "| is the caller's mask object:", z1 is mask,
      "| mode 2 shares memory with mask:", np.shares_memory(z2, mask))
if np.shares_memory(z1, mask):
    fail = True
    print("VIOLATION: zernike(mask, 1) returns the caller's mask array, not a new array")

# usual display idiom, harmless on every other mode
z2[~support] = np.nan
z1[~support] = np.nan       # on the bool piston this stores True ... into the caller's mask

if not np.array_equal(mask, support):
    fail = True
    print(f"VIOLATION: the caller's mask changed from {support.sum()} to {mask.sum()} samples "
          "by writing to the returned mode 1")
z4_after = lentil.zernike(mask, 4)
if not np.allclose(z4_before, z4_after):
    fail = True
    print(f"VIOLATION: zernike(mask, 4) for the same mask object changed by {np.abs(z4_after - z4_before).max():.3f}; "
          f"max |value| outside the original support is now {np.abs(z4_after[~support]).max():.3f} (must be 0)")

if fail:
    print("lentil/zernike.py line 54 `mask = np.asarray(mask, dtype=bool)` (no copy for bool input) "
          "and line 70 `Z = mask` (piston is the mask object, dtype bool)")
    sys.exit(1)
print("no violation observed")
sys.exit(0)
