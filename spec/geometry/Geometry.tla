------------------------------ MODULE Geometry ------------------------------
(* Array-geometry helpers of lentil.util / lentil.helper (property C20), defined on the ONE centre   *)
(* convention of Grid.tla: the origin of an axis of n samples is index floor(n/2).                   *)
(* Arrays are integer matrices (sequences of rows); cubes are sequences of matrices.                 *)
EXTENDS Grid, Rat

Rows(a) == Len(a)
Cols(a) == Len(a[1])
Mat(m, n, F(_, _)) == TLCEval([i \in 1..m |-> TLCEval([j \in 1..n |-> F(i, j)])])

\* value of the infinite zero-padded plane carrying a (origin of a at the origin of the plane)
At(a, r, c) == IF r \in Range(Rows(a), 0) /\ c \in Range(Cols(a), 0)
               THEN a[Idx(Rows(a), 0, r)][Idx(Cols(a), 0, c)] ELSE 0

\* pad / crop to shape sh: the same plane seen through a centred window of shape sh
Pad(a, sh)      == Mat(sh[1], sh[2], LAMBDA i, j : At(a, Coord(sh[1], 0, i), Coord(sh[2], 0, j)))
PadCube(cu, sh) == TLCEval([k \in 1..Len(cu) |-> Pad(cu[k], sh)])

\* sub-array of shape sh whose centre sits at the origin + shift; refused when it leaves the array
SubOK(a, sh, shift) == /\ Lo(sh[1], shift[1]) >= Lo(Rows(a), 0) /\ Hi(sh[1], shift[1]) <= Hi(Rows(a), 0)
                       /\ Lo(sh[2], shift[2]) >= Lo(Cols(a), 0) /\ Hi(sh[2], shift[2]) <= Hi(Cols(a), 0)
Subarray(a, sh, shift) == Mat(sh[1], sh[2], LAMBDA i, j : At(a, Coord(sh[1], shift[1], i), Coord(sh[2], shift[2], j)))

\* bounding box of the samples strictly above a threshold: 0-based <<rmin, rmax, cmin, cmax>>
Above(a, thr) == {ij \in (1..Rows(a)) \X (1..Cols(a)) : a[ij[1]][ij[2]] > thr}
Boundary(a, thr) == LET b == BBox(Above(a, thr)) IN <<b[1] - 1, b[2] - 1, b[3] - 1, b[4] - 1>>
\* ... as python slices <<r0, r1, c0, c1>> (half open), grown by pad and clipped to the array
BoundarySlice(a, thr, pad) ==
    LET b == Boundary(a, thr) IN
    <<Max(b[1] - pad[1], 0), Min(b[2] + pad[1] + 1, Rows(a)), Max(b[3] - pad[2], 0), Min(b[4] + pad[2] + 1, Cols(a))>>
\* offset of the centre sample of a slice relative to the centre sample of the array it was cut from
SliceOffset(s, sh) == <<(s[1] + C(s[2] - s[1])) - C(sh[1]), (s[3] + C(s[4] - s[3])) - C(sh[2])>>

\* integer-factor rebinning
Sum2(F(_, _), m, n) == LET RECURSIVE SC(_, _)              \* row by row: recursion depth m + n, not m * n
                           SC(i, j) == IF j > n THEN 0 ELSE F(i, j) + SC(i, j + 1)
                           RECURSIVE SR(_)
                           SR(i) == IF i > m THEN 0 ELSE SC(i, 1) + SR(i + 1)
                       IN SR(1)
Rebin(a, f) == Mat(Rows(a) \div f, Cols(a) \div f,
                   LAMBDA i, j : Sum2(LAMBDA p, q : a[(i - 1) * f + p][(j - 1) * f + q], f, f))
Total(a) == Sum2(LAMBDA i, j : a[i][j], Rows(a), Cols(a))

\* centroid in 0-based index coordinates, as exact rationals
Centroid(a) == LET t == Total(a) IN
               <<RNorm(Sum2(LAMBDA i, j : (i - 1) * a[i][j], Rows(a), Cols(a)), t),
                 RNorm(Sum2(LAMBDA i, j : (j - 1) * a[i][j], Rows(a), Cols(a)), t)>>

\* coordinate mesh: index minus origin minus (integer) shift
MeshR(sh, shift) == Mat(sh[1], sh[2], LAMBDA i, j : (i - 1) - C(sh[1]) - shift[1])
MeshC(sh, shift) == Mat(sh[1], sh[2], LAMBDA i, j : (j - 1) - C(sh[2]) - shift[2])

-----------------------------------------------------------------------------
(* Theorems (checked by TLC on every event that supplies an array) *)
ThmPadOrigin(a, sh)  == Pad(a, sh)[C(sh[1]) + 1][C(sh[2]) + 1] = a[C(Rows(a)) + 1][C(Cols(a)) + 1]
ThmPadCrop(a, big)   == (big[1] >= Rows(a) /\ big[2] >= Cols(a)) => Pad(Pad(a, big), <<Rows(a), Cols(a)>>) = a
ThmRebinSum(a, f)    == (Rows(a) % f = 0 /\ Cols(a) % f = 0) => Total(Rebin(a, f)) = Total(a)
ThmSliceBoundary(a, thr) ==      \* slice_offset o boundary_slice is the centre of the bounding box, relative to the array centre
    LET s == BoundarySlice(a, thr, <<0, 0>>)  b == Boundary(a, thr) IN
    SliceOffset(s, <<Rows(a), Cols(a)>>) = <<b[1] + C(b[2] - b[1] + 1) - C(Rows(a)), b[3] + C(b[4] - b[3] + 1) - C(Cols(a))>>

-----------------------------------------------------------------------------
(* Shapes: index maps about the origin sample *)
Partner(n, i) == 2 * (C(n) + 1) - i             \* half-turn / mirror partner of 1-based index i
HalfTurnSym(m) == \A i \in 1..Rows(m), j \in 1..Cols(m) :
                     LET pi == Partner(Rows(m), i)  pj == Partner(Cols(m), j) IN
                     (pi \in 1..Rows(m) /\ pj \in 1..Cols(m)) => m[i][j] = m[pi][pj]
MirrorRowSym(m) == \A i \in 1..Rows(m), j \in 1..Cols(m) :
                     LET pi == Partner(Rows(m), i) IN (pi \in 1..Rows(m)) => m[i][j] = m[pi][j]
MirrorColSym(m) == \A i \in 1..Rows(m), j \in 1..Cols(m) :
                     LET pj == Partner(Cols(m), j) IN (pj \in 1..Cols(m)) => m[i][j] = m[i][pj]
Binary(m) == \A i \in 1..Rows(m), j \in 1..Cols(m) : m[i][j] \in {0, 1}
\* m2 is m1 translated by the integer vector d, wherever both arrays hold the sample
Translated(m1, m2, d) == \A i \in 1..Rows(m1), j \in 1..Cols(m1) :
                            (i + d[1] \in 1..Rows(m1) /\ j + d[2] \in 1..Cols(m1)) => m2[i + d[1]][j + d[2]] = m1[i][j]

-----------------------------------------------------------------------------
(* Hexagonal rings in cube coordinates <<q, r, s>>, q + r + s = 0 *)
HexDist(h) == Max(Max(Abs(h[1]), Abs(h[2])), Abs(h[3]))
HexRingSet(k) == {h \in (-k..k) \X (-k..k) \X (-k..k) : h[1] + h[2] + h[3] = 0 /\ HexDist(h) = k}
ThmRingCount(k) == Cardinality(HexRingSet(k)) = 6 * k
ThmHexTotal(k)  == Cardinality(UNION {HexRingSet(j) : j \in 0..k}) = 1 + 3 * k * (k + 1)
=============================================================================
