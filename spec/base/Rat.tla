-------------------------------- MODULE Rat --------------------------------
(* Exact rationals as pairs <<num, den>> in lowest terms with den > 0.                              *)
EXTENDS Integers, Sequences, TLC

RECURSIVE Gcd(_, _)
Gcd(a, b) == IF b = 0 THEN (IF a >= 0 THEN a ELSE -a) ELSE Gcd(b, a % (IF b > 0 THEN b ELSE -b))
Lcm(a, b) == (a * b) \div Gcd(a, b)

RNorm(n, d) == LET s == IF d < 0 THEN -1 ELSE 1
                   g == Gcd(n, d)
               IN IF n = 0 THEN <<0, 1>> ELSE <<(s * n) \div g, (s * d) \div g>>
R(n)       == <<n, 1>>
RAdd(a, b) == RNorm(a[1] * b[2] + b[1] * a[2], a[2] * b[2])
RSub(a, b) == RNorm(a[1] * b[2] - b[1] * a[2], a[2] * b[2])
RMul(a, b) == RNorm(a[1] * b[1], a[2] * b[2])
RDiv(a, b) == RNorm(a[1] * b[2], a[2] * b[1])
RNeg(a)    == <<-a[1], a[2]>>
RLt(a, b)  == a[1] * b[2] < b[1] * a[2]
RLe(a, b)  == a[1] * b[2] <= b[1] * a[2]
REq(a, b)  == a[1] * b[2] = b[1] * a[2]
RAbs(a)    == <<IF a[1] < 0 THEN -a[1] ELSE a[1], a[2]>>
RIsInt(a)  == a[2] = 1
\* floor, ceiling, truncation toward zero (numpy.fix)
RFloor(a)  == a[1] \div a[2]
RCeil(a)   == -((-a[1]) \div a[2])
RFix(a)    == IF a[1] >= 0 THEN a[1] \div a[2] ELSE -((-a[1]) \div a[2])
\* round half to even (numpy.round); Tie tells whether a is exactly half-way
RTie(a)    == a[2] = 2
RRound(a)  == LET f == RFloor(a)
                  twice == RSub(RMul(R(2), a), R(2 * f))      \* 2*(a - f) in [0, 2)
              IN IF RLt(twice, R(1)) THEN f
                 ELSE IF RLt(R(1), twice) THEN f + 1
                 ELSE IF f % 2 = 0 THEN f ELSE f + 1
=============================================================================
