"""C19 finding 3: the rescale 'out * np.sum(img) / np.sum(out)' forms the
product out*sum(img) before dividing, i.e. it squares the image magnitude.

For images whose samples are around 1e-160 or smaller the product underflows
to 0 and ALL signal is lost (output identically zero); for samples around
1e155 or larger it overflows and the output is inf.  All quantities involved
(input, exact convolution, total) are comfortably inside the float64 range,
and the pixel blur handles the same inputs exactly.
"""
import os
import sys
import warnings

sys.path.insert(0, os.environ["LENTIL_REPO"])
import numpy as np
import lentil

warnings.simplefilter("ignore")
rng = np.random.default_rng(0)
base = rng.uniform(0.5, 1.5, (9, 7))          # odd sizes, strictly positive
fail = False
for mag in [1.0, 1e-150, 1e-165, 1e-200, 1e150, 1e160, 1e200]:
    img = base * mag
    for name, f in [("jitter(scale=0) [identity]", lambda a: lentil.jitter(a, 0)),
                    ("jitter(scale=2)", lambda a: lentil.jitter(a, 2.0)),
                    ("smear(distance=3, angle=0)", lambda a: lentil.smear(a, 3.0, 0)),
                    ("pixel(oversample=1) [control]", lambda a: lentil.detector.pixel(a, 1))]:
        o = f(img)
        ratio = o.sum() / img.sum()
        ok = np.isfinite(ratio) and abs(ratio - 1) < 1e-9
        print("magnitude %-7g %-30s total_out/total_in = %r %s"
              % (mag, name, ratio, "" if ok else "<-- VIOLATION"))
        if not ok and "control" not in name:
            fail = True
if fail:
    print("VIOLATION: jitter/smear lose the whole signal (underflow to 0) or return inf "
          "for non-negative images of very small / very large magnitude, including at "
          "zero extent where they must be the identity.")
    sys.exit(1)
print("no violation observed")
sys.exit(0)
