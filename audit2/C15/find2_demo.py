"""C15 finding 2: with preserve_power=True the bins do not sum to the spectrum's
integral over the span of the centres when the first/last centre is not one of
the spectrum's own sample points (coarse spectra: every bin comes back 0)."""
import os, sys
sys.path.insert(0, os.environ.get('LENTIL_REPO', '.'))
import numpy as np
import lentil
from lentil.radiometry import Spectrum

print('lentil from', lentil.__file__)
fail = False

# (a) a band-pass filter described by its four corner points (piecewise linear),
#     binned inside its flat top. Integral over the span of the centres
#     [500, 600] is exactly 100.
f = Spectrum([400., 450., 650., 700.], [0., 1., 1., 0.])
centres = np.arange(500., 601., 10.)
for ends in ('symmetric', 'inside'):
    bins = f.bin(centres, interp_method='trapz', ends=ends, preserve_power=True)
    raw = f.bin(centres, interp_method='trapz', ends=ends, preserve_power=False)
    print(f'(a) trapz/{ends}: sum(bins) = {bins.sum()}  expected 100   '
          f'(without preserve_power the bins sum to {raw.sum()})')
    if abs(bins.sum() - 100) > 1e-9:
        fail = True
try:
    bins = f.bin(centres, interp_method='simps')
    print('(a) simps: sum(bins) =', bins.sum())
except Exception as e:
    print('(a) simps (the default) raised', repr(e))

# (b) a finely, uniformly sampled spectrum (1 nm), uniformly spaced centres that
#     fall half-way between samples. Spectrum is linear, so every quadrature is
#     exact and the integral over [450.5, 459.5] is known in closed form.
w = np.arange(400., 701.)
s = Spectrum(w, 2*w + 3)
centres = np.arange(450.5, 460., 1.0)       # 450.5 ... 459.5
a, b = centres[0], centres[-1]
exact = (b**2 - a**2) + 3*(b - a)
for method in ('trapz', 'simps'):
    bins = s.bin(centres, interp_method=method, ends='inside', preserve_power=True)
    raw = s.bin(centres, interp_method=method, ends='inside', preserve_power=False)
    print(f'(b) {method}/inside: sum(bins) = {bins.sum():.6f}  exact integral = {exact:.6f}  '
          f'rel.err = {abs(bins.sum()-exact)/exact:.3e}   (raw bins sum to {raw.sum():.6f})')
    if abs(bins.sum() - exact) > 1e-9*exact:
        fail = True

if fail:
    print('VIOLATION: power-preserving bins do not sum to the integral of the spectrum '
          'over the span of the centres')
    sys.exit(1)
sys.exit(0)
