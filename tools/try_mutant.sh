#!/bin/sh
# usage: tools/try_mutant.sh '<sed expression>' <file relative to /repo> <check id> [...]
# applies a one-line source mutant to /repo, runs the pinned tests and the quick checks, reverts.
expr="$1"; file="$2"; shift 2
cd /repo || exit 2
git diff --quiet || { echo "repo dirty"; exit 2; }
sed -i "$expr" "$file"
if git diff --quiet; then echo "MUTANT DID NOT APPLY"; exit 2; fi
git diff | grep '^[+-]' | grep -v '^+++\|^---'
/venv/bin/python -m pytest -q -p no:cacheprovider -x 2>&1 | tail -1
cd /verif
for id in "$@"; do
  ./check $id --tier quick > /tmp/mut_$id.log 2>&1; rc=$?
  echo "check $id rc=$rc: $(grep -c '^VIOLATION' /tmp/mut_$id.log) violation line(s)"
  grep 'sig=' /tmp/mut_$id.log | head -3
done
cd /repo && git checkout -- . 
