SPECIFICATION Spec
INVARIANT Confluent
INVARIANT NonNegFrame
INVARIANT HistOK
PROPERTY Monotone
PROPERTY ReadoutOnce
CONSTRAINT Emit
CHECK_DEADLOCK FALSE
