"""C05 finding 1: a pupil (or a segment of a segmented pupil) whose aperture is a
single sample away from the array centre is dropped when the wavefront is
multiplied by the plane, so a normalised amplitude of power p images to 0
(or to less than p) on a full-period output grid, with DFT and FFT alike.

exit code 1 = violation observed, 0 = not observed
"""
import os
import sys

sys.path.insert(0, os.environ.get('LENTIL_REPO', '.'))
import numpy as np
import lentil

wl, fl, dx = 1e-6, 2.0, 1e-3
N, osamp = 16, 2                      # 1/alpha = 16 samples per axis >= 8
du = wl * fl * osamp / (N * dx)       # alpha = dx*du/(wl*fl*osamp) = 1/16
bad = []


def totals(pupil):
    w = lentil.Wavefront(wl) * pupil
    pin = np.sum(np.abs(w.field) ** 2)
    dft = lentil.propagate_dft(w, du, shape=N // osamp, oversample=osamp).intensity.sum()
    fft = lentil.propagate_fft(w, du, oversample=osamp).intensity.sum()
    return len(w.data), pin, dft, fft


# (a) monolithic pupil, one transmitting sample at (2, 3) of an 8 x 8 array
p = 5.0
amp = np.zeros((8, 8))
amp[2, 3] = 1
amp = lentil.normalize_power(amp, p)
assert abs(np.sum(np.abs(amp) ** 2) - p) < 1e-12
nf, pin, dft, fft = totals(lentil.Pupil(amplitude=amp, pixelscale=dx, focal_length=fl))
print(f'(a) single off-centre sample, target power {p}: fields in wavefront = {nf}, '
      f'sum|field|^2 = {pin}, DFT total = {dft}, FFT total = {fft}')
if abs(dft - p) > 1e-9 * p or abs(fft - p) > 1e-9 * p:
    bad.append('(a)')

# control: the same sample at the array centre (4, 4) is transmitted
amp_c = np.zeros((8, 8))
amp_c[4, 4] = 1
amp_c = lentil.normalize_power(amp_c, p)
print('    control, same sample at the centre (4, 4):',
      totals(lentil.Pupil(amplitude=amp_c, pixelscale=dx, focal_length=fl)))

# (b) segmented pupil: a 3 x 3 segment and a segment of one sample
mask = np.zeros((2, 8, 8))
mask[0, 1:4, 1:4] = 1
mask[1, 6, 5] = 1
amp = lentil.normalize_power(mask.sum(axis=0), 1.0)
nf, pin, dft, fft = totals(lentil.Pupil(amplitude=amp, mask=mask, pixelscale=dx, focal_length=fl))
print(f'(b) segments of 9 samples and of 1 sample, target power 1: fields = {nf}, '
      f'sum|field|^2 = {pin}, DFT total = {dft}, FFT total = {fft}')
if abs(dft - 1) > 1e-9 or abs(fft - 1) > 1e-9:
    bad.append('(b)')

if bad:
    print('VIOLATION', bad, ': an amplitude normalised to power p does not image to total p; '
          'Field.__mul__ treats the 1 x 1 sampled array as an unsampled scalar and drops it '
          'because its offset differs from that of the incoming plane wave')
    sys.exit(1)
print('no violation observed')
sys.exit(0)
