"""C06 finding 4: reduce() (and overlap() with more than two fields) recurses
once per merge, so a collection in which about 1000 or more fields end up in
one group raises RecursionError instead of returning the merged field."""
import os, sys
sys.path.insert(0, os.environ['LENTIL_REPO'])
import numpy as np
import lentil.field as lf
from lentil.field import Field

n = 1200
fields = [Field(np.ones((2, 2)), offset=[i, 0]) for i in range(n)]   # a chain of overlapping 2x2 fields
try:
    out = lf.reduce(fields)
except RecursionError as e:
    print('VIOLATION (C06, reduce over 1..n fields): reduce of %d overlapping fields raises '
          'RecursionError (recursion limit %d); 900 fields work' % (n, sys.getrecursionlimit()))
    sys.exit(1)
assert len(out) == 1 and np.isclose(out[0].data.sum(), 4*n)
print('ok')
