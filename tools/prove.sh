#!/bin/sh
# usage: tools/prove.sh   - checks the TLAPS proofs under /verif/proofs (unbounded lemmas that complement TLC's bounded checks;
# not one of the registered checks).  exit 0 = every obligation proved.
cd "$(dirname "$0")/../proofs" || exit 2
rc=0
for f in *.tla; do
  out=$(timeout 900 tlapm --cleanfp "$f" 2>&1); r=$?
  echo "$f: $(echo "$out" | grep -E 'obligations (proved|failed)' | tail -1)"
  [ $r -ne 0 ] && rc=1
done
rm -rf .tlacache
exit $rc
