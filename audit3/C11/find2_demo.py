"""C11 finding 2: every mode except piston is NaN everywhere for an empty mask.

With no masked sample every sample is "outside the mask", so every mode must
be identically zero (as the piston mode is).  zernike_coordinates() divides by
the number of masked samples (centroid) and by the largest masked radius, both
0, and the NaN coordinates are then "masked" by a multiplication: NaN * False
is NaN.
"""
import os
import sys
import warnings

sys.path.insert(0, os.environ['LENTIL_REPO'])
import numpy as np
import lentil

warnings.simplefilter('ignore')

failures = []
for shape in [(8, 8), (9, 9), (8, 9), (2, 2)]:
    mask = np.zeros(shape)
    for j in (1, 2, 3, 4, 11):
        for normalize in (True, False):
            z = lentil.zernike(mask, j, normalize=normalize)
            bad = int(np.count_nonzero(z != 0))     # NaN != 0 is True
            print(f'empty mask {shape}, j={j}, normalize={normalize}: '
                  f'{bad} of {z.size} samples are not zero '
                  f'(NaN: {int(np.isnan(z).sum())})')
            if bad:
                failures.append((shape, j, normalize))

# where this shows up: one empty segment poisons a composed OPD / a basis
mask = np.zeros((8, 8))
opd = lentil.zernike_compose(mask, [0, 1e-7, 0, 2e-7])
print('zernike_compose over the empty mask: NaN samples =',
      int(np.isnan(opd).sum()), 'of', opd.size)
if np.isnan(opd).any():
    failures.append(('compose',))
basis = lentil.zernike_basis(mask, [1, 2, 3])
print('zernike_basis over the empty mask: NaN samples per mode =',
      [int(np.isnan(b).sum()) for b in basis])

if failures:
    print('\nVIOLATION: "values are zero outside the mask" - with an empty mask '
          'all samples are outside, yet every mode but piston is NaN '
          f'({len(failures)} failing cases)')
    sys.exit(1)
print('no violation observed')
sys.exit(0)
