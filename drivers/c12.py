"""C12 - Zernike fit, compose and remove are mutually inverse for any mode set.

A: on an exact instance (six integer vectors in Z^5 whose triples are all independent) TLC enumerates every ordered
   subset M of the modes with |M| <= 3 (156) and proves, in rational arithmetic, Fit(Compose_M(c), M) = c,
   Fit(Remove(v, M), M) = 0, Remove idempotent and Remove(Compose_M(c), M) = 0 (Zernike!ThmFitCompose, ThmRemove,
   ThmRemovePure): the algebra the implementation must realise.
B: every ordered subset TLC emitted is mapped onto Noll indices (contiguous and scattered assignments) and the same
   four programs are executed with lentil on circular, hexagonal, segmented and off-centre masks on even and odd
   arrays, with default and caller-supplied coordinates and both normalisation settings; the post-conditions are
   checked numerically with a tolerance scaled by the conditioning of the basis on the mask (ill-conditioned cases,
   cond > 1e8, are skipped and counted).
"""
import json
import os
import random
import uuid

import numpy as np

from harness.core import import_lentil
from harness.tlc import run_tlc, WORK, TLCError

LEVEL = 'model_checking'


def masks_for(lentil, rng):
    out = []
    out.append(('circle-even', lentil.circle((24, 24), 10, antialias=False)))
    out.append(('circle-odd', lentil.circle((23, 25), 9.5, antialias=False)))
    out.append(('circle-offcentre', lentil.circle((26, 22), 7, shift=(3, -2), antialias=False)))
    out.append(('hexagon', lentil.hexagon((25, 24), 10.3, antialias=False)))
    seg = lentil.hex_segments(1, 4.3, 1.0, antialias=False, flatten=True)
    out.append(('segmented', seg))
    out = [(n, (m > 0).astype(int)) for n, m in out]
    # masks whose non-zero values are not all 1 (antialiased edge, amplitude-valued): only the support may matter
    aa = lentil.circle((24, 25), 9.3, shift=(1, -1), antialias=True)
    out.append(('circle-antialiased', aa))
    out.append(('hexagon-amplitude', lentil.hexagon((25, 24), 10.3, antialias=False) * rng.choice((0.5, 3.0))))
    return out


def run(ctx):
    lentil = import_lentil()
    rng = random.Random(1212 + ctx.seed)
    nr = np.random.default_rng(1212 + ctx.seed)
    q = ctx.tier == 'quick'
    os.makedirs(WORK, exist_ok=True)
    fn = os.path.join(WORK, f'zern_{uuid.uuid4().hex[:8]}.json')
    with open(fn, 'w') as f:
        json.dump([], f)
    try:
        res = run_tlc('MC_Zernike', env={'CASES': fn, 'ZJMAX': 10, 'ZNORTHO': 4}, workers=1, timeout=900, light=False, coverage=True)
    finally:
        os.unlink(fn)
    ctx.add_tlc(res, 'MC_Zernike (fit/compose/remove identities on the exact instance, all ordered subsets)')
    subsets = [e['M'] for e in res.emits if isinstance(e['id'], list)]
    if len(subsets) != 6 + 30 + 120:
        raise TLCError(f'expected 156 ordered subsets, got {len(subsets)}')
    ctx.require_coverage(res, ['PickSubset'])
    masks = masks_for(lentil, rng)
    assignments = [[1, 2, 3, 4, 5, 6], [4, 2, 3, 7, 11, 6], [5, 8, 2, 13, 4, 10]]      # abstract mode -> Noll index
    nskip = 0
    for M in subsets:
        combos = [(mi, a, nz, cs) for mi in range(len(masks)) for a in range(len(assignments)) for nz in (True, False) for cs in (False, True)]
        for (mi, a, normalize, supplied) in (rng.sample(combos, 6) if q else combos):
            name, mask = masks[mi]
            modes = [assignments[a][k - 1] for k in M]
            kw = {}
            if supplied:
                # two different coordinate sets are used with the same mask and modes (alternating), so that nothing
                # remembered from one call can leak into the other
                alt = (len(M) + mi + a) % 2
                rho, theta = lentil.zernike_coordinates(mask, shift=(0.3, -0.4) if alt else (-1.2, 0.7), rotate=20 if alt else -35)
                kw = {'rho': rho, 'theta': theta}
                lentil.zernike_fit(np.zeros(mask.shape), mask, modes, normalize=normalize,
                                   **dict(zip(('rho', 'theta'), lentil.zernike_coordinates(mask, shift=(-1.2, 0.7) if alt else (0.3, -0.4), rotate=-35 if alt else 20))))
            basis = lentil.zernike_basis(mask, modes, vectorize=True, normalize=normalize, **kw)
            cond = np.linalg.cond(basis[:, mask.ravel() != 0])
            ctx.case((tuple(M), name, a, normalize, supplied))
            if not np.isfinite(cond) or cond > 1e10:
                nskip += 1
                continue
            tol = 1e-12 * cond + 1e-10        # least squares loses about eps*cond; two orders of margin
            sig = {'modes_contiguous_from_1': modes == list(range(1, len(modes) + 1)), 'normalize': normalize, 'supplied_coordinates': supplied,
                   'nmodes': len(modes)}
            detail = {'mask': name, 'modes': modes, 'normalize': normalize, 'supplied_coordinates': supplied}
            # OPDs come in metres (nanometre or picometre magnitudes as well as unit ones) and in any memory layout:
            # fitting and removing are linear, so everything scales with `unit`
            unit = rng.choice((1.0, 1.0, 1e-7, 1e-9, 1e-12, 1e3))
            lay = rng.choice(('C', 'C', 'F', 'T'))
            L = (lambda x: x) if lay == 'C' else (np.asfortranarray if lay == 'F' else (lambda x: np.ascontiguousarray(x.T).T))
            sig.update(unit='unit' if unit == 1.0 else ('small' if unit < 1 else 'large'), layout=lay)
            tol = tol * unit
            c = nr.uniform(-1, 1, size=len(modes)) * unit
            # program 1: compose on the modes M, then fit
            coeffs = np.zeros(max(modes))
            for k, j in enumerate(modes):
                coeffs[j - 1] = c[k]
            opd = lentil.zernike_compose(mask, coeffs, normalize=normalize, **kw)
            fit = lentil.zernike_fit(L(opd), mask, modes, normalize=normalize, **kw)
            if not np.allclose(fit, c, rtol=0, atol=tol):
                ctx.violation(dict(sig, kind='fit-of-compose'), dict(detail, coefficients=c, fitted=fit), case=None)
            # a measured map carries no data outside the aperture: NaN there, or a sentinel.  The fit is over the MASK, so what the
            # array holds outside of it cannot change the coefficients, and removing the modes leaves zero inside the mask
            if (mask == 0).any():
                for junk, jname in ((np.nan, 'nan'), (-9999.0, 'sentinel')):
                    opd_j = np.where(mask != 0, opd, junk)
                    try:
                        fit_j = lentil.zernike_fit(L(opd_j), mask, modes, normalize=normalize, **kw)
                        ok_fit = np.allclose(fit_j, c, rtol=0, atol=tol)
                        res_j = lentil.zernike_remove(L(opd_j), mask, modes, **kw) if normalize else None
                        ok_rem = res_j is None or np.allclose(np.asarray(res_j)[mask != 0], 0, atol=tol * (1 + np.abs(opd).max() / unit))
                    except Exception as ex:
                        ok_fit, ok_rem, fit_j = False, False, repr(ex)[:120]
                    if not (ok_fit and ok_rem):
                        ctx.violation(dict(sig, kind='samples-outside-the-mask-change-the-fit', outside=jname, fit_ok=bool(ok_fit), remove_ok=bool(ok_rem)),
                                      dict(detail, coefficients=c, fitted=fit_j), case=None)
            if normalize:
                # programs 2-4 (zernike_remove has no normalisation switch; it removes a least-squares component either way)
                opd_r = L(nr.normal(size=mask.shape) * (mask != 0) * unit)
                try:
                    res1 = lentil.zernike_remove(opd_r, mask, modes, **kw)
                except Exception as ex:
                    ctx.violation(dict(sig, kind='remove-' + type(ex).__name__), dict(detail, error=repr(ex)[:200]), case=None)
                    continue
                f1 = lentil.zernike_fit(res1 * (mask != 0), mask, modes, **kw)
                scale = 1 + np.abs(opd_r).max() / unit
                if not np.allclose(f1, 0, atol=tol * scale):
                    ctx.violation(dict(sig, kind='residual-still-contains-removed-modes'), dict(detail, fitted_after_remove=f1), case=None)
                res2 = lentil.zernike_remove(res1, mask, modes, **kw)
                if not np.allclose((res2 - res1) * (mask != 0), 0, atol=tol * scale):
                    ctx.violation(dict(sig, kind='remove-not-idempotent'), dict(detail, max_change=float(np.abs((res2 - res1) * (mask != 0)).max())), case=None)
                res3 = lentil.zernike_remove(L(opd), mask, modes, **kw)
                if not np.allclose(res3 * (mask != 0), 0, atol=tol * (1 + np.abs(opd).max() / unit)):
                    ctx.violation(dict(sig, kind='pure-modes-not-removed'), dict(detail, max_residual=float(np.abs(res3 * (mask != 0)).max())), case=None)
    # a set of modes is a set of whole numbers whatever container and integer type it arrives in
    mk_t = lentil.circle((24, 25), 9, shift=(1, -2), antialias=False)
    modes_t = [4, 2, 7]
    c_t = np.array([0.5, -1.0, 0.25])
    co_t = np.zeros(7)
    for k_, j_ in enumerate(modes_t):
        co_t[j_ - 1] = c_t[k_]
    opd_t = lentil.zernike_compose(mk_t, co_t)
    for form in (tuple, np.int8, np.uint8, np.int16, np.uint16, np.int32, np.uint32, np.int64, np.uint64, np.uintp):
        mt_ = tuple(modes_t) if form is tuple else np.array(modes_t, dtype=form)
        ctx.case(('mode-container', getattr(form, '__name__', str(form))))
        try:
            f_t = lentil.zernike_fit(opd_t, mk_t, mt_)
            r_t = lentil.zernike_remove(opd_t, mk_t, mt_)
            b_t = lentil.zernike_basis(mk_t, mt_)
            ok = np.allclose(f_t, c_t, rtol=0, atol=1e-10) and np.allclose(r_t[mk_t != 0], 0, atol=1e-10) and b_t.shape[0] == 3
            err = None
        except Exception as ex:
            ok, err = False, repr(ex)[:160]
        if not ok:
            ctx.violation({'kind': 'mode-set-depends-on-its-integer-type', 'type': getattr(form, '__name__', str(form))}, {'modes': modes_t, 'error': err}, case=None)
    # many modes on a small off-centre segment with global coordinates: independent but badly conditioned (cond ~ 1e7..1e9)
    big = lentil.hexagon((128, 128), 9, shift=(30, -22), antialias=False)
    grho, gtheta = lentil.zernike_coordinates(lentil.circle((128, 128), 60, antialias=False))
    for nm in (11, 21, 28):
        modes = list(range(1, nm + 1))
        basis = lentil.zernike_basis(big, modes, vectorize=True, rho=grho, theta=gtheta)
        cond = np.linalg.cond(basis[:, big.ravel() != 0])
        ctx.case(('many-modes', nm))
        if cond > 1e10:
            nskip += 1
            continue
        c = nr.uniform(-1, 1, size=nm)
        opd = lentil.zernike_compose(big, c, rho=grho, theta=gtheta)
        fit = lentil.zernike_fit(opd, big, modes, rho=grho, theta=gtheta)
        if not np.allclose(fit, c, rtol=0, atol=1e-12 * cond + 1e-10):
            ctx.violation({'kind': 'fit-of-compose', 'nmodes': nm, 'ill_conditioned': True},
                          {'modes': nm, 'cond': float(cond), 'max_abs_error': float(np.abs(fit - c).max())}, case=None)
    ctx.traces += len(subsets)
    ctx.skipped['ill-conditioned mode set on the mask (cond > 1e8)'] = nskip
    ctx.extra.update({'ordered_subsets_from_TLC': len(subsets), 'mode_assignments': assignments, 'masks': [n for n, _ in masks]})
    ctx.sample({'ordered_subset_from_TLC': subsets[40], 'noll_modes': [assignments[1][k - 1] for k in subsets[40]]}, maxn=1)
    ctx.rule = ('156 ordered subsets (size <= 3) of six abstract modes x 3 assignments to Noll indices (contiguous and scattered) x 5 masks x '
                'normalisation x default / supplied coordinates (6 seeded combinations per subset in the quick tier, all 60 in the thorough tier); '
                'distinct by (subset, mask, assignment, flags)')
    ctx.assumptions += ['tolerance 1e-9 * cond(basis restricted to the mask); correctness of the modes themselves is property C11']


def replay(ctx, rec):
    print('re-run ./check C12 with the same VERIF_SEED')
