"""C09 finding 1: with single-precision pixel scales, propagate_fft does not
agree with propagate_dft evaluated at the wavelength propagate_fft reports.

_dft_alpha() forms dx*du in the dtype of the pixel scales (float32), while
_fft_shape() derives the reported propagation wavelength from the same two
numbers multiplied in float64.  The DFT evaluated at the reported wavelength
therefore does not sample at 1/N of the FFT grid.
"""
import os, sys, copy
sys.path.insert(0, os.environ.get('LENTIL_REPO', '.'))
import numpy as np
import lentil

rng = np.random.default_rng(0)
n = 256
amp = rng.uniform(0.5, 1.0, (n, n))
opd = rng.normal(scale=20e-9, size=(n, n))
f, wl, os_ = 10.0, 633e-9, 2


def fft_vs_dft(dx, du):
    p = lentil.Pupil(amplitude=amp, opd=opd, pixelscale=dx, focal_length=f)
    w = lentil.Wavefront(wl) * p
    out = lentil.propagate_fft(w, du, shape=None, oversample=os_)
    # DFT of the very same pupil field, at the wavelength the FFT reports, on
    # the same output grid (out.shape samples of du/oversample)
    w2 = copy.deepcopy(w)
    w2._wavelength = out.wavelength
    ref = lentil.propagate_dft(w2, np.broadcast_to(du, (2,))/os_,
                               shape=out.shape, oversample=1)
    a, b = out.field, ref.field
    peak = np.max(np.abs(b))
    err_peak = np.max(np.abs(a - b))/peak
    sel = np.abs(b) > 1e-3*peak
    err_pt = np.max(np.abs(a - b)[sel]/np.abs(b)[sel])
    alpha = lentil.propagate._dft_alpha(w.pixelscale, np.broadcast_to(du, (2,)),
                                        out.wavelength, f, os_)
    return tuple(out.shape), err_peak, err_pt, float(alpha[0])*out.shape[0] - 1


dx64, du64 = float(np.float32(1e-3)), float(np.float32(1.3e-5))   # same values
s64 = fft_vs_dft(dx64, du64)
s32 = fft_vs_dft(np.float32(1e-3), np.float32(1.3e-5))
print('lentil from', lentil.__file__)
print('pixel scales as float64: grid %s  max|FFT-DFT|/peak = %.2e  pointwise = %.2e  alpha*N-1 = %.2e' % s64)
print('pixel scales as float32: grid %s  max|FFT-DFT|/peak = %.2e  pointwise = %.2e  alpha*N-1 = %.2e' % s32)

if s32[1] > 1e-10 and s64[1] < 1e-12:
    print('VIOLATION: for the same pixel scale values stored in single precision '
          'the FFT result differs from the DFT at the reported wavelength by %.1e '
          'of the peak (%.1e pointwise); with float64 storage they agree to %.1e'
          % (s32[1], s32[2], s64[1]))
    sys.exit(1)
print('no violation observed')
sys.exit(0)
