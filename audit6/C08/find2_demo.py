"""C08 finding 2: a Pupil whose OPD map holds NaN outside its mask (no data there) and whose
tilt has been fitted (Plane.fit_tilt, the documented way to handle tilt) gives a pupil
wavefront that cannot be propagated: propagate_dft raises ValueError instead of returning an
image wavefront.  Plane.multiply and Plane.rescale were repaired not to read the arrays
outside the mask; fit_tilt was not.

exit code 1 + explanation when the violation is observed, 0 otherwise."""
import os, sys
sys.path.insert(0, os.environ['LENTIL_REPO'])
import warnings
import numpy as np
import lentil

warnings.simplefilter('ignore')
assert os.path.realpath(lentil.__file__).startswith(os.path.realpath(os.environ['LENTIL_REPO'])), lentil.__file__

N = 16
mask = lentil.circle((N, N), 6, antialias=False)
opd = 1e-7 * lentil.zernike(mask != 0, 2) + 2e-8 * lentil.zernike(mask != 0, 4)
opd_zero = np.where(mask != 0, opd, 0.0)       # zeros where there is no data
opd_nan = np.where(mask != 0, opd, np.nan)     # NaN where there is no data


def run(opd_map, fit):
    p = lentil.Pupil(amplitude=mask, opd=opd_map, mask=mask, pixelscale=1/N, focal_length=10)
    if fit:
        p = p.fit_tilt()
    w = lentil.Wavefront(650e-9) * p
    assert w.ptype == lentil.pupil
    out = lentil.propagate_dft(w, pixelscale=5e-6, shape=16, oversample=2)
    return p, out


# without fit_tilt the NaN outside the mask are not transmitted (repair ab891e1): same image
_, a = run(opd_zero, fit=False)
_, b = run(opd_nan, fit=False)
assert a.ptype == b.ptype == lentil.image and np.allclose(a.intensity, b.intensity)

_, ref = run(opd_zero, fit=True)
assert ref.ptype == lentil.image

try:
    p, out = run(opd_nan, fit=True)
except Exception as e:
    p = lentil.Pupil(amplitude=mask, opd=opd_nan, mask=mask, pixelscale=1/N, focal_length=10).fit_tilt()
    print('VIOLATION: none x Pupil -> pupil, but the pupil wavefront cannot be propagated:')
    print(f'    propagate_dft raised {type(e).__name__}: {e}')
    print(f'    fitted tilt of the plane: x={p.tilt[0].x}, y={p.tilt[0].y} '
          f'(with zeros instead of NaN outside the mask the image sums to {ref.intensity.sum():.6g})')
    sys.exit(1)

if out.ptype != lentil.image or not np.allclose(out.intensity, ref.intensity, rtol=1e-9, atol=1e-12):
    print('VIOLATION: result differs from the one for zeros outside the mask:',
          out.ptype, np.nansum(out.intensity), ref.intensity.sum(), 'tilt', p.tilt[0].x, p.tilt[0].y)
    sys.exit(1)
print('ok: fit_tilt ignores what the OPD holds outside the mask')
sys.exit(0)
