"""C02 finding 2: propagate_fft with per-axis pixel scales returns a field that is the
Fraunhofer sum at NO single wavelength - in particular not at the wavelength it reports.

propagate_fft rounds 1/alpha to an integer grid size on each axis separately and reports
ONE wavelength, the smaller of the two wavelengths that fit the two grid sizes.  With a
scalar sampling the result is exactly the Fraunhofer sum at the reported wavelength (the
known, accepted grid-fitting of the FFT route).  With per-axis sampling the two axes are
fitted to different wavelengths, so on one axis the evaluated alpha is
1/K != dx*du/(reported_wavelength*f*oversample): the samples on that axis are displaced.
In the example below the row axis needs no fitting at all (1/alpha = 200 exactly at the
input wavelength) and is nevertheless wrong at the wavelength the result carries.
"""
import os
import sys

sys.path.insert(0, os.environ.get('LENTIL_REPO', '.'))
import numpy as np
import lentil

print('lentil from', lentil.__file__)


def fraunhofer(f, alpha, out_shape):
    m, n = f.shape
    M, N = out_shape
    R = np.arange(m) - m//2
    S = np.arange(n) - n//2
    U = np.arange(M) - M//2
    V = np.arange(N) - N//2
    E1 = np.exp(-2j*np.pi*alpha[0]*np.outer(U, R))
    E2 = np.exp(-2j*np.pi*alpha[1]*np.outer(S, V))
    return (E1 @ f @ E2) * np.sqrt(alpha[0]*alpha[1])


rng = np.random.default_rng(1)
amp = rng.random((32, 32))
wl, fl, dx, oversample = 1e-6, 1.0, 1e-3, 1


def run(du):
    w = lentil.Wavefront(wl) * lentil.Pupil(amplitude=amp, pixelscale=dx, focal_length=fl)
    o = lentil.propagate_fft(w, pixelscale=du, oversample=oversample)
    dua = np.broadcast_to(du, (2,)).astype(float)
    G = o.field
    scale = np.abs(G).max()
    # the property's alpha, at the wavelength the result carries and at the input wavelength
    a_rep = dx*dua/(o.wavelength*fl*oversample)
    a_in = dx*dua/(wl*fl*oversample)
    e_rep = np.abs(G - fraunhofer(amp, a_rep, G.shape)).max()/scale
    e_in = np.abs(G - fraunhofer(amp, a_in, G.shape)).max()/scale
    print(f'du={du}: grid {G.shape}, reported wavelength {o.wavelength!r}')
    print(f'    1/alpha at the input wavelength    : {1/a_in}')
    print(f'    1/alpha at the reported wavelength : {1/a_rep}')
    print(f'    max error / max|F| against the Fraunhofer sum at the reported wavelength: {e_rep:.3e}')
    print(f'    max error / max|F| against the Fraunhofer sum at the input wavelength   : {e_in:.3e}')
    return e_rep, e_in


# control: scalar sampling that needs fitting (1/alpha = 204.08 -> 204): exact at the reported wavelength
c_rep, c_in = run(4.9e-6)
# per-axis sampling: rows 1/alpha = 200 exactly, columns 1/alpha = 204.08 -> 204
p_rep, p_in = run((5e-6, 4.9e-6))

if c_rep > 1e-10:
    print('unexpected: the scalar control does not match the reported wavelength')
    sys.exit(2)

if p_rep > 1e-8 and p_in > 1e-8:
    print('VIOLATION: with per-axis pixel scales the output of propagate_fft matches the '
          'Fraunhofer sum neither at the wavelength the result carries nor at the input '
          'wavelength: the two axes are evaluated at two different wavelengths '
          '(alpha_k = 1/K_k), and the reported wavelength (the minimum) is wrong for the '
          'row axis, which needed no fitting.')
    sys.exit(1)

print('no violation observed')
sys.exit(0)
