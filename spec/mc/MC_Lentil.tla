------------------------------ MODULE MC_Lentil ------------------------------
EXTENDS Integers, Sequences, TLC, Json, IOUtils
RingPhi == JsonDeserialize(IOEnv.PHI_FILE)
INSTANCE Lentil WITH N <- 4, PhiN <- RingPhi
Cases == JsonDeserialize(IOEnv.CASES)
VARIABLE i
Init == i = 0
Next == i < Len(Cases) /\ i' = i + 1
Spec == Init /\ [][Next]_i
Emit == i > 0 => PrintT(<<"EMIT", ToJson([id |-> Cases[i].id] @@ Chain(Cases[i]))>>)
Thm == i > 0 => ThmRebinTotal(Cases[i])
=============================================================================
