"""C03 finding 1: a segment (or cropped sub-array) that consists of a single
sample away from the array centre is silently dropped when it is multiplied
with a scalar field / scalar plane.

Exit code 1 (with an explanation) if the violation is observed, 0 otherwise.
"""
import os
import sys

sys.path.insert(0, os.environ.get('LENTIL_REPO', '.'))

import numpy as np
import lentil

TOL = 1e-9
failures = []


def relerr(a, b):
    return np.abs(a - b).max() / max(np.abs(b).max(), 1e-300)


# ---------------------------------------------------------------------------
# Case A: one global mask vs. a partition of it into 3 segments, one of which
# has exactly one sample (bounding box 1 x 1, not at the array centre)
# ---------------------------------------------------------------------------
n = 12
gmask = np.zeros((n, n), dtype=int)
gmask[2:10, 2:10] = 1                       # 8 x 8 square aperture

label = np.zeros((n, n), dtype=int)
label[2:10, 2:6] = 1                         # left half
label[2:10, 6:10] = 2                        # right half
label[3, 8] = 3                              # one sample is its own segment
segmask = np.array([(label == k).astype(int) for k in (1, 2, 3)])
assert np.array_equal(segmask.sum(axis=0), gmask)   # a true partition

rng = np.random.default_rng(0)
opd = rng.normal(size=(n, n)) * 50e-9
amp = gmask.astype(float)

mono = lentil.Pupil(amplitude=amp, opd=opd, mask=gmask, pixelscale=1e-3, focal_length=2.)
seg = lentil.Pupil(amplitude=amp, opd=opd, mask=segmask, pixelscale=1e-3, focal_length=2.)

wm = lentil.Wavefront(650e-9) * mono
ws = lentil.Wavefront(650e-9) * seg

e_pupil = relerr(ws.field, wm.field)
fm = lentil.propagate_dft(wm, pixelscale=5e-6, shape=32, oversample=2)
fs = lentil.propagate_dft(ws, pixelscale=5e-6, shape=32, oversample=2)
e_field = relerr(fs.field, fm.field)
e_int = relerr(fs.intensity, fm.intensity)

print('Case A (partition with a one-sample segment at [3, 8])')
print('  number of fields in the segmented wavefront :', len(ws.data), '(3 segments)')
print('  pupil field at [3, 8]  global mask: %s   segmented: %s' % (wm.field[3, 8], ws.field[3, 8]))
print('  max rel. difference pupil field  : %.3e' % e_pupil)
print('  max rel. difference image field  : %.3e' % e_field)
print('  max rel. difference image intens.: %.3e' % e_int)
if max(e_pupil, e_field, e_int) > TOL:
    failures.append('A: the one-sample segment is missing from the segmented result')

# ---------------------------------------------------------------------------
# Case B: whole arrays vs. cropped sub-arrays in a chain of planes. The two
# masks overlap in exactly one (off-centre) sample; the cropped product is a
# (1, 1) sub-array carrying an offset. Multiplying by a plane without spatial
# content (here a zero Tilt; any plane with scalar amplitude/opd/mask does
# the same) must leave it unchanged, but removes it.
# ---------------------------------------------------------------------------
n = 11
m1 = np.zeros((n, n)); m1[1:4, 1:8] = 1      # rows 1..3, cols 1..7
m2 = np.zeros((n, n)); m2[3:9, 7:10] = 1     # rows 3..8, cols 7..9  -> overlap = sample [3, 7]
assert (m1 * m2).sum() == 1 and (m1 * m2)[3, 7] == 1

p1 = lentil.Pupil(amplitude=m1, pixelscale=1e-3, focal_length=2.)
p2 = lentil.Pupil(amplitude=m2, pixelscale=1e-3, focal_length=2.)
# the same two planes processed whole (mask of ones: no cropping at all)
p1w = lentil.Pupil(amplitude=m1, mask=np.ones((n, n)), pixelscale=1e-3, focal_length=2.)
p2w = lentil.Pupil(amplitude=m2, mask=np.ones((n, n)), pixelscale=1e-3, focal_length=2.)
t0 = lentil.Tilt(x=0, y=0)

w_crop = lentil.Wavefront(650e-9) * p1 * p2 * t0
w_whole = lentil.Wavefront(650e-9) * p1w * p2w * t0

before = (lentil.Wavefront(650e-9) * p1 * p2).field
print('Case B (chain p1 * p2 * Tilt(0, 0); p1 and p2 overlap in the single sample [3, 7])')
print('  cropped, before the tilt plane: total |field| =', np.abs(before).sum())
print('  cropped, after  the tilt plane: total |field| =', np.abs(w_crop.field).sum(),
      ' number of fields:', len(w_crop.data))
print('  whole  , after  the tilt plane: total |field| =', np.abs(w_whole.field).sum())
if np.abs(w_crop.field - w_whole.field).max() > TOL:
    failures.append('B: the (1, 1) sub-array is dropped by a plane that has no spatial content')
else:
    gm = lentil.propagate_dft(w_whole, pixelscale=5e-6, shape=16, oversample=1)
    gc = lentil.propagate_dft(w_crop, pixelscale=5e-6, shape=16, oversample=1)
    if relerr(gc.field, gm.field) > TOL:
        failures.append('B: propagated fields differ')

if failures:
    print()
    print('VIOLATION of C03 (segmented/cropped result differs from global/whole result):')
    for f in failures:
        print('  -', f)
    print('Cause: Field.__mul__ treats every operand with size == 1 as a scalar and '
          '_mul_scalar returns an empty product when the offsets differ.')
    sys.exit(1)

print('no violation observed')
sys.exit(0)
