"""C14 finding 2: planck_radiance / planck_exitance evaluate Planck's law in float32 when
the wavelength is a scalar and the temperatures are a float32 array.

The wavelengths are cast to double (np.asarray(wave, dtype=float)) but the temperature is
used as it comes.  A scalar wavelength becomes a numpy float64 *scalar*, which does not
promote a float32 array, so exp(h c / (lambda k T)) and the whole law are evaluated in
single precision:

  * the radiance differs from the double-precision law by 1e-7 .. 1e-6,
  * the same physical wavelength given in 'nm', 'um', 'm' or 'angstrom' gives radiances
    that differ from each other by ~1e-7 (Planck's law is not unit independent),
  * exp overflows at h c/(lambda k T) > 88.7 instead of 709: a 300 K body at 500 nm
    (a perfectly representable 8.4e-36 W m^-2 sr^-1 nm^-1) is returned as exactly 0.

The same temperatures as float64, or the same call with the wavelength given as a
1-element array, agree with the law to 1e-15.

exit code 1 when the violation is observed, 0 otherwise.
"""
import os
import sys
import warnings

sys.path.insert(0, os.environ.get('LENTIL_REPO', '.'))

import numpy as np  # noqa: E402
import lentil  # noqa: E402
from lentil import radiometry as R  # noqa: E402

print('lentil from', lentil.__file__)
warnings.simplefilter('ignore')

TOL = 1e-10
T32 = np.array([300., 1000., 5000.], dtype=np.float32)   # exactly representable
T64 = T32.astype(np.float64)
lam_m = 500e-9
factor = {'m': 1.0, 'um': 1e6, 'nm': 1e9, 'angstrom': 1e10}

bad = False

# reference: double precision law, per metre
x = R.H * R.C / (lam_m * R.K * T64)
ref_m = 2 * R.H * R.C**2 / (lam_m**5 * np.expm1(x))

for fn, k in ((R.planck_radiance, 1.0), (R.planck_exitance, np.pi)):
    res = {}
    for unit, f in factor.items():
        got32 = fn(lam_m * f, T32, unit, 'wlam')          # scalar wavelength, float32 temps
        got64 = fn(lam_m * f, T64, unit, 'wlam')
        ref = k * ref_m / f
        e32 = np.abs(np.asarray(got32, dtype=float) / ref - 1)
        e64 = np.abs(got64 / ref - 1)
        res[unit] = np.asarray(got32, dtype=float) * f    # back to per metre
        print(f'{fn.__name__:16s} {unit:9s} dtype={np.asarray(got32).dtype}  '
              f'rel.err float32 temps {e32}   float64 temps {e64.max():.1e}')
        if np.any(e32 > TOL) and np.all(e64 < TOL):
            bad = True
    spread = np.abs(res['nm'][1:] / res['m'][1:] - 1).max()
    print(f'{fn.__name__:16s} nm vs m (same physical wavelength): {spread:.2e}')
    if spread > TOL:
        bad = True

cold = R.planck_radiance(500., T32)[0]
print('300 K at 500 nm, float32 temps:', cold, '  float64 temps:',
      R.planck_radiance(500., T64)[0])
if cold == 0:
    bad = True

if bad:
    print('VIOLATION: with a scalar wavelength and float32 temperatures Planck\'s law is '
          'evaluated in single precision (temp is not cast to double).')
    sys.exit(1)
print('no violation observed')
sys.exit(0)
