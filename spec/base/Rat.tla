-------------------------------- MODULE Rat --------------------------------
(* Exact rationals as pairs <<num, den>> in lowest terms with den > 0.                              *)
EXTENDS Integers, Sequences, TLC

RECURSIVE Gcd(_, _)
Gcd(a, b) == IF b = 0 THEN (IF a >= 0 THEN a ELSE -a) ELSE Gcd(b, a % (IF b > 0 THEN b ELSE -b))
Lcm(a, b) == (a \div Gcd(a, b)) * b

RNorm(n, d) == LET s == IF d < 0 THEN -1 ELSE 1
                   g == Gcd(n, d)
               IN IF n = 0 THEN <<0, 1>> ELSE <<(s * n) \div g, (s * d) \div g>>
R(n)       == <<n, 1>>
\* intermediate products are kept small (TLC integers are 32 bit and overflow is an error): sums go through the
\* least common denominator, products cancel crosswise first, comparisons scale to the common denominator
RAdd(a, b) == LET l == Lcm(a[2], b[2]) IN RNorm(a[1] * (l \div a[2]) + b[1] * (l \div b[2]), l)
RNeg(a)    == <<-a[1], a[2]>>
RSub(a, b) == RAdd(a, RNeg(b))
RMul(a, b) == LET g1 == Gcd(a[1], b[2])  g2 == Gcd(b[1], a[2]) IN
              IF a[1] = 0 \/ b[1] = 0 THEN <<0, 1>>
              ELSE RNorm((a[1] \div g1) * (b[1] \div g2), (a[2] \div g2) * (b[2] \div g1))
RDiv(a, b) == RMul(a, IF b[1] < 0 THEN <<-b[2], -b[1]>> ELSE <<b[2], b[1]>>)
RLt(a, b)  == LET l == Lcm(a[2], b[2]) IN a[1] * (l \div a[2]) < b[1] * (l \div b[2])
RLe(a, b)  == LET l == Lcm(a[2], b[2]) IN a[1] * (l \div a[2]) <= b[1] * (l \div b[2])
REq(a, b)  == LET l == Lcm(a[2], b[2]) IN a[1] * (l \div a[2]) = b[1] * (l \div b[2])
RAbs(a)    == <<IF a[1] < 0 THEN -a[1] ELSE a[1], a[2]>>
RIsInt(a)  == a[2] = 1
\* floor, ceiling, truncation toward zero (numpy.fix)
RFloor(a)  == a[1] \div a[2]
RCeil(a)   == -((-a[1]) \div a[2])
RFix(a)    == IF a[1] >= 0 THEN a[1] \div a[2] ELSE -((-a[1]) \div a[2])
\* round half to even (numpy.round); Tie tells whether a is exactly half-way
RTie(a)    == a[2] = 2
RRound(a)  == LET f == RFloor(a)
                  twice == RSub(RMul(R(2), a), R(2 * f))      \* 2*(a - f) in [0, 2)
              IN IF RLt(twice, R(1)) THEN f
                 ELSE IF RLt(R(1), twice) THEN f + 1
                 ELSE IF f % 2 = 0 THEN f ELSE f + 1
=============================================================================
