"""C12 finding 2 (minor): a coefficient vector held as a 1 x k array (row vector,
np.matrix, np.atleast_2d(c)) is silently composed onto mode 1 only, so
fit(compose(c)) != c.  zernike_compose enumerates the array with np.ndenumerate and
uses only the FIRST index component as the Noll index."""
import os, sys, warnings
sys.path.insert(0, os.environ.get('LENTIL_REPO', '.'))
warnings.filterwarnings('ignore')
import numpy as np
import lentil

mask = lentil.circle((64, 64), 25, antialias=False)
c = np.array([0.1, 0.2, 0.3, 0.4])
modes = [1, 2, 3, 4]
ref = lentil.zernike_compose(mask, c)

bad = []
for name, cc in (('column vector (k,1)', c[:, None]),
                 ('row vector (1,k)', c[None, :]),
                 ('np.atleast_2d(c)', np.atleast_2d(c)),
                 ('np.matrix(c)', np.matrix(c))):
    try:
        opd = lentil.zernike_compose(mask, cc)
    except Exception as e:          # an explicit refusal would be acceptable
        print('%-20s -> refused (%s)' % (name, type(e).__name__))
        continue
    fit = lentil.zernike_fit(opd, mask, modes)
    same = np.allclose(opd, ref, atol=1e-12)
    print('%-20s -> fit(compose(c)) = %s, same OPD as the 1-D vector: %s' % (name, np.round(fit, 12), same))
    if not np.allclose(fit, c, atol=1e-9):
        bad.append('%s: fit(compose(c)) = %s instead of %s' % (name, np.round(fit, 12), c))

if bad:
    print('\nVIOLATION of C12 (coefficients silently assigned to the wrong modes):')
    for b in bad:
        print('  -', b)
    sys.exit(1)
print('no violation observed')
sys.exit(0)
