"""C11 finding 1: caller-supplied polar coordinates are used as they come (never
converted with np.asarray / to floating point), so

 (a) theta given as a Python list or tuple (the docstring says array_like) is
     *repeated* |m| times by ``m*theta`` (sequence repetition) instead of being
     multiplied: cosine modes with |m| >= 2 return cos(theta) tiled |m| times,
     sine modes (m < 0 -> ``m*theta == []``) return an EMPTY array;
 (b) rho given with an unsigned integer dtype wraps around in ``1 - 2*rho**2``
     (1 - 2 -> 255 for uint8), so the radial polynomial at rho = 1 is not 1.
"""
import os, sys
sys.path.insert(0, os.environ.get('LENTIL_REPO', '.'))
import numpy as np
import lentil

fail = False

# ---- (a) theta as a list, rho a scalar radius (mask=1 as in tests/test_zernike.py)
th = [0.0, np.pi/4, np.pi/2]
for j, ref in [(6, np.sqrt(6)*np.cos(2*np.array(th))),       # n=2, m=+2 (even j, cosine)
               (3, 2*np.sin(-1*np.array(th))),                # n=1, m=-1 (odd j, sine; library sign)
               (5, np.sqrt(6)*np.sin(-2*np.array(th)))]:      # n=2, m=-2
    as_array = np.asarray(lentil.zernike(1, j, rho=1.0, theta=np.array(th)))
    assert np.allclose(as_array, ref), "ndarray theta is evaluated correctly"
    try:
        as_list = np.asarray(lentil.zernike(1, j, rho=1.0, theta=th))
    except Exception as e:            # an explicit refusal would be acceptable
        print(f"j={j}: list theta refused ({type(e).__name__}) - fine")
        continue
    if as_list.shape != as_array.shape or not np.allclose(as_list, as_array):
        fail = True
        print(f"VIOLATION (a) j={j}: theta=list gives shape {as_list.shape} values {as_list}\n"
              f"            theta=ndarray (same numbers) gives {as_array}")

# a polar grid built by broadcasting: rho column vector, theta list
rho = np.linspace(0, 1, 4)[:, None]
try:
    g_list = np.asarray(lentil.zernike(1, 6, rho=rho, theta=th))
    g_arr = np.asarray(lentil.zernike(1, 6, rho=rho, theta=np.array(th)))
    if g_list.shape != g_arr.shape or not np.allclose(g_list, g_arr):
        fail = True
        print(f"VIOLATION (a) polar grid: list theta -> shape {g_list.shape}, ndarray theta -> shape {g_arr.shape}")
except Exception as e:
    print("polar grid with list theta refused - fine")

# ---- (b) unsigned integer rho: R_2^0(1) must be 1 (it is for int64 / bool / float)
for dt in (np.int64, np.uint8, np.uint16, np.uint32, np.uint64):
    rho = np.array([0, 1], dtype=dt)
    try:
        z = lentil.zernike(np.ones(2), 4, normalize=False, rho=rho, theta=np.zeros(2))
    except Exception as e:
        print(f"rho dtype {np.dtype(dt).name} refused - fine")
        continue
    if not np.allclose(z, [-1.0, 1.0]):
        fail = True
        print(f"VIOLATION (b) rho dtype {np.dtype(dt).name}: unnormalised Z4 at rho=[0,1] is {z}, expected [-1, 1]")

if fail:
    print("zernike() does arithmetic directly on the caller's rho/theta objects "
          "(lentil/zernike.py lines 79-87: m*theta ; line 106: rho ** m, 1 - 2*rho**2)")
    sys.exit(1)
print("no violation observed")
sys.exit(0)
