"""C17 finding 3: the rescaled OPD is corrupted next to every sample whose
OPD is exactly zero.  lentil.util.rescale(mask=None) builds a "support" mask
from ``img != 0``, interpolates it linearly and multiplies the result into
the output.  Plane.rescale uses that default for the OPD, so a smooth OPD that
merely passes through zero on a grid sample (any tilt / astigmatism / ...
generated on helper.mesh coordinates, on even and odd grids) is scaled towards
zero within one sample of the zero line.  Adding a 1 nm piston removes the
effect.  Cubic splines reproduce a (bi)linear OPD exactly, so the interpolation
accuracy for these maps is machine precision.
"""
import os, sys
sys.path.insert(0, os.environ.get('LENTIL_REPO', '.'))
import numpy as np
import lentil

WL = 650e-9


def psf(p):
    w = lentil.Wavefront(WL) * p
    return lentil.propagate_dft(w, shape=(64, 64), pixelscale=5e-6, oversample=2).intensity


bad = []
for n in (64, 65):
    r, c = lentil.helper.mesh((n, n))
    g = np.exp(-(r**2 + c**2)/(2*3.0**2))        # smooth apodised aperture, far from the array edge
    m = (g > 1e-4).astype(int)
    a = 0.3*WL/(2*np.pi)                          # tilt: 0.3 rad of OPD per sample; astigmatism: < 0.65 rad
                                                  # per sample where the amplitude exceeds 1 % (Nyquist: pi)
    for name, f in [('tilt', lambda R, C: a*C), ('astigmatism', lambda R, C: a*R*C/3)]:
        for piston in (0.0, 1e-9):
            opd = f(r, c) + piston
            p = lentil.Pupil(amplitude=g*m, opd=opd, mask=m, pixelscale=1/n, focal_length=10)
            I0 = psf(p)
            for s in (2, 3, 1.5):
                q = p.rescale(s)
                N2 = q.shape[0]
                # source coordinate (relative to the array centre) sampled by lentil.util.rescale
                x = (np.arange(N2) - N2/2)/s + n/2 - n//2
                X, Y = np.meshgrid(x, x)
                exact = f(Y, X) + piston
                opd_err = np.abs(q.opd - exact)[q.mask > 0].max()*2*np.pi/WL
                psf_err = np.abs(psf(q) - I0).max()/I0.max()
                print(f'n={n} {name:12s} piston={piston:g} s={s}: max OPD error in mask = {opd_err:.2e} rad, '
                      f'PSF error = {psf_err:.2e}')
                if piston == 0.0:
                    key = (n, name, s)
                    bad.append([key, opd_err, psf_err, None, None])
                else:
                    for b in bad:
                        if b[0] == (n, name, s):
                            b[3], b[4] = opd_err, psf_err

viol = [b for b in bad if b[1] > 1e-2 and b[3] < 1e-8 and b[2] > 5*b[4]]
if viol:
    print('\nVIOLATION: OPD maps containing exact zeros are not rescaled to interpolation accuracy:')
    for key, e0, p0, e1, p1 in viol:
        print(f'  n={key[0]} {key[1]} s={key[2]}: OPD error {e0:.3f} rad (with 1 nm piston: {e1:.1e} rad); '
              f'PSF error {p0:.1e} (with piston: {p1:.1e})')
    sys.exit(1)
print('no violation observed')
sys.exit(0)
