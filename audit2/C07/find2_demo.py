"""C07 finding 2: a fresh (plane-wave) wavefront multiplied by a plane whose mask is a
single OFF-CENTRE sample yields an EMPTY wavefront (field identically zero)
(lentil/field.py, Field.__mul__ -> _mul_scalar).

Expected (property C07): field == amplitude*exp(2*pi*i*OPD/wavelength) inside the mask
(here: one sample with value 0.8*exp(i*phi)), zero elsewhere.
"""
import os, sys
sys.path.insert(0, os.environ.get('LENTIL_REPO', '.'))
import numpy as np
import lentil

wl = 1e-6
n = 8
bad = False
for (r, c) in [(2, 5), (n // 2, n // 2 + 1), (0, 0)]:
    amp = np.zeros((n, n))
    amp[r, c] = 0.8
    opd = np.full((n, n), 1e-7)
    plane = lentil.Plane(amplitude=amp, opd=opd)
    w = lentil.Wavefront(wl) * plane
    expected = amp * np.exp(2j * np.pi * opd / wl)
    got = w.field
    if not np.allclose(got, expected, rtol=0, atol=1e-12):
        bad = True
        print(f'VIOLATION: one-sample plane at [{r},{c}]: wavefront has {len(w.data)} '
              f'fields, sum|field|^2 = {w.intensity.sum():.3g}, expected '
              f'{np.sum(np.abs(expected)**2):.3g}')

# the same happens per segment of a segmented plane: a one-sample segment is lost
mask = np.zeros((2, n, n))
mask[0, 1:4, 1:4] = 1          # ordinary segment
mask[1, 6, 6] = 1              # one-sample segment
w = lentil.Wavefront(wl) * lentil.Plane(amplitude=1.0, mask=mask)
expected = mask.sum(axis=0)
if not np.allclose(w.field, expected):
    bad = True
    print(f'VIOLATION: segmented plane, one-sample segment at [6,6] missing: '
          f'field[6,6] = {w.field[6, 6]}, expected 1')

# control: the same sample ON the centre works
amp = np.zeros((n, n)); amp[n // 2, n // 2] = 0.8
w = lentil.Wavefront(wl) * lentil.Plane(amplitude=amp)
print('control (centre sample) ok:', np.allclose(w.field, amp))

if bad:
    print('Field.__mul__ treats two operands with size == 1 as scalars; _mul_scalar returns '
          'an empty product when their offsets differ, so the (1, 1) phasor at a non-zero '
          'offset times the scalar plane wave (offset [0, 0]) is dropped.')
    sys.exit(1)
print('no violation observed')
sys.exit(0)
