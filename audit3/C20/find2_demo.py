"""rectangle / spider (helper.mesh): an angle given as a small numpy integer scalar is
converted to radians in half (int8/uint8) or single (int16/uint16) precision.

np.deg2rad(np.uint8(180)) is the float16 3.140625, so a rectangle "rotated by 180 deg"
is not the rectangle itself (half-turn invariance is lost at the 5-10 % level), and
rectangle(angle=np.uint8(a)) differs from rectangle(angle=int(a)).
"""
import os, sys
sys.path.insert(0, os.environ.get('LENTIL_REPO', '.'))
import numpy as np
import lentil

fail = False
shape = (201, 201)

ref = lentil.rectangle(shape, 180, 20)                       # not rotated
for ang in (180, np.int64(180), np.uint8(180), np.int16(180)):
    r = lentil.rectangle(shape, 180, 20, angle=ang)
    d = np.abs(r - ref).max()
    print('rectangle(angle=%s(180)): max |difference to the unrotated rectangle| = %.3g' % (type(ang).__name__, d))
    if d > 1e-9:
        print('  -> VIOLATION: a half-turn changes the rectangle')
        fail = True
    rb = lentil.rectangle(shape, 180, 20, angle=ang, antialias=False)
    nb = int(np.sum(rb != lentil.rectangle(shape, 180, 20, antialias=False)))
    if nb:
        print('  -> non-antialiased mask differs in %d samples' % nb)

for ang in (30, 90, 100):
    a = lentil.rectangle(shape, 180, 20, angle=np.uint8(ang))
    b = lentil.rectangle(shape, 180, 20, angle=int(ang))
    d = np.abs(a - b).max()
    print('rectangle angle=np.uint8(%d) vs angle=%d: max difference %.3g' % (ang, ang, d))
    if d > 1e-9:
        fail = True
    a = lentil.spider(shape, 4, angle=np.uint8(ang))
    b = lentil.spider(shape, 4, angle=int(ang))
    d = np.abs(a - b).max()
    print('spider    angle=np.uint8(%d) vs angle=%d: max difference %.3g' % (ang, ang, d))
    if d > 1e-9:
        fail = True

print('np.deg2rad(np.uint8(180)) =', repr(np.deg2rad(np.uint8(180))))
sys.exit(1 if fail else 0)
