"""helper.gaussian2d is centred on (size-1)/2, not on the origin sample floor(size/2):
for even sizes the kernel peak lies between samples, and detector.charge_diffusion
(kernel size 3*oversample) displaces the image by half a sample for even oversample."""
import os, sys
sys.path.insert(0, os.environ.get('LENTIL_REPO', '.'))
import numpy as np
import lentil
from lentil.helper import gaussian2d

fail = False
for size in (3, 5, 6, 12):
    g = gaussian2d(size, 0.4)
    c = lentil.centroid(g)
    ok = abs(c[0] - size//2) < 1e-9 and abs(c[1] - size//2) < 1e-9
    print('gaussian2d(%2d, 0.4): centroid (%.3f, %.3f), origin sample floor(n/2) = %d%s' % (
          size, c[0], c[1], size//2, '' if ok else '   <-- VIOLATION'))
    fail |= not ok

img = lentil.circle((64, 64), 10.0)            # centred on the origin sample (32, 32)
print('input centroid', lentil.centroid(img))
for oversample in (1, 2, 3, 4):
    out = lentil.detector.charge_diffusion(img, 0.4, oversample=oversample)
    c = lentil.centroid(out)
    ok = abs(c[0] - 32) < 1e-6 and abs(c[1] - 32) < 1e-6
    print('charge_diffusion(oversample=%d): centroid (%.4f, %.4f)%s' % (
          oversample, c[0], c[1], '' if ok else '   <-- image displaced by half a sample'))
    fail |= not ok

sys.exit(1 if fail else 0)
