"""C02 finding 3: propagate_fft(..., shape=s) does not zero / drop the samples outside the
requested output window.  The returned Wavefront reports shape s*oversample and .field shows
the centred window, but its Field keeps the whole FFT grid, and the next far-field
propagation transforms those hidden samples:

  * propagate_dft of that wavefront (image -> pupil) is not the Fraunhofer sum of its .field;
  * propagate_fft of that wavefront gives different answers with and without `scratch`;
  * the same chain started with propagate_dft(shape=s) (identical .field) behaves correctly.
"""
import os, sys
sys.path.insert(0, os.environ.get('LENTIL_REPO', '.'))
import numpy as np
import lentil


def fraunhofer(f, alpha, out_shape):
    f = np.asarray(f, dtype=complex)
    (m, n), (M, N) = f.shape, out_shape
    R, S = np.arange(m) - m//2, np.arange(n) - n//2
    U, V = np.arange(M) - M//2, np.arange(N) - N//2
    E1 = np.exp(-2j*np.pi*alpha[0]*np.outer(U, R))
    E2 = np.exp(-2j*np.pi*alpha[1]*np.outer(S, V))
    return np.sqrt(abs(alpha[0]*alpha[1])) * (E1 @ f @ E2)


rng = np.random.default_rng(12)
wl, fl, os_ = 500e-9, 10.0, 1
nfft, dx = 24, 1e-3
du = wl*fl*os_/(nfft*dx)            # 1/alpha = 24: the FFT is exact for this sampling
amp = rng.random((8, 8)) + 0.1
w = lentil.Wavefront(wl) * lentil.Pupil(amplitude=amp, pixelscale=dx, focal_length=fl)

wi_fft = lentil.propagate_fft(w, pixelscale=du, shape=(6, 6), oversample=os_)
wi_dft = lentil.propagate_dft(w, pixelscale=du, shape=(6, 6), oversample=os_)
assert wi_fft.field.shape == (6, 6) and np.allclose(wi_fft.field, wi_dft.field)
print('image-plane wavefronts: identical .field of shape', wi_fft.field.shape,
      '; Field data kept by propagate_fft:', [f.shape for f in wi_fft.data],
      ', by propagate_dft:', [f.shape for f in wi_dft.data])

# image -> pupil
a = (du*dx/(wl*fl),)*2
ref = fraunhofer(wi_fft.field, a, (8, 8))          # Fraunhofer sum of the 6x6 input-plane field
b_fft = lentil.propagate_dft(wi_fft, pixelscale=dx, shape=(8, 8), oversample=1)
b_dft = lentil.propagate_dft(wi_dft, pixelscale=dx, shape=(8, 8), oversample=1)
e_fft = np.abs(b_fft.field - ref).max()/np.abs(ref).max()
e_dft = np.abs(b_dft.field - ref).max()/np.abs(ref).max()
print(f'back-propagation of the propagate_dft result: rel. error {e_dft:.2e}')
print(f'back-propagation of the propagate_fft result: rel. error {e_fft:.2e}')

n2 = 32
du2 = wl*fl/(n2*wi_fft.pixelscale[0])
c1 = lentil.propagate_fft(wi_fft, pixelscale=du2, oversample=1)
c2 = lentil.propagate_fft(wi_fft, pixelscale=du2, oversample=1,
                          scratch=np.zeros((n2, n2), dtype=complex))
e_scr = np.abs(c1.field - c2.field).max()/np.abs(c1.field).max()
print(f'propagate_fft of the same wavefront with vs. without scratch: rel. difference {e_scr:.2e}')

assert e_dft < 1e-10
if e_fft > 1e-9 or e_scr > 1e-9:
    print('VIOLATION of C02: the output shape given to propagate_fft changed what the next '
          'propagation sees -- samples outside the requested window are not zero, they are '
          'only hidden (lentil/propagate.py propagate_fft appends the full fft_shape array as '
          'the output Field; propagate_dft and the scratch branch of propagate_fft read '
          'wavefront.data, not wavefront.field).')
    sys.exit(1)
print('no violation observed')
sys.exit(0)
