------------------------------- MODULE MC_C17 -------------------------------
(* A: the extent lemma for every n <= NMax and every scale factor of the set, identity and composition of  *)
(*    the bookkeeping (TLC enumerates).                                                                  *)
(* B: for every (shape, pixel scale, scale factor | target pixel scale) of the enumeration the expected    *)
(*    attributes of the returned plane are emitted for comparison with lentil.                            *)
EXTENDS Rescale, Json, IOUtils
NMax == atoi(IOEnv.C17_NMAX)
Scales == {<<1, 2>>, <<2, 3>>, <<3, 4>>, <<1, 1>>, <<5, 4>>, <<3, 2>>, <<2, 1>>, <<5, 2>>, <<3, 1>>, <<4, 1>>}
Pxs == {<<>>, <<R(1), R(1)>>, <<<<1, 2>>, <<1, 2>>>>, <<<<1, 4>>, <<1, 2>>>>}
Shapes == {<<4, 4>>, <<5, 5>>, <<6, 9>>, <<7, 4>>, <<8, 8>>, <<9, 6>>}

ASSUME \A n \in 1..NMax, s \in Scales : ThmExtent(n, <<1, 2>>, s) /\ ThmExtent(n, <<3, 1>>, s)

VARIABLES st
Init == st = [k |-> "init"]
Pick == /\ st.k = "init"
        /\ \E sh \in Shapes, px \in Pxs, s \in Scales, ns \in {1, 2, 3} :
              st' = [k |-> "case", p |-> [shape |-> sh, px |-> px, nseg |-> ns], s |-> s]
Next == Pick
Spec == Init /\ [][Next]_st

Thms == st.k = "case" =>
          /\ ThmIdentity(st.p)
          /\ \A t \in Scales : ThmCompose(st.p, st.s, t)
Emit == st.k = "case" =>
          PrintT(<<"EMIT", ToJson([p |-> st.p, s |-> st.s, out |-> Rescaled(st.p, st.s),
                                   resample_ok |-> ResampleOK(st.p),
                                   \* the target pixel scale that corresponds to this factor, for the resample() route
                                   q |-> IF ResampleOK(st.p) THEN RDiv(st.p.px[1], st.s) ELSE <<>>])>>)
=============================================================================
