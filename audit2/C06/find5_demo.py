"""C06 finding 5: Field.__mul__ drops the pixelscale of its operands (the result
always has pixelscale None), so the product of two fields cannot be merged or
reduced with a field of the very same sampling: the sum is refused with
"pixelscales must be equal"."""
import os, sys
sys.path.insert(0, os.environ['LENTIL_REPO'])
import numpy as np
import lentil.field as lf
from lentil.field import Field

a = Field(np.ones((3, 3)), pixelscale=1, offset=[0, 0])
b = Field(np.ones((3, 3)), pixelscale=1, offset=[1, 1])
c = Field(np.ones((3, 3)), pixelscale=1, offset=[0, 1])
p = a * b
bad = []
if p.pixelscale != 1:
    bad.append('(a*b).pixelscale = %r, both operands have pixelscale 1' % (p.pixelscale,))
for label, fn in (('merge(a*b, c)', lambda: lf.merge(p, c)),
                  ('reduce([a*b, c])', lambda: lf.reduce([p, c]))):
    try:
        fn()
    except ValueError as e:
        bad.append('%s raises ValueError: %s' % (label, e))
if bad:
    print('VIOLATION (C06, a merge is the sum):')
    for x in bad:
        print('  -', x)
    sys.exit(1)
print('ok')
