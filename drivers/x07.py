"""X07 (growth of the specification beyond the twenty properties) - the walk that builds a ring of hexagonal segments.

HexWalk.tla is lentil.segmented.hex_ring as a state machine (one action per loop iteration, one per change of direction) over
cube coordinates, for every ring number up to 6; TLC explores all of it and checks on every state that the walk stays on the
ring (OnRing), never repeats a cell (NoRepeat), moves between neighbours (Adjacent), ends having visited every cell of the
ring once and closed (Complete), and that the centres hex_to_xy assigns - numbers a + b sqrt(3), kept exact - put neighbouring
cells sqrt(3) R apart and all others farther (NeighbourDist, Separated), in both orientations (Rotated).  Every finished walk is
emitted; lentil's hex_ring must return the same cells in the same order, hex_to_xy / hex_to_rc the same centres, and
hex_neighbor / hex_add / hex_direction agree with the specification's step on every cell of every ring.
"""
import math

import numpy as np

from harness.core import import_lentil
from harness.tlc import run_tlc

LEVEL = 'model_checking'
EXTRA = True


def run(ctx):
    lentil = import_lentil()
    import sys
    seg = sys.modules['lentil.segmented']
    res = run_tlc('MC_HexWalk', workers=1, timeout=900, coverage=True)
    ctx.add_tlc(res, 'MC_HexWalk (rings 1..6: Cube, OnRing, NoRepeat, Progress, Complete, Adjacent, Pure, NeighbourDist, Separated, Rotated)')
    # 6 initial states, 6k Step and 6 Turn transitions per ring number k = 1..6
    if res.distinct != 6 + sum(6 * k + 6 for k in range(1, 7)):
        raise RuntimeError(f'unexpected state count {res.distinct}: the walk was not explored as specified')
    walks = {e['k']: e for e in res.emits}
    if sorted(walks) != [1, 2, 3, 4, 5, 6]:
        raise RuntimeError('TLC did not emit the six finished walks: ' + repr(sorted(walks)))
    s3 = math.sqrt(3.0)
    dirs = [(1, 0, -1), (1, -1, 0), (0, -1, 1), (-1, 0, 1), (-1, 1, 0), (0, 1, -1)]
    for k, w in sorted(walks.items()):
        ctx.case(('ring', k), nontrivial=True)
        want = [tuple(h) for h in w['ring']]
        got = [tuple(int(x) for x in h) for h in seg.hex_ring(k)]
        if got != want:
            ctx.violation({'kind': 'hex_ring-differs-from-the-walk', 'k': k}, {'expected': want, 'observed': got}, case=None)
            continue
        for R in (1.0, 2.5, 100.0):
            for rot, key in ((False, 'n'), (True, 'r')):
                for n, h in enumerate(seg.hex_ring(k)):
                    ctx.case(('centre', k, R, rot, n))
                    ex, ey = [(p[0] + p[1] * s3) * R / 2 for p in w['xy'][key][n]]
                    er, ec = [(p[0] + p[1] * s3) * R / 2 for p in w['rc'][key][n]]
                    x, y = seg.hex_to_xy(h, R, rotate=rot)
                    r_, c_ = seg.hex_to_rc(h, R, rotate=rot)
                    if not np.allclose([x, y, r_, c_], [ex, ey, er, ec], rtol=1e-13, atol=1e-13 * R):
                        ctx.violation({'kind': 'centre', 'rotate': rot}, {'k': k, 'cell': list(want[n]), 'radius': R, 'expected': [ex, ey, er, ec], 'observed': [x, y, r_, c_]}, case=None)
        for h in seg.hex_ring(k):
            for d in range(6):
                ctx.case(('neighbor', k, tuple(h), d))
                nb = seg.hex_neighbor(h, d)
                exp = tuple(a + b for a, b in zip(h, dirs[d]))
                if tuple(nb) != exp or tuple(seg.hex_direction(d)) != dirs[d] or tuple(seg.hex_add(h, seg.hex_direction(d))) != exp:
                    ctx.violation({'kind': 'neighbor', 'direction': d}, {'cell': list(h), 'expected': list(exp), 'observed': list(nb)}, case=None)
    ctx.traces += len(walks)
    ctx.sample({'ring_2_by_TLC': walks[2]['ring'], 'centres_ring_1_by_TLC_(2x/R, 2y/R as [rational, sqrt3 part])': walks[1]['xy']['n']}, maxn=1)
    ctx.rule = 'exhaustive: every state of the walk for ring numbers 1..6 (state graph of HexWalk); replay of all six walks, 126 cells x 2 orientations x 3 radii, 756 neighbour steps'
    ctx.assumptions += ['extra behaviour outside the twenty listed properties; not registered in MANIFEST.json']
