---------------------------- MODULE MC_C06_lemmas ----------------------------
(* Exhaustive check (TLC enumerates) of the centre convention and of the rectangle calculus on       *)
(* pixel sets for all shapes 1..MaxN per axis and all offsets -MaxO..MaxO.                            *)
EXTENDS FieldAlg, IOUtils
MaxN == atoi(IOEnv.MAXN)
MaxO == atoi(IOEnv.MAXO)
Shapes  == (1..MaxN) \X (1..MaxN)
Offsets == (-MaxO..MaxO) \X (-MaxO..MaxO)
VARIABLES sh1, o1, done
Init == sh1 \in Shapes /\ o1 \in Offsets /\ done = FALSE
Next == done = FALSE /\ done' = TRUE /\ UNCHANGED <<sh1, o1>>
Spec == Init /\ [][Next]_<<sh1, o1, done>>
ASSUME ConventionOK(9, 9)
LemmaAll == \A sh2 \in Shapes, o2 \in Offsets : LemmaRect(sh1, o1, sh2, o2)
=============================================================================
