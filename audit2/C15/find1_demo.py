"""C15 finding 1: Spectrum.integrate(start, end) drops the partial intervals
between the bounds and the nearest samples, so it is not exact for
piecewise-linear data (and returns 0 / crashes when <= 1 sample lies inside)."""
import os, sys
sys.path.insert(0, os.environ.get('LENTIL_REPO', '.'))
import numpy as np
import lentil
from lentil.radiometry import Spectrum

print('lentil from', lentil.__file__)
fail = False

# (a) a flat spectrum (value 1 everywhere on 400..600): integral over [450, 550] is 100
s = Spectrum([400., 500., 600.], [1., 1., 1.])
got = s.integrate(450, 550, method='trapz')
print('flat spectrum, integrate(450, 550, trapz) =', got, ' expected 100')
if abs(got - 100) > 1e-9:
    fail = True

# (b) finely sampled linear ramp, bounds half-way between samples
w = np.arange(400., 701.)
s = Spectrum(w, 2*w + 3)
a, b = 450.5, 459.5
exact = (b**2 - a**2) + 3*(b - a)          # integral of 2x+3
got = s.integrate(a, b, method='trapz')
print('ramp 2x+3, integrate(450.5, 459.5, trapz) =', got, ' exact', exact,
      ' rel.err', abs(got-exact)/exact)
if abs(got - exact) > 1e-9*exact:
    fail = True

# (c) same with the default method
got = s.integrate(a, b)
print('ramp 2x+3, integrate(450.5, 459.5) [simps] =', got, ' exact', exact)
if abs(got - exact) > 1e-9*exact:
    fail = True

# (d) no sample inside the bounds: trapz gives 0, simps raises an unrelated ValueError
s = Spectrum([400., 500., 600.], [1., 1., 1.])
print('integrate(510, 590, trapz) =', s.integrate(510, 590, method='trapz'), ' expected 80')
try:
    print('integrate(510, 590) [simps] =', s.integrate(510, 590))
except Exception as e:
    print('integrate(510, 590) [simps] raised', repr(e))

if fail:
    print('VIOLATION: integrate is not exact for piecewise-linear data when the '
          'bounds are not sample points (the end pieces are silently dropped)')
    sys.exit(1)
sys.exit(0)
