----------------------------- MODULE Trace_C15 -----------------------------
(* Trace validation of the spectrum editing operations (C15): every event records one call on a real     *)
(* lentil Spectrum with its state before and after (exact rationals) or the exception it raised.          *)
(* The specification accepts the documented result, or a refusal that leaves the spectrum unchanged, and *)
(* demands well-formedness after every event whatever happened.                                           *)
EXTENDS Spectrum, Json, IOUtils
Trace == JsonDeserialize(IOEnv.TRACE_FILE)
VARIABLES i, bad
vars == <<i, bad>>

Same(a, b) == a.w = b.w /\ a.v = b.v /\ a.e = b.e

Check(e) ==
    LET pre == e.pre  post == e.post
        wf == IF ~WF(post) THEN {"well-formed"} ELSE {}
        \* documented result of the call, where the specification fixes it completely
        result == CASE e.act = "crop" -> Crop(pre, e.lo, e.hi) [] e.act = "trim" -> Trim(pre, e.tol)
                    [] e.act = "towave" -> ToWave(pre, e.e2) [] OTHER -> pre
        \* an exception must leave the spectrum as it was (or, at worst, in the complete documented result): never half-way
        unchanged == IF e.err # "none" /\ ~Same(pre, post) /\ ~Same(result, post) THEN {"refused-but-changed"} ELSE {}
    IN wf \cup unchanged \cup
       (IF ~WF(post) \/ Len(post.w) = 0 THEN
            (IF e.act = "crop" /\ e.err = "none" /\ WF(post) /\ Len(Crop(pre, e.lo, e.hi).w) # 0 THEN {"crop-value"} ELSE {})
        ELSE IF e.err # "none" THEN
            \* refusals the statement rules out: operations whose result is well defined must be carried out
            \* (only crop and trim: the statement says what they keep; whether append / pad / resample accept is not stated)
            (CASE e.act = "crop" -> IF Len(Crop(pre, e.lo, e.hi).w) >= 1 THEN {"crop-refused"} ELSE {}
               [] e.act = "trim" -> {"trim-refused"}
               [] OTHER -> {})
        ELSE
            CASE e.act = "crop" -> IF ~Same(post, Crop(pre, e.lo, e.hi)) THEN {"crop-value"} ELSE {}
              [] e.act = "trim" -> IF ~Same(post, Trim(pre, e.tol)) THEN {"trim-value"} ELSE {}
              [] e.act = "pad" -> (IF ~PadValuesOK(post, pre, e.vals) THEN {"pad-retained-or-values"} ELSE {})
                                  \cup (IF ~(REq(post.w[1], RMin(e.ends[1], pre.w[1])) /\ REq(post.w[Len(post.w)], RMax(e.ends[2], pre.w[Len(pre.w)])))
                                        THEN {"pad-ends"} ELSE {})
              [] e.act = "append" -> IF ~Same(post, AppendSpec(pre, e.o)) THEN {"append-value"} ELSE {}
              [] e.act = "resample" -> IF ~Same(post, Resample(pre, e.x, e.fill)) THEN {"resample-value"} ELSE {}
              [] e.act = "towave" -> IF ~Same(post, ToWave(pre, e.e2)) THEN {"to-value"} ELSE {}
              [] OTHER -> {"unknown-action"})

RECURSIVE SetToSeq(_)
SetToSeq(S) == IF S = {} THEN <<>> ELSE LET x == CHOOSE y \in S : TRUE IN <<x>> \o SetToSeq(S \ {x})
Init == i = 0 /\ bad = <<>>
Next == /\ i < Len(Trace)
        /\ i' = i + 1
        /\ LET f == Check(Trace[i + 1]) IN
           bad' = IF f = {} THEN bad ELSE Append(bad, <<Trace[i + 1].id, SetToSeq(f)>>)
Spec == Init /\ [][Next]_vars
Report == (i = Len(Trace)) => PrintT(<<"EMIT", ToJson([n |-> i, bad |-> bad])>>)
Consumed == TLCGet("stats").diameter = Len(Trace) + 1
=============================================================================
