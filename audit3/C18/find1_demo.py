"""C18 / power_spectrum: a mask without any non-zero sample gives an all-NaN map.

The property says a surface-error map is zero outside its mask.  For a mask
that is zero everywhere (e.g. a segment or sub-aperture that fell outside a
cropped array) every sample is outside the mask, so the map must be all zero.
lentil.power_spectrum instead normalises by count_nonzero(opd)/sum(opd**2) =
0/0 and returns NaN in every sample (only a RuntimeWarning is emitted).
"""
import os
import sys
import warnings

sys.path.insert(0, os.environ.get('LENTIL_REPO', '.'))
import numpy as np
import lentil

bad = []
for shape in [(16, 16), (8, 24), (1, 5)]:
    mask = np.zeros(shape)
    with warnings.catch_warnings():
        warnings.simplefilter('ignore')
        opd = lentil.power_spectrum(mask, pixelscale=1/120, rms=25e-9,
                                    half_power_freq=8, exp=3, seed=1)
    outside = mask == 0
    if not np.all(opd[outside] == 0):
        bad.append((shape, int(np.isnan(opd).sum()), opd.size))

if bad:
    print('VIOLATION: power_spectrum is not zero outside an all-zero mask')
    for shape, nnan, size in bad:
        print(f'  mask shape {shape}: {nnan} of {size} samples are NaN')
    print('lentil imported from', lentil.__file__)
    sys.exit(1)
print('ok: map is zero outside the (empty) mask')
sys.exit(0)
