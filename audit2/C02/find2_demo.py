"""C02 finding 2: propagate_fft silently crops the input plane to the FFT grid.

When 1/alpha = wavelength*focal_length*oversample/(dx*du) is smaller than the
pupil array, propagate_fft cuts the pupil down to its central round(1/alpha)
samples before transforming, so the output samples are the Fraunhofer sum of a
*truncated* pupil, not of the input-plane field.  propagate_dft, given the same
wavefront and sampling, returns the correct values.

exit code 1 + explanation when the violation is observed, 0 otherwise.
"""
import os
import sys

sys.path.insert(0, os.environ.get('LENTIL_REPO', '.'))

import numpy as np
import lentil

print('lentil imported from', lentil.__file__)


def ref_dft(f, alpha, shape_out):
    # unitary Fraunhofer sum, optical axis at sample floor(n/2) of both planes
    f = np.asarray(f, dtype=complex)
    m, n = f.shape
    M, N = shape_out
    R = np.arange(m) - m//2
    S = np.arange(n) - n//2
    U = np.arange(M) - M//2
    V = np.arange(N) - N//2
    E1 = np.exp(-2j*np.pi*alpha[0]*np.outer(U, R))
    E2 = np.exp(-2j*np.pi*alpha[1]*np.outer(S, V))
    return np.sqrt(alpha[0]*alpha[1])*(E1 @ f @ E2)


def relerr(a, b):
    return np.max(np.abs(a-b))/np.max(np.abs(b))


# 32 x 32 filled pupil, 1 mm samples, f = 1 m, 500 nm, 20 um output pixels, oversample 1
# -> 1/alpha = 500e-9*1/(1e-3*20e-6) = 25 exactly: the FFT grid is 25 x 25 < 32 x 32
wavelength, focal_length, dx, du, oversample = 500e-9, 1.0, 1e-3, 20e-6, 1
rng = np.random.default_rng(1)
amp = rng.random((32, 32)) + 0.5
opd = rng.normal(size=(32, 32))*50e-9

pupil = lentil.Pupil(amplitude=amp, opd=opd, pixelscale=dx, focal_length=focal_length)
w = lentil.Wavefront(wavelength) * pupil
alpha = (dx*du/(wavelength*focal_length*oversample),)*2
print('1/alpha =', 1/alpha[0], ' pupil shape =', amp.shape)

shape = (9, 9)
out_fft = lentil.propagate_fft(w, pixelscale=du, shape=shape, oversample=oversample)
out_dft = lentil.propagate_dft(w, pixelscale=du, shape=shape, oversample=oversample)

f_in = w.field                                   # the input-plane complex field
expect = ref_dft(f_in, alpha, shape)

# what propagate_fft actually transforms: the central 25 x 25 samples only
crop = f_in[16-12:16+13, 16-12:16+13]
expect_crop = ref_dft(crop, alpha, shape)

e_dft = relerr(out_dft.field, expect)
e_fft = relerr(out_fft.field, expect)
e_fft_crop = relerr(out_fft.field, expect_crop)
print(f'out wavelength {out_fft.wavelength!r} (input {wavelength!r})')
print(f'propagate_dft vs Fraunhofer sum of the input field      : rel. error {e_dft:.3e}')
print(f'propagate_fft vs Fraunhofer sum of the input field      : rel. error {e_fft:.3e}')
print(f'propagate_fft vs Fraunhofer sum of the CROPPED 25x25 pupil: rel. error {e_fft_crop:.3e}')
print(f'power in the 9x9 window: dft {np.sum(np.abs(out_dft.field)**2):.4f}  '
      f'fft {np.sum(np.abs(out_fft.field)**2):.4f}')

if e_fft > 1e-9:
    print('\nVIOLATION of C02: with an exactly integer 1/alpha (so the FFT grid reproduces alpha exactly) '
          'propagate_fft does not return the Fraunhofer sum of the input-plane field: the pupil samples '
          'outside the central round(1/alpha) = 25 are silently discarded (no error, no warning).')
    sys.exit(1)
print('no violation observed')
sys.exit(0)
