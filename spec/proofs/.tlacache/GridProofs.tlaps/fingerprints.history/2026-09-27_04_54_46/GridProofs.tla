----------------------------- MODULE GridProofs -----------------------------
(* Unbounded facts about the centre convention of Grid.tla, proved with TLAPS (TLC checks the same facts for n <= 40 as  *)
(* ConventionOK).  Everything in the optics, geometry and field modules that places an array goes through C, Lo, Hi.      *)
EXTENDS Integers, TLAPS

C(n) == n \div 2
Lo(n, o) == o - C(n)
Hi(n, o) == o - C(n) + n - 1
Idx(n, o, g) == g - Lo(n, o) + 1

LEMMA HalfBounds == \A n \in Nat : 0 <= C(n) /\ 2 * C(n) <= n /\ n <= 2 * C(n) + 1
  BY DEF C

\* an axis of n samples covers exactly n coordinates, contains its origin, and the origin is sample C(n)+1
THEOREM AxisCoversOrigin ==
    \A n \in Nat \ {0}, o \in Int :
        /\ Hi(n, o) - Lo(n, o) + 1 = n
        /\ Lo(n, o) <= o /\ o <= Hi(n, o)
        /\ Idx(n, o, o) = C(n) + 1
  BY HalfBounds DEF Lo, Hi, Idx

\* the centre of the extent an axis covers is its origin (boundary -> offset round trip used by Field and Plane slicing)
THEOREM ExtentCentreRoundTrip ==
    \A n \in Nat \ {0}, o \in Int : Lo(n, o) + C(Hi(n, o) - Lo(n, o) + 1) = o
  BY HalfBounds DEF Lo, Hi

\* a centred window of n samples lies inside a centred axis of m >= n samples: pad followed by crop is the identity
THEOREM CentredWindowInside ==
    \A n, m \in Nat \ {0} : n <= m => Lo(m, 0) <= Lo(n, 0) /\ Hi(n, 0) <= Hi(m, 0)
  <1> SUFFICES ASSUME NEW n \in Nat \ {0}, NEW m \in Nat \ {0}, n <= m
               PROVE  Lo(m, 0) <= Lo(n, 0) /\ Hi(n, 0) <= Hi(m, 0)
    OBVIOUS
  <1>1. C(n) <= C(m)
    BY DEF C
  <1>2. n - C(n) <= m - C(m)
    BY DEF C
  <1> QED BY <1>1, <1>2 DEF Lo, Hi

\* the index shift between the two is the same whether computed from the low or the high end (no parity-dependent slack on
\* the low side): offset of the window in the padded axis
THEOREM PadOffset ==
    \A n, m \in Nat \ {0} : n <= m => Lo(n, 0) - Lo(m, 0) = C(m) - C(n)
  BY DEF Lo
=============================================================================
