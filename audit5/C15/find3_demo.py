"""C15 finding 3: Spectrum.integrate forms the widths of the intervals in the storage
type of the wavelength grid (np.diff of a float16 / float32 grid), so the trapezoid
rule is not exact for piecewise-linear data held on such a grid.

exit 1 = violation observed, exit 0 = not observed.
"""
import os, sys
sys.path.insert(0, os.environ.get('LENTIL_REPO', '.'))
import warnings
warnings.simplefilter('ignore')
import numpy as np
import lentil
from lentil.radiometry import Spectrum

print('lentil from', lentil.__file__)
failed = False

# wavelengths in micron, half precision (every stored number is taken as it is)
w16 = np.array([0.45, 0.9, 2.3], dtype=np.float16)
w64 = w16.astype(np.float64)                 # exactly the same three numbers
v = np.array([2.0, 2.0, 2.0])                # flat: integral = 2 * (last - first)
exact = 2.0 * (w64[-1] - w64[0])

for method in ('trapz', 'simps'):
    I16 = Spectrum(w16, v, waveunit='um').integrate(method=method)
    I64 = Spectrum(w64, v, waveunit='um').integrate(method=method)
    print(f'{method}: float16 grid {I16!r}   float64 grid (same numbers) {I64!r}   exact {exact!r}'
          f'   rel. error {abs(I16-exact)/exact:.2e}')
    if method == 'trapz' and abs(I16 - exact) > 1e-9 * exact and abs(I64 - exact) <= 1e-12 * exact:
        failed = True

# piecewise-linear, non-flat data on a float16 grid in nm
w16 = np.array([300.25, 701.5, 2000], dtype=np.float16)
w64 = w16.astype(np.float64)
assert np.array_equal(w64, [300.25, 701.5, 2000])
v = np.array([1.0, 3.0, 2.0])
exact = np.sum((v[1:] + v[:-1]) / 2 * np.diff(w64))
I16 = Spectrum(w16, v).integrate(method='trapz')
if abs(I16 - exact) > 1e-9 * exact:
    failed = True
print(f'trapz, nm grid [300.25, 701.5, 2000] float16: {I16!r}  exact {exact!r}  rel. error {abs(I16-exact)/exact:.2e}')

# single precision: the same effect at the 1e-8 level
rng = np.random.default_rng(0)
worst = 0
for _ in range(300):
    w32 = np.sort(rng.uniform(0.1, 3000, 6)).astype(np.float32)
    if np.any(np.diff(w32) <= 0):
        continue
    v = rng.uniform(0, 1, 6)
    ex = np.sum((v[1:] + v[:-1]) / 2 * np.diff(w32.astype(np.float64)))
    worst = max(worst, abs(Spectrum(w32, v).integrate(method='trapz') - ex) / ex)
print(f'float32 grids: worst rel. error of trapz over 300 random piecewise-linear spectra {worst:.1e}')

if failed:
    print('\nVIOLATION: the trapezoid integral of piecewise-linear data is not exact when the\n'
          'wavelength grid is stored in half precision (error ~1e-4 relative): the interval\n'
          'widths are differences taken in the storage type of the grid.')
    sys.exit(1)
print('no violation observed')
sys.exit(0)
