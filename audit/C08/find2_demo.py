"""C08 finding 2: lentil.Flip cannot be applied to ANY wavefront.

Flip is a documented public plane class (docs/user/fundamentals/planes.rst
lines 33 and 116, docs/ref/planes.rst; docs/user/fundamentals/diffraction.rst
names it as THE operation to use between like planes: "pupil -> pupil: Flip,
resample, or none").  Its documented plane type is 'transform', which the
multiplication table allows for every wavefront type, leaving the wavefront
type unchanged.  In the code as it stands Flip.multiply raises AttributeError
('Wavefront' object has no attribute 'copy') for every wavefront.
"""
import os
import sys
import warnings

sys.path.insert(0, os.environ['LENTIL_REPO'])
warnings.simplefilter('ignore')

import numpy as np
import lentil

amp = lentil.circle((16, 16), 6)


def wavefronts():
    yield 'none/infinite', lentil.Wavefront(500e-9), 'none'
    yield 'none/finite', lentil.Wavefront(500e-9) * lentil.Plane(amplitude=amp), 'none'
    yield 'pupil/infinite', lentil.Wavefront(500e-9, ptype=lentil.pupil), 'pupil'
    yield 'pupil/finite', (lentil.Wavefront(500e-9) *
                           lentil.Pupil(amplitude=amp, pixelscale=1e-3, focal_length=10)), 'pupil'
    yield 'image/infinite', lentil.Wavefront(500e-9, ptype=lentil.image), 'image'
    yield 'image/finite', lentil.Wavefront(500e-9) * lentil.Image(amplitude=amp), 'image'
    # an image wavefront produced by a real propagation
    w = lentil.Wavefront(500e-9) * lentil.Pupil(amplitude=amp, pixelscale=1e-3, focal_length=10)
    yield 'image/propagated', lentil.propagate_dft(w, pixelscale=5e-6, shape=(16, 16), oversample=1), 'image'


bad = []
for axis in (None, 0, 1, (0, 1)):
    for name, w, expected in wavefronts():
        plane = lentil.Flip(axis=axis)
        try:
            out = w * plane
            got = str(out.ptype)
            if got != expected:
                bad.append(f'Flip(axis={axis}) x {name}: ptype {got}, documented {expected}')
        except TypeError as e:
            bad.append(f'Flip(axis={axis}) x {name}: refused with TypeError ({e}); '
                       f'documented result is {expected}')
        except Exception as e:
            bad.append(f'Flip(axis={axis}) x {name}: {type(e).__name__}: {e}; '
                       f'documented result is a wavefront of type {expected}')

if bad:
    print('VIOLATION of C08: the documented plane class lentil.Flip cannot be '
          'applied to a compatible wavefront')
    for b in bad:
        print('  ' + b)
    sys.exit(1)
print('ok: Flip can be applied to every wavefront type')
sys.exit(0)
