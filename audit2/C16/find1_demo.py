"""C16 finding 1: a QE Spectrum sampled in another wavelength unit loses the
efficiency of the first wavelength slice (QE becomes 0 there)."""
import os, sys
sys.path.insert(0, os.environ.get('LENTIL_REPO', '.'))
import numpy as np
import lentil
from lentil.radiometry import Spectrum

wave_nm = np.array([400., 500., 600., 700.])
qe_vec = np.array([0.4, 0.5, 0.6, 0.7])
qe_spec = Spectrum(wave_nm, qe_vec, waveunit='nm')      # QE curve tabulated in nm

photons = np.full((4, 2, 2), 100.0)
wave_m = np.array([400e-9, 500e-9, 600e-9, 700e-9])     # the same wavelengths, in metres

ref = lentil.detector.collect_charge(photons, wave_m, qe_vec, waveunit='m')      # vector QE
got = lentil.detector.collect_charge(photons, wave_m, qe_spec, waveunit='m')     # Spectrum QE
same_unit = lentil.detector.collect_charge(photons, wave_nm, qe_spec, waveunit='nm')

print('lentil from', lentil.__file__)
print('vector QE               :', ref[0, 0])
print('Spectrum QE, wave in nm :', same_unit[0, 0])
print('Spectrum QE, wave in m  :', got[0, 0])
print('QE sampled in m         :', qe_spec.sample(wave_m, waveunit='m'))

# how often it happens for integer-nm band edges
n = 0
for k in range(300, 1101):
    s = Spectrum([k, k + 100.0], [0.5, 0.7])
    n += s.sample([float('%de-9' % k)], waveunit='m')[0] == 0
print('band edges k nm (k=300..1100) whose QE is returned as 0 when asked for in metres: %d of 801' % n)

bad = not np.allclose(got, ref, rtol=1e-9)
# Bayer path has the same defect
b_ref = lentil.detector.collect_charge_bayer(photons, wave_m, qe_vec, qe_vec, qe_vec, 'RGGB', waveunit='m')
b_got = lentil.detector.collect_charge_bayer(photons, wave_m, qe_spec, qe_spec, qe_spec, 'RGGB', waveunit='m')
bad = bad or not np.allclose(b_got, b_ref, rtol=1e-9)
if bad:
    print('VIOLATION: charge with the QE given as a Spectrum (%.6g e-) differs from the same QE '
          'given as a vector (%.6g e-): the 400 nm slice was collected with QE = 0'
          % (got[0, 0], ref[0, 0]))
    sys.exit(1)
print('ok')
sys.exit(0)
