"""C02 finding 4: propagate_fft evaluates the transform with alpha' = 1/round(1/alpha)
instead of alpha = dx*du/(wavelength*focal_length*oversample) and returns a Wavefront
that carries a *different wavelength* from the input; with per-axis sampling the
samples are not a Fraunhofer sum for ANY single wavelength."""
import os, sys
sys.path.insert(0, os.environ.get('LENTIL_REPO', '.'))
import numpy as np
import lentil


def fraunhofer(f, alpha, out_shape):
    f = np.asarray(f, dtype=complex)
    (m, n), (M, N) = f.shape, out_shape
    R, S = np.arange(m) - m//2, np.arange(n) - n//2
    U, V = np.arange(M) - M//2, np.arange(N) - N//2
    E1 = np.exp(-2j*np.pi*alpha[0]*np.outer(U, R))
    E2 = np.exp(-2j*np.pi*alpha[1]*np.outer(S, V))
    return np.sqrt(abs(alpha[0]*alpha[1])) * (E1 @ f @ E2)


def crop(a, shape):
    r0 = a.shape[0]//2 - shape[0]//2
    c0 = a.shape[1]//2 - shape[1]//2
    return a[r0:r0+shape[0], c0:c0+shape[1]]


bad = False
wl, fl, os_ = 650e-9, 10.0, 2
amp = lentil.normalize_power(lentil.circle((32, 32), 14, antialias=False))

# ---- scalar sampling --------------------------------------------------------
dx, du = 1/32, 5e-6
w = lentil.Wavefront(wl) * lentil.Pupil(amplitude=amp, pixelscale=dx, focal_length=fl)
shape = (16, 16)
out = lentil.propagate_fft(w, pixelscale=du, shape=shape, oversample=os_)
alpha = (dx*du/(wl*fl*os_),)*2
ref = fraunhofer(w.field, alpha, (32, 32))
dft = lentil.propagate_dft(w, pixelscale=du, shape=shape, oversample=os_)
assert np.allclose(dft.field, ref, rtol=1e-9, atol=1e-13)
err = np.abs(out.field - ref).max()/np.abs(ref).max()
print(f'scalar sampling: 1/alpha = {1/alpha[0]:.3f}; input wavelength {wl:.6e}, '
      f'output carries {out.wavelength:.6e}; output pixelscale {out.pixelscale}')
print(f'   max |fft - Fraunhofer(alpha)| / max|ref| = {err:.3e}')
if out.wavelength != wl or err > 1e-9:
    bad = True

# ---- per-axis sampling: inconsistent with the carried wavelength as well -------
dx2, du2 = (1/32, 1/30), (5e-6, 6e-6)
w = lentil.Wavefront(wl) * lentil.Pupil(amplitude=amp, pixelscale=dx2, focal_length=fl)
out = lentil.propagate_fft(w, pixelscale=du2, shape=shape, oversample=os_)
a_in = tuple(dx2[i]*du2[i]/(wl*fl*os_) for i in (0, 1))
a_car = tuple(dx2[i]*du2[i]/(out.wavelength*fl*os_) for i in (0, 1))
N = tuple(int(round(1/a)) for a in a_in)
e_in = np.abs(out.field - fraunhofer(w.field, a_in, (32, 32))).max()/np.abs(out.field).max()
e_car = np.abs(out.field - fraunhofer(w.field, a_car, (32, 32))).max()/np.abs(out.field).max()
print(f'per-axis sampling: 1/alpha = ({1/a_in[0]:.3f}, {1/a_in[1]:.3f}) -> FFT grid {N}; '
      f'output carries wavelength {out.wavelength:.6e}')
print(f'   rel. error vs Fraunhofer sum at the input wavelength   : {e_in:.3e}')
print(f'   rel. error vs Fraunhofer sum at the carried wavelength : {e_car:.3e}')
if e_in > 1e-9 and e_car > 1e-9:
    bad = True

if bad:
    print('VIOLATION of C02: propagate_fft does not return the Fraunhofer field for '
          'alpha = dx*du/(wavelength*focal_length*oversample) and does not carry the input '
          'wavelength (lentil/propagate.py _fft_shape: fft_shape = round(1/alpha), '
          'prop_wavelength = min(fft_shape/oversample*dx*du/z)).')
    sys.exit(1)
print('no violation observed')
sys.exit(0)
