"""C05 - propagation conserves energy.

A: on flagged cases TLC proves Parseval's identity for the zero-padded full period in Z[zeta_N]
   (SUM|F|^2 = K_r K_c SUM|f|^2, any K_r != K_c, odd and even).
B: commensurate geometries (1/alpha = K per axis, K_r != K_c allowed, K in 2..9, oversample dividing K):
   total intensity of propagate_dft and of propagate_fft over the full period equals the exact input power
   (an integer); every chain of nested centred windows W1 <= W2 <= full captures exactly the spec's
   SUM_{g in W}|S(g)|^2, monotone and bounded by the input power; intensity is never negative; an amplitude passed
   through normalize_power with target p has power p and images to total p.
"""
import random
from fractions import Fraction as Fr

import numpy as np

from harness.core import import_lentil
from harness import optics as ox

LEVEL = 'model_checking'


def gen_geom(rng):
    os_ = rng.choice((1, 2, 3))
    Ks = [k for k in range(2, 10) if k % os_ == 0]
    Kr, Kc = rng.choice(Ks), rng.choice(Ks)
    N = ox.lcm(Kr, Kc, 4)
    dx = (Fr(1, 2), Fr(1, rng.choice((2, 4))))
    z, lam = Fr(rng.choice((2, 4))), Fr(1, 128)
    du = (lam * z * os_ / (Kr * dx[0]), lam * z * os_ / (Kc * dx[1]))
    m, n = rng.randint(1, Kr), rng.randint(1, Kc)
    if m * n == 1:
        m = 2 if Kr >= 2 else 1
        n = 2 if m == 1 else n
    amp = np.array([[rng.choice((0, 1, 2, 3)) for _ in range(n)] for _ in range(m)])
    amp[0, 0] = amp[-1, -1] = rng.choice((1, 2))
    opd = np.array([[rng.randrange(N) for _ in range(n)] for _ in range(m)])
    return dict(N=N, Kr=Kr, Kc=Kc, os=os_, dx=dx, z=z, lam=lam, du=du, amp=amp, opd=opd, power=int((amp ** 2).sum()))


def run(ctx):
    lentil = import_lentil()
    rng = random.Random(5005 + ctx.seed)
    q = ctx.tier == 'quick'
    geoms = [gen_geom(rng) for _ in range(260 if q else 2500)]
    cases = []
    for gi, g in enumerate(geoms):
        full = (g['Kr'] // g['os'], g['Kc'] // g['os'])
        pupil = ox.plane('Pupil', amp=g['amp'], opd=g['opd'], px=g['dx'], z=g['z'])
        # nested centred windows W1 <= W2 <= full
        w2 = (rng.randint(1, full[0]), rng.randint(1, full[1]))
        w1 = (rng.randint(1, w2[0]), rng.randint(1, w2[1]))
        # a sub-sample displacement (|s| < 1: the window does not move, every sample is evaluated between the old ones) keeps
        # the full-period total; the same shapes are propagated repeatedly, so cached transform coordinates must stay intact
        tilt = None
        if ox.lcm(g['Kr'], g['Kc']) <= 12 and rng.random() < 0.7:
            sq = rng.choice(((Fr(1, 4), Fr(-1, 2)), (Fr(-3, 4), Fr(1, 4)), (Fr(1, 2), Fr(1, 2))))
            tilt = (sq[0] * g['du'][0] / (g['z'] * g['os']), -sq[1] * g['du'][1] / (g['z'] * g['os']))
            g['N'] = ox.lcm(g['N'], 4 * g['Kr'], 4 * g['Kc'])
            pupil = ox.plane('Pupil', amp=g['amp'], opd=g['opd'] * (g['N'] // ox.lcm(g['Kr'], g['Kc'], 4)), px=g['dx'], z=g['z'])
            g['opd'] = g['opd'] * (g['N'] // ox.lcm(g['Kr'], g['Kc'], 4))
        g['tilt'] = tilt
        for name, win in (('full', full), ('w2', w2), ('w1', w1)):
            cases.append(dict(N=g['N'], gi=gi, win=name, wf=ox.wf(g['lam'], tilt=tilt), steps=[pupil, ox.dft(g['du'], full, win, g['os'])],
                              thm='energy' if (name == 'full' and g['N'] <= 24 and rng.random() < 0.5) else 'none'))
        cases.append(dict(N=g['N'], gi=gi, win='fft', wf=ox.wf(g['lam']), steps=[pupil, ox.fft(g['du'], full, g['os'])], thm='none'))
    for i, c in enumerate(cases):
        c['id'] = i
    spec, results = ox.eval_spec(cases)
    for N, res in results:
        ctx.add_tlc(res, f'MC_Optics ring N={N}')
    captured = {}
    for c in cases:
        g = geoms[c['gi']]
        real = ox.run_real(lentil, c)
        sig = {'win': c['win'], 'K_parity': [g['Kr'] % 2, g['Kc'] % 2], 'os': g['os'], 'aniso': g['Kr'] != g['Kc']}
        for (k, kind, detail) in ox.compare(c, spec[c['id']]['obs'], real):
            ctx.violation(dict(sig, kind=kind), dict(detail, step=k, K=[g['Kr'], g['Kc']]), case={'case': c, 'spec': spec[c['id']]})
        ctx.case((c['gi'], c['win']), nontrivial=True)
        if real[-1].get('err') != 'none':
            continue
        inten = real[-1]['intensity']
        tot = float(inten.sum())
        exp_f, _ = ox.ring_field(spec[c['id']]['obs'][-1], c['N'])
        exp_tot = float((np.abs(exp_f) ** 2).sum())
        P = g['power']
        captured[(c['gi'], c['win'])] = tot
        if inten.min() < 0:
            ctx.violation(dict(sig, kind='negative-intensity'), {'min': float(inten.min())}, case={'case': c, 'spec': spec[c['id']]})
        if abs(tot - exp_tot) > 1e-9 * (1 + P):
            ctx.violation(dict(sig, kind='captured-power'), {'expected': exp_tot, 'observed': tot, 'input_power': P},
                          case={'case': c, 'spec': spec[c['id']]})
        if c['win'] in ('full', 'fft') and abs(tot - P) > 1e-9 * (1 + P):
            ctx.violation(dict(sig, kind='total-power'), {'input_power': P, 'total_intensity': tot, 'K': [g['Kr'], g['Kc']], 'os': g['os']},
                          case={'case': c, 'spec': spec[c['id']]})
    for gi, g in enumerate(geoms):
        a, b, f = captured.get((gi, 'w1')), captured.get((gi, 'w2')), captured.get((gi, 'full'))
        if None in (a, b, f):
            continue
        eps = 1e-9 * (1 + g['power'])
        if not (-eps <= a <= b + eps and b <= f + eps and f <= g['power'] + eps):
            ctx.violation({'kind': 'nested-windows-not-monotone', 'os': g['os']}, {'w1': a, 'w2': b, 'full': f, 'input_power': g['power']}, case=None)
    # normalize_power: power p, images to total p - for float, integer and boolean amplitudes alike
    nnorm = 0
    for gi, g in enumerate(geoms[: (120 if q else 1000)]):
        p = rng.choice((1.0, 0.5, 3.25, 100.0, 1e-3))
        kind = rng.choice(('float', 'int', 'uint8', 'bool', 'complex', 'float32-tiny', 'complex64-huge', 'float16-large'))
        raw = {'float': g['amp'].astype(float), 'int': g['amp'].astype(int), 'uint8': (g['amp'] * 9).astype(np.uint8),
               'bool': g['amp'] > 0,
               'complex': g['amp'] * np.exp(2j * np.pi * g['opd'] / g['N']),
               # single / half precision amplitudes whose SQUARES leave the range of their own type (1e-60, 1e50, > 65504)
               'float32-tiny': (g['amp'] * 1e-30).astype(np.float32),
               'complex64-huge': (g['amp'] * np.exp(2j * np.pi * g['opd'] / g['N']) * 1e25).astype(np.complex64),
               'float16-large': (g['amp'] * 300.0).astype(np.float16)}[kind]
        nnorm += 1
        try:
            a = lentil.normalize_power(raw, p)
            # (the result comes back in the type of the input: a half / single precision amplitude carries its power to that precision)
            adt = np.asarray(a).dtype
            tolp = 1e-12 if adt.kind not in 'fc' or adt.itemsize >= (16 if adt.kind == 'c' else 8) else 8 * float(np.finfo(adt).eps)
            pw = float((np.abs(np.asarray(a).astype(complex)) ** 2).sum())
            if not (np.all(np.isfinite(np.asarray(a).astype(complex))) and abs(pw - p) <= tolp * p):
                ctx.violation({'kind': 'normalize_power', 'dtype': kind}, {'target': p, 'power': pw}, case=None)
                continue
            # the aperture may be cut into segments, also into segments whose masks share a column of samples (as closely packed
            # antialiased segment masks do): the power that reaches the image does not depend on how the aperture is described
            segm = None
            sup_ = np.abs(np.asarray(a)) > 0
            if gi % 3 == 0 and sup_.shape[1] >= 3:
                c0_ = sup_.shape[1] // 2
                cols_ = np.arange(sup_.shape[1])[None, :]
                left_, right_ = sup_ & (cols_ <= c0_), sup_ & (cols_ >= c0_ - (gi % 2))
                if left_.sum() >= 2 and right_.sum() >= 2 and (left_ & right_).any() and (right_ & ~left_).sum() >= 2:
                    segm = np.array([left_, right_]).astype(int)
            pl = lentil.Pupil(amplitude=a, opd=g['opd'] * float(g['lam']) / g['N'], pixelscale=(float(g['dx'][0]), float(g['dx'][1])),
                              focal_length=float(g['z']), **({} if segm is None else {'mask': segm}))
            w = lentil.Wavefront(float(g['lam'])) * pl
            full = (g['Kr'] // g['os'], g['Kc'] // g['os'])
            for fn in ('dft', 'fft', 'fft-large-scratch'):
                if fn == 'dft':
                    o = lentil.propagate_dft(w, pixelscale=(float(g['du'][0]), float(g['du'][1])), shape=full, oversample=g['os'])
                elif fn == 'fft':
                    o = lentil.propagate_fft(w, pixelscale=(float(g['du'][0]), float(g['du'][1])), shape=full, oversample=g['os'])
                else:
                    scr = np.full((3 * g['Kr'] + 2, 2 * g['Kc'] + 5), 7.0 - 2.0j)
                    o = lentil.propagate_fft(w, pixelscale=(float(g['du'][0]), float(g['du'][1])), shape=full, oversample=g['os'], scratch=scr)
                t = float(o.intensity.sum())
                if abs(t - p) > max(1e-9, tolp) * p:
                    ctx.violation({'kind': 'normalized-amplitude-images-to-p', 'fn': fn, 'os': g['os'], 'segments_share_samples': segm is not None},
                                  {'target': p, 'total': t, 'K': [g['Kr'], g['Kc']]}, case=None)
        except Exception as ex:
            ctx.violation({'kind': 'normalize-section-' + type(ex).__name__, 'dtype': kind}, {'error': repr(ex)[:300], 'K': [g['Kr'], g['Kc']]}, case=None)
    ox.binding_selftest(ctx, lentil, cases[0], spec[cases[0]['id']])
    ctx.traces += len(cases)
    ctx.extra.update({'geometries': len(geoms), 'parseval_theorem_cases': sum(1 for c in cases if c['thm'] == 'energy'),
                      'normalize_power_cases': nnorm})
    ctx.sample({'case': cases[0], 'input_power': geoms[0]['power']}, maxn=1)
    ctx.rule = ('geometry = (K_row, K_col in 2..9 multiples of the oversampling 1..3, pupil <= K with random integer amplitude and phase); '
                'per geometry: full period by DFT and by FFT, two nested windows; distinct by (geometry, window)')
    ctx.assumptions += ['exact input power is the integer sum of squared amplitudes; one floating-point square root in normalize_power is a numeric leaf']


def replay(ctx, rec):
    lentil = import_lentil()
    c = rec['case']['case']
    real = ox.run_real(lentil, c)
    for (k, kind, detail) in ox.compare(c, rec['case']['spec']['obs'], real):
        ctx.violation({'kind': kind}, dict(detail, step=k), case=rec['case'])
