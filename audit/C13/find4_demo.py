"""C13 finding 4: the result of an operation with a scalar or a vector is not an
independent new spectrum - its wavelength array IS the operand's wavelength array (same
ndarray object).  Any in-place edit of the result's wave (e.g. the idiomatic unit change
`r.wave *= 1e-3`) rewrites the operand, which then no longer describes the same physical
spectrum.  Results of Spectrum (op) Spectrum do not have this problem."""
import os
import sys

sys.path.insert(0, os.environ['LENTIL_REPO'])

import numpy as np
from lentil.radiometry import Spectrum

fail = []
for name, op in [('s * 2', lambda s: s*2), ('2 * s', lambda s: 2*s), ('s + 1.5', lambda s: s+1.5),
                 ('s - 1', lambda s: s-1), ('s / 2', lambda s: s/2), ('s ** 2', lambda s: s**2),
                 ('s * [1,2,3,4]', lambda s: s*[1, 2, 3, 4]),
                 ('s * ndarray', lambda s: s*np.arange(4.))]:
    s = Spectrum(np.array([400., 500., 600., 700.]), np.array([1., 2., 3., 4.]), waveunit='nm')
    before = s.wave.copy()
    r = op(s)
    shared = r.wave is s.wave or np.shares_memory(r.wave, s.wave)
    # user re-labels the RESULT in microns, by hand
    r.wave *= 1e-3
    r.waveunit = 'um'
    changed = not np.array_equal(s.wave, before)
    print('%-14s shares wave memory: %s; operand wave after editing the result: %s %s'
          % (name, shared, s.wave, s.waveunit))
    if shared or changed:
        fail.append('%s: result.wave is operand.wave; operand now spans %s %s instead of %s nm'
                    % (name, s.wave, s.waveunit, before))

if fail:
    print('VIOLATION of C13 ("the result is a new spectrum, and both operands still describe '
          'the same physical spectrum afterwards"):')
    for f in fail:
        print('  -', f)
    sys.exit(1)
print('no violation observed')
sys.exit(0)
