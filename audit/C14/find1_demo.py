"""C14 finding 1: Blackbody.vegamag ignores the requested flux unit when it
computes the spectrum, but labels the result with it.

Blackbody.vegamag(..., valueunit='wlam' or 'flam') must describe the same
irradiance as Blackbody.vegamag(..., valueunit='photlam'); converting one to the
unit of the other must give the same numbers."""
import os, sys
sys.path.insert(0, os.environ.get('LENTIL_REPO', '.'))
import numpy as np
import lentil.radiometry as R

wave = np.linspace(400., 900., 11)      # nm
temp, mag, band = 5000., 2., 'V'
hc = R.H * R.C
bad = False

ref = R.Blackbody.vegamag(wave, temp, mag, band, waveunit='nm', valueunit='photlam')
assert ref.valueunit == 'photlam'

for vu, expected in (('wlam', ref.value * hc / (wave * 1e-9)),          # W m^-2 nm^-1
                     ('flam', ref.value * hc / (wave * 1e-9) * 1e3)):   # erg s^-1 cm^-2 nm^-1
    src = R.Blackbody.vegamag(wave, temp, mag, band, waveunit='nm', valueunit=vu)
    ratio = src.value / expected
    print(f"valueunit={vu!r}: object says valueunit={src.valueunit!r}; "
          f"value / (photlam result converted to {vu}) = {ratio.min():.6g} .. {ratio.max():.6g}")
    if not np.allclose(ratio, 1, rtol=1e-9):
        bad = True
    if np.array_equal(src.value, ref.value):
        print(f"   -> the {vu} values are bit-identical to the photlam values")

    # the same thing seen as a flux-unit round trip through Spectrum.to
    back = src.copy()
    back.to('photlam')
    r2 = back.value / ref.value
    print(f"   vegamag(valueunit={vu!r}).to('photlam') / vegamag(valueunit='photlam') = "
          f"{r2.min():.6g} .. {r2.max():.6g}")
    if not np.allclose(r2, 1, rtol=1e-9):
        bad = True

if bad:
    print("VIOLATION: Blackbody.vegamag returns photlam numbers labelled as wlam/flam "
          "(off by lambda/(h c) ~ 1e18): the Vega-magnitude spectrum depends on the "
          "flux unit requested.")
    sys.exit(1)
print("ok")
sys.exit(0)
