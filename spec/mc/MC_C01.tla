------------------------------- MODULE MC_C01 -------------------------------
(* Evaluates the defining Fourier sum (DFT.tla) on a file of cases and emits the exact result of     *)
(* every output sample as an element of Z[zeta_N]; checks the ring-level theorems (separability =    *)
(* matrix triple product, inverse, Parseval, offset = embedding) on the cases flagged for them.      *)
EXTENDS Integers, Sequences, TLC, Json, IOUtils

RingN == atoi(IOEnv.RING_N)
RingPhi == JsonDeserialize(IOEnv.PHI_FILE)
INSTANCE DFT WITH N <- RingN, PhiN <- RingPhi

Cases == JsonDeserialize(IOEnv.CASES)
ASSUME PhiOK

VARIABLE i
Init == i = 0
Next == i < Len(Cases) /\ i' = i + 1
Spec == Init /\ [][Next]_i

Expected(c) ==
    CASE c.k = "fwd" -> [id |-> c.id, out |-> Forward(ToRing(c.f), c.g), nsq |-> NormSq(c.g, c.unitary), div |-> 1]
      [] c.k = "inv" -> [id |-> c.id, out |-> InverseRaw(ToRing(c.f), c.g), nsq |-> NormSq(c.g, c.unitary),
                         div |-> InverseDiv(c.f, c.unitary)]

Emit == i > 0 => PrintT(<<"EMIT", ToJson(Expected(Cases[i]))>>)

GeomInv == i > 0 => GeomOK(Cases[i].g)

Theorems == (i > 0 /\ Cases[i].thm) =>
    LET c == Cases[i]  fr == ToRing(c.f) IN
    /\ ThmSeparable(fr, c.g)
    /\ ThmOffset(fr, c.g, c.big)
    /\ c.full => (ThmInverse(fr) /\ ThmParseval(fr))
    /\ (c.k = "inv" /\ ~c.full) => ThmParsevalPadded(fr, c.g.M, c.g.K)
=============================================================================
