"""C13 finding 1: a Blackbody operand is not combined through its (interpolated)
stored values - Spectrum-Spectrum arithmetic re-evaluates the Planck law, so any
change made to the object's wave/value (pad, append, a rescaled .value) is
silently ignored, although scalar arithmetic on the same object honours it."""
import os, sys
sys.path.insert(0, os.environ.get('LENTIL_REPO', '.'))
import numpy as np
from lentil.radiometry import Spectrum, Blackbody

fail = []

# (a) a blackbody source padded with zeros from 400 to 800 nm
w = np.arange(500., 701., 10)
bb = Blackbody(w, 5000)                 # photlam, nm
bb.pad((400, 800))                      # public method: value == 0 outside 500..700
assert bb.value[0] == 0 and bb.value[-1] == 0 and bb.wave[0] == 400 and bb.wave[-1] == 800

one = Spectrum(bb.wave.copy(), np.ones(bb.wave.shape))     # same grid, value 1
plain = Spectrum(bb.wave.copy(), bb.value.copy(), 'nm', 'photlam')  # same data, plain Spectrum

r_bb = bb * one
r_plain = plain * one
if not np.allclose(r_bb.wave, bb.wave):
    print('unexpected grid'); sys.exit(0)
pad_zone = (bb.wave < 495) | (bb.wave > 705)
if not np.allclose(r_bb.value, bb.value, rtol=1e-9, atol=0):
    fail.append('(a) bb.value is 0 on 400..490 nm and 710..800 nm, and bb*1-spectrum on the SAME grid\n'
                '    should equal bb.value, but the product there is\n    %r ...\n'
                '    (a plain Spectrum holding the same wave/value arrays gives %r ...)'
                % (r_bb.value[pad_zone][:3], r_plain.value[pad_zone][:3]))

# (b) a blackbody whose stored values were rescaled (radiance -> irradiance for a solid angle)
b2 = Blackbody(w, 5000)
b2.value = b2.value * 1e-6
flat = Spectrum(w, np.ones(w.shape))
r_spec = b2 * flat          # spectrum path
r_scal = b2 * 1.0           # scalar path
if not np.allclose(r_spec.value, b2.value, rtol=1e-9):
    fail.append('(b) blackbody with .value scaled by 1e-6: (b2 * flat_spectrum).value / b2.value = %r, '
                'while (b2 * 1.0).value / b2.value = %r'
                % ((r_spec.value / b2.value)[:3], (r_scal.value / b2.value)[:3]))

# (c) commutativity / same answer in the other order
r_rev = one * bb
if not np.allclose(r_rev.value, bb.value, rtol=1e-9, atol=0):
    fail.append('(c) one * bb also ignores the stored zeros: %r' % (r_rev.value[pad_zone][:3],))

if fail:
    print('VIOLATION: the result of Spectrum arithmetic with a Blackbody operand is not the operation\n'
          'applied to the operand\'s (interpolated) values:')
    print('\n'.join(fail))
    sys.exit(1)
print('ok')
sys.exit(0)
