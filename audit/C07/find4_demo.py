"""C07 finding 4: the plane phasor is silently evaluated in SINGLE precision when the
OPD is a float32 array (or when the amplitude is a float32 array and the OPD a scalar).

plane.py line 462:  amp*np.exp(2*np.pi*1j*opd/wavefront.wavelength)
`2*np.pi*1j*opd` with a float32 ndarray is complex64, so the phase 2*pi*opd/wavelength
and the exponential are computed with ~7 significant digits. The field then differs from
amplitude*exp(2*pi*i*OPD/wavelength) (evaluated for exactly the same OPD values) by
1e-7 .. 1e-4 in relative terms, depending on the number of waves of OPD - far more
than rounding at the 1e-12 level, and different from what the same numbers give when
stored as float64. OPD maps read from FITS files are very commonly float32.
"""
import os
import sys

sys.path.insert(0, os.environ.get('LENTIL_REPO', '.'))

import numpy as np
import lentil

wl = 5e-7
rng = np.random.default_rng(0)
fail = False
tol = 1e-10

for scale in (1e-6, 1e-5, 1e-4):
    opd32 = (rng.uniform(-1, 1, size=(16, 16)) * scale).astype(np.float32)
    opd64 = opd32.astype(np.float64)              # exactly the same numbers
    assert np.array_equal(opd32, opd64)
    ref = np.exp(2j * np.pi * opd64 / wl)
    amp = np.ones((16, 16))
    f32 = (lentil.Plane(amplitude=amp, opd=opd32) * lentil.Wavefront(wl)).field
    f64 = (lentil.Plane(amplitude=amp, opd=opd64) * lentil.Wavefront(wl)).field
    e32 = np.max(np.abs(f32 - ref))
    e64 = np.max(np.abs(f64 - ref))
    print(f'|OPD| <= {scale:g} m: max|field-ref| float32 OPD = {e32:.3g}   '
          f'float64 OPD (same values) = {e64:.3g}')
    if e32 > tol:
        fail = True

# float32 amplitude with scalar OPD
a32 = rng.uniform(0.1, 1, size=(8, 8)).astype(np.float32)
f = (lentil.Plane(amplitude=a32, opd=1e-7) * lentil.Wavefront(wl)).field
ref = a32.astype(np.float64) * np.exp(2j * np.pi * 1e-7 / wl)
e = np.max(np.abs(f - ref) / np.abs(ref))
print(f'float32 amplitude, scalar OPD: max relative error = {e:.3g}')
if e > tol:
    fail = True

if fail:
    print('VIOLATION - field != amplitude*exp(2*pi*i*OPD/wavelength): the phasor was '
          'computed in complex64')
sys.exit(1 if fail else 0)
