------------------------------- MODULE MC_Path -------------------------------
(* Evaluates Path.tla on a case file: every case is a path (sequence of elements) and an upstream emission; the state of    *)
(* the path machine after every element is emitted and the path theorems are invariants on every case.                       *)
EXTENDS Path, Json, IOUtils
Cases == JsonDeserialize(IOEnv.CASES)
VARIABLE i
Init == i = 0
Next == i < Len(Cases) /\ i' = i + 1
Spec == Init /\ [][Next]_i

Show(q) == IF q.k = "s" THEN [k |-> "s", v |-> <<q.v>>, w |-> <<>>, e |-> 0] ELSE [k |-> "sp", v |-> q.s.v, w |-> q.s.w, e |-> q.s.e]
Emit == i > 0 => LET c == Cases[i] IN
    PrintT(<<"EMIT", ToJson([id |-> c.id,
                             T |-> [n \in 1..Len(c.path) |-> Show(PathT(c.path, n))],
                             E |-> [n \in 1..Len(c.path) |-> Show(PathE(c.path, c.e0, n))]])>>)
Theorems == i > 0 => LET c == Cases[i] IN
    /\ Bounded(c.path) /\ NonNeg(c.path, c.e0) /\ ClosedForm(c.path, c.e0) /\ Commutes(c.path)
=============================================================================
