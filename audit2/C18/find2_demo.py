"""C18 finding 2: shot_noise(method='poisson') (the default) accepts signals up to 9.22e18
counts but for signals above ~3e13 the draws no longer have variance equal to the signal
(40-70 % too large from 1e16 upward, with outliers tens to hundreds of sigma away), while
method='gaussian' on the same input is exact."""
import os, sys
sys.path.insert(0, os.environ.get('LENTIL_REPO', '.'))
import numpy as np
import lentil
from lentil.detector import shot_noise

print('lentil from', lentil.__file__, ' numpy', np.__version__)
shape = (500, 800)                      # 400 000 pixels, not square
n = shape[0] * shape[1]
fail = False
print('%-8s %-9s %5s  %10s %10s %9s %9s' % ('signal', 'method', 'seed', 'z(mean)', 'var/signal', 'kurtosis', 'max|dev|/sigma'))
for lam in (1e6, 1e12, 3e14, 1e16, 1e18, 9e18):
    for method in ('poisson', 'gaussian'):
        for seed in (1, 2):
            x = shot_noise(np.full(shape, lam), method=method, seed=seed)
            assert x.shape == shape and np.all(x >= 0) and np.all(x == np.floor(x))
            assert np.array_equal(x, shot_noise(np.full(shape, lam), method=method, seed=seed))
            d = (x - lam) / np.sqrt(lam)          # standardised deviation (exact in float64 up to rounding << sigma)
            zmean = d.mean() * np.sqrt(n)
            v = np.mean(d**2)                      # variance / signal, should be 1
            kurt = np.mean(d**4) / v**2
            # standard error of v for a (near) normal population is sqrt(2/n) = 0.0022; allow 8 of them
            bad = abs(v - 1) > 8 * np.sqrt(2.0 / n) or abs(zmean) > 6
            print('%-8g %-9s %5d  %10.2f %10.4f %9.2f %9.1f  %s' % (lam, method, seed, zmean, v, kurt, np.abs(d).max(), 'VIOLATION' if bad else 'ok'))
            fail |= bad
if fail:
    print('\nFAIL: Poisson shot noise at accepted signal levels >~ 3e13 does not have variance equal to '
          'the signal (the sampler behind rng.poisson loses its acceptance test to cancellation); '
          'lentil accepts these signals up to 9.223372006484771e18 and documents only that bound.')
    sys.exit(1)
print('no violation observed')
sys.exit(0)
