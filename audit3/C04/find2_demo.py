"""C04 finding 2: an OPD ramp stored as float32 is applied in single precision.

Plane.multiply builds the phasor with
    np.exp(2*np.pi*1j*opd/wavefront.wavelength)
and for a float32 OPD array numpy evaluates phase and exponential in
complex64.  A tilt ramp is many waves of OPD, so the float32 phase (hundreds of
radians) is only good to ~1e-5 rad.  The same tilt carried as metadata
(fit_tilt, which promotes to float64, or a Tilt plane) is applied in double
precision, so the two representations of the SAME tilt give fields that differ
by ~1e-5 of the peak instead of ~1e-15.
"""
import os
import sys

sys.path.insert(0, os.environ.get('LENTIL_REPO', '.'))

import numpy as np
import lentil


def coverage(w):
    cov = np.zeros(w.shape)
    for f in w.data:
        one = lentil.field.Field(np.ones(f.shape), offset=f.offset)
        cov += lentil.field.insert(one, np.zeros(w.shape, dtype=complex)).real
    return cov


def diff(a, b):
    both = (coverage(a) == 1) & (coverage(b) == 1)
    fa, fb = a.field, b.field
    return float(np.abs(fa - fb)[both].max() / max(np.abs(fa).max(), np.abs(fb).max())), int(both.sum())


if __name__ == '__main__':
    wl, fl = 650e-9, 10.
    shape, dx = (64, 64), 1 / 64
    amp = lentil.circle(shape, 30, antialias=False)
    r, c = lentil.helper.mesh(shape)
    tx, ty = 3e-5, -2e-5                                   # 60 / 40 oversampled output samples
    opd32 = (tx * r * dx - ty * c * dx).astype(np.float32)  # e.g. an OPD map read from a BITPIX=-32 FITS file
    opd64 = opd32.astype(np.float64)                       # exactly the same OPD values
    assert np.array_equal(opd32, opd64)

    p32 = lentil.Pupil(amplitude=amp, opd=opd32, pixelscale=dx, focal_length=fl)
    p64 = lentil.Pupil(amplitude=amp, opd=opd64, pixelscale=dx, focal_length=fl)
    kw = dict(pixelscale=5e-6, shape=128, oversample=1)

    f_ramp32 = lentil.propagate_dft(lentil.Wavefront(wl) * p32, **kw)
    f_ramp64 = lentil.propagate_dft(lentil.Wavefront(wl) * p64, **kw)
    f_fit32 = lentil.propagate_dft(lentil.Wavefront(wl) * p32.fit_tilt(), **kw)
    f_fit64 = lentil.propagate_dft(lentil.Wavefront(wl) * p64.fit_tilt(), **kw)

    # the pupil-plane phasors themselves (before any propagation)
    ph32 = (lentil.Wavefront(wl) * p32).data[0].data
    ph64 = (lentil.Wavefront(wl) * p64).data[0].data
    print(f'pupil-plane phasor, float32 OPD vs same values as float64: max abs diff {np.abs(ph32 - ph64).max():.3e}')

    e_ctrl, n0 = diff(f_ramp64, f_fit64)
    e_same, n1 = diff(f_ramp32, f_ramp64)
    e_fit, n2 = diff(f_ramp32, f_fit32)
    e_fit2, n3 = diff(f_fit32, f_fit64)
    print(f'control  float64 OPD ramp     vs its fit_tilt()          : {e_ctrl:.3e}  ({n0} common samples)')
    print(f'float32 OPD ramp  vs the same values as float64          : {e_same:.3e}  ({n1} common samples)')
    print(f'float32 OPD ramp  vs fit_tilt() of that same plane       : {e_fit:.3e}  ({n2} common samples)')
    print(f'fit_tilt() of the float32 plane vs of the float64 plane  : {e_fit2:.3e}  ({n3} common samples)')

    if e_fit > 1e-9 or e_same > 1e-9:
        print('VIOLATION: the tilt held as a float32 OPD ramp and the same tilt extracted by '
              'fit_tilt (or the identical OPD values held as float64) do not give the same '
              'complex field: the phasor of a float32 OPD is evaluated in complex64.')
        sys.exit(1)
    print('no violation observed')
    sys.exit(0)
