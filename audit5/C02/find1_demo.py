"""C02 finding 1: the sampling alpha is rounded to single precision when the wavefront's
wavelength and focal length are both numpy float32 scalars.

propagate_dft must evaluate alpha = dx*du/(wavelength*focal_length*oversample) from the
values it is given.  A float32 scalar converts to a python float exactly, so the
propagation of (np.float32 wavelength, np.float32 focal length) must agree, to rounding
(1e-12), with the propagation of (float(wavelength), float(focal_length)) and with the
Fraunhofer sum evaluated in double precision.  It agrees only to ~1e-7.
"""
import os
import sys

sys.path.insert(0, os.environ.get('LENTIL_REPO', '.'))
import numpy as np
import lentil

print('lentil from', lentil.__file__)


def fraunhofer(f, alpha, out_shape):
    m, n = f.shape
    M, N = out_shape
    R = np.arange(m) - m//2
    S = np.arange(n) - n//2
    U = np.arange(M) - M//2
    V = np.arange(N) - N//2
    E1 = np.exp(-2j*np.pi*alpha[0]*np.outer(U, R))
    E2 = np.exp(-2j*np.pi*alpha[1]*np.outer(S, V))
    return (E1 @ f @ E2) * np.sqrt(alpha[0]*alpha[1])


rng = np.random.default_rng(0)
n = 64
amp = rng.random((n, n))
opd = rng.normal(size=(n, n)) * 5e-8
dx, du, oversample, shape = 1e-3, 5e-6, 3, (96, 96)

# e.g. one entry of a float32 wavelength grid and a focal length read from a float32 table
wl32 = np.array([6.5e-7], dtype=np.float32)[0]
fl32 = np.array([3.3], dtype=np.float32)[0]


def run(wl, fl):
    pupil = lentil.Pupil(amplitude=amp, opd=opd, pixelscale=dx, focal_length=fl)
    w = lentil.Wavefront(wl) * pupil
    return lentil.propagate_dft(w, pixelscale=du, shape=shape, oversample=oversample)


o32 = run(wl32, fl32)                   # numpy float32 scalars
o64 = run(float(wl32), float(fl32))     # exactly the same two numbers, as python floats

alpha = dx*du/(float(wl32)*float(fl32)*oversample)
F = fraunhofer(amp*np.exp(2j*np.pi*opd/float(wl32)), (alpha, alpha),
               (shape[0]*oversample, shape[1]*oversample))
scale = np.abs(F).max()

err64 = np.abs(o64.field - F).max()/scale
err32 = np.abs(o32.field - F).max()/scale
print(f'python-float wavelength/focal length : max |error| / max|F| = {err64:.3e}')
print(f'np.float32   wavelength/focal length : max |error| / max|F| = {err32:.3e}')
print('alpha used with float32 scalars      :', lentil.propagate._dft_alpha((dx, dx), (du, du), wl32, fl32, oversample)[0])
print('alpha = dx*du/(wl*f*oversample)      :', alpha)

if err64 > 1e-10:
    print('unexpected: the double precision route itself disagrees with the reference')
    sys.exit(2)

if err32 > 1e-10:
    print('VIOLATION: with a float32 wavelength and a float32 focal length the product '
          'wavelength*focal_length is rounded to 24 bits before alpha is formed; the '
          'output samples are not the Fraunhofer sum at alpha = dx*du/(wavelength*f*oversample).')
    sys.exit(1)

print('no violation observed')
sys.exit(0)
