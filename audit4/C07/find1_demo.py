"""C07 finding 1: a plane with a single precision (float32/float16) amplitude or mask
and a SCALAR non-zero OPD (a piston) multiplies the field by a phasor that has been
rounded to single precision (complex64): the field differs by ~3e-8 (relative) from
amplitude*exp(2*pi*i*OPD/wavelength), and from what the very same plane gives when
its amplitude/mask is stored as float64.
"""
import os
import sys

sys.path.insert(0, os.environ.get('LENTIL_REPO', '.'))

import numpy as np
import lentil

print('lentil from', lentil.__file__, '| numpy', np.__version__)

wavelength = 500e-9
piston = 5.50532016e-08          # scalar OPD in metres
support = np.zeros((16, 16))
support[3:13, 4:12] = 1          # values 0 and 1: exactly representable in any float type

expected = support * np.exp(2j * np.pi * piston / wavelength)

worst = 0.0
failed = []
for label, kwargs in [
    ('amplitude float32, opd scalar', dict(amplitude=support.astype(np.float32), opd=piston)),
    ('mask float32, amplitude default, opd scalar', dict(mask=support.astype(np.float32), opd=piston)),
    ('amplitude float16, opd scalar', dict(amplitude=support.astype(np.float16), opd=piston)),
    ('amplitude float64, opd scalar (control)', dict(amplitude=support.astype(np.float64), opd=piston)),
    ('amplitude float32, opd float64 map of the same value (control)',
     dict(amplitude=support.astype(np.float32), opd=np.full(support.shape, piston))),
]:
    w = lentil.Wavefront(wavelength) * lentil.Plane(**kwargs)
    err = np.max(np.abs(w.field - expected))
    ierr = np.max(np.abs(w.intensity - np.abs(expected)**2))
    print(f'{label:65s} max|field - amp*exp(2 pi i opd/wl)| = {err:.3e}   intensity error = {ierr:.3e}')
    if 'control' not in label:
        worst = max(worst, err)
        if err > 1e-12:
            failed.append(label)

if failed:
    print()
    print('VIOLATION: inside the mask the field is not amplitude*exp(+2*pi*i*OPD/wavelength):')
    print(f'  the phasor of a scalar OPD was evaluated/rounded in single precision (error {worst:.2e},')
    print('  1e4 times the double precision rounding level) because the amplitude or the mask')
    print('  is stored in single (or half) precision. The float64 controls are exact.')
    sys.exit(1)

print('no violation observed')
sys.exit(0)
