"""propagate_fft silently crops a pupil that is larger than the FFT grid.

When 1/alpha = wavelength*focal_length*oversample/(dx*du) is smaller than the
number of samples across the input plane, propagate_fft pads (=crops) the input
field to the FFT grid, dropping every input sample outside the central
fft_shape window.  The values it returns are then the Fraunhofer sum of the
*cropped* pupil, not of the input-plane field.  propagate_dft, called with the
same arguments, returns the correct sum.
"""
import os, sys
sys.path.insert(0, os.environ['LENTIL_REPO'])
import numpy as np
import lentil

assert os.path.realpath(lentil.__file__).startswith(os.path.realpath(os.environ['LENTIL_REPO']))

# 50 mm aperture sampled by 32x32, f = 100 mm (F/2), 0.5 um, 4 um pixels,
# oversample 2  ->  1/alpha = 16 exactly on both axes (no wavelength re-fit).
m = 32
wl, z, osmp = 0.5e-6, 0.1, 2
dx = 0.05 / m
du = 4e-6
rng = np.random.default_rng(0)
amp = lentil.circle((m, m), m // 2 - 1) * (0.5 + rng.random((m, m)))
opd = 30e-9 * rng.normal(size=(m, m))

pupil = lentil.Pupil(amplitude=amp, opd=opd, pixelscale=dx, focal_length=z)
w = lentil.Wavefront(wl) * pupil
fin = amp * np.exp(2j * np.pi * opd / wl)
assert np.allclose(w.field, fin)

shape = 6                         # 12 x 12 oversampled output samples
out = lentil.propagate_fft(w, pixelscale=du, shape=shape, oversample=osmp)
got = out.field
M = shape * osmp

# the Fraunhofer sum, at the wavelength the result carries
lam = out.wavelength
alpha = dx * du / (lam * z * osmp)
x = np.arange(m) - m // 2
u = np.arange(M) - M // 2
E = np.exp(-2j * np.pi * alpha * np.outer(u, x))
ref = alpha * (E @ fin @ E.T)

# what the library actually evaluated: the pupil cropped to the 16x16 FFT grid
K = int(round(1 / alpha))
crop = lentil.pad(fin, (K, K))
xc = np.arange(K) - K // 2
Ec = np.exp(-2j * np.pi * alpha * np.outer(u, xc))
ref_crop = alpha * (Ec @ crop @ Ec.T)

dft = lentil.propagate_dft(w, pixelscale=du, shape=shape, oversample=osmp).field

err = np.abs(got - ref).max() / np.abs(ref).max()
err_crop = np.abs(got - ref_crop).max() / np.abs(ref).max()
err_dft = np.abs(dft - ref).max() / np.abs(ref).max()
print(f'input plane {m}x{m}, 1/alpha = {1/alpha:.12f} (FFT grid {K}x{K}), '
      f'reported wavelength {lam!r} (input {wl!r})')
print(f'propagate_fft vs Fraunhofer sum of the input field : max rel. err {err:.3e}')
print(f'propagate_fft vs Fraunhofer sum of the CROPPED field: max rel. err {err_crop:.3e}')
print(f'propagate_dft vs Fraunhofer sum of the input field : max rel. err {err_dft:.3e}')
print(f'power in input field {np.sum(np.abs(fin)**2):.3f}, in the part propagate_fft used '
      f'{np.sum(np.abs(crop)**2):.3f}')

if err > 1e-9:
    print('VIOLATION: propagate_fft does not return the Fraunhofer sum of the input-plane '
          'field: input samples outside the central FFT grid are silently dropped.')
    sys.exit(1)
sys.exit(0)
