"""C07 finding 3: the public planes lentil.Rotate() and lentil.Flip(), built with their
default attributes (amplitude 1, OPD 0, no mask; Rotate's default angle is 0, i.e. the
identity), cannot be multiplied with ANY wavefront: Rotate.multiply and Flip.multiply call
functions that do not exist (lentil.field.multiply_pixelscale, Wavefront(planetype=...,
shape=..., data=...), Wavefront.copy) and die with AttributeError instead of leaving the
wavefront unchanged.
"""
import os
import sys

sys.path.insert(0, os.environ.get('LENTIL_REPO', '.'))

import numpy as np
import lentil

print('lentil from', lentil.__file__)

wavelength = 500e-9
amp = np.zeros((16, 16))
amp[3:13, 4:12] = 1
opd = np.random.default_rng(0).normal(size=amp.shape) * 1e-7

bad = []
for make in (lambda: lentil.Wavefront(wavelength),
             lambda: lentil.Wavefront(wavelength) * lentil.Plane(amplitude=amp, opd=opd)):
    for plane in (lentil.Plane(), lentil.Rotate(), lentil.Flip()):
        w = make()
        before = w.field.copy()
        try:
            after = (w * plane).field
        except Exception as exc:   # noqa
            print(f'{plane!r:10} on a wavefront of shape {w.shape}: {type(exc).__name__}: {exc}')
            bad.append(repr(plane))
            continue
        same = np.array_equal(before, after)
        print(f'{plane!r:10} on a wavefront of shape {w.shape}: field unchanged = {same}')
        if isinstance(plane, lentil.Rotate) and not same:
            bad.append(repr(plane))

if bad:
    print()
    print('VIOLATION: a plane with default attributes must change nothing; Rotate() (angle 0) and')
    print('Flip() raise AttributeError from calls to functions that do not exist in the library.')
    sys.exit(1)

print('no violation observed')
sys.exit(0)
