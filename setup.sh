#!/bin/sh
# Offline setup: nothing to build (pure TLA+ and Python); syntax-check every specification module.
set -e
cd "$(dirname "$0")"
mkdir -p .work evidence replays
/venv/bin/python tools/sany_all.py
