"""C05 finding 2 (borderline): propagate_dft computes the output shape in the dtype
of the `shape` argument.

With shape given as an 8-bit integer array, shape * oversample wraps around, and the
propagation requested on exactly one period silently returns a smaller window whose
total is far from the input power.  propagate_fft, and propagate_dft with the same
shape given as a tuple / int64 array, return the full period and conserve power.
"""
import os
import sys

sys.path.insert(0, os.environ.get('LENTIL_REPO', '.'))

import numpy as np
import lentil

wl, f, dx, osamp = 500e-9, 10.0, 1e-3, 3
amp = lentil.normalize_power(np.ones((8, 8)), 1.0)
w = lentil.Wavefront(wl) * lentil.Pupil(amplitude=amp, pixelscale=dx, focal_length=f)
pin = float(np.sum(np.abs(w.field) ** 2))

shape = (100, 100)                       # 100 * 3 = 300 samples = one period
period = (shape[0] * osamp, shape[1] * osamp)
du = (wl * f * osamp / (dx * period[0]), wl * f * osamp / (dx * period[1]))

failures = []
for label, shp in [('tuple', shape),
                   ('int64 array', np.array(shape, dtype=np.int64)),
                   ('uint8 array', np.array(shape, dtype=np.uint8)),
                   ('int8 array', np.array(shape, dtype=np.int8))]:
    out = lentil.propagate_dft(w, du, shape=shp, oversample=osamp)
    img = out.intensity
    total = float(img.sum())
    print(f'propagate_dft shape={label:12s}: output shape {img.shape}, total/input = {total / pin:.12g}')
    if tuple(img.shape) != period or abs(total - pin) > 1e-9 * pin:
        failures.append(f'shape as {label}: requested one period {period}, got output shape '
                        f'{tuple(img.shape)} with total {total / pin:.6g} of the input power')

if failures:
    print('VIOLATION (C05, clause 1: the output grid requested spans exactly one period):')
    for msg in failures:
        print('  -', msg)
    sys.exit(1)
print('no violation observed')
sys.exit(0)
