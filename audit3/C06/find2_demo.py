"""C06 finding 2: reduce()/overlap() recurse once per merged pair, so a collection
with ~1000 or more mutually overlapping fields ends in RecursionError instead of
the reduced (disjoint, same-total) collection."""
import os, sys
sys.path.insert(0, os.environ.get('LENTIL_REPO', '.'))
import numpy as np
import lentil
from lentil.field import Field, insert, reduce, overlap

def total(fields, shape=(6, 1300)):
    out = np.zeros(shape, dtype=complex)
    for f in fields:
        insert(f, out)
    return out

fail = []
for n in (3, 500, 1200):
    # n small 2x2 fields, each overlapping its neighbour by one column
    fields = [Field(np.full((2, 2), 1.0 + k), offset=[0, k - n // 2]) for k in range(n)]
    try:
        red = reduce(fields)
    except RecursionError as e:
        fail.append('reduce of %d overlapping 2x2 fields: RecursionError (%s)' % (n, e))
        continue
    ok = np.allclose(total(red), total(fields)) and len(red) == 1
    print('n = %4d: reduce -> %d field(s) of shape %s, same total: %s'
          % (n, len(red), red[0].shape, ok))
    if not ok:
        fail.append('reduce of %d fields: wrong result' % n)

fields = [Field(np.ones((2, 2)), offset=[0, k]) for k in range(1200)]
try:
    overlap(fields)
except RecursionError as e:
    fail.append('overlap of 1200 overlapping fields: RecursionError')

if fail:
    print('VIOLATION (lentil at %s, recursion limit %d):'
          % (os.path.dirname(lentil.__file__), sys.getrecursionlimit()))
    for f in fail:
        print(' -', f)
    sys.exit(1)
print('ok')
sys.exit(0)
