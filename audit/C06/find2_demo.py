"""C06 finding 2: a (1, 1)-shaped field is embedded as an infinite constant by the
product but as a single located sample by insert / merge / reduce.

For fields that lie entirely inside the target array, the property implies
    insert(a * b, zeros) == insert(a, zeros) * insert(b, zeros)   (pointwise)
whatever the embedding is, because both sides are the restriction of
embed(a) * embed(b) to the array.  With a one-element (1, 1) field this fails.
"""
import os, sys
sys.path.insert(0, os.environ.get('LENTIL_REPO', '.'))
import numpy as np
import lentil
from lentil.field import Field
import lentil.field

bad = []
p = Field(np.full((1, 1), 2.0), offset=[0, 0])
A = Field(np.ones((3, 3)), offset=[0, 0])
z = lambda: np.zeros((5, 5), dtype=complex)

lhs = lentil.field.insert(p * A, z())
rhs = lentil.field.insert(p, z()) * lentil.field.insert(A, z())
if not np.allclose(lhs, rhs):
    bad.append('insert(p*A) != insert(p) * insert(A):\n' +
               f'insert(p*A).real =\n{lhs.real}\ninsert(p).real * insert(A).real =\n{rhs.real}')

# the property's own reading: a one-element field is an infinite constant
ins = lentil.field.insert(p, z())
if not np.allclose(ins, 2):
    bad.append(f'insert of the one-element field 2 into zeros((5,5)) changes '
               f'{int((ins != 0).sum())} of 25 samples; as an infinite constant it covers all 25')

# also located at an offset: the product ignores where the (1,1) field is
q = Field(np.full((1, 1), 2.0), offset=[10, 10])
c = q * A
if c.size and np.allclose(c.data, 2) and not lentil.field.overlap((q, A)):
    bad.append('overlap((q, A)) is False (q is one sample at (10,10), A covers -1..1) '
               'yet q*A is 2 on all of A')

# end to end: a single-pixel mask times a full 8x8 aperture lights the whole aperture
mask = np.zeros((8, 8)); mask[4, 4] = 1
p1 = lentil.Pupil(amplitude=1, mask=mask, pixelscale=1, focal_length=10)
p2 = lentil.Pupil(amplitude=np.ones((8, 8)), pixelscale=1, focal_length=10)
w1 = lentil.Wavefront(500e-9) * p1
w2 = w1 * p2
n1, n2 = int((np.abs(w1.field) > 0).sum()), int((np.abs(w2.field) > 0).sum())
if n1 != n2:
    bad.append(f'(Wavefront * single-pixel Pupil).field has {n1} lit sample(s); after '
               f'multiplying by an all-ones 8x8 Pupil it has {n2}')

if bad:
    print('C06 VIOLATED (one-element (1,1) field: product and insert use different embeddings):')
    for b in bad:
        print('  -', b)
    sys.exit(1)
print('ok')
sys.exit(0)
