"""C15 finding 5: trapezoid integration is not linear in the values for boolean or
narrow unsigned/signed integer value arrays."""
import os, sys
sys.path.insert(0, os.environ['LENTIL_REPO'])
import numpy as np
from lentil.radiometry import Spectrum

bad = []
wave = np.arange(400, 701, 100.)
cases = {
    'bool  [T,T,T,T]': np.array([True, True, True, True]),
    'uint8 [200]*4': np.array([200, 200, 200, 200], dtype=np.uint8),
    'int8  [100]*4': np.array([100, 100, 100, 100], dtype=np.int8),
}
for name, v in cases.items():
    s = Spectrum(wave, v)
    ref = Spectrum(wave, v.astype(float)).integrate(method='trapz')    # same numbers as float
    got = s.integrate(method='trapz')
    simps = s.integrate(method='simps')
    if abs(got - ref) > 1e-9*abs(ref):
        bad.append(f"{name}: integrate('trapz') = {got}, the same values as float give {ref} "
                   f"('simps' gives {simps})")
# consequence for power-preserving bins
mask = Spectrum(np.arange(400, 701, 10.), np.ones(31, dtype=bool))
b = mask.bin(np.arange(450, 651, 50.), interp_method='trapz', ends='inside')
if abs(b.sum() - 200) > 1e-9:
    bad.append(f"boolean pass-band of height 1, centres 450..650 (inside): bins sum to {b.sum()}, "
               f"integral over the span is 200")

if bad:
    print("VIOLATION (integrate(method='trapz') depends on the dtype of the values):")
    for x in bad:
        print(" -", x)
    sys.exit(1)
print("ok")
