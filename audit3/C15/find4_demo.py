"""C15 finding 4: Spectrum.bin returns NEGATIVE bins for a strictly positive spectrum when the
bin centres are listed in decreasing order and preserve_power=False (with preserve_power=True
the sign cancels and the very same call returns the correct positive values)."""
import os
import sys

sys.path.insert(0, os.environ.get('LENTIL_REPO', '.'))

import numpy as np
import lentil
from lentil.radiometry import Spectrum

print('lentil from', lentil.__file__)

wave = np.arange(400., 701., 10.)
s = Spectrum(wave, np.linspace(1., 4., wave.size))        # strictly positive, linear

up = np.array([450., 500., 550., 600.])
down = up[::-1]

bad = False
for method in ('trapz', 'simps'):
    for ends in ('symmetric', 'inside'):
        ref = s.bin(up, interp_method=method, ends=ends, preserve_power=False)
        got = s.bin(down, interp_method=method, ends=ends, preserve_power=False)
        got_pp = s.bin(down, interp_method=method, ends=ends, preserve_power=True)
        print(f'{method:5s} {ends:9s} increasing centres      : {ref}')
        print(f'{"":15s} decreasing, preserve_power=F: {got}')
        print(f'{"":15s} decreasing, preserve_power=T: {got_pp}')
        if np.any(got < 0):
            bad = True

if bad:
    print('\nVIOLATION: bins of a strictly positive spectrum are negative (each is exactly minus '
          'the correct value) when the centres are given in decreasing order and '
          'preserve_power=False.')
    sys.exit(1)
sys.exit(0)
