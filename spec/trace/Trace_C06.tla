----------------------------- MODULE Trace_C06 -----------------------------
(* Trace validation for Field bookkeeping (C06, direction code -> spec): sessions of multiply / merge /  *)
(* reduce / insert on real lentil Field objects whose results feed later operations.  Every event lists *)
(* its operand fields and result field(s) as [sh, off, d] with Gaussian-integer data; TLC recomputes the *)
(* embedding semantics of FieldAlg.tla on the window that contains everything and compares.              *)
EXTENDS FieldAlg, Json, IOUtils
Trace == JsonDeserialize(IOEnv.TRACE_FILE)
VARIABLES i, bad
vars == <<i, bad>>

AllPix(fs) == ExtPix(WindowOf(fs, 1))
SameOn(F(_), G(_), P) == \A p \in P : F(p) = G(p)
Disjoint(fs) == \A a, b \in 1..Len(fs) : a < b => (IsConst(fs[a]) \/ IsConst(fs[b]) \/ FPix(fs[a]) \cap FPix(fs[b]) = {})

Check(e) ==
    CASE e.act = "mul" ->
            LET P == AllPix(<<e.a, e.b>> \o e.out) IN
            IF Len(e.out) = 0 THEN (IF \E p \in P : MulAt(e.a, e.b, p) # GZero THEN {"mul-lost"} ELSE {})
            ELSE IF ~SameOn(LAMBDA p : MulAt(e.a, e.b, p), LAMBDA p : Embed(e.out[1], p), P) THEN {"mul-value"} ELSE {}
      [] e.act = "merge" ->
            LET P == AllPix(e.ins \o e.out) IN
            IF ~SameOn(LAMBDA p : SumAt(e.ins, p), LAMBDA p : Embed(e.out[1], p), P) THEN {"merge-value"} ELSE {}
      [] e.act = "reduce" ->
            LET P == AllPix(e.ins \o e.out) IN
            (IF ~SameOn(LAMBDA p : SumAt(e.ins, p), LAMBDA p : SumAt(e.out, p), P) THEN {"reduce-total"} ELSE {})
            \cup (IF ~Disjoint(e.out) THEN {"reduce-overlap"} ELSE {})
      [] e.act = "insert" ->
            IF e.after # InsertSem(e.f, e.tsh, e.before, e.weight, e.intensity) THEN {"insert-value"} ELSE {}

RECURSIVE SetToSeq(_)
SetToSeq(S) == IF S = {} THEN <<>> ELSE LET x == CHOOSE y \in S : TRUE IN <<x>> \o SetToSeq(S \ {x})
Init == i = 0 /\ bad = <<>>
Next == /\ i < Len(Trace)
        /\ i' = i + 1
        /\ LET f == Check(Trace[i + 1]) IN
           bad' = IF f = {} THEN bad ELSE Append(bad, <<Trace[i + 1].id, SetToSeq(f)>>)
Spec == Init /\ [][Next]_vars
Report == (i = Len(Trace)) => PrintT(<<"EMIT", ToJson([n |-> i, bad |-> bad])>>)
Consumed == TLCGet("stats").diameter = Len(Trace) + 1
=============================================================================
