--------------------------------- MODULE Rng ---------------------------------
(* Stochastic models of lentil (property C18) as a trace specification.                               *)
(* A seeded model is a FUNCTION of (arguments, seed): the history variable `memo` remembers the result *)
(* digest of every (callable, arguments, seed) seen, `seen` remembers which seeds produced which digest *)
(* for the same arguments (different seeds must give different draws), and the global generator of     *)
(* numpy is state that only the unseeded cosmic-ray model may touch.  What a draw must look like        *)
(* (support, exact clauses) is tabulated per callable; the recorder evaluates the predicates on the     *)
(* returned frame and the trace specification demands them.                                             *)
EXTENDS Naturals, Sequences, FiniteSets, TLC, Json, IOUtils

Trace == JsonDeserialize(IOEnv.TRACE_FILE)

\* required observations per callable and situation
Required(e) ==
    CASE e.f = "shot_noise" -> IF e.expect = "reject" THEN {"rejected"} ELSE {"shape", "integer", "nonneg", "moments"}
      [] e.f = "read_noise" -> {"shape", "finite", "moments"}
      [] e.f = "dark_current" -> IF e.expect = "nofpn" THEN {"shape", "floor_rate"} ELSE {"shape", "integer", "nonneg"}
      [] e.f = "rule07_dark_current" -> {"shape", "integer", "nonneg"}
      [] e.f = "power_spectrum" -> {"shape", "zero_outside_mask", "rms_exact", "finite"}
      [] e.f = "cosmic_rays" -> {"shape", "finite", "nonneg"}
Seeded(e) == e.f # "cosmic_rays"

VARIABLES i, memo, seen, bad
vars == <<i, memo, seen, bad>>

Clauses(e) ==
    LET missing == {p \in Required(e) : ~(p \in DOMAIN e.obs /\ e.obs[p])}
        k == <<e.f, e.key, e.seed>>
    IN  {<<"Support", p>> : p \in missing}
        \cup (IF Seeded(e) /\ e.rng[1] # e.rng[2] THEN {<<"RngIsolation", "global generator advanced">>} ELSE {})
        \cup (IF Seeded(e) /\ k \in DOMAIN memo /\ memo[k] # e.res THEN {<<"SeedDeterminism", "same seed, different draw">>} ELSE {})
        \cup (IF Seeded(e) /\ e.expect # "reject" /\ e.sensitive /\
                 (\E s \in DOMAIN seen : s[1] = e.f /\ s[2] = e.key /\ s[3] # e.seed /\ seen[s] = e.res)
              THEN {<<"SeedSensitivity", "different seeds, same draw">>} ELSE {})

RECURSIVE SetToSeq(_)
SetToSeq(S) == IF S = {} THEN <<>> ELSE LET x == CHOOSE y \in S : TRUE IN <<x>> \o SetToSeq(S \ {x})

Init == i = 0 /\ memo = [k \in {} |-> ""] /\ seen = [k \in {} |-> ""] /\ bad = <<>>
Next == /\ i < Len(Trace)
        /\ i' = i + 1
        /\ LET e == Trace[i + 1]
               cl == Clauses(e)
               k == <<e.f, e.key, e.seed>> IN
           /\ bad' = IF cl = {} THEN bad ELSE Append(bad, <<e.id, SetToSeq(cl)>>)
           /\ memo' = IF Seeded(e) /\ k \notin DOMAIN memo THEN [x \in DOMAIN memo \cup {k} |-> IF x = k THEN e.res ELSE memo[x]] ELSE memo
           /\ seen' = IF Seeded(e) /\ k \notin DOMAIN seen THEN [x \in DOMAIN seen \cup {k} |-> IF x = k THEN e.res ELSE seen[x]] ELSE seen
Spec == Init /\ [][Next]_vars
Report == (i = Len(Trace)) => PrintT(<<"EMIT", ToJson([n |-> i, keys |-> Cardinality(DOMAIN memo), bad |-> bad])>>)
Consumed == TLCGet("stats").diameter = Len(Trace) + 1
=============================================================================
