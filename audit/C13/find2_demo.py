"""C13 finding 2: operations with scalars are refused for every scalar that is not a
Python int/float (or a subclass such as numpy.float64): numpy integer scalars,
numpy.float32/float16 scalars and complex scalars raise TypeError, on either side of the
operator, although the same number as a Python float or as a 0-d/1-element array works."""
import os
import sys

sys.path.insert(0, os.environ['LENTIL_REPO'])

import numpy as np
from lentil.radiometry import Spectrum

s = Spectrum([400., 500., 600., 700.], [1., 2., 3., 4.])
counts = np.array([2, 3, 4])           # e.g. a number of mirrors, detector gain table ...
gain32 = np.float32(0.5)

scalars = [('numpy.int64 (element of an int array)', counts[0]),
           ('numpy.int32', np.int32(2)),
           ('numpy.uint8', np.uint8(2)),
           ('numpy.float32', gain32),
           ('numpy.float16', np.float16(0.5)),
           ('python complex', 2j),
           ('numpy.complex128', np.complex128(2j)),
           ('numpy.bool_', np.True_)]
ops = [('s * x', lambda x: s*x), ('x * s', lambda x: x*s), ('s + x', lambda x: s+x),
       ('x + s', lambda x: x+s), ('s - x', lambda x: s-x), ('s / x', lambda x: s/x),
       ('s ** x', lambda x: s**x)]

# control: the very same numbers as Python scalars are accepted
ref = s*2
assert np.array_equal(ref.wave, s.wave) and np.array_equal(ref.value, [2., 4., 6., 8.])
assert np.array_equal((s*np.float64(2)).value, ref.value)
assert np.array_equal((s*np.array(2)).value, ref.value)     # 0-d int64 ARRAY is accepted

fail = []
for name, x in scalars:
    for oname, op in ops:
        try:
            r = op(x)
        except TypeError as e:
            fail.append('%-40s %-7s -> TypeError: %s' % (name, oname, e))
            continue
        if not (isinstance(r, Spectrum) and np.array_equal(r.wave, s.wave)):
            fail.append('%-40s %-7s -> unexpected result %r' % (name, oname, r))

if fail:
    print('VIOLATION of C13 ("operations with scalars ... act element-wise on the unchanged '
          'wavelength grid"): %d scalar operations are refused' % len(fail))
    for f in fail:
        print('  -', f)
    sys.exit(1)
print('no violation observed')
sys.exit(0)
