"""C16 finding 2: adc casts the saturation capacity to the dtype of the electron
frame before clipping, so the gain is not evaluated at min(e, capacity)."""
import os, sys, warnings
sys.path.insert(0, os.environ.get('LENTIL_REPO', '.'))
import numpy as np
import lentil

print('lentil from', lentil.__file__)
bad = False

# (a) integer electron frame, fractional capacity
e = np.array([[50, 150, 200]])
cap, gain = 100.5, 2.0
exp = np.floor(gain * np.minimum(e, cap))
got = lentil.detector.adc(e, gain, saturation_capacity=cap)
got_f = lentil.detector.adc(e.astype(float), gain, saturation_capacity=cap)
print('(a) int frame  :', got, ' float frame:', got_f, ' expected:', exp)
bad |= not np.array_equal(got, exp)

# (b) polynomial gain, integer frame: 2 DN low
gain_p = [1e-3, 1.0]
cap = 999.9
e = np.array([[500, 5000]], dtype=np.int32)
exp = np.floor(gain_p[0]*np.minimum(e, cap)**2 + gain_p[1]*np.minimum(e, cap))
got = lentil.detector.adc(e, gain_p, saturation_capacity=cap)
print('(b) int frame  :', got, ' expected:', exp)
bad |= not np.array_equal(got, exp)

# (c) half precision frame, integer capacity that float16 cannot hold
e = np.array([[1000., 4000.]], dtype=np.float16)
got = lentil.detector.adc(e, 1, saturation_capacity=3001)
exp = np.floor(np.minimum(e.astype(float), 3001))
print('(c) f16 frame  :', got, ' expected:', exp)
bad |= not np.array_equal(got, exp)

# (d) uint8 frame, capacity above 255: nothing saturates, yet the cast of the
#     capacity to uint8 is attempted (DeprecationWarning on numpy 1.x, OverflowError on numpy 2)
with warnings.catch_warnings(record=True) as w:
    warnings.simplefilter('always')
    try:
        got = lentil.detector.adc(np.array([[5, 200]], dtype=np.uint8), 1, saturation_capacity=1000,
                                  warn_saturate=True)
        print('(d) uint8 frame:', got, ' warnings:', [x.category.__name__ for x in w])
        bad |= len(w) > 0
    except OverflowError as ex:
        print('(d) uint8 frame: OverflowError', ex)
        bad = True

if bad:
    print('VIOLATION: adc does not return floor(gain(min(e, saturation_capacity))): the capacity is '
          'converted to the dtype of the frame when it is written into it')
    sys.exit(1)
print('ok')
sys.exit(0)
