"""C15 finding 6: Spectrum.append ignores the wavelength unit of the appended spectrum."""
import os, sys
sys.path.insert(0, os.environ['LENTIL_REPO'])
import numpy as np
from lentil.radiometry import Spectrum

bad = []
a = Spectrum([400., 500.], [1., 2.], waveunit='nm')
b = Spectrum([6000., 7000.], [3., 4.], waveunit='angstrom')      # = 600 nm, 700 nm
r = a.append(b, copy=True)
if r.waveunit == 'nm' and not np.allclose(r.wave, [400, 500, 600, 700]):
    bad.append(f"nm spectrum + angstrom spectrum (600 nm, 700 nm): wave = {r.wave} {r.waveunit}; "
               f"the appended samples moved from 600/700 nm to 6000/7000 nm")
c = Spectrum([0.6, 0.7], [3., 4.], waveunit='um')                # also 600 nm, 700 nm
try:
    r = a.append(c, copy=True)
    if not np.allclose(r.wave, [400, 500, 600, 700]):
        bad.append(f"nm + um: wave = {r.wave}")
except ValueError as e:
    bad.append(f"nm spectrum + um spectrum (600 nm, 700 nm, entirely above 500 nm) is refused: ValueError({e})")

if bad:
    print("VIOLATION (append mixes wavelength units):")
    for x in bad:
        print(" -", x)
    sys.exit(1)
print("ok")
