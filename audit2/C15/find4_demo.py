"""C15 finding 4: Spectrum.append only works when both spectra have the same
number of samples (or one of them has a single sample)."""
import os, sys
sys.path.insert(0, os.environ.get('LENTIL_REPO', '.'))
import numpy as np
import lentil
from lentil.radiometry import Spectrum

print('lentil from', lentil.__file__)
fail = False
for copy in (False, True):
    a = Spectrum([400., 500., 600.], [1., 2., 3.])
    b = Spectrum([700., 800.], [4., 5.])          # entirely above a
    try:
        r = a.append(b, copy=copy)
        r = r if copy else a
        ok = np.array_equal(r.wave, [400, 500, 600, 700, 800]) and \
            np.array_equal(r.value, [1, 2, 3, 4, 5])
        print(f'copy={copy}: appended ->', r.wave, r.value)
        if not ok:
            fail = True
    except Exception as e:
        print(f'copy={copy}: append of a 2-sample spectrum to a 3-sample spectrum raised', repr(e))
        fail = True

# same data, equal lengths: accepted
a = Spectrum([400., 500., 600.], [1., 2., 3.])
b = Spectrum([700., 800., 900.], [4., 5., 6.])
a.append(b)
print('equal lengths: ', a.wave, a.value)

if fail:
    print('VIOLATION: append of a valid (strictly higher) spectrum fails with a numpy '
          'broadcasting error because the ordering check compares the two wave '
          'arrays element by element')
    sys.exit(1)
sys.exit(0)
