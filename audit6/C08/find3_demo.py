"""C08 finding 3: a Pupil whose (real valued) amplitude is stored as a complex array.  The
plane multiplies and propagates correctly, but after Plane.fit_tilt() the pupil wavefront is
refused by propagate_dft with TypeError - the exception of a plane-type refusal.

exit code 1 + explanation when the violation is observed, 0 otherwise."""
import os, sys
sys.path.insert(0, os.environ['LENTIL_REPO'])
import warnings
import numpy as np
import lentil

warnings.simplefilter('ignore')
assert os.path.realpath(lentil.__file__).startswith(os.path.realpath(os.environ['LENTIL_REPO'])), lentil.__file__

N = 16
amp = lentil.circle((N, N), 6)
opd = 1e-7 * lentil.zernike(amp != 0, 2) + 2e-8 * lentil.zernike(amp != 0, 4)


def run(amplitude, fit):
    p = lentil.Pupil(amplitude=amplitude, opd=opd, pixelscale=1/N, focal_length=10)
    if fit:
        p = p.fit_tilt()
    w = lentil.Wavefront(650e-9) * p
    assert w.ptype == lentil.pupil
    return p, lentil.propagate_dft(w, pixelscale=5e-6, shape=16, oversample=2)


_, ref_nofit = run(amp, fit=False)
_, cplx_nofit = run(amp.astype(complex), fit=False)
# a complex-typed amplitude is multiplied and propagated like its real twin
assert cplx_nofit.ptype == lentil.image and np.allclose(ref_nofit.intensity, cplx_nofit.intensity)

_, ref = run(amp, fit=True)
try:
    p, out = run(amp.astype(complex), fit=True)
except Exception as e:
    p = lentil.Pupil(amplitude=amp.astype(complex), opd=opd, pixelscale=1/N, focal_length=10).fit_tilt()
    print('VIOLATION: none x Pupil -> pupil, but propagation of the pupil wavefront is refused:')
    print(f'    propagate_dft raised {type(e).__name__}: {str(e)[:90]}')
    print(f'    mask dtype {p.mask.dtype}, opd dtype after fit_tilt {p.opd.dtype}, '
          f'fitted Tilt.x = {p.tilt[0].x!r}')
    sys.exit(1)
if out.ptype != lentil.image or not np.allclose(out.intensity, ref.intensity):
    print('VIOLATION: result differs from the real twin', out.ptype)
    sys.exit(1)
print('ok')
sys.exit(0)
