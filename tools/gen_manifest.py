#!/venv/bin/python
"""Regenerates /verif/MANIFEST.json from the table below (single source of truth for the interface)."""
import json
import os

HERE = os.path.dirname(os.path.dirname(os.path.abspath(__file__)))

TITLES = {}
for l in open(os.path.join(HERE, 'properties.jsonl')):
    p = json.loads(l)
    TITLES[p['id']] = p['title']

# id -> (category, text, design_ref, level_note, technique)
CHECKS = {
    'C07': ('model_checking',
            'Programs of 1..3 plane multiplications over every amplitude/OPD/mask representation and pixel-scale combination '
            '(plus default planes, a propagation and an Image plane) are evaluated exactly by TLC on Optics.tla (plane = pointwise '
            'phasor inside its mask, zero outside; metadata rules; refusal of inconsistent pixel scales). On lentil, after every step: '
            'field, intensity vs |field|^2 (spec and own), Wavefront.insert into a dirty target of another shape with a weight, '
            'wavelength, focal length, pixel scale, shape; refused steps must leave both operands byte-identical.',
            'DESIGN.md 5 C07',
            'Trusted: harness/optics.py and embed_centre() for the insert expectation. Programs in which a one-sample Field takes '
            'part are a recorded known finding.',
            'exact pointwise-phasor semantics in TLA+ (TLC), views checked after every step of replayed programs'),
    'C08': ('model_checking',
            'TLC explores PType.tla, whose tables are parsed from /repo/docs at check time, checks closure / refusal / '
            'propagation rule on it, and emits every program of the state graph up to the length bound; each program is '
            'executed on real Wavefront / Plane objects and the ptype or exception after every step is compared with the '
            'specification. Exhaustive over all programs of length <= 3 (quick) / 4 plus random length-7 programs (thorough).',
            'DESIGN.md 5 C08',
            'Trusted: the rst table parser in drivers/c08.py; the sampled 4x4 start planes standing for "a compatible '
            'wavefront". Rotate and Flip are recorded known findings.',
            'TLA+ state machine from the documentation tables, TLC-generated programs replayed into lentil'),
    'C01': ('model_checking',
            'DFT.tla states the transform as its defining double sum in exact cyclotomic arithmetic Z[zeta_N] (Cyclo.tla, '
            'Phi_N verified by TLC). On flagged cases TLC proves ring identities: matrix triple product = double sum, input '
            'offset = embedding, inverse o forward = id under both flags incl. scalar bookkeeping, Parseval. For every case TLC '
            'emits the exact value of every output sample; lentil.fourier.dft2/idft2 are called through the public signature '
            '(independent row/column alpha, quarter-pixel shifts, offsets of either sign, both flags, out=) and compared.',
            'DESIGN.md 5 C01',
            'Trusted: conversion of a ring element to complex128 (float64 roots of unity) and sqrt of the rational norm tag; '
            'tolerance 1e-9*(1+sum|f|). Inverse is checked on full-period geometries only (the statement says no more).',
            'exact Z[zeta_N] evaluation of the defining sum by TLC as oracle; ring theorems model-checked'),
    'C02': ('model_checking',
            'Optics.tla defines propagation on pixel SETS (centred window or mask bounding box, Grid convention) and the value '
            'of every evaluated sample as the unitary Fraunhofer sum in Z[zeta_N] with alpha computed from rational physical '
            'parameters; TLC evaluates seeded programs Wavefront*Pupil -> propagate_dft [-> *Image -> propagate_dft] and lentil '
            'executes them through the public API; field (value inside, exact 0 outside the window), intensity, shape, pixel '
            'scale, wavelength, focal length and ptype are compared after every step.',
            'DESIGN.md 5 C02',
            'Trusted: harness/optics.py (JSON<->lentil objects, ring->complex128). Supports whose bounding box is one sample are '
            'excluded (one-element fields are infinite constants in lentil, recorded under C06/C07).',
            'exact Fraunhofer oracle in TLA+ evaluated by TLC, programs replayed into lentil'),
    'C03': ('model_checking',
            'Optics.tla represents a segmented plane as one beam per segment; TLC checks in the ring that the sum of separately '
            'propagated beams is identical to the propagation of the whole (ThmSegments) and evaluates every scenario exactly. '
            'Scenarios (random supports, all partitions reachable through restricted-growth strings incl. interleaved samples / '
            'overlapping bounding boxes, optional second segmented plane) run on lentil as 3-D mask, flattened 2-D mask and '
            'whole-array processing; field and intensity of each are compared with the exact values.',
            'DESIGN.md 5 C03',
            'Trusted: harness/optics.py. One-sample segments are a recorded known finding.',
            'exact coherent-sum oracle in TLA+ (TLC), three lentil descriptions per scenario'),
    'C04': ('model_checking',
            'Same specification; tilt elements (angular, first-order dispersive) are folded into a displacement in output samples '
            'with exact rationals, fit_tilt is specified through a least-squares precondition that TLC checks (FitPre), and the shift '
            'theorem (ramp in the beam == displaced evaluation) is model-checked in the ring. Scenarios are written in five '
            'representations (OPD ramp, Tilt plane, Wavefront(tilt=), fit_tilt in place / copy), a refit history and every '
            'ordering of three tilt elements; each is compared with the exact field and with the other representations.',
            'DESIGN.md 5 C04',
            'Trusted: harness/optics.py. Exact non-zero integer displacements only on all-dyadic geometries (np.fix ties are '
            'do-not-care). Higher-order dispersive elements (numerical root finding) are outside the model.',
            'exact shift-theorem oracle in TLA+ (TLC), representation programs replayed into lentil'),
    'C05': ('model_checking',
            'TLC proves Parseval for the zero-padded full period in Z[zeta_N] (ThmEnergy, K_r != K_c, odd/even) on flagged cases and '
            'evaluates the exact field for every geometry/window; on lentil the total intensity of propagate_dft and propagate_fft '
            'over the full period must equal the integer input power, nested windows must capture exactly the spec\'s partial sums '
            '(monotone, bounded), intensity must be non-negative, and normalize_power(a, p) must have power p and image to p.',
            'DESIGN.md 5 C05',
            'Trusted: harness/optics.py; the square root in normalize_power is a numeric leaf checked in floating point.',
            'ring-level Parseval model-checked by TLC; exact partial sums as oracle for lentil'),
    'C06': ('model_checking',
            'FieldAlg.tla defines multiply / merge / reduce / insert and the extent queries on the embedding of a field in '
            'Z^2 (pixel sets, pointwise Gaussian-integer arithmetic). TLC checks the rectangle calculus against pixel sets '
            'exhaustively (all shapes <= 3x3 [4x4], offsets +-3 [+-5]) and evaluates the semantics on a case file (exhaustive '
            'over small shapes/offsets in the thorough tier, seed-sampled from the same space in the quick tier); every case is '
            'executed on real lentil.field / lentil.extent objects and compared exactly.',
            'DESIGN.md 5 C06',
            'Trusted: render() abstraction in drivers/c06.py. 1x1 arrays are constants in multiply and pixels in '
            'insert/merge, so the latter are exercised with >= 2 elements.',
            'TLA+ embedding semantics evaluated by TLC as oracle, exact comparison with lentil'),
    'C09': ('model_checking',
            'Optics!PropagateFft specifies the FFT propagator as the DFT semantics on the grid K = round(1/alpha) at the reported '
            'wavelength, with its refusals (shape*os > K, tilt metadata). TLC evaluates every case exactly; lentil runs it without '
            'scratch and inside random histories of three calls sharing one scratch buffer (exactly scratch_shape(), larger, '
            'dirty, reused after a larger grid); where lambda\' = lambda the real propagate_fft and propagate_dft are also compared.',
            'DESIGN.md 5 C09',
            'Trusted: harness/optics.py. Geometries whose axes imply different wavelengths and exact halves of round() are '
            'outside the domain; shape=None only where K is a multiple of the oversampling.',
            'exact DFT-at-reported-wavelength oracle in TLA+ (TLC), scratch histories replayed into lentil'),
    'C10': ('model_checking',
            'Purity.tla holds the API table of documented in-place targets and the trace specification: seeded random sessions '
            'of ~60 public callables on a shared pool of caller-owned objects are recorded on lentil (content digests of every '
            'object before/after each call, result digest, numpy global-generator digest, call key) and every event is judged by '
            'TLC against Frame / Memo (history variable) / RngIsolation / Continuity, with total verdicts. PlaneHist.tla models '
            'planes under OPD updates, ramps, tilt fits, trimmed recorded tilts and copies, a tilt element that is steered or edited '
            'in place, and the wavefronts a caller keeps after they passed (HeldFrozen); TLC enumerates all short histories and samples long ones, '
            'each is replayed on a real Pupil and every observation must equal the exact field of the effective state. The sessions are '
            'recorded a second time by a fresh process in reverse session order and both recordings are validated as ONE trace, so Memo '
            'ranges over two histories of the library\'s module-level state.',
            'DESIGN.md 5 C10',
            'Trusted: digest() canonical content digests; the call menu in drivers/c10.py; OPD arrays handed to constructors are '
            'private copies. The binding self-test (corrupted digest, dropped event, changed result must be rejected) runs in '
            'every check.',
            'trace validation by TLC against a TLA+ purity specification + TLC-generated plane histories replayed into lentil'),
    'C11': ('model_checking',
            'Zernike.tla builds the Noll order from first principles and the integer radial coefficients from a Pascal table; TLC checks '
            'the bijection j <-> (n, m) with the even-cosine rule for n <= 12, R(1) = 1 and exact radial orthogonality for n <= 7, and emits '
            'the index table, exact radial values at 7 rational nodes per mode, and the exact centroid / rho^2 of the default coordinates for '
            'masks from a case file. lentil is compared on all of them (both normalisations; sine sign left open).',
            'DESIGN.md 5 C11',
            'Trusted: float64 evaluation of cos/sin and sqrt(n+1), sqrt(2n+2). Orthonormality of the implementation over the disk is a '
            'numeric leaf (exact quadrature). Theta orientation and the sign of sine modes are open conventions (not checked).',
            'integer/rational Zernike definitions model-checked by TLC and used as oracle'),
    'C12': ('model_checking',
            'TLC enumerates all 156 ordered mode subsets (size <= 3) and proves the fit/compose/remove identities on an exact rational '
            'instance (least squares by Cramer on integer vectors); every subset is mapped to contiguous and scattered Noll indices and the '
            'same programs run on lentil over five mask types, both normalisations, default and supplied coordinates; post-conditions are '
            'checked with a conditioning-scaled tolerance.',
            'DESIGN.md 5 C12',
            'Trusted: numerical post-condition checks with tolerance 1e-9*cond (ill-conditioned cases skipped and counted).',
            'projection identities model-checked by TLC; TLC-enumerated programs replayed into lentil'),
    'C13': ('model_checking',
            'Spectrum!BinOp defines a binary operation on the piecewise-linear meaning of both operands (right operand expressed in the '
            'left one\'s unit, equally spaced grid over the union range, op of interpolated-or-fill values) over exact rationals. lentil '
            'runs each seeded pair (all range relations, uniform and non-uniform grids, operands written independently in um/nm/angstrom, '
            'four operators, sampling min/left/right/float, fills); TLC judges the grid the implementation chose and computes every '
            'value; commutativity, unit independence, freshness of the result and integrity of the operands are checked on the objects.',
            'DESIGN.md 5 C13',
            'Trusted: harness/spectra.py. Grid points equal to an operand range end are float ties on grids that are not exact in binary '
            'floating point (counted in evidence); quadratic/cubic interpolants and metre-unit operands (32-bit rationals) are outside the model.',
            'exact rational semantics in TLA+ evaluated by TLC as oracle'),
    'C14': ('model_checking',
            'Unit factors are decimal exponents and flux conversions (hc/lambda)^p 10^q from potentials in Spectrum.tla; TLC checks '
            'composition/identity/round trips for all ordered triples (exhaustive) and ThmToWave (integral of a density, values of a '
            'unitless spectrum, inverse) on rational spectra, and emits the tables and converted spectra. All 16+9 conversion cells, '
            'their compositions, every Spectrum.to path of length <= 2 (3: sampled/all) from the 16 unit states and Planck radiance / '
            'exitance in all 12 unit pairs are compared.',
            'DESIGN.md 5 C14',
            'Trusted: float64 evaluation of 10^k (hc/lambda)^p with the module\'s own H, C. Wien and Stefan-Boltzmann are numeric leaves '
            '(checked to 1e-4, outside the model).',
            'unit algebra model-checked exhaustively by TLC; tables and exact conversions as oracle'),
    'C15': ('model_checking',
            'Trapezoid integration and binning are evaluated exactly by TLC (with additivity and linearity theorems on every case). '
            'Seeded programs of crop/trim/pad/append/resample/to on real spectra (dyadic data, failure paths included) are recorded '
            'with the exact rational state before and after each call or the exception, and validated by TLC against Trace_C15: '
            'well-formedness after every event, retained samples, closed-range crop, trim bounds, pad values/ends, no half-applied change.',
            'DESIGN.md 5 C15',
            'Trusted: recorder in drivers/c15.py (float -> rational projection with off-lattice detection). Bounds equal to a sample are '
            'only used on states whose floats are exact. Whether append/pad/resample accept a call is not part of the statement.',
            'trace validation by TLC + exact rational oracle'),
    'C16': ('model_checking',
            'Detector.tla defines charge collection (sum over slices of photons x efficiency, efficiency from a Spectrum via '
            'Spectrum.tla), the colour of every oversampled sub-pixel from the tiled pattern at its native pixel, channel images, and '
            'digitisation floor(poly(min(e, sat))) clipped at zero for the four gain forms. Calls on exact data (integers, dyadic '
            'rationals) are recorded with results, warnings, output dtype and the caller\'s frame afterwards; TLC validates every event '
            'exactly and checks channels-sum, equal-QE = monochrome and monotonicity theorems on the event data.',
            'DESIGN.md 5 C16',
            'Trusted: recorder in drivers/c16.py. saturation_capacity = 0 (read as none by the API) and results outside the requested '
            'dtype range are outside the domain.',
            'trace validation by TLC against exact detector arithmetic in TLA+'),
    'C17': ('model_checking',
            'Rescale.tla states the bookkeeping (ceil(n s) samples, pixel scale / s, segment count) over exact rationals; TLC checks the '
            'extent lemma for every n <= 64 [200] and every scale factor of the set, identity at s = 1 and composition, enumerates 720 '
            '(shape, pixel scale, segments, factor) cases and emits the expected attributes; lentil\'s rescale and resample (same factor as a '
            'target pixel scale) are compared: array shapes, pixel scale, binary mask, segment count and order, untouched original, identity, '
            'refusals.',
            'DESIGN.md 5 C17',
            'The clauses "to interpolation accuracy" (transmitted power, propagated image) are NOT decided by the model: numeric leaf on '
            'Gaussian apertures (2e-2 / 3e-2). n*s integer with a non-dyadic factor is a ceil tie.',
            'bookkeeping arithmetic model-checked by TLC; TLC-enumerated cases replayed into lentil'),
    'C18': ('model_checking',
            'Rng.tla is a trace specification: seeded models are functions of (arguments, seed) - history variables memo / seen give '
            'SeedDeterminism and SeedSensitivity -, only the cosmic-ray model may touch numpy\'s global generator (RngIsolation), and a '
            'table states which observations each callable must satisfy (support, integer values, floor(rate) without pattern noise, zero '
            'outside the mask, exact RMS, rejection of negative / unrepresentable signals). Sessions with repeated and different seeds '
            '(incl. 0 and sequences), perturbed global state, masks of five aspect ratios and 64 [256] enumerated global seeds for cosmic '
            'rays are recorded on lentil - once in plan order, once in reverse order by a fresh process - and validated by TLC as one trace.',
            'DESIGN.md 5 C18',
            'Trusted: predicates evaluated by the recorder on the returned frames; byte digests identify draws. Mean / variance / standard '
            'deviation clauses are statistical and NOT decided by the model (6-sigma numeric leaf on 400x400 frames with fixed seeds).',
            'trace validation by TLC against a TLA+ specification of seeded randomness'),
    'C19': ('model_checking',
            'Blur.tla fixes, as exact rationals, the argument every frequency bin of an R x C image feeds to the leaf of each transfer '
            'function (sinc x sinc, Gauss of sigma^2 rho^2, sinc along a rational direction); TLC checks unit gain at DC, Hermitian symmetry '
            'except at the unpaired Nyquist bins it enumerates, unit equivalence and zero extent on every case and emits the grids. lentil\'s '
            'pixel / jitter / smear are compared with the exact circular convolution on impulse responses at every position, plus shape, '
            'non-negativity, translation invariance, totals, identity and unit equivalence, on square and non-square images of both parities.',
            'DESIGN.md 5 C19',
            'The leaf functions sinc and exp are evaluated by numpy at the arguments TLC emits (numeric leaf). Smear on even axes is compared '
            'up to the contribution of the Nyquist bins.',
            'symbolic transfer-function argument grids in TLA+ (TLC) as oracle for lentil'),
    'C20': ('model_checking',
            'Geometry.tla defines pad/crop (2-D and cubes), sub-array, bounding box, bounding slice with pad and clipping, slice '
            'offset, rebin, centroid (exact rational), mesh, the half-turn / mirror / translation index maps of drawn shapes and '
            'hexagonal rings on the single centre convention of Grid.tla. Every helper is called on seeded integer data of all small '
            'shapes (mixed parities, grow/shrink, non-square cubes, refused windows); each call and its result is an event that TLC '
            'validates against the specification, checking origin preservation, pad-then-crop identity, rebin sums, slice/offset '
            'consistency and ring counts on the event data. Verdicts are total; a corrupted event must be rejected (self-test).',
            'DESIGN.md 5 C20',
            'Trusted: the recorder in drivers/c20.py. Antialiased shape values (floats) are a numeric leaf checked to 1e-9 by the '
            'recorder; samples exactly on a hexagon edge are ties (exempt); equal-area bound 6R+6.',
            'trace validation by TLC against index-map / pixel-set semantics in TLA+'),
}

NOT_YET = 'check not built yet in this round (planned, see DESIGN.md section 5)'


def main():
    checks = []
    for pid in sorted(CHECKS):
        cat, text, ref, note, tech = CHECKS[pid]
        checks.append({
            'property_id': pid,
            'quick_cmd': f'./check {pid} --tier quick',
            'thorough_cmd': f'./check {pid} --tier thorough',
            'evidence_file': f'/verif/evidence/{pid}.json',
            'replay_cmd_template': f'./check {pid} --replay {{path}}',
            'engine': 'tlc',
            'level_claimed': {'category': cat, 'text': text, 'design_ref': ref},
            'level_note': note,
            'technique': tech,
        })
    na = [{'property_id': pid, 'reason': NOT_YET} for pid in sorted(TITLES) if pid not in CHECKS]
    m = {
        'version': 1,
        'setup_cmd': './setup.sh',
        'hooks': {
            'guard': 'LENTIL_VERIF',
            'enable': 'no source hook exists: every observation is taken through the public API from outside; '
                      'checks set LENTIL_VERIF=1 for forward compatibility only',
            'baseline_off_cmd': 'cd /repo && /venv/bin/python -m pytest -ra -q -p no:cacheprovider --timeout=900 '
                                '--continue-on-collection-errors',
            'source_commits': [],
            'add_only': True,
        },
        'engines': [{'name': 'tlc', 'path': '/verif/check',
                     'serves_properties': sorted(CHECKS),
                     'kind_free_text': 'explicit TLA+ specification under /verif/spec checked with TLC 1.8; TLC-generated '
                                       'behaviours are replayed into lentil and traces recorded from lentil are validated by TLC'}],
        'checks': checks,
        'not_applicable': na,
        'notes': 'See DESIGN.md. known_findings.json lists recorded defects and fix: commits.',
    }
    with open(os.path.join(HERE, 'MANIFEST.json'), 'w') as f:
        json.dump(m, f, indent=1)
    print(f'{len(checks)} checks, {len(na)} not applicable')


if __name__ == '__main__':
    main()
