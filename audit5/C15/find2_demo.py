"""C15 finding 2: Spectrum.crop (and the bounds of Spectrum.integrate) compare the
requested bounds with the wavelength grid in the storage type of the grid: with a
half or single precision grid the bound is first rounded to that type, and samples
that lie OUTSIDE the closed requested range are kept (crop) / counted (integrate).

exit 1 = violation observed, exit 0 = not observed.
"""
import os, sys
sys.path.insert(0, os.environ.get('LENTIL_REPO', '.'))
import warnings
warnings.simplefilter('ignore')
import numpy as np
import lentil
from lentil.radiometry import Spectrum

print('lentil from', lentil.__file__)
failed = False

# A grid 640.0, 640.5, ... 659.5 nm: every wavelength is exactly representable in
# half precision, so the float16 and the float64 grid hold the same numbers.
w64 = np.arange(640, 660, 0.5)
w16 = w64.astype(np.float16)
assert np.array_equal(w16.astype(np.float64), w64)
v = np.ones(w64.size)

lo, hi = 645.2, 650.3          # no sample is nearer than 0.2 nm to a bound: no tie
expected = w64[(w64 >= lo) & (w64 <= hi)]

for name, w in (('float64', w64), ('float16', w16)):
    s = Spectrum(w.copy(), v.copy())
    s.crop(lo, hi)
    kept = s.wave.astype(np.float64)
    ok = np.array_equal(kept, expected)
    print(f'{name} grid: crop({lo}, {hi}) keeps {kept[0]} ... {kept[-1]}  ({kept.size} samples)'
          f'   expected {expected[0]} ... {expected[-1]} ({expected.size})  -> {"ok" if ok else "WRONG"}')
    if not ok:
        outside = kept[(kept < lo) | (kept > hi)]
        print('      samples kept although outside the closed range:', outside)
        failed = True

    # the same comparison decides which samples integrate(start, end) counts
    I = Spectrum(w.copy(), v.copy()).integrate(lo, hi, method='trapz')
    I_expected = np.trapz(np.ones(expected.size), expected)
    print(f'{name} grid: integrate({lo}, {hi}, "trapz") of the flat spectrum 1 = {I}'
          f'   (samples inside the bounds span {I_expected})')
    if abs(I - I_expected) > 1e-9:
        failed = True

# single precision: the margin shrinks to the float32 spacing but is not a tie
x = np.float32(650.00006)                 # = 650.00006103515625 exactly
w32 = np.array([649.0, 649.5, x], dtype=np.float32)
hi32 = 650.00004                          # below the last sample by 2.1e-5 nm
for name, w in (('float64', w32.astype(np.float64)), ('float32', w32)):
    s = Spectrum(w.copy(), np.ones(3))
    s.crop(600.0, hi32)
    ok = s.wave.size == 2
    print(f'{name} grid [649, 649.5, {float(x)!r}]: crop(600, {hi32}) keeps {s.wave.size} samples'
          f' (expected 2)  -> {"ok" if ok else "WRONG"}')
    if not ok:
        failed = True

if failed:
    print('\nVIOLATION: crop does not keep exactly the samples inside the closed requested range\n'
          '(and integrate counts samples outside its bounds) when the wavelength grid is held\n'
          'in half or single precision: the bounds are rounded to the type of the grid before\n'
          'they are compared.')
    sys.exit(1)
print('no violation observed')
sys.exit(0)
