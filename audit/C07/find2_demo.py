"""C07 finding 2: a field or plane phasor that has exactly ONE sample (shape (1, 1)) is
treated as a broadcastable scalar by Field.__mul__ / _mul_broadcast: it is smeared over
the whole other operand and inherits its offset, instead of being multiplied pointwise
at its own location.

Scenario A: (8,8) wavefront  x  Plane(amplitude=ones, mask=one sample at [2,5]).
            Property: field is multiplied by zero outside the mask.
            Library : the whole 8x8 field passes unchanged.
Scenario B: two ordinary rectangular masks that share exactly one sample, followed by
            a third, full plane. After the first two planes the wavefront is a single
            sample (correct); the third plane then spreads that sample over the whole
            array.
Scenario C: segmented plane (3-D mask) with one one-sample segment applied to an array
            wavefront: the one-sample segment contributes everywhere.
"""
import os
import sys

sys.path.insert(0, os.environ.get('LENTIL_REPO', '.'))

import numpy as np
import lentil

fail = False
wl = 1e-6


def phasor(amp, opd, mask):
    return amp * mask * np.exp(2j * np.pi * opd / wl)


# ---------------------------------------------------------------- scenario A
w1 = lentil.Plane(amplitude=np.ones((8, 8))) * lentil.Wavefront(wl)
m = np.zeros((8, 8), dtype=int)
m[2, 5] = 1
w2 = lentil.Plane(amplitude=np.ones((8, 8)), mask=m) * w1
expected = w1.field * phasor(1.0, 0.0, m)
n_out = np.count_nonzero(np.abs(w2.field)[m == 0])
print('A: samples outside the mask that are non-zero:', n_out, '(expected 0)')
if np.max(np.abs(w2.field - expected)) > 1e-9:
    print('A: VIOLATION - field is not zero outside the one-sample mask')
    fail = True

# ---------------------------------------------------------------- scenario B
ma = np.zeros((8, 8), dtype=int)
ma[0:4, 0:4] = 1          # rows 0..3, cols 0..3
mb = np.zeros((8, 8), dtype=int)
mb[3:8, 3:8] = 1          # rows 3..7, cols 3..7  -> the masks share only sample [3,3]
amp3 = np.full((8, 8), 0.5)
w = lentil.Wavefront(wl)
w = lentil.Plane(amplitude=ma) * w
w = lentil.Plane(amplitude=mb) * w
print('B: after two masks sharing one sample: field shapes', [f.shape for f in w.data],
      'non-zero samples', np.count_nonzero(w.field))
ref = (ma * mb).astype(complex)
assert np.max(np.abs(w.field - ref)) < 1e-12      # still correct here
w = lentil.Plane(amplitude=amp3) * w
ref = ref * amp3
print('B: after a further full plane (amplitude 0.5): non-zero samples',
      np.count_nonzero(w.field), '(expected 1)')
if np.max(np.abs(w.field - ref)) > 1e-9:
    print('B: VIOLATION - the one-sample field was broadcast over the whole plane')
    fail = True

# ---------------------------------------------------------------- scenario C
seg = np.zeros((2, 6, 6), dtype=int)
seg[0, :, 0:3] = 1
seg[1, 1, 4] = 1          # one-sample segment
w1 = lentil.Plane(amplitude=np.ones((6, 6))) * lentil.Wavefront(wl)
w2 = lentil.Plane(amplitude=np.ones((6, 6)), mask=seg) * w1
expected = seg.sum(axis=0).astype(complex)
print('C: |field| (expected 1 inside the two segments, 0 elsewhere):')
print(np.abs(w2.field))
if np.max(np.abs(w2.field - expected)) > 1e-9:
    print('C: VIOLATION - one-sample segment contributes at every sample')
    fail = True

# intensity stays consistent with field (it is the field itself that is wrong)
print('max |intensity - |field|^2| =', np.max(np.abs(w2.intensity - np.abs(w2.field) ** 2)))

sys.exit(1 if fail else 0)
