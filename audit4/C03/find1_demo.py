"""C03: OPD (or amplitude) samples that lie OUTSIDE the mask leak into the field
when their phase argument is not finite -- and whether they do depends on how the
aperture is partitioned (whether some segment's bounding box happens to cover them).

Aperture: two 5x5 squares separated by a gap.  The OPD is 100 nm on the support and a
fill value everywhere else (outside the mask).  The same support is described
  (a) by one global 2-D mask,
  (b) by a cube of two segment masks (one per square).
Samples outside the mask must not matter, so (a) and (b) must agree.
"""
import os, sys, warnings
sys.path.insert(0, os.environ.get('LENTIL_REPO', '.'))
import numpy as np
import lentil
print("lentil imported from", lentil.__file__)

warnings.simplefilter('ignore')
n = 16
segs = np.zeros((2, n, n), dtype=int)
segs[0, 2:7, 2:7] = 1
segs[1, 9:14, 9:14] = 1
gm = segs.sum(axis=0)
wl, ps, fl, du = 600e-9, 1e-3, 10.0, 5e-6

failed = []
# 1e303 is a finite float (2*pi*1e303/600e-9 overflows); NaN is the usual fill value of
# measured OPD maps
for fill in (1e303, np.nan):
    opd = np.full((n, n), fill)
    opd[gm != 0] = 100e-9

    p_glob = lentil.Pupil(opd=opd, mask=gm, pixelscale=ps, focal_length=fl)
    p_segs = lentil.Pupil(opd=opd, mask=segs, pixelscale=ps, focal_length=fl)
    w_glob = lentil.Wavefront(wl) * p_glob
    w_segs = lentil.Wavefront(wl) * p_segs
    i_glob = lentil.propagate_dft(w_glob, pixelscale=du, shape=8, oversample=2).intensity
    i_segs = lentil.propagate_dft(w_segs, pixelscale=du, shape=8, oversample=2).intensity

    # what both must give: only samples inside the mask contribute
    ref = gm * np.exp(2j*np.pi*np.where(gm != 0, opd, 0.0)/wl)

    nan_glob_f, nan_segs_f = int(np.isnan(w_glob.field).sum()), int(np.isnan(w_segs.field).sum())
    nan_glob_i, nan_segs_i = int(np.isnan(i_glob).sum()), int(np.isnan(i_segs).sum())
    segs_ok = np.allclose(w_segs.field, ref, rtol=1e-12, atol=0)
    same = np.array_equal(np.isnan(i_glob), np.isnan(i_segs)) and \
        np.allclose(np.nan_to_num(i_glob), np.nan_to_num(i_segs), rtol=1e-9, atol=0)
    print(f'fill value outside the mask = {fill!r}:')
    print(f'   global mask : {nan_glob_f} NaN samples in the pupil field, '
          f'{nan_glob_i} of {i_glob.size} NaN samples in the image intensity')
    print(f'   2 segments  : {nan_segs_f} NaN samples in the pupil field, '
          f'{nan_segs_i} of {i_segs.size} NaN samples in the image intensity '
          f'(equals the in-mask reference: {segs_ok})')
    if not same:
        failed.append(fill)

if failed:
    print('VIOLATION of C03: with an OPD that is finite on the whole support, the global-mask '
          'description gives a NaN field / NaN image while the partition into two segment masks '
          'gives the correct finite result. Samples outside the mask (amplitude*mask == 0) are '
          'multiplied by exp(i*phase) of the unmasked OPD, and 0*nan = nan; whether a masked-out '
          'sample is touched depends on the bounding boxes of the partition. '
          f'Fill values that fail: {failed}')
    sys.exit(1)
print('no violation observed')
sys.exit(0)
