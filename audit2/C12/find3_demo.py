"""C12 finding 3: caller-supplied theta is silently discarded when rho is left
at its default (the converse, rho without theta, raises "Both rho and theta
must be specified").  Fit / remove in the caller's (rotated) frame therefore
silently operate in the default frame.

exit code 1 = violation observed, 0 = not observed.
"""
import os
import sys

sys.path.insert(0, os.environ.get('LENTIL_REPO', '.'))

import numpy as np
import lentil

print('lentil from', lentil.__file__)

mask = lentil.circle((64, 64), 25, antialias=False)
rho0, theta0 = lentil.zernike_coordinates(mask)              # default frame
rho1, theta1 = lentil.zernike_coordinates(mask, rotate=30)   # frame rotated by 30 deg
assert np.array_equal(rho0, rho1)                            # same rho, other theta

modes = [2, 3]
c = np.array([1.0, 0.0])
coeffs = [0.0, 1.0, 0.0]

# OPD = 1.0 * Z2 in the rotated frame
opd = lentil.zernike_compose(mask, coeffs, rho=rho1, theta=theta1)

both = lentil.zernike_fit(opd, mask, modes, rho=rho1, theta=theta1)
only_theta = lentil.zernike_fit(opd, mask, modes, theta=theta1)
default = lentil.zernike_fit(opd, mask, modes)

try:
    lentil.zernike_fit(opd, mask, modes, rho=rho1)
    rho_only = 'accepted'
except ValueError as e:
    rho_only = 'ValueError: %s' % e

z_theta = lentil.zernike(mask, 2, theta=theta1)
z_default = lentil.zernike(mask, 2)
z_both = lentil.zernike(mask, 2, rho=rho1, theta=theta1)

res = lentil.zernike_remove(opd, mask, [2], theta=theta1)
res_both = lentil.zernike_remove(opd, mask, [2], rho=rho1, theta=theta1)
inside = mask > 0

print('coefficients (rotated frame)           :', c)
print('fit with rho and theta                 :', np.round(both, 12))
print('fit with theta only                    :', np.round(only_theta, 12))
print('fit with default coordinates           :', np.round(default, 12))
print('fit with rho only                      :', rho_only)
print('zernike(theta=theta1) == default frame :', np.array_equal(z_theta, z_default))
print('zernike(theta=theta1) == rotated frame :', np.allclose(z_theta, z_both))
print('rms residual, remove [2] rho+theta     :', res_both[inside].std())
print('rms residual, remove [2] theta only    :', res[inside].std())

if (np.allclose(both, c, atol=1e-10)
        and not np.allclose(only_theta, c, atol=1e-3)
        and np.array_equal(only_theta, default)
        and rho_only.startswith('ValueError')):
    print('\nVIOLATION of C12: the supplied theta is ignored without any error '
          '(the result is bit-identical to the default frame), although the '
          'library itself states that both coordinates must be given and '
          'refuses the converse case.  An OPD that is exactly Z2 in the '
          'supplied frame is fitted as [cos30, -/+sin30] and is not removed.')
    sys.exit(1)
print('no violation observed')
sys.exit(0)
