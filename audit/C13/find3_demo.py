"""C13 finding 3: Spectrum (op) Spectrum silently discards the imaginary part of
complex-valued spectra (only a ComplexWarning is emitted), so the operation is not applied
point-wise to the operands' values; the scalar/vector path keeps complex values, hence
s + s != 2*s and s*t != s*t.value for spectra on one shared grid."""
import os
import sys
import warnings

sys.path.insert(0, os.environ['LENTIL_REPO'])

import numpy as np
from lentil.radiometry import Spectrum

w = np.array([400., 500., 600., 700.])
# e.g. a complex amplitude transmission / complex refractive index n + ik
s = Spectrum(w, np.array([1+1j, 2-1j, 3+2j, 4+0.5j]))
t = Spectrum(w, np.array([0.5j, 1j, 2j, 1+1j]))

fail = []
with warnings.catch_warnings(record=True) as caught:
    warnings.simplefilter('always')
    total = s + t
    prod = s*t
    twice = s + s
print('s + t  =', total.value, total.value.dtype)
print('expected', s.value + t.value)
print('warnings:', sorted({str(c.message) for c in caught}))

assert np.array_equal(total.wave, w)          # same grid: no interpolation is involved
if not np.allclose(total.value, s.value + t.value):
    fail.append('s + t = %s, expected %s' % (total.value, s.value + t.value))
if not np.allclose(prod.value, s.value*t.value):
    fail.append('s * t = %s, expected %s' % (prod.value, s.value*t.value))
if not np.allclose(twice.value, (s*2).value):
    fail.append('s + s = %s but s*2 = %s' % (twice.value, (s*2).value))
if not np.allclose(prod.value, (s*t.value).value):
    fail.append('s * t (Spectrum) = %s but s * t.value (vector) = %s' % (prod.value, (s*t.value).value))

if fail:
    print('VIOLATION of C13 (operation applied to each operand\'s value):')
    for f in fail:
        print('  -', f)
    sys.exit(1)
print('no violation observed')
sys.exit(0)
