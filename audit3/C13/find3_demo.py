"""C13 finding 3: operands with different flux units (photlam / wlam / flam) are combined
number-by-number without conversion and the result takes the LEFT operand's unit, so
a + b and b + a (and a * b, b * a) are different physical spectra."""
import os, sys
sys.path.insert(0, os.environ.get('LENTIL_REPO', '.'))
import numpy as np
from lentil.radiometry import Spectrum

w = np.arange(500., 701., 10)
a = Spectrum(w, np.full(w.shape, 1e18), 'nm', 'photlam')
b = a.copy(); b.to('wlam')              # the SAME physical spectrum, expressed in W m^-2 nm^-1
assert b.valueunit == 'wlam' and b.value[0] < 1    # ~0.397 W m^-2 nm^-1

ab = a + b
ba = b + a

def in_photlam(s):
    c = s.copy()
    if c.valueunit != 'photlam':
        c.to('photlam')
    return c.value

bad = []
if ab.valueunit != ba.valueunit or not np.allclose(in_photlam(ab), in_photlam(ba), rtol=1e-6):
    bad.append('a + b -> valueunit %r, value[0] = %.6g;  b + a -> valueunit %r, value[0] = %.6g\n'
               '  expressed in photlam: (a+b)[0] = %.6g, (b+a)[0] = %.6g'
               % (ab.valueunit, ab.value[0], ba.valueunit, ba.value[0], in_photlam(ab)[0], in_photlam(ba)[0]))
expected = 2e18   # a and b are the same physical spectrum: the sum is 2a
if not np.allclose(in_photlam(ab), expected, rtol=1e-6):
    bad.append('a + b is %.6g photlam, but both operands equal 1e18 photlam, so the sum is 2e18' % in_photlam(ab)[0])

t = Spectrum(w, np.full(w.shape, 0.5))
ab2 = (a * t) + (b * t); ba2 = (b * t) + (a * t)
if ab2.valueunit != ba2.valueunit:
    bad.append('(a*t) + (b*t) -> %r, (b*t) + (a*t) -> %r' % (ab2.valueunit, ba2.valueunit))

pa = a * b; pb = b * a
if pa.valueunit != pb.valueunit:
    bad.append('a * b -> valueunit %r, b * a -> valueunit %r with identical numbers (%.6g)'
               % (pa.valueunit, pb.valueunit, pa.value[0]))

if bad:
    print('VIOLATION: addition / multiplication of two spectra is not commutative when their flux units differ')
    print('\n'.join(bad))
    sys.exit(1)
print('ok')
sys.exit(0)
