"""C02 finding 1: a field whose support / evaluated window is a single sample is
treated as a position-less scalar by Field.__mul__, so the propagated field is
wrong (all zero, or the sample is smeared over the whole other operand).

exit code 1 + explanation when the violation is observed, 0 otherwise.
"""
import os
import sys

sys.path.insert(0, os.environ.get('LENTIL_REPO', '.'))

import numpy as np
import lentil

print('lentil imported from', lentil.__file__)


def ref_dft(f, alpha, shape_out):
    # unitary Fraunhofer sum, optical axis at sample floor(n/2) of both planes
    f = np.asarray(f, dtype=complex)
    m, n = f.shape
    M, N = shape_out
    R = np.arange(m) - m//2
    S = np.arange(n) - n//2
    U = np.arange(M) - M//2
    V = np.arange(N) - N//2
    E1 = np.exp(-2j*np.pi*alpha[0]*np.outer(U, R))
    E2 = np.exp(-2j*np.pi*alpha[1]*np.outer(S, V))
    return np.sqrt(alpha[0]*alpha[1])*(E1 @ f @ E2)


def relerr(a, b):
    return np.max(np.abs(a-b))/np.max(np.abs(b))


wavelength, focal_length, dx, du, oversample = 500e-9, 2.0, 1e-3, 5e-6, 2
shape = (6, 7)
shape_out = (shape[0]*oversample, shape[1]*oversample)
alpha = (dx*du/(wavelength*focal_length*oversample),)*2
problems = []

# ---- (a) pupil whose support is one off-centre sample --------------------------
amp = np.zeros((8, 8))
amp[2, 3] = 1.0                                    # off-centre support (centre is [4, 4])
w = lentil.Wavefront(wavelength) * lentil.Pupil(amplitude=amp, pixelscale=dx,
                                                focal_length=focal_length)
out = lentil.propagate_dft(w, pixelscale=du, shape=shape, oversample=oversample)
expect = ref_dft(amp, alpha, shape_out)
err = relerr(out.field, expect)
print(f'(a) single off-centre pupil sample: fields in wavefront = {len(w.data)}, '
      f'max|out| = {np.abs(out.field).max():.3e}, max|expected| = {np.abs(expect).max():.3e}, '
      f'rel. error = {err:.3e}')
if err > 1e-9:
    problems.append('(a) the pupil sample at [2, 3] is dropped by Wavefront * Pupil: the propagated '
                    'field is identically zero instead of the Fraunhofer sum of that sample')

# the same sample on the optical axis works, so it is the position that is lost
amp0 = np.zeros((8, 8))
amp0[4, 4] = 1.0
w0 = lentil.Wavefront(wavelength) * lentil.Pupil(amplitude=amp0, pixelscale=dx,
                                                 focal_length=focal_length)
out0 = lentil.propagate_dft(w0, pixelscale=du, shape=shape, oversample=oversample)
print(f'    (control, sample on the axis: rel. error = {relerr(out0.field, ref_dft(amp0, alpha, shape_out)):.3e})')

# ---- (b) filled pupil followed by a plane with single-sample support -------------
rng = np.random.default_rng(0)
A = rng.random((8, 8)) + 0.5
w = lentil.Wavefront(wavelength) * lentil.Pupil(amplitude=A, pixelscale=dx, focal_length=focal_length)
w = w * lentil.Pupil(amplitude=0.5*amp, pixelscale=dx, focal_length=focal_length)
expect_in = A*0.5*amp                              # one non-zero sample, at [2, 3]
out = lentil.propagate_dft(w, pixelscale=du, shape=shape, oversample=oversample)
expect = ref_dft(expect_in, alpha, shape_out)
err = relerr(out.field, expect)
print(f'(b) filled pupil * single-sample plane: non-zero input samples = {np.count_nonzero(w.field)} '
      f'(expected 1), rel. error of propagated field = {err:.3e}')
if err > 1e-9:
    problems.append('(b) the single-sample plane is broadcast over the whole first pupil (it acts as the '
                    'scalar 0.5 on all 64 samples) instead of selecting the sample at [2, 3]')

# ---- (c) image plane: single-sample output mask, then an Image plane, then back ----
A = rng.random((8, 8)) + 0.5
w = lentil.Wavefront(wavelength) * lentil.Pupil(amplitude=A, pixelscale=dx, focal_length=focal_length)
mask = np.zeros(shape_out)
mask[3, 9] = 1                                     # evaluate one off-centre output sample only
img = lentil.propagate_dft(w, pixelscale=du, shape=shape, oversample=oversample, mask=mask)
img_expect = np.where(mask > 0, ref_dft(A, alpha, shape_out), 0)
print(f'(c) forward with single-sample mask: rel. error = {relerr(img.field, img_expect):.3e}')
stop = rng.random(shape_out) + 0.5                 # some image-plane transmission
img2 = img * lentil.Image(amplitude=stop, pixelscale=du/oversample)
in2 = img_expect*stop
back = lentil.propagate_dft(img2, pixelscale=dx, shape=(8, 8), oversample=1)
alpha_b = ((du/oversample)*dx/(wavelength*focal_length*1),)*2
expect_b = ref_dft(in2, alpha_b, (8, 8))
err = relerr(back.field, expect_b)
print(f'    after Image plane: non-zero image samples = {np.count_nonzero(img2.field)} (expected 1), '
      f'rel. error of field propagated back to the pupil = {err:.3e}')
if err > 1e-9:
    problems.append('(c) the single evaluated image sample is broadcast over the whole Image plane before '
                    'the propagation back to the pupil')

if problems:
    print('\nVIOLATION of C02 (output is not the Fraunhofer sum of the input-plane field):')
    for p in problems:
        print('  -', p)
    sys.exit(1)
print('no violation observed')
sys.exit(0)
