"""C20 borderline note (NOT counted as a finding under the tie rule):
with seg_gap=0 the non-antialiased segment masks overlap on the samples that lie
exactly on the common edge of two neighbouring segments.  For rotate=True the edge
between ring-1 segments 1|2 and 4|5 is the origin column for EVERY seg_radius (for
rotate=False: segments 2|3 and 5|6 and the origin row), so the overlap is systematic,
but each overlapping sample is mathematically exactly on the shared edge
(hexagon() keeps rho == inner_radius on both sides)."""
import os, sys
sys.path.insert(0, os.environ.get('LENTIL_REPO', '.'))
import numpy as np
import lentil
bad = 0
for sr in (7.3, 11.9, 23.184):
    for rot in (True, False):
        m = lentil.hex_segments(1, sr, 0, rotate=rot, antialias=False, drop=())
        s = m.sum(0)
        idx = np.argwhere(s > 1)
        n = m.shape[1]
        print(sr, rot, 'samples covered twice:', len(idx),
              'all on origin col' if np.all(idx[:, 1] == n//2) else
              'all on origin row' if np.all(idx[:, 0] == n//2) else 'elsewhere')
        bad += len(idx)
sys.exit(1 if bad else 0)
