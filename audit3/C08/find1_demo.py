"""C08 finding 1: lentil.Rotate cannot be multiplied with any wavefront.

docs/user/fundamentals/planes.rst documents Rotate as a `transform` plane and
docs/user/fundamentals/wavefront.rst says a transform plane may be applied to a
wavefront of every type (none -> none, pupil -> pupil, image -> image).
Rotate.multiply raises AttributeError for every wavefront type and every angle.
"""
import os, sys
sys.path.insert(0, os.environ['LENTIL_REPO'])
import numpy as np
import lentil

assert os.path.realpath(lentil.__file__).startswith(os.path.realpath(os.environ['LENTIL_REPO']))

amp = lentil.circle((32, 32), 14)


def wavefronts():
    w_none = lentil.Wavefront(650e-9)
    w_none_arr = lentil.Wavefront(650e-9) * lentil.Plane(amplitude=amp, pixelscale=1/32)
    w_pupil = lentil.Wavefront(650e-9) * lentil.Pupil(amplitude=amp, pixelscale=1/32,
                                                      focal_length=10)
    w_image = lentil.propagate_dft(w_pupil, pixelscale=5e-6, shape=(16, 16), oversample=2)
    return {'none (plane wave)': w_none, 'none (sampled)': w_none_arr,
            'pupil': w_pupil, 'image': w_image}


documented = {'none (plane wave)': 'none', 'none (sampled)': 'none',
              'pupil': 'pupil', 'image': 'image'}

bad = []
for angle, kw in [(90, {}), (30, {}), (0, {}), (np.pi/2, {'unit': 'radians'}), (45, {'order': 1})]:
    for name, w in wavefronts().items():
        rot = lentil.Rotate(angle=angle, **kw)
        try:
            out = w * rot
            got = str(out.ptype)
        except TypeError as e:
            got = f'TypeError: {e}'
        except Exception as e:
            got = f'{type(e).__name__}: {e}'
        if got != documented[name]:
            bad.append((angle, kw, name, documented[name], got))

if bad:
    print('VIOLATION: Rotate (documented ptype: transform) cannot be applied to a wavefront')
    for angle, kw, name, exp, got in bad:
        print(f'  Rotate(angle={angle!r}, {kw}) x wavefront[{name}]: documented result '
              f'type {exp!r}, got {got}')
    sys.exit(1)
print('ok: Rotate can be applied to every wavefront type')
sys.exit(0)
