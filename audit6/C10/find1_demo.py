"""C10 / neighbour of repair 7e96bb2: a wavefront that has passed a DispersiveTilt still
follows the element's coefficient ARRAYS.

TiltInterface.multiply records copy.copy(self) so that "the wavefront keeps the tilt this
element has NOW, whatever its owner sets it to afterwards".  The copy is shallow: the
ndarrays DispersiveTilt.trace / DispersiveTilt.dispersion are shared between the element
and the copy held by the wavefront.  Replacing the attribute (g.dispersion = [...]) no
longer moves the image of an earlier wavefront (that is the repaired case), but updating
a coefficient (g.dispersion[1] = ..., g.trace[0] = ...) still does.
"""
import os
import sys

sys.path.insert(0, os.environ['LENTIL_REPO'])

import numpy as np
import lentil

assert os.path.abspath(lentil.__file__).startswith(os.path.abspath(os.environ['LENTIL_REPO']))

amp = lentil.circle((32, 32), 13)
pupil = lentil.Pupil(amplitude=amp, pixelscale=1/32, focal_length=10)


def image(w):
    return lentil.propagate_dft(w, pixelscale=5e-6, shape=40, oversample=2).intensity


def centroid(img):
    return tuple(round(float(c), 3) for c in lentil.centroid(img))


fail = False

# reference behaviour (repaired): a Tilt steered after the wavefront went through it,
# and a grism whose coefficient vector is REPLACED, leave the earlier wavefront alone
t = lentil.Tilt(x=1e-6, y=0)
w = lentil.Wavefront(650e-9) * pupil * t
before = image(w)
t.x, t.y = 3e-6, 5e-6
print('Tilt, attributes reassigned      : max |change| =', np.abs(image(w) - before).max())

g = lentil.DispersiveTilt(trace=[1., 0.], dispersion=[1e-3, 600e-9])
w = lentil.Wavefront(650e-9) * pupil * g
before = image(w)
g.dispersion = np.array([1e-3, 640e-9])
print('grism, dispersion replaced       : max |change| =', np.abs(image(w) - before).max())

# the neighbour: the same update written as an element assignment
for attr, index, value in (('dispersion', 1, 640e-9), ('trace', 0, -1.0)):
    g = lentil.DispersiveTilt(trace=[1., 0.], dispersion=[1e-3, 600e-9])   # lists: the arrays are the element's own
    w1 = lentil.Wavefront(650e-9) * pupil * g      # wavefront formed with reference wavelength 600 nm
    before = image(w1)
    state = (g.trace.copy(), g.dispersion.copy())

    getattr(g, attr)[index] = value                # the owner re-tunes the element for the NEXT wavefront

    after = image(w1)                              # same wavefront object, same arguments
    change = np.abs(after - before).max()
    print(f'grism, {attr}[{index}] = {value:<8g}      : max |change| = {change:.4g} '
          f'(peak {before.max():.4g}); centroid {centroid(before)} -> {centroid(after)}')
    if change > 1e-9 * before.max():
        fail = True

if fail:
    print('\nVIOLATION: propagate_dft(w1, ...) called twice with the same wavefront gives two different '
          'images; the wavefront kept in w1 follows coefficient updates made to the DispersiveTilt after '
          'it passed through it (shallow copy in TiltInterface.multiply shares the trace/dispersion arrays).')
    sys.exit(1)
print('no violation observed')
sys.exit(0)
