"""C17 finding 1: Plane.rescale after Plane.fit_tilt corrupts the OPD at the
edge of every (segment) mask, although rescale -> fit_tilt, or rescale alone,
of the same smooth plane is accurate.

exit code 1 = violation observed, 0 = not observed.
"""
import os, sys
sys.path.insert(0, os.environ['LENTIL_REPO'])
import numpy as np
import lentil

wl = 650e-9


def image(plane, npix=96, du=5e-6):
    w = lentil.Wavefront(wl) * plane
    w = lentil.propagate_dft(w, pixelscale=du, shape=npix, oversample=2)
    return w.intensity


def err(ref, img):
    return np.max(np.abs(img - ref)) / np.max(ref)


def case(name, mask, R, waves, scale):
    shape = mask.shape[-2:]
    r, c = lentil.helper.mesh(shape)
    # smooth on the whole sampling grid: `waves` waves of defocus over radius R
    opd = waves * wl * (r**2 + c**2) / R**2
    p = lentil.Pupil(amplitude=1, opd=opd, mask=mask, pixelscale=1e-3, focal_length=1)

    ref = image(p)
    pt = p.fit_tilt()                       # same optics, tilt book-kept in pt.tilt
    e_tilt = err(ref, image(pt))            # fit_tilt alone
    e_rs = err(ref, image(p.rescale(scale)))            # rescale alone
    e_rs_ft = err(ref, image(p.rescale(scale).fit_tilt()))   # rescale, then fit_tilt
    e_ft_rs = err(ref, image(pt.rescale(scale)))        # fit_tilt, then rescale

    # OPD inside the mask: the two orders of the same two operations
    a = p.rescale(scale).fit_tilt()
    b = pt.rescale(scale)
    gm = (a.global_mask if a.mask.ndim == 3 else a.mask).astype(bool)
    d = np.abs(a.opd - b.opd)[gm]
    print(f'{name}, {waves} waves of defocus, rescale({scale}):')
    print(f'   image error / peak: fit_tilt alone {e_tilt:.1e}, rescale alone {e_rs:.1e}, '
          f'rescale->fit_tilt {e_rs_ft:.1e}, fit_tilt->rescale {e_ft_rs:.1e}')
    print(f'   OPD of fit_tilt->rescale vs rescale->fit_tilt inside the mask: max {d.max()/wl:.3f} waves, '
          f'{100*np.mean(d > wl/20):.1f} % of the samples off by more than 1/20 wave')
    base = max(e_tilt, e_rs, e_rs_ft)
    return e_ft_rs > 10 * base and e_ft_rs > 1e-2


bad = []
segs = lentil.hex_segments(rings=1, seg_radius=20, seg_gap=2, antialias=False)
bad.append(case('segmented (6 hexagons)', segs, 60., 2, 3))
bad.append(case('segmented (6 hexagons)', segs, 60., 2, 1.5))
circ = lentil.circle((128, 128), 50, antialias=False)
r, c = lentil.helper.mesh((128, 128))
# monolithic: a smooth OPD with a large tilt (what fit_tilt is for)
opd = 3 * wl * r / 50. + 0.5 * wl * (r**2 + c**2) / 50.**2
p = lentil.Pupil(amplitude=1, opd=opd, mask=circ, pixelscale=1e-3, focal_length=1)
ref = image(p)
pt = p.fit_tilt()
e0 = max(err(ref, image(pt)), err(ref, image(p.rescale(3))), err(ref, image(p.rescale(3).fit_tilt())))
e1 = err(ref, image(pt.rescale(3)))
print(f'monolithic circle, 3 waves of tilt + 0.5 wave defocus, rescale(3):')
print(f'   image error / peak: best of the other orders {e0:.1e}, fit_tilt->rescale {e1:.1e}')
bad.append(e1 > 10 * e0 and e1 > 1e-2)

if any(bad):
    print('VIOLATION: rescaling a plane whose tilt has been fitted does not preserve its image '
          '(the OPD left by fit_tilt is discontinuous at the mask edge and Plane.rescale '
          'interpolates across that edge)')
    sys.exit(1)
print('no violation observed')
sys.exit(0)
