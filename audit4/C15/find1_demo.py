"""C15 - power-preserving binning loses all the power of a spectrum whose signal
lies between the points at which bin() samples it (bins sum to 0, integral != 0)."""
import os, sys
sys.path.insert(0, os.environ['LENTIL_REPO'])
import numpy as np
import lentil
from lentil.radiometry import Spectrum

print('lentil from', lentil.__file__)

# a non-negative spectrum on a uniform 1 nm grid: an emission line 521..524 nm
wave = np.arange(400., 701., 1.)
value = np.zeros_like(wave)
value[(wave >= 521) & (wave <= 524)] = 1.0
s = Spectrum(wave, value)

# uniformly spaced bin centres, 10 nm apart (bin edges ...515, 525, 535...)
centres = np.arange(450., 651., 10.)

failed = False
for method in ('trapz', 'simps'):
    for ends in ('symmetric', 'inside'):
        bins = s.bin(centres, interp_method=method, ends=ends, preserve_power=True)
        total = s.integrate(centres.min(), centres.max(), method=method)
        ok = np.isclose(bins.sum(), total, rtol=1e-9, atol=0)
        print(f'{method:5s} {ends:9s}: sum(bins) = {bins.sum()!r}   '
              f'integrate over the span of the centres = {total!r}   '
              f'{"ok" if ok else "VIOLATION"}')
        if not ok:
            failed = True

if failed:
    print('\nVIOLATION: with preserve_power=True the bins must sum to the integral of '
          'the spectrum over the span of the centres (here 4.0); bin() returned only '
          'zeros - the whole power of the line has been dropped silently.')
    sys.exit(1)
sys.exit(0)
