"""C16 finding 2: a quantum-efficiency Spectrum sampled at its own tabulated wavelengths,
but expressed in another wavelength unit, returns QE = 0 for the first or last slice
(the converted band edge lands one ulp outside the requested wavelength, and everything
outside the table is filled with 0)."""
import os, sys
sys.path.insert(0, os.environ['LENTIL_REPO'])
import numpy as np
import lentil
from lentil.detector import collect_charge, collect_charge_bayer
from lentil.radiometry import Spectrum

fail = []
rng = np.random.default_rng(0)

# QE curve tabulated in nm (the Spectrum default), photon cube sampled at exactly these wavelengths
wave_nm = np.array([300., 400., 500., 600., 700.])
qe_val = np.array([0.30, 0.55, 0.80, 0.70, 0.40])
qe = Spectrum(wave_nm, qe_val, waveunit='nm')
photons = rng.uniform(50, 100, (wave_nm.size, 3, 3))

want = np.einsum('ijk,i->jk', photons, qe_val)              # sum_k photons_k * QE_k
e_vec = collect_charge(photons, wave_nm, qe_val)            # per-wavelength vector
e_nm = collect_charge(photons, wave_nm, qe, waveunit='nm')  # spectrum, nm
assert np.allclose(e_vec, want, rtol=1e-13) and np.allclose(e_nm, want, rtol=1e-13)

# the same wavelengths written in metres (lentil's own convention for propagation) ...
wave_m = np.array([300e-9, 400e-9, 500e-9, 600e-9, 700e-9])
e_m = collect_charge(photons, wave_m, qe, waveunit='m')
q_m = lentil.detector.qe_asarray(qe, wave_m, 'm')
print('QE table (nm)              ', qe_val)
print('QE sampled at wave in m    ', q_m)
print('max relative charge error  ', np.max(np.abs(e_m - want) / want))
if not np.allclose(e_m, want, rtol=1e-9):
    fail.append("QE Spectrum in nm, wave=[300e-9 .. 700e-9], waveunit='m': QE of the 300 nm slice is %g, "
                "not %g; charge off by %.1f %%" % (q_m[0], qe_val[0], 100*np.max(np.abs(e_m-want)/want)))

# ... and a QE table given in metres, cube wavelengths in microns: now the LAST slice is lost
qe2 = Spectrum(np.array([300e-9, 350e-9, 400e-9]), np.array([0.5, 0.6, 0.7]), waveunit='m')
wave_um = np.array([0.3, 0.35, 0.4])
q_um = lentil.detector.qe_asarray(qe2, wave_um, 'um')
print('QE table (m) [0.5 0.6 0.7] sampled at wave in um:', q_um)
if not np.allclose(q_um, [0.5, 0.6, 0.7], rtol=1e-9):
    fail.append("QE Spectrum in m, wave=[0.3, 0.35, 0.4], waveunit='um': sampled QE %s" % q_um)

# the colour-filter-array path uses the same sampling
cube = rng.uniform(50, 100, (wave_nm.size, 4, 4))
b_nm = collect_charge_bayer(cube, wave_nm, qe, qe, qe, 'RGGB', waveunit='nm')
b_m = collect_charge_bayer(cube, wave_m, qe, qe, qe, 'RGGB', waveunit='m')
if not np.allclose(b_nm, b_m, rtol=1e-9):
    fail.append('collect_charge_bayer: nm and m calls differ by up to %.1f %%'
                % (100*np.max(np.abs(b_nm-b_m)/b_nm)))

# how common is it?  literal band edges lo..hi nm, every pair of distinct units
lit = {'nm': '{}', 'um': '{}e-3', 'm': '{}e-9', 'angstrom': '{}e1'}
n = bad = 0
for lo in range(300, 1000, 50):
    for hi in range(lo + 100, 1200, 50):
        w = [lo, (lo + hi)//2, hi]
        for su in lit:
            for wu in lit:
                if su == wu:
                    continue
                sw = np.array([float(lit[su].format(x)) for x in w])
                ww = np.array([float(lit[wu].format(x)) for x in w])
                q = lentil.detector.qe_asarray(Spectrum(sw, [0.5, 0.6, 0.7], waveunit=su), ww, wu)
                n += 1
                bad += not np.allclose(q, [0.5, 0.6, 0.7], rtol=1e-9)
print('band-edge QE replaced by 0 in %d of %d (table unit, cube unit, band) combinations' % (bad, n))

if fail:
    print('\nVIOLATION of C16 (charge is the same whether the efficiency is a scalar, a per-wavelength '
          'vector or a spectrum sampled at those wavelengths in any wavelength unit):')
    for f in fail:
        print('  -', f)
    sys.exit(1)
print('no violation observed')
sys.exit(0)
