------------------------------- MODULE Zernike -------------------------------
(* Zernike polynomials in Noll's ordering (property C11) and the algebra of fit / compose / remove   *)
(* (property C12), as exact integer / rational mathematics.                                          *)
EXTENDS Integers, Sequences, FiniteSets, TLC, Rat

-----------------------------------------------------------------------------
(* Noll ordering from first principles: modes (n, m) with n - |m| even, |m| <= n, ordered by n, then by |m|;  *)
(* within a pair of equal |m| > 0 the EVEN index is the cosine mode (m > 0), the odd index the sine (m < 0).  *)
AbsI(x) == IF x < 0 THEN -x ELSE x
RowStart(n) == (n * (n + 1)) \div 2 + 1            \* first Noll index of radial order n
RowOf(j) == CHOOSE n \in 0..j : RowStart(n) <= j /\ j < RowStart(n + 1)
\* |m| values of row n in Noll order: n even: 0, 2, 2, 4, 4, ...; n odd: 1, 1, 3, 3, ...
AbsMAt(n, k) == IF n % 2 = 0 THEN 2 * ((k + 1) \div 2) ELSE 2 * (k \div 2) + 1        \* k = 0-based position in the row
Noll(j) == LET n == RowOf(j)
               am == AbsMAt(n, j - RowStart(n))
           IN [n |-> n, m |-> IF am = 0 THEN 0 ELSE IF j % 2 = 0 THEN am ELSE -am]
ModesUpTo(nmax) == {nm \in (0..nmax) \X (-nmax..nmax) : AbsI(nm[2]) <= nm[1] /\ (nm[1] - AbsI(nm[2])) % 2 = 0}
ThmNoll(nmax) ==
    LET J == 1..(RowStart(nmax + 1) - 1) IN
    /\ {<<Noll(j).n, Noll(j).m>> : j \in J} = ModesUpTo(nmax)                     \* onto
    /\ Cardinality(ModesUpTo(nmax)) = Cardinality(J)                              \* hence one-to-one
    /\ \A j \in J : (Noll(j).m > 0 => j % 2 = 0) /\ (Noll(j).m < 0 => j % 2 = 1)
    /\ \A j \in J : j + 1 \in J => (Noll(j).n < Noll(j + 1).n \/ (Noll(j).n = Noll(j + 1).n /\ AbsI(Noll(j).m) <= AbsI(Noll(j + 1).m)))

-----------------------------------------------------------------------------
(* Radial polynomials: R_n^m(rho) = SUM_k (-1)^k C(n-k, k) C(n-2k, (n-m)/2 - k) rho^(n-2k), integer coefficients *)
PascalRow(prev) == TLCEval([k \in 1..(Len(prev) + 1) |-> (IF k = 1 THEN 0 ELSE prev[k - 1]) + (IF k > Len(prev) THEN 0 ELSE prev[k])])
RECURSIVE PascalUpTo(_)
PascalUpTo(n) == IF n = 0 THEN <<<<1>>>> ELSE LET p == PascalUpTo(n - 1) IN TLCEval(Append(p, PascalRow(p[n])))
NMAX == 12
Pascal == PascalUpTo(NMAX)                         \* Pascal[n+1][k+1] = C(n, k), built once
Binom(n, k) == IF k < 0 \/ k > n THEN 0 ELSE Pascal[n + 1][k + 1]
RadCoef(n, m, k) == (IF k % 2 = 0 THEN 1 ELSE -1) * Binom(n - k, k) * Binom(n - 2 * k, (n - AbsI(m)) \div 2 - k)
RadTerms(n, m) == (n - AbsI(m)) \div 2             \* k = 0 .. RadTerms
RPowI(x, p) == LET RECURSIVE P(_)
                   P(k) == IF k = 0 THEN R(1) ELSE RMul(x, P(k - 1))
               IN P(p)
Radial(n, m, rho) == LET RECURSIVE S(_)
                         S(k) == IF k > RadTerms(n, m) THEN R(0)
                                 ELSE RAdd(RMul(R(RadCoef(n, m, k)), RPowI(rho, n - 2 * k)), S(k + 1))
                     IN S(0)
ThmRadialOne(nmax) == \A nm \in ModesUpTo(nmax) : Radial(nm[1], nm[2], R(1)) = R(1)
\* exact radial orthogonality:  INT_0^1 R_n^m R_n'^m rho d rho = delta / (2n + 2)
RadInner(n, n2, m) == LET RECURSIVE S(_, _)
                          S(k, l) == IF k > RadTerms(n, m) THEN R(0)
                                     ELSE IF l > RadTerms(n2, m) THEN S(k + 1, 0)
                                     ELSE RAdd(<<RadCoef(n, m, k) * RadCoef(n2, m, l), n - 2 * k + n2 - 2 * l + 2>>, S(k, l + 1))
                      IN S(0, 0)
ThmRadialOrtho(nmax) == \A m \in 0..nmax : \A n, n2 \in {x \in m..nmax : (x - m) % 2 = 0} :
                            REq(RadInner(n, n2, m), IF n = n2 THEN <<1, 2 * n + 2>> ELSE R(0))
\* squared normalisation constant: n + 1 for m = 0, 2 (n + 1) otherwise (mean square 1 over the unit disk)
NormSq(n, m) == IF m = 0 THEN n + 1 ELSE 2 * (n + 1)

-----------------------------------------------------------------------------
(* Default polar coordinates on a mask: origin at the centroid of the support, rho = 1 at the farthest masked *)
(* sample.  rho^2 is an exact rational.                                                                         *)
Support(mask) == {ij \in (1..Len(mask)) \X (1..Len(mask[1])) : mask[ij[1]][ij[2]] # 0}
SumOver(F(_), S) == LET RECURSIVE T(_)
                        T(X) == IF X = {} THEN 0 ELSE LET x == CHOOSE y \in X : TRUE IN F(x) + T(X \ {x})
                    IN T(S)
\* distances are measured from the centroid; with c = n * centroid (integers) everything stays integral:
\* n^2 * r^2(i,j) = (n i - ci)^2 + (n j - cj)^2
RhoSq(mask) ==
    LET S == Support(mask)  n == Cardinality(S)
        ci == SumOver(LAMBDA ij : ij[1], S)  cj == SumOver(LAMBDA ij : ij[2], S)
        D(i, j) == (n * i - ci) * (n * i - ci) + (n * j - cj) * (n * j - cj)
        dmax == CHOOSE d \in {D(ij[1], ij[2]) : ij \in S} : \A ij \in S : D(ij[1], ij[2]) <= d
    IN [i \in 1..Len(mask) |-> [j \in 1..Len(mask[1]) |-> IF dmax = 0 THEN R(0) ELSE RNorm(D(i, j), dmax)]]
CentroidOf(mask) == LET S == Support(mask)  n == Cardinality(S) IN
                    <<RNorm(SumOver(LAMBDA ij : ij[1] - 1, S), n), RNorm(SumOver(LAMBDA ij : ij[2] - 1, S), n)>>

-----------------------------------------------------------------------------
(* C12: fit / compose / remove on an exact instance: basis vectors in Z^5 whose triples are all independent *)
Basis == << <<-1, 2, 2, -1, 0>>, <<2, 1, 2, -2, 2>>, <<-2, 1, 0, 2, -1>>, <<-1, 1, 2, 2, 1>>, <<1, -1, -1, -1, 2>>, <<1, -2, -2, -1, 2>> >>
Dim == 5
Dot(a, b) == LET RECURSIVE S(_)
                 S(k) == IF k > Dim THEN R(0) ELSE RAdd(RMul(a[k], b[k]), S(k + 1))
             IN S(1)
RVec(v) == TLCEval([k \in 1..Dim |-> R(v[k])])
BV(j) == RVec(Basis[j])
\* least squares through the normal equations, solved by Cramer's rule (|M| <= 3)
Det(A) == IF Len(A) = 1 THEN A[1][1]
          ELSE IF Len(A) = 2 THEN RSub(RMul(A[1][1], A[2][2]), RMul(A[1][2], A[2][1]))
          ELSE RAdd(RSub(RMul(A[1][1], RSub(RMul(A[2][2], A[3][3]), RMul(A[2][3], A[3][2]))),
                         RMul(A[1][2], RSub(RMul(A[2][1], A[3][3]), RMul(A[2][3], A[3][1])))),
                    RMul(A[1][3], RSub(RMul(A[2][1], A[3][2]), RMul(A[2][2], A[3][1]))))
Gram(M) == TLCEval([a \in 1..Len(M) |-> TLCEval([b \in 1..Len(M) |-> Dot(BV(M[a]), BV(M[b]))])])
Fit(vv, M) == LET v == TLCEval(vv)
                  G == Gram(M)
                  rhs == TLCEval([a \in 1..Len(M) |-> Dot(BV(M[a]), v)])
                  Rep(c) == TLCEval([a \in 1..Len(M) |-> TLCEval([b \in 1..Len(M) |-> IF b = c THEN rhs[a] ELSE G[a][b]])])
                  dg == Det(G)
              IN TLCEval([c \in 1..Len(M) |-> RDiv(Det(Rep(c)), dg)])
ComposeOn(M, cc) == LET c == TLCEval(cc) IN
                    TLCEval([k \in 1..Dim |-> LET RECURSIVE S(_)
                                                  S(a) == IF a > Len(M) THEN R(0) ELSE RAdd(RMul(c[a], BV(M[a])[k]), S(a + 1))
                                              IN S(1)])
Remove(vv, M) == LET v == TLCEval(vv)  p == ComposeOn(M, Fit(v, M)) IN TLCEval([k \in 1..Dim |-> RSub(v[k], p[k])])
VecEq(a, b) == \A k \in 1..Len(a) : REq(a[k], b[k])
IsZeroVec(a) == \A k \in 1..Len(a) : a[k][1] = 0
ThmFitCompose(M, c) == VecEq(Fit(ComposeOn(M, c), M), c)
ThmRemove(v, M) == /\ IsZeroVec(Fit(Remove(v, M), M))
                   /\ VecEq(Remove(Remove(v, M), M), Remove(v, M))
ThmRemovePure(M, c) == IsZeroVec(Remove(ComposeOn(M, c), M))
=============================================================================
