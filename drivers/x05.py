"""X05 (growth of the specification beyond the twenty properties) - what "Nyquist sampled" means.

Sampling.tla ties util.pixelscale_nyquist, util.min_sampling and the kernel step of propagate_dft together through the
sampling parameter Q = wave z / (dx du n) (exact rationals: ThmNyquistQ, ThmMinSamplingQ, ThmPeriod) and states in
Z[zeta_N] what the sampling is FOR: over one period K = Q n the transform of the intensity is the circular autocorrelation
of the zero-padded pupil field (ThmAutocorr), which for Q >= 2 has nothing at the Nyquist frequency (ThmNyquistNull) and
for Q < 2 is aliased by exactly the wrapped lags.  TLC checks the theorems on every case and emits the pixel scales and
the lag table; lentil computes the pixel scales with its own helpers, propagates with them, and the transform of its
intensity is compared with the table lag by lag.
"""
import random
from fractions import Fraction as Fr

import numpy as np

from harness.core import import_lentil
from harness.tlc import eval_cases, WORK
from harness.cyclo import phi_file
from harness import optics as ox

LEVEL = 'model_checking'
EXTRA = True


def centred_dft(a):
    """SUM_k a[k] exp(-2 pi i (k - c)(u - c) / K), origin at floor(K/2) on both sides, per axis"""
    out = np.asarray(a, dtype=complex)
    for ax in (0, 1):
        K = out.shape[ax]
        k = np.arange(K) - K // 2
        M = np.exp(-2j * np.pi * np.outer(k, k) / K)
        out = np.moveaxis(np.tensordot(M, np.moveaxis(out, ax, 0), axes=(1, 0)), 0, ax)
    return out


def make_cases(rng, count):
    cases = []
    while len(cases) < count:
        kind = rng.choice(('nyquist', 'nyquist', 'minq'))
        n = rng.choice((2, 3, 4))
        n2 = n if kind == 'nyquist' or rng.random() < 0.4 else rng.choice((2, 3, 4))      # min_sampling takes a shape per axis
        q = 2 if kind == 'nyquist' else rng.choice((1, 1, 2, 3))
        K = (q * n, q * n2)
        if max(K) > 8:
            continue
        phases = rng.choice((False, True))
        N = ox.lcm(K[0], K[1], 4) if phases else ox.lcm(K[0], K[1])
        if N > 24:
            continue
        if N == 1:
            N = 2
        m1, n1 = (n, n2) if rng.random() < 0.6 else (rng.randint(1, n), rng.randint(1, n2))
        if kind == 'nyquist' and max(m1, n1) < n:
            m1 = n                  # the diameter n is the larger side of the pupil array
        amp = np.array([[rng.choice((0, 1, 1, 2, 3)) for _ in range(n1)] for _ in range(m1)])
        amp[rng.randrange(m1), rng.randrange(n1)] = 1
        if np.count_nonzero(amp) < 2:
            continue                # a support of ONE sample is the recorded one-element-Field finding (C03 / C07), not this check's subject
        opd = np.array([[rng.randrange(N) if phases else 0 for _ in range(n1)] for _ in range(m1)])
        lam = Fr(rng.choice((500, 640, 1000)), 10 ** 9)
        z = Fr(rng.choice((1, 2, 10)))
        if kind == 'nyquist':
            dx0 = Fr(1, rng.choice((100, 250, 1000)))
            dx = (dx0, dx0)
            F = z / (n * dx0)
            d = F * lam / 2
            du = (d, d)
            req = {'kind': 'nyquist', 'z': ox.rj(z), 'n': n, 'dx': [ox.rj(dx0), ox.rj(dx0)]}
            ndiam = (n, n)
        else:
            du = (Fr(rng.choice((5, 10)), 10 ** 6), Fr(rng.choice((5, 10)), 10 ** 6))
            shp = (n, n2)
            dx = tuple(lam * z / (q * du[k] * shp[k]) for k in range(2))
            req = {'kind': 'minq', 'z': ox.rj(z), 'du': [ox.rj(du[0]), ox.rj(du[1])], 'shape': list(shp), 'q': ox.rj(q)}
            ndiam = shp
        cases.append({'id': len(cases), 'N': N, 'wf': ox.wf(lam), 'req': req, 'ndiam': list(ndiam), 'thm': 'none',
                      'steps': [ox.plane('Pupil', amp=amp, opd=opd, px=dx, z=z), ox.dft(du, K)],
                      '_n': n, '_q': q, '_lam': lam, '_z': z, '_du': du, '_dx': dx})
    return cases


def run(ctx):
    lentil = import_lentil()
    rng = random.Random(505 + ctx.seed)
    cases = make_cases(rng, 120 if ctx.tier == 'quick' else 1200)
    byN = {}
    for c in cases:
        byN.setdefault(c['N'], []).append({k: v for k, v in c.items() if not k.startswith('_')})
    exp = {}
    for N, cs in sorted(byN.items()):
        e, res = eval_cases('MC_Sampling', cs, nparts=max(1, min(8, len(cs) // 8 + 1)), env={'RING_N': N, 'PHI_FILE': phi_file(N, WORK)}, timeout=1500)
        ctx.add_tlc(res, f'MC_Sampling ring {N} (ThmNyquistQ, ThmMinSamplingQ, ThmPeriod, ThmAutocorr, ThmNyquistNull)')
        exp.update(e)
    f = lambda x: float(ox.rf(x))
    naliased = 0
    for c in cases:
        e = exp[c['id']]
        ctx.case(c['id'])
        sig = {'request': c['req']['kind'], 'Q': c['_q']}
        if not e['pre']:
            raise RuntimeError(f"case {c['id']} is not on a full period")
        lam, z, n = float(c['_lam']), float(c['_z']), c['_n']
        # 1. the helpers
        if c['req']['kind'] == 'nyquist':
            dx = (float(c['_dx'][0]),) * 2
            d = lentil.pixelscale_nyquist(lam, z / (n * dx[0]))
            du = (d, d)
        else:
            du = tuple(float(x) for x in c['_du'])
            dx = lentil.min_sampling(lam, z, du, c['req']['shape'], c['_q'])
        ok = all(abs(float(a) - f(b)) <= 1e-13 * f(b) for a, b in zip(tuple(dx) + tuple(du), list(e['dx']) + list(e['du'])))
        if not ok:
            ctx.violation(dict(sig, kind='pixel-scales'), {'expected': {'dx': e['dx'], 'du': e['du']}, 'observed': {'dx': dx, 'du': du}}, case={'case': c})
            continue
        # 2. propagate with what the helpers returned
        st = c['steps'][0]
        amp = np.array([[sum(t[0] for t in px) for px in row] for row in st['amp']['v']], dtype=float)
        opd = np.array(st['opd']['v'], dtype=float) * lam / c['N']
        pupil = lentil.Pupil(amplitude=amp, opd=opd, pixelscale=tuple(float(x) for x in dx), focal_length=z)
        K = c['steps'][1]['shape']
        w = lentil.propagate_dft(lentil.Wavefront(lam) * pupil, pixelscale=tuple(float(x) for x in du), shape=tuple(K), oversample=1)
        S = centred_dft(w.intensity)
        ring = np.exp(2j * np.pi * np.arange(c['N']) / c['N'])
        A = np.asarray(e['auto'], dtype=float) @ ring
        scale = 1 + np.abs(A).max()
        if S.shape != A.shape or not np.allclose(S, A, rtol=0, atol=1e-9 * scale):
            ctx.violation(dict(sig, kind='intensity-spectrum'), {'expected': A, 'observed': S}, case={'case': c})
            continue
        if c['_q'] < 2:
            naliased += 1
    ctx.traces += len(cases)
    ctx.stats = getattr(ctx, 'stats', {})
    ctx.skipped['(information) cases with Q < 2, where the table holds wrapped lags'] = naliased
    e0 = exp[cases[0]['id']]
    ctx.sample({'case': {k: v for k, v in cases[0].items() if not k.startswith('_')}, 'by_TLC': {'dx': e0['dx'], 'du': e0['du'], 'auto': e0['auto']}}, maxn=1)
    ctx.rule = ('pupils of diameter 2-4 samples (square and narrower arrays, amplitudes 0-3, phases multiples of 1/N wave or none); pixel scales from '
                'pixelscale_nyquist (Q = 2) or min_sampling (Q = 1, 2, 3); one full period K = Q n <= 8 per axis (min_sampling with a different pupil extent on each axis); every lag compared')
    ctx.assumptions += ['extra behaviour outside the twenty listed properties; not registered in MANIFEST.json']
