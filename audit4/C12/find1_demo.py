"""C12 (borderline): a mode set held in an unsigned 64-bit array is not fitted / removed.

zernike_fit / zernike_remove / zernike_basis / zernike accept the same mode subset as a
list, a tuple, a range, or an array of any other integer dtype (int8 ... int64, uint8 ...
uint32, object), but an array of dtype uint64 (np.uint64, np.uintp, np.ulonglong) dies with
an accidental TypeError from `j & 1` in zernike_index (numpy < 2, which setup.py pins).
Exit code 1 when the violation is observed, 0 otherwise.
"""
import os
import sys

sys.path.insert(0, os.environ['LENTIL_REPO'])

import numpy as np
import lentil

assert os.path.realpath(lentil.__file__).startswith(os.path.realpath(os.environ['LENTIL_REPO']))

mask = lentil.circle((64, 64), 28, antialias=False)
modes = [4, 2, 7]
sub = np.array([0.3, -1.2, 0.8])
full = np.zeros(7)
full[np.array(modes) - 1] = sub
opd = lentil.zernike_compose(mask, full)

# reference: the same subset as a list and as int64 / uint32 arrays works
for m in (modes, np.array(modes, dtype=np.int64), np.array(modes, dtype=np.uint32)):
    assert np.allclose(lentil.zernike_fit(opd, mask, m), sub, atol=1e-12)
    assert np.abs(lentil.zernike_remove(opd, mask, m)).max() < 1e-12

failed = []
m64 = np.array(modes, dtype=np.uint64)
for name, call in (('zernike_fit', lambda: lentil.zernike_fit(opd, mask, m64)),
                   ('zernike_remove', lambda: lentil.zernike_remove(opd, mask, m64)),
                   ('zernike_basis', lambda: lentil.zernike_basis(mask, m64)),
                   ('zernike', lambda: lentil.zernike(mask, np.uint64(4)))):
    try:
        out = call()
    except Exception as e:  # noqa
        failed.append('%s(modes of dtype uint64) raised %s: %s' % (name, type(e).__name__, e))
        continue
    if name == 'zernike_fit' and not np.allclose(out, sub, atol=1e-12):
        failed.append('zernike_fit(uint64 modes) returned %r instead of %r' % (out, sub))
    if name == 'zernike_remove' and np.abs(out).max() > 1e-12:
        failed.append('zernike_remove(uint64 modes) left a residual of %g' % np.abs(out).max())

if failed:
    print('C12 violated for the mode subset %r given as a uint64 array '
          '(the same subset as list / int64 / uint32 array is fitted exactly):' % modes)
    for f in failed:
        print('  -', f)
    sys.exit(1)
print('uint64 mode arrays are fitted and removed like any other integer array')
sys.exit(0)
