SPECIFICATION Spec
CONSTRAINT Report
POSTCONDITION Consumed
