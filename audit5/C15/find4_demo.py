"""C15 finding 4 (minor): Spectrum.trim / Spectrum.ends normalise and compare the values
in their storage type. With half precision values a sample that is above the relative
tolerance (ratio to the maximum 1.00018e-4 > tol = 1e-4) is trimmed away.

exit 1 = violation observed, exit 0 = not observed.
"""
import os, sys
sys.path.insert(0, os.environ.get('LENTIL_REPO', '.'))
import warnings
warnings.simplefilter('ignore')
import numpy as np
import lentil
from lentil.radiometry import Spectrum

print('lentil from', lentil.__file__)

v16 = np.array([0, 1.000977, 10008, 3, 0], dtype=np.float16)
v64 = v16.astype(np.float64)                       # exactly the same numbers
wave = np.array([400., 500, 600, 700, 800])
tol = 1e-4
ratio = v64 / v64.max()
print('values (exact)       :', v64)
print('ratio to the maximum :', ratio, '  tol =', tol)
above = np.where(ratio > tol)[0]
expected = wave[above[0]:above[-1] + 1]
print('samples from the first to the last above tol:', expected)

failed = False
for name, v in (('float64', v64), ('float16', v16)):
    s = Spectrum(wave.copy(), v.copy())
    s.trim(tol)
    ok = np.array_equal(s.wave, expected)
    print(f'{name} values: trim({tol}) keeps {s.wave}  -> {"ok" if ok else "WRONG"}')
    if not ok:
        failed = True

if failed:
    print('\nVIOLATION: trim removed the sample at 500 nm whose value is 1.00018e-4 of the maximum,\n'
          'i.e. above the relative tolerance 1e-4 (the ratio and the tolerance are both rounded\n'
          'to half precision, where they coincide).')
    sys.exit(1)
print('no violation observed')
sys.exit(0)
