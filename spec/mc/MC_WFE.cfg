SPECIFICATION Spec
INVARIANT Thms
CONSTRAINT Emit
