"""C07 finding 6 (lower confidence - non-finite input outside the mask): the field is
not multiplied by zero outside the plane's mask when the OPD (or amplitude) is NaN there.

OPD maps that are NaN outside the aperture are common. Plane.multiply forms
amp*mask*exp(2*pi*i*opd/wl) on the bounding box of the mask, so 0*exp(i*NaN) = NaN:
samples outside the mask but inside its bounding box become NaN (and intensity NaN),
while samples outside the bounding box are 0.
"""
import os
import sys

sys.path.insert(0, os.environ.get('LENTIL_REPO', '.'))

import numpy as np
import lentil

wl = 1e-6
m = lentil.circle((8, 8), 3)
mask = (m > 0).astype(int)
opd = np.where(mask > 0, 1e-7, np.nan)
w = lentil.Plane(amplitude=m, opd=opd, mask=mask) * lentil.Wavefront(wl)
f = w.field
outside = f[mask == 0]
print('samples outside the mask:', outside.size, ' of which NaN:', int(np.isnan(outside).sum()),
      ' of which exactly 0:', int((outside == 0).sum()))
if not np.all(outside == 0):
    print('VIOLATION - field is not zero outside the mask (NaN leaks from the OPD)')
    sys.exit(1)
sys.exit(0)
