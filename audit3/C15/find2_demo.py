"""C15 finding 2: Spectrum.integrate is not linear in the values for complex factors -
the imaginary part of a complex-valued spectrum is discarded (only a ComplexWarning is
emitted), and power-preserving bins of such a spectrum are scaled by the wrong factor."""
import os
import sys
import warnings

sys.path.insert(0, os.environ.get('LENTIL_REPO', '.'))

import numpy as np
import lentil
from lentil.radiometry import Spectrum

print('lentil from', lentil.__file__)
warnings.simplefilter('ignore')

wave = np.arange(400., 701., 50.)
s = Spectrum(wave, np.linspace(1., 2., wave.size))
a = 2 - 3j                                   # complex scalar factor
sa = Spectrum(wave, a * s.value)             # complex-valued spectrum (e.g. a complex amplitude
                                             # transmission); same as s * np.complex128(a)

bad = False
for method in ('trapz', 'simps'):
    lhs = sa.integrate(method=method)
    rhs = a * s.integrate(method=method)
    ok = np.isclose(lhs, rhs, rtol=1e-12)
    print(f'{method}: integrate(a*s) = {lhs!r}   a*integrate(s) = {rhs!r}   linear: {ok}')
    bad |= not ok

# power-preserving bins of the same spectrum: must sum to its integral over the span
c = np.array([400., 500., 600., 700.])
b = sa.bin(c, interp_method='trapz', ends='inside')
exact = a * np.trapz(s.value, s.wave)        # piecewise-linear data: trapezoid rule is exact
print('sum of power-preserving bins =', b.sum(), '  integral =', exact)
if not np.isclose(b.sum(), exact, rtol=1e-12):
    bad = True

if bad:
    print('\nVIOLATION: integrate() drops the imaginary part of the values '
          '(np.asarray(value, dtype=float)), so it is not linear in the values, and the '
          'power-preserving bins do not sum to the integral.')
    sys.exit(1)
sys.exit(0)
