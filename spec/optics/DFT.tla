-------------------------------- MODULE DFT --------------------------------
(* The two-dimensional discrete Fourier transform of lentil.fourier as its DEFINING double sum,     *)
(* evaluated exactly in Z[zeta_N]  (property C01; reused by C02-C05, C09).                          *)
(*                                                                                                 *)
(* A pixel value is a ring element (Cyclo).  A transform geometry is a record                       *)
(*   g = [pr, qr, pc, qc,   alpha = (pr/qr, pc/qc)  per-axis output sampling interval               *)
(*        sr, sc, sq,       shift = (sr/sq, sc/sq)  fractional output shift                          *)
(*        or, oc,           integer input offset                                                     *)
(*        M, K]             output shape  (M rows, K columns)                                        *)
(* and the ring order N must be a multiple of qr*sq and qc*sq, so every kernel value                 *)
(* exp(-2 pi i alpha x u) is a power of zeta_N.  Both planes have their origin at index floor(n/2)   *)
(* (Grid!C).  The unitary factor sqrt(|alpha_r alpha_c|) is irrational in general and is carried as  *)
(* the rational under the root (NormSq); the ring part is the plain sum.                             *)
EXTENDS Grid
CONSTANTS N, PhiN
INSTANCE Cyclo

\* pixel given as a sequence of terms <<coef, exp>>  ->  ring element
RECURSIVE TermsAcc(_, _, _)
TermsAcc(acc, ts, k) == IF k > Len(ts) THEN acc ELSE TermsAcc(AddMono(acc, ts[k][1], ts[k][2]), ts, k + 1)
PixVal(ts) == TermsAcc(Zero, ts, 1)
ToRing(f) == TLCEval([x \in 1..Len(f) |-> TLCEval([y \in 1..Len(f[x]) |-> PixVal(f[x][y])])])

\* exponent (in units of 1/N turn) of the kernel for input index x of an axis of n samples with offset o,
\* output index u of an axis of nu samples, alpha = p/q, shift = s/sq
KExp(p, q, s, sq, n, o, nu, x, u) ==
    p * ((x - 1) - C(n) + o) * (sq * ((u - 1) - C(nu)) - s) * (N \div (q * sq))

GeomOK(g) == /\ g.qr > 0 /\ g.qc > 0 /\ g.sq > 0
             /\ N % (g.qr * g.sq) = 0 /\ N % (g.qc * g.sq) = 0

\* ---- the defining double sum ---------------------------------------------------------------------
RECURSIVE SumCols(_, _, _, _, _, _, _)
SumCols(acc, row, y, n, g, v, er) ==           \* adds  row[y] * zeta^-(er + ec(y, v))  for y = y..n
    IF y > n THEN acc
    ELSE SumCols(Add(acc, Rot(row[y], -(er + KExp(g.pc, g.qc, g.sc, g.sq, n, g.oc, g.K, y, v)))),
                 row, y + 1, n, g, v, er)
RECURSIVE SumRows(_, _, _, _, _, _, _)
SumRows(acc, fr, x, m, g, u, v) ==
    IF x > m THEN acc
    ELSE SumRows(SumCols(acc, fr[x], 1, Len(fr[x]), g, v, KExp(g.pr, g.qr, g.sr, g.sq, m, g.or, g.M, x, u)),
                 fr, x + 1, m, g, u, v)

Sample(fr, g, u, v) == SumRows(Zero, fr, 1, Len(fr), g, u, v)
Forward(fr, g) == TLCEval([u \in 1..g.M |-> TLCEval([v \in 1..g.K |-> Sample(fr, g, u, v)])])

\* rational under the root of the unitary factor: value = sqrt(num/den) * ring part
NormSq(g, unitary) == IF unitary THEN <<Abs(g.pr * g.pc), g.qr * g.qc>> ELSE <<1, 1>>

\* ---- matrix triple product: two one-dimensional passes ---------------------------------------------
RowPass(fr, g) ==      \* T[u][y] = SUM_x fr[x][y] zeta^-er(x,u)
    LET m == Len(fr)  n == Len(fr[1])
        RECURSIVE S(_, _, _, _)
        S(acc, x, u, y) == IF x > m THEN acc
                           ELSE S(Add(acc, Rot(fr[x][y], -KExp(g.pr, g.qr, g.sr, g.sq, m, g.or, g.M, x, u))), x + 1, u, y)
    IN TLCEval([u \in 1..g.M |-> TLCEval([y \in 1..n |-> S(Zero, 1, u, y)])])
ColPass(t, g, n) ==    \* F[u][v] = SUM_y T[u][y] zeta^-ec(y,v)
    LET RECURSIVE S(_, _, _, _)
        S(acc, y, u, v) == IF y > n THEN acc
                           ELSE S(Add(acc, Rot(t[u][y], -KExp(g.pc, g.qc, g.sc, g.sq, n, g.oc, g.K, y, v))), y + 1, u, v)
    IN TLCEval([u \in 1..g.M |-> TLCEval([v \in 1..g.K |-> S(Zero, 1, u, v)])])
TripleProduct(fr, g) == ColPass(RowPass(fr, g), g, Len(fr[1]))

\* ---- inverse = conj o forward o conj, divided by the number of input samples unless unitary ---------
ConjAll(a) == TLCEval([x \in 1..Len(a) |-> TLCEval([y \in 1..Len(a[x]) |-> Conj(a[x][y])])])
InverseRaw(Fr, g) == ConjAll(Forward(ConjAll(Fr), g))
InverseDiv(Fr, unitary) == IF unitary THEN 1 ELSE Len(Fr) * Len(Fr[1])

\* ---- theorems (checked by TLC on every case flagged for it) -------------------------------------------
MatEq(a, b) == \A x \in 1..Len(a) : \A y \in 1..Len(a[x]) : Eq(a[x][y], b[x][y])
MatSame(a, b) == a = b                        \* identical representations, stronger than Eq
RECURSIVE EnergyAcc(_, _, _, _)
EnergyAcc(acc, a, x, y) == IF x > Len(a) THEN acc
                           ELSE IF y > Len(a[x]) THEN EnergyAcc(acc, a, x + 1, 1)
                           ELSE EnergyAcc(Add(acc, AbsSq(a[x][y])), a, x, y + 1)
Energy(a) == EnergyAcc(Zero, a, 1, 1)

FullPeriod(m, n) == [pr |-> 1, qr |-> m, pc |-> 1, qc |-> n, sr |-> 0, sc |-> 0, sq |-> 1,
                     or |-> 0, oc |-> 0, M |-> m, K |-> n]

ThmSeparable(fr, g) == MatSame(TripleProduct(fr, g), Forward(fr, g))
\* forward then inverse on a full period: ring parts compose to (m n) * identity, and the scalar tags of
\* forward and inverse multiply to 1/(m n) under either flag
ThmInverse(fr) ==
    LET m == Len(fr)  n == Len(fr[1])  g == FullPeriod(m, n)
        back == InverseRaw(Forward(fr, g), g) IN
    /\ \A x \in 1..m : \A y \in 1..n : Eq(back[x][y], Scale(m * n, fr[x][y]))
    /\ \A un \in BOOLEAN :
         LET a == NormSq(g, un)  d == InverseDiv(fr, un) IN
         \* sqrt(a)*sqrt(a)/d = 1/(mn)   <=>   a[1]^2 * (mn)^2 = a[2]^2 * d^2
         a[1] * a[1] * (m * n) * (m * n) = a[2] * a[2] * d * d
\* Parseval on a full period: SUM |F|^2 = m n SUM |f|^2  (so the unitary factor 1/(mn) conserves energy)
ThmParseval(fr) ==
    LET m == Len(fr)  n == Len(fr[1])  g == FullPeriod(m, n) IN
    Eq(Energy(Forward(fr, g)), Scale(m * n, Energy(fr)))
\* ... and on a ZERO-PADDED full period (alpha = 1/K per axis, K >= input size, output shape K): forward and inverse
\* (conj o forward o conj) both satisfy SUM |F|^2 = K_r K_c SUM |f|^2, i.e. both conserve energy under the unitary tag
Padded(Kr, Kc) == [pr |-> 1, qr |-> Kr, pc |-> 1, qc |-> Kc, sr |-> 0, sc |-> 0, sq |-> 1, or |-> 0, oc |-> 0, M |-> Kr, K |-> Kc]
ThmParsevalPadded(fr, Kr, Kc) ==
    /\ Kr >= Len(fr) /\ Kc >= Len(fr[1])
    /\ Eq(Energy(Forward(fr, Padded(Kr, Kc))), Scale(Kr * Kc, Energy(fr)))
    /\ Eq(Energy(InverseRaw(fr, Padded(Kr, Kc))), Scale(Kr * Kc, Energy(fr)))
    /\ LET a == NormSq(Padded(Kr, Kc), TRUE) IN a[1] * Kr * Kc = a[2]

\* an input offset is the same as embedding the array, displaced, in a larger array of zeros
EmbedIn(fr, big, o) ==        \* big = <<mm, nn>>; the origin sample of fr goes to origin + o
    LET m == Len(fr)  n == Len(fr[1]) IN
    TLCEval([x \in 1..big[1] |-> TLCEval([y \in 1..big[2] |->
        LET i == (x - 1 - C(big[1])) - o[1] + C(m) + 1
            j == (y - 1 - C(big[2])) - o[2] + C(n) + 1
        IN IF i \in 1..m /\ j \in 1..n THEN fr[i][j] ELSE Zero])])
ThmOffset(fr, g, big) ==
    LET g0 == [g EXCEPT !.or = 0, !.oc = 0] IN
    MatSame(Forward(fr, g), Forward(EmbedIn(fr, big, <<g.or, g.oc>>), g0))
=============================================================================
