------------------------------ MODULE FieldAlg ------------------------------
(* Field bookkeeping as arithmetic on an infinite zero-padded plane (property C06).                *)
(*                                                                                                 *)
(* A field is  [sh, off, d]:  sh = <<m, n>> and d an m x n matrix (sequence of rows) of Gaussian     *)
(* integers <<re, im>>, or sh = <<>> and d a single Gaussian integer (a one-element field = an       *)
(* infinite constant).  Embed(f) : Z^2 -> Z[i] is its meaning.  All operations are DEFINED on the    *)
(* meaning (pixel sets, pointwise arithmetic); nothing here is transcribed from lentil/field.py.     *)
EXTENDS Grid

GZero == <<0, 0>>
GAdd(a, b) == <<a[1] + b[1], a[2] + b[2]>>
GMul(a, b) == <<a[1] * b[1] - a[2] * b[2], a[1] * b[2] + a[2] * b[1]>>
GScale(k, a) == <<k * a[1], k * a[2]>>
GAbsSq(a) == a[1] * a[1] + a[2] * a[2]

IsConst(f) == f.sh = <<>>

\* value of the embedding at global pixel p = <<r, c>>
Embed(f, p) ==
    IF IsConst(f) THEN f.d
    ELSE IF p[1] \in Range(f.sh[1], f.off[1]) /\ p[2] \in Range(f.sh[2], f.off[2])
         THEN f.d[Idx(f.sh[1], f.off[1], p[1])][Idx(f.sh[2], f.off[2], p[2])]
         ELSE GZero

FPix(f) == Pix(f.sh, f.off)                    \* only for non-constant fields

\* a window <<rmin, rmax, cmin, cmax>> rendered as a matrix
Render(F(_), w) == TLCEval([i \in 1..(w[2] - w[1] + 1) |->
                       TLCEval([j \in 1..(w[4] - w[3] + 1) |-> F(<<w[1] + i - 1, w[3] + j - 1>>)])])

\* the window that contains everything that can be non-zero for a set of non-constant fields, plus a margin
WindowOf(fs, margin) ==        \* fs: a SEQUENCE of fields (values of different shapes cannot share a set)
    LET P == UNION {IF IsConst(fs[k]) THEN {} ELSE FPix(fs[k]) : k \in 1..Len(fs)} IN
    IF P = {} THEN <<-margin, margin, -margin, margin>>
    ELSE LET b == BBox(P) IN <<b[1] - margin, b[2] + margin, b[3] - margin, b[4] + margin>>

-----------------------------------------------------------------------------
(* Semantics of the operations *)

MulAt(a, b, p)   == GMul(Embed(a, p), Embed(b, p))
SumAt(fs, p)     == LET RECURSIVE S(_)
                        S(k) == IF k = 0 THEN GZero ELSE GAdd(S(k - 1), Embed(fs[k], p))
                    IN S(Len(fs))

\* insert: target array of shape tsh, whose sample (i, j) (1-based) sits at global <<i-1-C(m), j-1-C(n)>>
InsertSem(f, tsh, t, weight, intensity) ==
    TLCEval([i \in 1..tsh[1] |-> TLCEval([j \in 1..tsh[2] |->
        LET v == Embed(f, <<i - 1 - C(tsh[1]), j - 1 - C(tsh[2])>>) IN
        IF intensity THEN GAdd(t[i][j], <<weight * GAbsSq(v), 0>>)
                     ELSE GAdd(t[i][j], GScale(weight, v))])])

-----------------------------------------------------------------------------
(* Extent queries, from pixel sets *)

Overlap(a, b)  == FPix(a) \cap FPix(b) # {}
IExtent(a, b)  == BBox(FPix(a) \cap FPix(b))
IShape(a, b)   == IF Overlap(a, b) THEN ExtShape(IExtent(a, b)) ELSE <<>>
IShift(a, b)   == ExtCentre(IExtent(a, b))
\* 0-based half-open index ranges <<r0, r1, c0, c1>> of the common pixels inside a (python slices)
ISlice(a, b)   == LET e == IExtent(a, b) IN
                  <<e[1] - Lo(a.sh[1], a.off[1]), e[2] - Lo(a.sh[1], a.off[1]) + 1,
                    e[3] - Lo(a.sh[2], a.off[2]), e[4] - Lo(a.sh[2], a.off[2]) + 1>>
Boundary(fs)   == BBox(UNION {FPix(fs[k]) : k \in 1..Len(fs)})

\* number of overlap classes under the pixel-set relation is NOT part of the statement; what reduce must
\* deliver is (i) the same total and (ii) pairwise disjoint results - both judged on the result.

-----------------------------------------------------------------------------
(* Design-level lemmas (use A): the rectangle calculus agrees with pixel sets.  These are the facts *)
(* the implementation relies on; TLC checks them exhaustively on the bounded instance.              *)

RectIntersects(e, g) == e[1] <= g[2] /\ e[2] >= g[1] /\ e[3] <= g[4] /\ e[4] >= g[3]
RectMeet(e, g) == <<Max(e[1], g[1]), Min(e[2], g[2]), Max(e[3], g[3]), Min(e[4], g[4])>>

LemmaRect(sh1, o1, sh2, o2) ==
    LET e == ExtentOf(sh1, o1)  g == ExtentOf(sh2, o2)
        P == Pix(sh1, o1) \cap Pix(sh2, o2) IN
    /\ ExtPix(e) = Pix(sh1, o1)
    /\ RectIntersects(e, g) <=> (P # {})
    /\ (P # {}) => /\ ExtPix(RectMeet(e, g)) = P
                   /\ BBox(P) = RectMeet(e, g)
                   \* an array of the intersection shape placed at the intersection centre covers P exactly
                   /\ Pix(ExtShape(RectMeet(e, g)), ExtCentre(RectMeet(e, g))) = P
=============================================================================
