"""C14 - unit conversions are consistent and Planck's law is unit-independent.

A: Spectrum.tla fixes wavelength-unit factors as decimal exponents and flux conversions as (hc/lambda)^p 10^q from
   potentials; TLC checks composition / identity / round trips for ALL ordered triples (ThmUnits, exhaustive) and, on
   rational spectra, that a change of wavelength unit preserves the trapezoid integral of a density, the values of a
   unitless spectrum and is undone by the way back (ThmToWave).
B: TLC emits the exponent tables and the exact converted spectra; every one of lentil's 16 + 9 conversion cells, all
   their pairwise compositions, every Spectrum.to path of length <= 3 over the 4 x 4 unit states, and planck_radiance /
   planck_exitance in every (wavelength unit, flux unit) pair are compared with them.
   Wien's displacement and the Stefan-Boltzmann total are transcendental: checked numerically (numeric leaf).
"""
import itertools
import random
from fractions import Fraction as Fr

import numpy as np

from harness.core import import_lentil
from harness.tlc import eval_cases
from harness import spectra as sp

LEVEL = 'model_checking'
WU = ['m', 'um', 'nm', 'angstrom']
FU = ['photlam', 'flam', 'wlam']


def run(ctx):
    lentil = import_lentil()
    r = lentil.radiometry
    rng = random.Random(1414 + ctx.seed)
    H, C, K = r.H, r.C, r.K
    if C != 299792458:
        ctx.violation({'kind': 'speed-of-light'}, {'module_value': C, 'exact_SI_value': 299792458, 'relative_error': abs(C - 299792458) / 299792458}, case=None)
    # ---- cases for TLC -------------------------------------------------------------------------------------------
    cases = [{'id': 0, 'k': 'units'}]
    tospec = []
    for _ in range(120 if ctx.tier == 'quick' else 1000):
        n = rng.randint(2, 5)
        lo = rng.choice((400, 500, 900))
        w_nm = [Fr(lo)]
        for _ in range(n - 1):
            w_nm.append(w_nm[-1] + rng.choice((1, 2, 5, Fr(1, 2))))
        v = [Fr(rng.randint(0, 12), 4) for _ in range(n)]
        u1, u2 = rng.choice(WU[1:]), rng.choice(WU[1:])          # metres exceed 32-bit denominators in TLC; their factor is checked in the table
        vu = rng.choice((None, 'photlam', 'flam', 'wlam'))
        f = Fr(10) ** (-9 - sp.EXP[u1])
        sj = sp.spec_json(u1, vu, [x * f for x in w_nm], v)
        cases.append({'id': len(cases), 'k': 'to', 's': sj, 'e2': sp.EXP[u2], 'u2': u2})
    exp, res = eval_cases('MC_Spectrum', cases, nparts=8, timeout=900)
    ctx.add_tlc(res, 'MC_Spectrum (unit tables, ToWave)')
    tab = exp[0]
    ctx.sample({'exponent_tables_from_TLC': {'wave': tab['wave'], 'flux': tab['flux']}}, maxn=1)
    # ---- 16 wavelength cells, compositions, round trips ----------------------------------------------------------------
    fac = {}
    for A in WU:
        for B in WU:
            obs = r.Unit(A).to(B)
            e = 10.0 ** tab['wave'][A][B]
            fac[(A, B)] = obs
            ctx.case(('wave-cell', A, B))
            if abs(obs - e) > 1e-12 * e:
                ctx.violation({'kind': 'wave-factor', 'cell': [A, B]}, {'expected': e, 'observed': obs}, case=None)
    for A, B, Cc in itertools.product(WU, repeat=3):
        ctx.case(('wave-triple', A, B, Cc))
        if abs(fac[(A, B)] * fac[(B, Cc)] - fac[(A, Cc)]) > 1e-12 * fac[(A, Cc)]:
            ctx.violation({'kind': 'wave-composition', 'triple': [A, B, Cc]}, {}, case=None)
    # every accepted spelling of a wavelength unit (long names, any case) is the same unit, as source and as target
    ALIAS = {'m': ['meter', 'M', 'Meter'], 'um': ['micron', 'UM', 'Micron', 'MICRON'], 'nm': ['nanometer', 'NM', 'Nanometer'], 'angstrom': ['Angstrom', 'ANGSTROM']}
    for A in WU:
        for B in WU:
            for a in [A] + ALIAS[A]:
                for b in [B] + ALIAS[B]:
                    if (a, b) == (A, B):
                        continue
                    ctx.case(('wave-cell-alias', a, b))
                    try:
                        obs = r.Unit(a).to(b)
                    except Exception as ex:
                        ctx.violation({'kind': 'wave-factor-alias-' + type(ex).__name__, 'cell': [A, B]}, {'spelling': [a, b]}, case=None)
                        continue
                    if abs(obs - fac[(A, B)]) > 1e-12 * fac[(A, B)]:
                        ctx.violation({'kind': 'wave-factor-alias', 'cell': [A, B]}, {'spelling': [a, b], 'expected': fac[(A, B)], 'observed': obs}, case=None)
    # ---- 9 flux cells (several wavelengths / fluxes), compositions, round trips -----------------------------------------
    waves = np.array([2e-7, 5.5e-7, 1.0e-6, 1.2e-5])
    flux = np.array([1.0, 3.5, 1e-8, 2e12])

    def fconv(X, Y, fl, wv):
        return r.Unit(X).to(fl, Y, wv)
    for X in FU:
        for Y in FU:
            p, q = tab['flux'][X][Y]
            e = flux * (H * C / waves) ** p * 10.0 ** q
            obs = fconv(X, Y, flux, waves)
            ctx.case(('flux-cell', X, Y))
            if not np.allclose(obs, e, rtol=1e-12, atol=0):
                ctx.violation({'kind': 'flux-factor', 'cell': [X, Y]}, {'expected': e, 'observed': obs}, case=None)
    for X, Y, Zz in itertools.product(FU, repeat=3):
        ctx.case(('flux-triple', X, Y, Zz))
        if not np.allclose(fconv(Y, Zz, fconv(X, Y, flux, waves), waves), fconv(X, Zz, flux, waves), rtol=1e-12, atol=0):
            ctx.violation({'kind': 'flux-composition', 'triple': [X, Y, Zz]}, {}, case=None)
    # ---- Spectrum.to : exact wavelength-unit changes from TLC -----------------------------------------------------------------
    for c in cases[1:]:
        e = exp[c['id']]
        # the spectrum is built on caller-owned float arrays which a second spectrum shares (two bands on one grid)
        w_arr = np.array([float(sp.rf(x)) for x in c['s']['w']])
        v_arr = np.array([float(sp.rf(x)) for x in c['s']['v']])
        w_keep, v_keep = w_arr.copy(), v_arr.copy()
        vu_ = None if c['s']['vu'] == 'none' else c['s']['vu']
        s = r.Spectrum(w_arr, v_arr, waveunit=sp.UNIT_OF[c['s']['e']], valueunit=vu_)
        twin = r.Spectrum(w_arr, v_arr, waveunit=sp.UNIT_OF[c['s']['e']], valueunit=vu_)
        before = s.integrate(method='trapz')
        v0 = np.array(s.value, copy=True)
        s.to(c['u2'])
        if not (np.array_equal(w_arr, w_keep) and np.array_equal(v_arr, v_keep) and np.array_equal(twin.wave, w_keep) and np.array_equal(twin.value, v_keep)):
            ctx.violation({'kind': 'to-changed-the-callers-arrays', 'density': c['s']['vu'] != 'none'},
                          {'spectrum': c['s'], 'to': c['u2']}, case=None)
            continue
        ew = np.array([float(sp.rf(x)) for x in e['w']])
        ev = np.array([float(sp.rf(x)) for x in e['v']])
        sig = {'kind': 'to-wave', 'density': c['s']['vu'] != 'none', 'from': sp.UNIT_OF[c['s']['e']], 'to': c['u2']}
        ctx.case(('to', sig['from'], sig['to'], c['s']['vu'], str(c['s']['w'])), nontrivial=sig['from'] != sig['to'])
        if s.waveunit != c['u2'] or not np.allclose(s.wave, ew, rtol=1e-12, atol=0) or not np.allclose(s.value, ev, rtol=1e-12, atol=0):
            ctx.violation(sig, {'spectrum': c['s'], 'expected_wave': ew, 'observed_wave': s.wave, 'expected_value': ev, 'observed_value': s.value},
                          case=None)
            continue
        after = s.integrate(method='trapz')
        if c['s']['vu'] != 'none' and abs(after - before) > 1e-10 * (1 + abs(before)):
            ctx.violation(dict(sig, kind='to-integral'), {'before': before, 'after': after}, case=None)
        if c['s']['vu'] == 'none' and not np.array_equal(np.asarray(s.value), v0):
            ctx.violation(dict(sig, kind='to-unitless-values'), {}, case=None)
    # ---- Spectrum.to paths over the 4 x 4 unit states -----------------------------------------------------------------------------
    targets = WU + FU
    base_w = np.array([400.0, 401.0, 403.0, 404.5])
    base_v = np.array([1.0, 2.5, 0.5, 3.0])
    npaths = 0
    for u0 in WU:
        for vu0 in [None] + FU:
            for L in (1, 2, 3):
                paths = list(itertools.product(targets, repeat=L))
                if ctx.tier == 'quick' and L == 3:
                    paths = rng.sample(paths, 60)
                for path in paths:
                    if vu0 is None and any(t in FU for t in path):
                        continue
                    s = r.Spectrum(base_w * r.Unit('nm').to(u0), base_v.copy(), waveunit=u0, valueunit=vu0)
                    # the same path given as ONE call with several unit arguments must end in the same spectrum
                    s_multi = r.Spectrum(base_w * r.Unit('nm').to(u0), base_v.copy(), waveunit=u0, valueunit=vu0)
                    s_multi.to(*path)
                    wu, vu = u0, vu0
                    w_m = base_w * 1e-9
                    v = base_v.copy()                      # expected value, per current wavelength unit
                    ok = True
                    for t in path:
                        s.to(t)
                        if t in WU:
                            k = tab['wave'][wu][t]
                            if vu is not None:
                                v = v / 10.0 ** k
                            wu = t
                        else:
                            p, q = tab['flux'][vu][t]
                            v = v * (H * C / w_m) ** p * 10.0 ** q
                            vu = t
                    npaths += 1
                    ctx.case(('path', u0, vu0, path))
                    ew = w_m * 10.0 ** (-sp.EXP[wu])
                    if s.waveunit != wu or s.valueunit != vu or not np.allclose(s.wave, ew, rtol=1e-11, atol=0) or \
                            not np.allclose(s.value, v, rtol=1e-11, atol=0):
                        ctx.violation({'kind': 'to-path', 'start': [u0, vu0], 'last': path[-1]},
                                      {'path': path, 'expected_value': v, 'observed_value': s.value, 'expected_wave': ew, 'observed_wave': s.wave}, case=None)
                        continue
                    if s_multi.waveunit != wu or s_multi.valueunit != vu or not np.allclose(s_multi.wave, ew, rtol=1e-11, atol=0) or \
                            not np.allclose(s_multi.value, v, rtol=1e-11, atol=0):
                        ctx.violation({'kind': 'to-path-single-call', 'start': [u0, vu0], 'last': path[-1]},
                                      {'path': path, 'expected_value': v, 'observed_value': s_multi.value}, case=None)
                        continue
                    # way back restores the original spectrum
                    s.to(u0)
                    if vu0 is not None:
                        s.to(vu0)
                    if not np.allclose(s.wave, base_w * r.Unit('nm').to(u0), rtol=1e-11, atol=0) or not np.allclose(s.value, base_v, rtol=1e-11, atol=0):
                        ctx.violation({'kind': 'to-roundtrip', 'start': [u0, vu0]}, {'path': path}, case=None)
    # the long spellings of the wavelength units are the same units for a spectrum as they are for Unit(): to(), sample(), bin()
    for u0 in WU:
        for vu0 in (None, 'photlam'):
            for al, short in (('meter', 'm'), ('micron', 'um'), ('nanometer', 'nm'), ('Micron', 'um'), ('NANOMETER', 'nm')):
                ctx.case(('to-alias', u0, vu0, al))
                a_ = r.Spectrum(base_w * r.Unit('nm').to(u0), base_v.copy(), waveunit=u0, valueunit=vu0)
                b_ = r.Spectrum(base_w * r.Unit('nm').to(u0), base_v.copy(), waveunit=u0, valueunit=vu0)
                b_.to(short)
                try:
                    a_.to(al)
                    ok = a_.waveunit == b_.waveunit and np.allclose(a_.wave, b_.wave, rtol=1e-12, atol=0) and np.allclose(a_.value, b_.value, rtol=1e-12, atol=0)
                    smp = np.allclose(b_.sample(b_.wave[1:3], waveunit=al), b_.sample(b_.wave[1:3], waveunit=short), rtol=1e-12, atol=0)
                    err = None
                except Exception as ex:
                    ok, smp, err = False, False, repr(ex)[:120]
                if not (ok and smp):
                    ctx.violation({'kind': 'to-alias', 'alias': al.lower()}, {'start': [u0, vu0], 'error': err}, case=None)
    # the same spectrum with its wavelengths held in single precision or as integers (whole nanometres: exactly representable): every
    # conversion gives what the float64 twin gives - the arithmetic of a conversion is not done in the storage type of the grid
    wn = np.arange(400, 900, 7)
    vn = 1.0 + (np.arange(wn.size) % 5) * 0.25
    for vu0 in [None] + FU:
        for wdt in (np.float32, np.int32, np.int64, np.uint16, 'values-float16', 'values-float32', 'values-complex64'):
            for path in [(t,) for t in targets if not (vu0 is None and t in FU)] + [('m', 'nm'), ('um', 'wlam' if vu0 else 'angstrom', 'nm')]:
                if isinstance(wdt, str):
                    a = r.Spectrum(wn.astype(float), vn.astype(wdt.split('-')[1]), waveunit='nm', valueunit=vu0)      # (values exact in half precision)
                else:
                    a = r.Spectrum(wn.astype(wdt), vn.copy(), waveunit='nm', valueunit=vu0)
                b = r.Spectrum(wn.astype(float), vn.copy(), waveunit='nm', valueunit=vu0)
                npaths += 1
                ctx.case(('to-narrow-grid', str(wdt) if isinstance(wdt, str) else np.dtype(wdt).name, vu0, path))
                try:
                    a.to(*path)
                    b.to(*path)
                    ok = a.waveunit == b.waveunit and a.valueunit == b.valueunit and np.allclose(np.asarray(a.wave, dtype=float), b.wave, rtol=1e-12, atol=0) \
                        and np.allclose(np.asarray(a.value, dtype=complex), b.value, rtol=1e-12, atol=0)
                    err = None
                except Exception as ex:
                    ok, err = False, repr(ex)[:160]
                if not ok:
                    ctx.violation({'kind': 'to-depends-on-the-storage-type-of-the-grid', 'wave_dtype': str(wdt) if isinstance(wdt, str) else np.dtype(wdt).name, 'density': vu0 is not None},
                                  {'path': path, 'error': err}, case=None)
    # sampling a spectrum directly in ANOTHER wavelength unit is sampling its conversion to that unit: for a density the values per unit
    # wavelength change with the unit (to() is checked above; here sample(waveunit=) and resample(waveunit=) against it)
    for vu0 in [None] + FU:
        for u0 in WU:
            for u1 in WU:
                if u1 == u0:
                    continue
                sw = np.arange(400., 700., 12.5) * r.Unit('nm').to(u0)
                sv = 1.0 + (np.arange(sw.size) % 7) * 0.5
                s0 = r.Spectrum(sw, sv, waveunit=u0, valueunit=vu0)
                conv = s0.copy()
                conv.to(u1)
                q1 = conv.wave[2:-2] + 0.3 * (conv.wave[3] - conv.wave[2])          # interior nodes, between samples
                npaths += 1
                ctx.case(('sample-in-another-unit', vu0, u0, u1))
                got = np.asarray(s0.sample(q1, waveunit=u1), dtype=float)
                ref = np.asarray(conv.sample(q1, waveunit=u1), dtype=float)
                rs = s0.copy()
                rs.resample(q1, waveunit=u1)
                if not (np.allclose(got, ref, rtol=1e-11, atol=0) and np.allclose(np.asarray(rs.value, dtype=float), ref, rtol=1e-11, atol=0) and s0.waveunit == u0):
                    ctx.violation({'kind': 'sample-in-another-unit', 'density': vu0 is not None}, {'from': u0, 'to': u1, 'valueunit': vu0}, case=None)
    # a source given by a law (Blackbody, Blackbody.vegamag) evaluated, converted to another flux unit, evaluated again: what it returns
    # is in the unit it has NOW (and equals its converted samples at its own wavelengths)
    for make in ('blackbody', 'vegamag'):
        for vu0 in FU:
            for vu1 in FU:
                if vu1 == vu0:
                    continue
                gw = np.arange(450., 800., 25.)
                bb = r.Blackbody(gw, 5000., waveunit='nm', valueunit=vu0) if make == 'blackbody' else r.Blackbody.vegamag(gw, 5000., mag=4, band='V', waveunit='nm', valueunit=vu0)
                npaths += 1
                ctx.case(('law-source-converted-after-use', make, vu0, vu1))
                first = np.asarray(bb.sample(gw, waveunit='nm'), dtype=float)
                bb.to(vu1)
                again = np.asarray(bb.sample(gw, waveunit='nm'), dtype=float)
                fresh = r.Blackbody(gw, 5000., waveunit='nm', valueunit=vu1) if make == 'blackbody' else r.Blackbody.vegamag(gw, 5000., mag=4, band='V', waveunit='nm', valueunit=vu1)
                ref = np.asarray(fresh.sample(gw, waveunit='nm'), dtype=float)
                if not (np.allclose(again, ref, rtol=1e-10, atol=0) and np.allclose(np.asarray(bb.value, dtype=float), ref, rtol=1e-10, atol=0)):
                    ctx.violation({'kind': 'law-source-evaluated-in-its-earlier-unit', 'source': make}, {'from': vu0, 'to': vu1}, case=None)
    # ---- Planck ----------------------------------------------------------------------------------------------------------------------
    for T in (300.0, 2000.0, 5778.0, 12000.0):
        w_m = np.array([3e-7, 5e-7, 1e-6, 4e-6, 1e-5])
        ref = r.planck_radiance(w_m, T, waveunit='m', valueunit='wlam')
        direct = 2 * H * C ** 2 / (w_m ** 5 * (np.exp(H * C / (w_m * K * T)) - 1))
        if not np.allclose(ref, direct, rtol=1e-12):
            ctx.violation({'kind': 'planck-reference'}, {'T': T}, case=None)
        for u in WU:
            for vu in FU:
                p, q = tab['flux']['wlam'][vu]
                e = direct * 10.0 ** sp.EXP[u] * (H * C / w_m) ** p * 10.0 ** q
                w_u = w_m * 10.0 ** (-sp.EXP[u])
                rad = r.planck_radiance(w_u, T, waveunit=u, valueunit=vu)
                exi = r.planck_exitance(w_u, T, waveunit=u, valueunit=vu)
                ctx.case(('planck', T, u, vu))
                if not np.allclose(rad, e, rtol=1e-11, atol=0):
                    ctx.violation({'kind': 'planck-units', 'waveunit': u, 'valueunit': vu}, {'T': T, 'expected': e, 'observed': rad}, case=None)
                if not np.allclose(exi, np.pi * rad, rtol=1e-12, atol=0):
                    ctx.violation({'kind': 'exitance-is-pi-radiance', 'waveunit': u, 'valueunit': vu}, {'T': T}, case=None)
        # wavelengths given as integer arrays (an arange grid) are the same wavelengths (lists are refused outright: TypeError)
        for u, wi in (('angstrom', [4000, 5000, 7000, 12000, 50000]), ('nm', [400, 700, 9000, 20000]), ('m', [1, 100, 7000])):
            for vu in FU:
                ref_f = r.planck_radiance(np.array(wi, dtype=float), T, waveunit=u, valueunit=vu)
                for form, wv in (('int64', np.array(wi, dtype=np.int64)), ('int32', np.array(wi, dtype=np.int32))):
                    try:
                        got = np.asarray(r.planck_radiance(wv, T, waveunit=u, valueunit=vu), dtype=float)
                        ex_ = np.asarray(r.planck_exitance(wv, T, waveunit=u, valueunit=vu), dtype=float)
                        ok = np.allclose(got, ref_f, rtol=1e-12, atol=0) and np.allclose(ex_, np.pi * ref_f, rtol=1e-12, atol=0)
                    except Exception:
                        ok = False
                    if not ok:
                        ctx.violation({'kind': 'planck-integer-wavelengths', 'waveunit': u, 'valueunit': vu, 'form': form}, {'T': T, 'wavelengths': wi}, case=None)
        # temperatures given as a single precision array (a scalar wavelength, several bodies): the same law in double precision
        for u, w1 in (('nm', 500.0), ('m', 5e-7), ('um', 0.5)):
            for vu in FU:
                Ts = np.array([T, 2 * T, 10 * T])
                ref_t = np.array([float(r.planck_radiance(w1, float(t_), waveunit=u, valueunit=vu)) for t_ in Ts])
                try:
                    got_t = np.asarray(r.planck_radiance(w1, Ts.astype(np.float32), waveunit=u, valueunit=vu), dtype=float)
                    ok = got_t.shape == ref_t.shape and np.allclose(got_t, ref_t, rtol=1e-12, atol=0)
                except Exception:
                    ok = False
                if not ok:
                    ctx.violation({'kind': 'planck-single-precision-temperatures', 'waveunit': u, 'valueunit': vu}, {'T': Ts.tolist(), 'wavelength': w1}, case=None)
        for u, al in (('um', 'micron'), ('nm', 'nanometer'), ('m', 'meter')):
            w_u = w_m * 10.0 ** (-sp.EXP[u])
            for vu in FU:
                if not np.allclose(r.planck_radiance(w_u, T, waveunit=al, valueunit=vu), r.planck_radiance(w_u, T, waveunit=u, valueunit=vu), rtol=1e-12, atol=0):
                    ctx.violation({'kind': 'planck-units-alias', 'waveunit': u, 'valueunit': vu}, {'T': T, 'spelling': al}, case=None)
        # numeric leaves: Wien displacement and Stefan-Boltzmann
        grid = np.geomspace(1e-8, 1e-2, 400001)
        B = r.planck_exitance(grid, T, waveunit='m', valueunit='wlam')
        peak = grid[np.argmax(B)]
        wien = H * C / (K * 4.965114231744276) / T
        if abs(peak - wien) > 1e-4 * wien:
            ctx.violation({'kind': 'wien'}, {'T': T, 'peak': peak, 'wien': wien}, case=None)
        total = np.trapz(B, grid)
        sigma = 2 * np.pi ** 5 * K ** 4 / (15 * C ** 2 * H ** 3)
        if abs(total - sigma * T ** 4) > 1e-4 * sigma * T ** 4:
            ctx.violation({'kind': 'stefan-boltzmann'}, {'T': T, 'total': total, 'expected': sigma * T ** 4}, case=None)
    # ---- the tabulated Vega fluxes: the same band flux whichever units are requested -------------------------------------------------
    for band in ('U', 'B', 'V', 'R', 'I', 'J', 'H', 'K', 'W1', 'W2', 'W3', 'W4'):
        f0, w0 = r.vegaflux(band, 'm', 'photlam')
        for u in WU + ['micron']:
            for vu in FU:
                ctx.case(('vega', band, u, vu))
                fl, wv = r.vegaflux(band, u, vu)
                uu = 'um' if u == 'micron' else u
                p, q = tab['flux']['photlam'][vu]
                e = f0 * (H * C / w0) ** p * 10.0 ** q * 10.0 ** sp.EXP[uu]
                if abs(wv - w0 * 10.0 ** (-sp.EXP[uu])) > 1e-12 * wv or abs(fl - e) > 1e-11 * e:
                    ctx.violation({'kind': 'vegaflux-units', 'waveunit': u, 'valueunit': vu}, {'band': band, 'expected': [e, w0 * 10.0 ** (-sp.EXP[uu])], 'observed': [fl, wv]}, case=None)
    # ---- a star of given Vega magnitude (Planck law scaled to the tabulated Vega flux): the same source whichever units are requested ---------
    wv_nm = np.linspace(400.0, 900.0, 11)
    for band in ('V', 'J'):
        for u in WU:
            w_u = wv_nm * 10.0 ** (-9 - sp.EXP[u])
            ref = r.Blackbody.vegamag(w_u, 5000.0, 2.0, band, waveunit=u, valueunit='photlam')
            for vu in FU:
                ctx.case(('vegamag', band, u, vu))
                p, q = tab['flux']['photlam'][vu]
                e = np.asarray(ref.value) * (H * C / (wv_nm * 1e-9)) ** p * 10.0 ** q
                try:
                    src = r.Blackbody.vegamag(w_u, 5000.0, 2.0, band, waveunit=u, valueunit=vu)
                    ok_value = src.valueunit == vu and np.allclose(src.value, e, rtol=1e-10, atol=0)
                    ok_sample = np.allclose(src.sample(w_u, waveunit=u), e, rtol=1e-10, atol=0)
                    conv = r.Blackbody.vegamag(w_u, 5000.0, 2.0, band, waveunit=u, valueunit='photlam')
                    conv.to(vu)
                    ok_conv = np.allclose(conv.value, e, rtol=1e-10, atol=0) and np.allclose(conv.sample(w_u, waveunit=u), e, rtol=1e-10, atol=0)
                except Exception as ex:
                    ctx.violation({'kind': 'vegamag-' + type(ex).__name__, 'waveunit': u, 'valueunit': vu}, {'band': band, 'error': repr(ex)[:200]}, case=None)
                    continue
                if not (ok_value and ok_sample and ok_conv):
                    ctx.violation({'kind': 'vegamag-units', 'valueunit': vu, 'constructed_in_unit': bool(ok_value), 'sample_agrees': bool(ok_sample),
                                   'converted_agrees': bool(ok_conv)}, {'band': band, 'waveunit': u}, case=None)
    ctx.traces += len(cases) + npaths
    ctx.exhaustive = ctx.tier != 'quick'
    ctx.extra.update({'to_paths_replayed': npaths, 'rational_to_cases': len(cases) - 1,
                      'outside_model': ['Wien displacement', 'Stefan-Boltzmann total']})
    ctx.rule = ('all 16 wavelength and 9 flux cells, all 64 + 27 ordered triples, every Spectrum.to path of length 1-2 (and a seeded sample '
                '[all] of length 3) from each of the 16 unit states, Planck in all 12 unit pairs at 4 temperatures; distinct by (cell | triple | path)')
    ctx.assumptions += ['flux conversions involve the constants H and C of the module itself: expected values are built from the exponents (p, q) '
                        'that TLC emits and evaluated in float64 (relative 1e-11)']


def replay(ctx, rec):
    print('C14 cases are enumerated deterministically: re-run ./check C14')
