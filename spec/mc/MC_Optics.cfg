SPECIFICATION Spec
INVARIANT Theorems
INVARIANT FitPreInv
CONSTRAINT Emit
