"""C10 / finding 2 - Image.fit_tilt(inplace=False) returns the plane itself, not
the documented copy, so the documented in-place operations applied to the "copy"
(attribute updates) silently modify the caller's plane.

exit code 1 + explanation when the violation is observed, 0 otherwise.
"""
import os
import sys
import warnings

sys.path.insert(0, os.environ.get('LENTIL_REPO', '.'))
import numpy as np
import lentil

warnings.simplefilter('ignore')

amp = lentil.circle((32, 32), 10)
rr, cc = lentil.helper.mesh(amp.shape)
opd = amp * (3e-9 * rr + 1e-9 * cc)

bad = []

# reference behaviour: every other plane type returns an independent copy
for cls, kw in [(lentil.Plane, {}), (lentil.Pupil, dict(focal_length=10.))]:
    p = cls(amplitude=amp, opd=opd, pixelscale=1e-3, **kw)
    q = p.fit_tilt()                      # inplace=False (default): "create a copy"
    q.opd = np.zeros_like(opd)            # edit the copy
    q.amplitude = 2 * amp
    print(f'{cls.__name__:6s}: fit_tilt() is self: {q is p};  caller plane unchanged: '
          f'{np.array_equal(p.opd, opd) and np.array_equal(p.amplitude, amp)}')

img = lentil.Image(amplitude=amp, opd=opd, pixelscale=5e-6)
w0 = (lentil.Wavefront(650e-9) * img).field          # what the caller's plane does now

work = img.fit_tilt()                 # inplace=False (default): documented to create a copy
work.opd = np.zeros_like(opd)         # the caller edits what the docstring calls a copy ...
work.amplitude = 2 * amp

w1 = (lentil.Wavefront(650e-9) * img).field          # ... and the ORIGINAL plane has changed
unchanged = np.array_equal(img.opd, opd) and np.array_equal(img.amplitude, amp)
print(f'Image : fit_tilt() is self: {work is img};  caller plane unchanged: {unchanged};  '
      f'max |field change| of Wavefront*img = {np.abs(w1 - w0).max():.3e}')

if work is img and not unchanged:
    print('\nVIOLATION of C10: Image.fit_tilt(inplace=False) hands back the caller\'s own plane '
          'instead of a copy; updating the returned plane changed img.opd / img.amplitude and '
          'the result of Wavefront * img, although img was never (knowingly) touched.')
    sys.exit(1)
print('no violation observed')
sys.exit(0)
