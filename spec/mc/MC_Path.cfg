SPECIFICATION Spec
INVARIANT Theorems
CONSTRAINT Emit
