------------------------------ MODULE MC_Optics ------------------------------
(* Evaluates optical programs (Optics.tla) given in a case file and emits, after every step, the     *)
(* observable state of the wavefront (metadata, exact field); checks the flagged theorems.            *)
EXTENDS Integers, Sequences, TLC, Json, IOUtils

RingN == atoi(IOEnv.RING_N)
RingPhi == JsonDeserialize(IOEnv.PHI_FILE)
INSTANCE Optics WITH N <- RingN, PhiN <- RingPhi

Cases == JsonDeserialize(IOEnv.CASES)
ASSUME PhiOK

VARIABLE i
Init == i = 0
Next == i < Len(Cases) /\ i' = i + 1
Spec == Init /\ [][Next]_i

Emit == i > 0 => PrintT(<<"EMIT", ToJson([id |-> Cases[i].id, obs |-> Run(Cases[i])])>>)

Prefix(c) == [c EXCEPT !.steps = SubSeq(c.steps, 1, Len(c.steps) - 1)]
Last(c) == c.steps[Len(c.steps)]

FitPreInv == i > 0 => \A k \in 1..Len(Cases[i].steps) :
                 (Cases[i].steps[k].op = "mul") => FitPre(Cases[i].steps[k])

Theorems == i > 0 =>
    LET c == Cases[i] IN
    CASE c.thm = "segments" -> ThmSegments(FinalW(Prefix(c)), Last(c))
      [] c.thm = "shift" -> LET w == FinalW(Prefix(c)) IN
                            \A bi \in 1..Len(w.beams) : ThmShift(w, Last(c), w.beams[bi], c.kr, c.kc)
      [] c.thm = "energy" -> ThmEnergy(FinalW(Prefix(c)), Last(c))
      [] c.thm = "fold" -> ThmFold(FinalW(Prefix(c)), Last(c))
      [] OTHER -> TRUE
=============================================================================
