"""C02 finding 5 (minor): an OPD array of dtype float32 makes Plane.multiply build the
complex phasor in single precision (complex64), so the propagated field differs from the
Fraunhofer sum of amplitude*exp(2i*pi*opd/wavelength) -- evaluated for exactly the same
float32 OPD values -- by ~1e-6 relative, six orders of magnitude above rounding level.
The same numbers supplied as float64 are propagated to ~1e-16."""
import os, sys
sys.path.insert(0, os.environ.get('LENTIL_REPO', '.'))
import numpy as np
import lentil


def fraunhofer(f, alpha, out_shape):
    f = np.asarray(f, dtype=complex)
    (m, n), (M, N) = f.shape, out_shape
    R, S = np.arange(m) - m//2, np.arange(n) - n//2
    U, V = np.arange(M) - M//2, np.arange(N) - N//2
    E1 = np.exp(-2j*np.pi*alpha[0]*np.outer(U, R))
    E2 = np.exp(-2j*np.pi*alpha[1]*np.outer(S, V))
    return np.sqrt(abs(alpha[0]*alpha[1])) * (E1 @ f @ E2)


rng = np.random.default_rng(1)
wl, fl, dx, du, os_ = 600e-9, 10.0, 1/32, 5e-6, 2
amp = lentil.normalize_power(lentil.circle((32, 32), 14, antialias=False))
opd32 = (rng.normal(size=(32, 32))*1e-6).astype(np.float32)      # ~1.7 waves rms
opd64 = opd32.astype(np.float64)                                   # the very same values

alpha = (dx*du/(wl*fl*os_),)*2
ref = fraunhofer(amp*np.exp(2j*np.pi*opd64/wl), alpha, (32, 32))
res = {}
for name, opd in (('float64', opd64), ('float32', opd32)):
    w = lentil.Wavefront(wl) * lentil.Pupil(amplitude=amp, opd=opd, pixelscale=dx, focal_length=fl)
    out = lentil.propagate_dft(w, pixelscale=du, shape=16, oversample=os_)
    res[name] = np.abs(out.field - ref).max()/np.abs(ref).max()
    print(f'opd dtype {name}: max rel. error vs Fraunhofer sum = {res[name]:.3e}')
assert res['float64'] < 1e-12
if res['float32'] > 1e-9:
    print('VIOLATION of C02 (precision): identical OPD values stored as float32 give a field '
          'that is wrong at the 1e-7..1e-6 level (lentil/plane.py Plane.multiply: '
          'amp*np.exp(2*np.pi*1j*opd/wavelength) is evaluated in complex64).')
    sys.exit(1)
print('no violation observed')
sys.exit(0)
