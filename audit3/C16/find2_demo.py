"""C16 finding 2: collect_charge / collect_charge_bayer accumulate photons*QE in the
common dtype of the cube and the QE *vector*; with narrow dtypes the charge wraps
around / overflows, and differs from the same efficiency given as a scalar or Spectrum."""
import os, sys
sys.path.insert(0, os.environ.get('LENTIL_REPO', '.'))
import numpy as np
import lentil
from lentil.radiometry import Spectrum

wave = [500, 600, 700]
bad = 0

# (a) uint16 photon-count cube, efficiency 1 at every wavelength
cube = np.full((3, 2, 2), 30000, dtype=np.uint16)          # 90000 photons per pixel
expected = 90000.0
r_scalar = lentil.detector.collect_charge(cube, wave, 1)
r_spec = lentil.detector.collect_charge(cube, wave, Spectrum([400, 800], [1, 1]))
r_vec = lentil.detector.collect_charge(cube, wave, [True, True, True])   # band mask
r_vec8 = lentil.detector.collect_charge(cube, wave, np.ones(3, dtype=np.uint8))
print('uint16 cube: scalar', r_scalar[0, 0], '| spectrum', r_spec[0, 0],
      '| vector [True]*3', r_vec[0, 0], r_vec.dtype, '| vector uint8 ones', r_vec8[0, 0])
if r_scalar[0, 0] == expected and (r_vec[0, 0] != expected or r_vec8[0, 0] != expected):
    bad += 1

# (b) same through the colour filter array: equal efficiencies must give the mono result
r_bayer = lentil.detector.collect_charge_bayer(cube, wave, [True]*3, [True]*3, [True]*3, 'RGGB')
print('bayer, equal boolean efficiencies:', r_bayer.ravel(), 'mono scalar:', r_scalar.ravel())
if not np.array_equal(r_bayer, r_scalar):
    bad += 1

# (c) half precision cube and half precision efficiency vector
cube16 = np.full((3, 2, 2), 30000, dtype=np.float16)
s16 = lentil.detector.collect_charge(cube16, wave, np.float16(1))
v16 = lentil.detector.collect_charge(cube16, wave, np.ones(3, dtype=np.float16))
print('float16 cube: scalar', s16[0, 0], '| vector', v16[0, 0], v16.dtype)
if np.isfinite(s16[0, 0]) and not np.isfinite(v16[0, 0]):
    bad += 1

if bad:
    print('VIOLATION: the collected charge depends on whether the same efficiency is given '
          'as a scalar/Spectrum or as a per-wavelength vector (sum taken in a narrow dtype).')
    sys.exit(1)
print('ok')
sys.exit(0)
