"""C08 finding 3: the plane type of lentil.Rotate and lentil.Flip is 'none',
while docs/user/fundamentals/planes.rst tabulates them as the planes of type
'transform'.  With type 'none' the documented multiplication table REFUSES
them for pupil and image wavefronts ("none x pupil: Not allowed"), whereas a
'transform' plane must be accepted by all three wavefront types.  The
consequence is observable through the table-driven interaction
Plane.multiply(plane, wavefront) that every other plane class delegates to."""
import os, sys, warnings
sys.path.insert(0, os.environ.get('LENTIL_REPO', '.'))
import numpy as np
import lentil
warnings.simplefilter('ignore')

amp = lentil.circle((32, 32), 12)
w_pupil = lentil.Wavefront(650e-9) * lentil.Pupil(amplitude=amp, pixelscale=1/24, focal_length=10)
w_image = lentil.propagate_dft(w_pupil, pixelscale=5e-6, shape=32, oversample=1)

bad = []
for cls, plane in (('Rotate', lentil.Rotate(angle=90)), ('Flip', lentil.Flip())):
    if not (plane.ptype == lentil.transform):
        bad.append(f"lentil.{cls}().ptype is '{plane.ptype}', documented: 'transform'")
    # the generic table-driven interaction (what Pupil/Image/Tilt delegate to
    # through super().multiply) consults plane.ptype:
    for w in (w_pupil, w_image):
        try:
            out = lentil.Plane.multiply(plane, w)
            if str(out.ptype) != str(w.ptype):
                bad.append(f"{w.ptype} wavefront x {cls}: result type {out.ptype}")
        except TypeError as e:
            bad.append(f"{w.ptype} wavefront x {cls} refused by the ptype table: {e}")

# reference: a plane that really has type 'transform' is accepted
for w in (w_pupil, w_image):
    ref = w * lentil.Plane(ptype=lentil.transform)
    assert str(ref.ptype) == str(w.ptype)

if bad:
    print("VIOLATION: Rotate / Flip do not carry the documented plane type:")
    print("\n".join(bad))
    sys.exit(1)
print("ok: Rotate and Flip have ptype 'transform'")
sys.exit(0)
