"""C15 finding 6 (lower severity): with preserve_power=True the bins of a spectrum
whose only signal lies strictly between the few points that bin() samples are all
zero, although the spectrum's integral over the span of the centres is not."""
import os, sys
sys.path.insert(0, os.environ.get('LENTIL_REPO', '.'))
import numpy as np
import lentil
from lentil.radiometry import Spectrum

print('lentil from', lentil.__file__)
fail = False
w = np.arange(400., 701.)            # uniform 1 nm sampling
v = np.zeros(w.size)
v[w == 532.] = 1.0                   # a laser line: triangle of area 1 nm
s = Spectrum(w, v)
centres = np.arange(405., 700., 10.) # uniform, both ends are sample points of s
for method in ('trapz', 'simps'):
    total = s.integrate(centres[0], centres[-1], method=method)
    bins = s.bin(centres, interp_method=method, preserve_power=True)
    print(f'{method}: integral over the span of the centres = {total:.6f}   sum(bins) = {bins.sum():.6f}')
    if abs(bins.sum() - total) > 1e-9:
        fail = True
if fail:
    print('VIOLATION: power-preserving bins sum to 0 while the spectrum integrates to 1')
    sys.exit(1)
sys.exit(0)
