"""C16 finding 1: adc() raises the electron counts to the polynomial powers in the
dtype of the caller's frame, so integer frames overflow (and float32 / float16
frames lose precision) whenever the gain is a polynomial (1-D or 3-D gain)."""
import os, sys, warnings
sys.path.insert(0, os.environ['LENTIL_REPO'])
import numpy as np
import lentil
from lentil.detector import adc

warnings.simplefilter('ignore')
fail = []

def exact(e, coeffs):
    # exact rational evaluation with python ints / Fractions
    from fractions import Fraction
    n = len(coeffs)
    p = sum(Fraction(c) * Fraction(int(e)) ** (n - i) for i, c in enumerate(coeffs))
    return max(p.numerator // p.denominator, 0)

cases = [
    # (label, frame, gain (highest power first, no constant term))
    ('uint16 frame, quadratic gain', np.array([[300, 1000, 40000]], dtype=np.uint16), [0.0009765625, 1.0]),
    ('int32 frame, quadratic gain', np.array([[1000, 50000, 60000]], dtype=np.int32), [0.0009765625, 0.5]),
    ('int64 frame (what rng.poisson returns), quartic gain',
     np.array([[1000, 60000, 90000]], dtype=np.int64), [2.0**-50, 0.0, 0.0, 0.25]),
    ('uint8 frame, cubic gain', np.array([[5, 7, 200]], dtype=np.uint8), [0.00390625, 0.0, 1.0]),
]
for label, frame, gain in cases:
    got = adc(frame, gain)
    got_float = adc(frame.astype(np.float64), gain)      # same electron counts, float64 frame
    want = np.array([[exact(e, gain) for e in frame[0]]], dtype=float)
    print(f'{label}\n   electrons      {frame[0]}\n   adc(frame)     {got[0]}\n'
          f'   adc(float64)   {got_float[0]}\n   exact floor    {want[0]}')
    if not np.array_equal(got, want):
        fail.append(label)

# per-pixel polynomial (3-D gain) takes the same path
frame = np.array([[300, 40000], [1000, 65535]], dtype=np.uint16)
gain3 = np.stack([np.full((2, 2), 2.0**-10), np.ones((2, 2))])
got = adc(frame, gain3)
want = np.floor(frame.astype(float)**2 * 2.0**-10 + frame.astype(float))
print('uint16 frame, per-pixel quadratic gain\n', got, '\n expected\n', want)
if not np.array_equal(got, want):
    fail.append('uint16 frame, 3-D gain')

# monotonicity is lost as well: a non-negative increasing gain curve, increasing input
frame = np.arange(0, 60001, 5000, dtype=np.int32)[np.newaxis, :]
got = adc(frame, [2.0**-10, 0.5])
print('int32 ramp', frame[0], '\n ->', got[0])
if np.any(np.diff(got[0]) < 0):
    fail.append('output decreases while the input increases (int32 ramp, gain [2**-10, 0.5])')

# float32 frames: the power is rounded to single precision before the (double) gain is applied
frame = np.array([[17625.0, 32406.0, 4097.0]], dtype=np.float32)   # exactly representable counts
gain = [2.0**-20, 0.75]                                          # exactly representable gains
got = adc(frame, gain)
want = np.array([[exact(e, gain) for e in frame[0]]], dtype=float)
print('float32 frame', frame[0], 'gain [2**-20, 0.75] ->', got[0], 'exact floor', want[0],
      '(exact polynomial values 13514.99998..., 25305.99997..., 3088.75...: not ties)')
if not np.array_equal(got, want):
    fail.append('float32 frame: e**2 rounded to float32 before the gain is applied '
                '(off by %s DN)' % (got - want)[0])

if fail:
    print('\nVIOLATION of C16 (digitisation = floor of the gain polynomial at the electron count, '
          'non-decreasing for increasing non-negative gain curves):')
    for f in fail:
        print('  -', f)
    sys.exit(1)
print('no violation observed')
sys.exit(0)
