"""C03 finding 2: when one operand of a field product is a cropped sub-array
with a single sample ((1, 1) array carrying an offset) and the other is a
larger array, the single sample is broadcast over the whole other operand
(and takes over its offset) instead of being intersected with it. The mask
that produced the single sample is thereby ignored.

Exit code 1 (with an explanation) if the violation is observed, 0 otherwise.
"""
import os
import sys

sys.path.insert(0, os.environ.get('LENTIL_REPO', '.'))

import numpy as np
import lentil

TOL = 1e-9
failures = []


def relerr(a, b):
    return np.abs(a - b).max() / max(np.abs(b).max(), 1e-300)


rng = np.random.default_rng(1)

# ---------------------------------------------------------------------------
# Case A: array field x plane whose mask has a single sample (pinhole).
# 'whole' = the very same amplitude array, but with a mask of ones, so that
# Plane.multiply does not crop it to its 1 x 1 bounding box.
# ---------------------------------------------------------------------------
n = 16
circ = lentil.circle((n, n), 6)
opd = rng.normal(size=(n, n)) * 40e-9
pin = np.zeros((n, n)); pin[5, 9] = 1

p1 = lentil.Pupil(amplitude=circ, opd=opd, pixelscale=1e-3, focal_length=2.)
pin_crop = lentil.Pupil(amplitude=pin, pixelscale=1e-3, focal_length=2.)
pin_whole = lentil.Pupil(amplitude=pin, mask=np.ones((n, n)), pixelscale=1e-3, focal_length=2.)

w_crop = lentil.Wavefront(650e-9) * p1 * pin_crop
w_whole = lentil.Wavefront(650e-9) * p1 * pin_whole
expected = (lentil.Wavefront(650e-9) * p1).field * pin

print('Case A (circular pupil followed by a one-sample mask at [5, 9])')
print('  nonzero samples  whole: %d   cropped: %d   (expected %d)'
      % (np.count_nonzero(w_whole.field), np.count_nonzero(w_crop.field), np.count_nonzero(expected)))
print('  max |whole - expected|   = %.3e' % np.abs(w_whole.field - expected).max())
print('  max |cropped - expected| = %.3e' % np.abs(w_crop.field - expected).max())
fm = lentil.propagate_dft(w_whole, pixelscale=5e-6, shape=24, oversample=2)
fc = lentil.propagate_dft(w_crop, pixelscale=5e-6, shape=24, oversample=2)
print('  image plane: rel. diff field %.3e, intensity %.3e'
      % (relerr(fc.field, fm.field), relerr(fc.intensity, fm.intensity)))
if np.abs(w_crop.field - w_whole.field).max() > TOL or relerr(fc.intensity, fm.intensity) > TOL:
    failures.append('A: a one-sample mask transmits the complete incoming field')

# ---------------------------------------------------------------------------
# Case B: no one-sample mask anywhere. Global masks vs. a partition into two
# segments in each of three planes. The bounding boxes of segment 0 of plane 1
# and segment 1 of plane 2 share exactly one sample, so their (correct, zero or
# not) product is a (1, 1) sub-array; the third plane then blows it up.
# ---------------------------------------------------------------------------
n = 12
g1 = np.zeros((n, n), int); g1[1:11, 1:11] = 1
s1 = np.zeros((2, n, n), int)
s1[0, 1:6, 1:6] = 1                   # upper-left block   rows 1..5, cols 1..5
s1[1] = g1 - s1[0]                     # the rest (L-shaped; bounding box = everything)
g2 = g1.copy()
s2 = np.zeros((2, n, n), int)
s2[1, 5:11, 5:11] = 1                 # lower-right block  rows 5..10, cols 5..10
s2[0] = g2 - s2[1]
g3 = g1.copy()
s3 = np.zeros((2, n, n), int)
s3[0, 1:11, 1:6] = 1                  # left / right halves
s3[1, 1:11, 6:11] = 1
for g, s in ((g1, s1), (g2, s2), (g3, s3)):
    assert np.array_equal(s.sum(axis=0), g) and s.max() == 1       # true partitions
    assert all(seg.sum() > 1 for seg in s)                         # no one-sample segment

opds = [rng.normal(size=(n, n)) * 40e-9 for _ in range(3)]
amps = [g.astype(float) for g in (g1, g2, g3)]


def chain(masks):
    w = lentil.Wavefront(650e-9)
    for a, o, m in zip(amps, opds, masks):
        w = w * lentil.Pupil(amplitude=a, opd=o, mask=m, pixelscale=1e-3, focal_length=2.)
    return w


w_mono = chain((g1, g2, g3))
w_seg = chain((s1, s2, s3))
e_pupil = relerr(w_seg.field, w_mono.field)
e_pint = relerr(w_seg.intensity, w_mono.intensity)
fm = lentil.propagate_dft(w_mono, pixelscale=5e-6, shape=24, oversample=2)
fs = lentil.propagate_dft(w_seg, pixelscale=5e-6, shape=24, oversample=2)
e_field = relerr(fs.field, fm.field)
e_int = relerr(fs.intensity, fm.intensity)
print('Case B (three planes, global masks vs. 2-segment partitions, all segments > 1 sample)')
print('  total power in the pupil   global: %.6f   segmented: %.6f'
      % (w_mono.intensity.sum(), w_seg.intensity.sum()))
print('  max rel. difference pupil field %.3e, pupil intensity %.3e' % (e_pupil, e_pint))
print('  max rel. difference image field %.3e, image intensity %.3e' % (e_field, e_int))
if max(e_pupil, e_pint, e_field, e_int) > TOL:
    failures.append('B: segmented three-plane chain differs from the global-mask chain')

if failures:
    print()
    print('VIOLATION of C03 (cropped/segmented result differs from whole/global result):')
    for f in failures:
        print('  -', f)
    print('Cause: lentil.field._mul_broadcast treats an operand with size == 1 as a '
          'shapeless scalar: it is broadcast to the other operand\'s shape and inherits '
          'its offset, although a (1, 1) sub-array has a definite position.')
    sys.exit(1)

print('no violation observed')
sys.exit(0)
