"""C18 finding 3: cosmic_rays raises IndexError for frames with a side longer
than 32768 pixels (for some states of the global random generator).

The ray tracer stores plane indices as int16 (np.int16 casts in
_cubeplane_ray_intersection); for a frame side > 32768 the casts wrap, the ray
is intersected with planes far outside the frame and the deposit loop indexes
the frame out of bounds.
"""
import os
import sys

sys.path.insert(0, os.environ.get('LENTIL_REPO', '.'))

import warnings
import numpy as np
import lentil

warnings.simplefilter('ignore')

pixelscale = (5e-6, 5e-6, 3e-6)
failures = []
ok = 0
for shape in ((40000, 4), (4, 40000)):
    # about 3 rays per frame with the default rate of 4e4 /m^2/s
    area = shape[0] * pixelscale[0] * shape[1] * pixelscale[1]
    ts = 3.2 / (area * 4e4)
    for seed in range(60):
        np.random.seed(seed)
        try:
            frame = lentil.detector.cosmic_rays(shape, pixelscale, ts)
        except Exception as e:   # noqa
            failures.append((shape, seed, f'{type(e).__name__}: {e}'))
            continue
        if (frame.shape != shape or not np.all(np.isfinite(frame))
                or np.any(frame < 0)):
            failures.append((shape, seed, 'bad frame'))
        else:
            ok += 1

# control: an ordinary frame never fails
ctrl = 0
for seed in range(60):
    np.random.seed(seed)
    f = lentil.detector.cosmic_rays((400, 4), pixelscale, 3.2 / (400*4*25e-12*4e4))
    ctrl += (f.shape == (400, 4) and np.all(np.isfinite(f)) and not np.any(f < 0))
print(f'control (400 x 4 frame): {ctrl}/60 frames fine')

for f in failures[:10]:
    print('shape', f[0], 'np.random.seed(%d):' % f[1], f[2])

if failures:
    print()
    print(f'VIOLATION: cosmic_rays did not return a frame for {len(failures)} of '
          f'{len(failures)+ok} random states on frames with a 40000 pixel side.')
    sys.exit(1)

print('no violation observed')
sys.exit(0)
