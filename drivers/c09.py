"""C09 - FFT propagation agrees with DFT propagation; scratch space is transparent.

Specification (Optics!PropagateFft): grid K = round(1/alpha) per axis, reported wavelength
lambda' = K dx du/(os z), result = the DFT semantics at lambda' on the centred window shape*os; refuses
shape*os > K (ValueError) and wavefronts with tilt metadata (NotImplementedError).
B: geometries with grids K of both parities (4..9, K_row != K_col allowed), pupils <= K of both parities,
   every accepted output shape and the first refused one, exact-integer and rounded 1/alpha; each geometry is
   run without scratch and in HISTORIES of calls sharing one scratch buffer (exactly the advertised
   scratch_shape, larger, dirty, reused after a larger grid); everything is compared with the exact field.
"""
import random
from fractions import Fraction as Fr

import numpy as np

from harness.core import import_lentil
from harness import optics as ox

LEVEL = 'model_checking'


def gen_geom(rng, tier):
    Kr = rng.choice((4, 5, 6, 7, 8, 9))
    exact = rng.random() < 0.6
    if exact and rng.random() < 0.5:
        Kc = rng.choice((4, 5, 6, 7, 8, 9))
    else:
        Kc = Kr
    N = ox.lcm(Kr, Kc)
    while N < 12:
        N *= 2
    os_ = rng.choice((1, 2, 3))
    dx = (Fr(1, 2),) * 2
    z, lam = Fr(4), Fr(1, 128)
    if exact:
        du = (lam * z * os_ / (Kr * dx[0]), lam * z * os_ / (Kc * dx[1]))
    else:
        delta = Fr(rng.choice((-3, -2, 2, 3)), 10)
        d = lam * z * os_ / ((Kr + delta) * dx[0])
        du = (d, d)
    m, n = rng.randint(2, Kr), rng.randint(2, Kc)
    amp = np.array([[rng.choice((0, 1, 2, 3)) for _ in range(n)] for _ in range(m)])
    amp[0, 0] = amp[-1, -1] = 1                  # support spans the array (bounding box >= 2 samples)
    opd = np.array([[rng.randrange(N) for _ in range(n)] for _ in range(m)])
    return dict(N=N, Kr=Kr, Kc=Kc, os=os_, dx=dx, z=z, lam=lam, du=du, amp=amp, opd=opd, exact=exact)


def make_case(g, shape, tilt=None):
    steps = [ox.plane('Pupil', amp=g['amp'], opd=g['opd'], px=g['dx'], z=g['z'])]
    wf = ox.wf(g['lam'])
    if tilt == 'plane':
        steps.append(ox.plane('Tilt', tx=Fr(1, 1024), ty=Fr(0)))
    elif tilt == 'wavefront':
        wf = ox.wf(g['lam'], tilt=(Fr(1, 2048), Fr(1, 4096)))
    elif tilt in ('dispersive', 'grism'):
        # a dispersive element displacing by half a sample along x: tilt metadata of another class than Tilt
        x = g['du'][1] / (2 * g['os'])
        steps.append(ox.plane('DispersiveTilt' if tilt == 'dispersive' else 'Grism',
                              disp=dict(t1=Fr(0), t0=Fr(0), d0=Fr(1), d1=g['lam'] - x, root=Fr(1))))
    elif tilt == 'subclass':
        steps.append(ox.plane('Tilt', tx=Fr(1, 1024), ty=Fr(0)))          # the real object is an instance of a user subclass (see run_one)
    elif tilt == 'fitted':
        # a plane that carries fitted tilt: constant OPD on a full aperture satisfies the spec's least-squares precondition
        steps[0] = ox.plane('Pupil', amp=np.ones_like(g['amp']), opd=3, px=g['dx'], z=g['z'])
        steps[0]['fitted'] = [[ox.rj(Fr(1, 1024)), ox.rj(Fr(-1, 512))]]
    steps.append(ox.fft(g['du'], shape, g['os']))
    return dict(N=g['N'], wf=wf, steps=steps, K=[g['Kr'], g['Kc']], os=g['os'], exact=g['exact'],
                pupil=[int(g['amp'].shape[0]), int(g['amp'].shape[1])], tilt=tilt or 'none', thm='none')


def sig_of(c, kind, mode):
    return {'kind': kind, 'scratch': mode, 'K_parity': [k % 2 for k in c['K']], 'pupil_parity': [p % 2 for p in c['pupil']],
            'tilt': c['tilt'], 'exact_alpha': c['exact']}


def run(ctx):
    lentil = import_lentil()
    rng = random.Random(9009 + ctx.seed)
    q = ctx.tier == 'quick'
    geoms = [gen_geom(rng, ctx.tier) for _ in range(160 if q else 1500)]
    cases = []
    for gi, g in enumerate(geoms):
        Kr, Kc, os_ = g['Kr'], g['Kc'], g['os']
        maxr, maxc = Kr // os_, Kc // os_
        shapes = []
        if maxr >= 1 and maxc >= 1:
            shapes.append((maxr, maxc))                                   # largest accepted
            shapes.append((rng.randint(1, maxr), rng.randint(1, maxc)))   # some accepted shape
            if Kr % os_ == 0 and Kc % os_ == 0:
                shapes.append(None)                                       # default shape (only where it is unambiguous)
        shapes.append((maxr + 1, max(1, maxc)))                           # first refused
        # refused because of ONE axis only, the other far inside the grid (non-square requests)
        shapes.append(rng.choice(((1, maxc + 1), (max(1, maxr - 1), maxc + rng.randint(1, 5)), (maxr + 2, 1))))
        for sh in shapes:
            c = make_case(g, sh)
            c['gi'] = gi
            cases.append(c)
        if rng.random() < 0.3:
            c = make_case(g, (max(1, maxr), max(1, maxc)), tilt=rng.choice(('plane', 'wavefront', 'fitted', 'dispersive', 'grism', 'subclass')))
            c['gi'] = gi
            cases.append(c)
    for i, c in enumerate(cases):
        c['id'] = i
    spec, results = ox.eval_spec(cases)
    for N, res in results:
        ctx.add_tlc(res, f'MC_Optics ring N={N}')

    def run_one(c, mode, scratch):
        c2 = dict(c)
        c2['steps'] = [dict(s) for s in c['steps']]
        if scratch is not None:
            c2['steps'][-1]['scratch'] = scratch
        hook = None
        if c['tilt'] == 'subclass':
            import sys
            base = sys.modules['lentil.plane'].TiltInterface

            class UserTilt(base):
                def __init__(self, x, y):
                    super().__init__()
                    self.ux, self.uy = x, y

                def shift(self, xs=0, ys=0, z=0, **kwargs):
                    return xs - z * self.uy, ys - z * self.ux

            def hook(p, st):
                return UserTilt(p.y, p.x) if st['cls'] == 'Tilt' else p          # (Tilt stores its arguments swapped)
        real = ox.run_real(lentil, c2, plane_hook=hook)
        for (k, kind, detail) in ox.compare(c, spec[c['id']]['obs'], real):
            ctx.violation(sig_of(c, kind, mode), dict(detail, step=k, K=c['K'], pupil=c['pupil'], shape=c['steps'][-1]['shape'], os=c['os']),
                          case={'case': c, 'spec': spec[c['id']], 'mode': mode})
        ctx.case((c['id'], mode), nontrivial=True)
        return real

    # 1. every case without scratch
    for c in cases:
        run_one(c, 'none', None)
    # 1b. the refusals (tilt metadata of every kind, shapes beyond the grid) are the same refusals when a scratch buffer is supplied
    for c in cases:
        if spec[c['id']]['obs'][-1]['err'] != 'none':
            g = geoms[c['gi']]
            run_one(c, 'larger-dirty', np.full((g['Kr'] + 2, g['Kc'] + 1), 1 - 2j, dtype=complex))
    # 2. histories sharing one scratch buffer
    ok_cases = [c for c in cases if spec[c['id']]['obs'][-1]['err'] == 'none']
    nhist = 0
    garbage = np.random.default_rng(ctx.seed + 5)
    for _ in range(150 if q else 1500):
        hist = rng.sample(ok_cases, 3)
        mode = rng.choice(('exact', 'larger', 'much-larger', 'shared-largest'))
        buf = None
        kept = []
        for j, c in enumerate(hist):
            g = geoms[c['gi']]
            adv = lentil.scratch_shape(float(g['lam']), (float(g['dx'][0]), float(g['dx'][1])),
                                       (float(g['du'][0]), float(g['du'][1])), float(g['z']), g['os'])
            if tuple(int(v) for v in adv) != (g['Kr'], g['Kc']):
                ctx.violation({'kind': 'scratch_shape', 'K_parity': [g['Kr'] % 2, g['Kc'] % 2]},
                              {'expected': [g['Kr'], g['Kc']], 'observed': [int(v) for v in adv]}, case=None)
            if mode == 'exact':
                buf = (garbage.normal(size=tuple(int(v) for v in adv)) + 1j).astype(complex)
                m = 'exact-advertised-size-dirty'
            elif mode == 'larger':
                buf = (garbage.normal(size=(g['Kr'] + rng.randint(1, 3), g['Kc'] + rng.randint(1, 3))) * (1 - 2j)).astype(complex)
                m = 'larger-dirty'
            elif mode == 'much-larger':
                buf = (garbage.normal(size=(3 * g['Kr'] + rng.randint(0, 3), 2 * g['Kc'] + rng.randint(1, 4))) - 2j).astype(complex)
                m = 'much-larger-dirty'
            else:
                if buf is None:
                    big = max(max(geoms[x['gi']]['Kr'], geoms[x['gi']]['Kc']) for x in hist)
                    buf = (garbage.normal(size=(big, big)) + 3j).astype(complex)
                m = 'reused-across-calls'
            real = run_one(c, m, buf)
            if real[-1].get('_wavefront') is not None:
                kept.append((c, real[-1]['_wavefront']))
        # results returned earlier must still be what they were after the buffer has been used again
        for c, w in kept[:-1]:
            again = [{'err': 'none'}] * (len(c['steps']) - 1) + [ox.observe_real(w)]
            sp_obs = [dict(o, field=[]) for o in spec[c['id']]['obs'][:-1]] + [spec[c['id']]['obs'][-1]]
            for (k, kind, detail) in ox.compare(c, sp_obs, again, check_meta=False):
                ctx.violation(sig_of(c, 'earlier-result-changed-by-later-call', mode), dict(detail, K=c['K']), case={'case': c, 'spec': spec[c['id']], 'mode': mode})
        nhist += 1
    # 2b. a scratch buffer that cannot hold double precision complex numbers (complex64) is either refused or does not change the result
    for c in rng.sample(ok_cases, min(25, len(ok_cases))):
        g = geoms[c['gi']]
        ctx.case(('single-precision-scratch', c['id']))
        ref_ = run_one(c, 'none', None)[-1]
        if ref_.get('err', 'none') != 'none':
            continue
        c64 = dict(c)
        c64['steps'] = [dict(s_) for s_ in c['steps']]
        c64['steps'][-1]['scratch'] = np.full((g['Kr'] + 1, g['Kc'] + 2), 3 - 1j, dtype=np.complex64)
        try:
            got_ = ox.run_real(lentil, c64)[-1]
        except Exception:
            got_ = {'err': 'raised'}
        if got_.get('err', 'none') != 'none':
            continue                                   # refused
        dev = float(np.abs(np.asarray(got_['field']) - np.asarray(ref_['field'])).max() / (np.abs(np.asarray(ref_['field'])).max() or 1.0))
        if dev > 1e-12:
            ctx.violation({'kind': 'scratch-changes-the-result', 'scratch': 'complex64'}, {'K': c['K'], 'max_difference_over_peak': dev}, case=None)
    # 3. where lambda' = lambda (exact integer 1/alpha): propagate_fft against propagate_dft of the same real wavefront
    ncmp = 0
    for c in cases:
        if not c['exact'] or c['tilt'] != 'none' or spec[c['id']]['obs'][-1]['err'] != 'none' or c['steps'][-1]['shape'] == []:
            continue
        g = geoms[c['gi']]
        c_d = dict(c)
        c_d['steps'] = c['steps'][:-1] + [ox.dft(g['du'], c['steps'][-1]['shape'], None, g['os'])]
        rf_ = ox.run_real(lentil, c)
        rd_ = ox.run_real(lentil, c_d)
        ncmp += 1
        if rf_[-1].get('err') == 'none' and rd_[-1].get('err') == 'none':
            a, b = rf_[-1]['field'], rd_[-1]['field']
            if a.shape != b.shape or not np.abs(a - b).max() <= 1e-9 * (1 + np.abs(b).sum()):
                ctx.violation(sig_of(c, 'fft-vs-dft', 'none'), {'K': c['K'], 'pupil': c['pupil'], 'fft': a, 'dft': b},
                              case={'case': c, 'spec': spec[c['id']], 'mode': 'none'})
                continue
            # 3b. the two results are the SAME wavefront for whatever comes next: propagated on (back to a pupil plane, with the DFT
            #     and with the FFT, with and without scratch) they must keep agreeing - a result may not carry more than its window
            wf_, wd_ = rf_[-1].get('_wavefront'), rd_[-1].get('_wavefront')
            if wf_ is not None and wd_ is not None and min(a.shape) >= 2:
                px2 = (float(g['dx'][0]), float(g['dx'][1]))
                try:
                    b_f = lentil.propagate_dft(wf_, pixelscale=px2, shape=(5, 6), oversample=1).field
                    b_d = lentil.propagate_dft(wd_, pixelscale=px2, shape=(5, 6), oversample=1).field
                    ok_chain = np.abs(b_f - b_d).max() <= 1e-9 * (1 + np.abs(b_d).sum())
                    f_ns = lentil.propagate_fft(wf_, pixelscale=px2, oversample=1)
                    big = np.full((64, 64), 3 - 1j, dtype=complex)
                    f_s = lentil.propagate_fft(wf_, pixelscale=px2, oversample=1, scratch=big) if max(f_ns.shape) <= 64 else f_ns
                    ok_scr = f_ns.field.shape == f_s.field.shape and np.abs(f_ns.field - f_s.field).max() <= 1e-9 * (1 + np.abs(f_ns.field).sum())
                except Exception as ex:
                    ok_chain, ok_scr = False, False
                if not (ok_chain and ok_scr):
                    ctx.violation(dict(sig_of(c, 'result-carries-more-than-its-window', 'none'), window_smaller_than_grid=bool(a.shape[0] < c['K'][0] or a.shape[1] < c['K'][1])),
                                  {'K': c['K'], 'shape': list(a.shape), 'continued_with_dft_agrees': bool(ok_chain), 'continued_with_fft_scratch_agrees': bool(ok_scr)},
                                  case={'case': c, 'spec': spec[c['id']], 'mode': 'none'})
    # 4. per-axis sampling whose two axes round to grids implying DIFFERENT wavelengths: the function reports one wavelength; its field
    #    must be the DFT field at that wavelength (numeric comparison on real wavefronts; zero OPD so that only the propagation matters)
    import copy
    nan_ = 0
    for _ in range(20 if q else 150):
        m_, n_ = rng.randint(5, 9), rng.randint(5, 9)
        amp_ = np.array([[rng.choice((1, 1, 2, 0)) for _ in range(n_)] for _ in range(m_)], dtype=float)
        amp_[0, 0] = amp_[-1, -1] = 1
        lam_, z_, dxx = 500e-9, 0.2, 1e-3
        kr, kc = rng.randint(12, 24), rng.randint(12, 24)
        fr_, fc_ = rng.choice((0.0, 0.3, -0.3)), rng.choice((0.3, -0.3, 0.2))
        du_ = (lam_ * z_ / ((kr + fr_) * dxx), lam_ * z_ / ((kc + fc_) * dxx))          # 1/alpha = kr + fr, kc + fc  (never a half)
        dxp = dxx
        if rng.random() < 0.3:
            # slightly anamorphic PUPIL sampling with one output pixel scale: both axes may well round to the SAME grid and still
            # imply two wavelengths (K dx_r du / z  and  K dx_c du / z)
            kc = kr
            dxp = (dxx, dxx * 1.004)
            du_ = (lam_ * z_ / ((kr + 0.2) * dxx),) * 2
            fr_, fc_ = 0.2, (kr + 0.2) / 1.004 - kr
        w_ = lentil.Wavefront(lam_) * lentil.Pupil(amplitude=amp_, pixelscale=dxp, focal_length=z_)
        nan_ += 1
        ctx.case(('aniso', m_, n_, kr, kc, fr_, fc_))
        try:
            rf2 = lentil.propagate_fft(w_, pixelscale=du_, oversample=1)
            w2_ = copy.deepcopy(w_)
            w2_._wavelength = rf2.wavelength
            rd2 = lentil.propagate_dft(w2_, pixelscale=du_, shape=tuple(int(v) for v in rf2.shape), oversample=1)
            diff = np.abs(rf2.field - rd2.field).max() / np.abs(rd2.field).max()
        except Exception as ex:
            ctx.violation({'kind': 'fft-vs-dft-at-reported-wavelength-' + type(ex).__name__}, {'error': repr(ex)[:200]}, case=None)
            continue
        dxa = dxp if isinstance(dxp, tuple) else (dxp, dxp)
        lam_axes = (int(rf2.shape[0]) * dxa[0] * du_[0] / z_, int(rf2.shape[1]) * dxa[1] * du_[1] / z_)
        same = abs(lam_axes[0] - lam_axes[1]) <= 1e-12 * lam_
        if diff > 1e-9:
            ctx.violation({'kind': 'fft-vs-dft-at-reported-wavelength', 'axes_imply_different_wavelengths': not same},
                          {'pupil': [m_, n_], 'one_over_alpha': [kr + fr_, kc + fc_], 'grid': [int(v) for v in rf2.shape], 'reported_wavelength': rf2.wavelength,
                           'wavelength_per_axis': lam_axes, 'max_rel_difference': float(diff)}, case=None)
    ctx.extra['per_axis_rounding_cases'] = nan_
    ox.binding_selftest(ctx, lentil, cases[0], spec[cases[0]['id']])
    ctx.traces += len(cases) + 3 * nhist
    ctx.extra.update({'geometries': len(geoms), 'scratch_histories': nhist, 'fft_vs_dft_real_comparisons': ncmp,
                      'refused_shape_cases': sum(1 for c in cases if spec[c['id']]['obs'][-1]['err'] == 'ValueError'),
                      'tilt_refusal_cases': sum(1 for c in cases if c['tilt'] != 'none')})
    ctx.sample({'case': cases[0], 'spec_last_observation_err': spec[0]['obs'][-1]['err']}, maxn=1)
    ctx.rule = ('geometry = (K_row, K_col in 4..9, pupil shape <= K, oversample 1..3, exact or rounded 1/alpha); cases = accepted '
                'shapes, default shape, first refused shape, tilt-carrying wavefronts; each case also inside random histories of 3 '
                'calls sharing a scratch buffer in three regimes; distinct by (case, scratch regime)')
    ctx.assumptions += ['exact halves in round(1/alpha) are avoided (rounding ties)', 'geometries whose axes round to different wavelengths are compared numerically '
                        '(propagate_fft against propagate_dft at the reported wavelength), not in exact arithmetic']


def replay(ctx, rec):
    lentil = import_lentil()
    c = rec['case']['case']
    real = ox.run_real(lentil, c)
    for (k, kind, detail) in ox.compare(c, rec['case']['spec']['obs'], real):
        ctx.violation(sig_of(c, kind, 'none'), dict(detail, step=k), case=rec['case'])
