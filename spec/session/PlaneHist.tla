------------------------------ MODULE PlaneHist ------------------------------
(* History-independence of a plane (part of C10, shares the tilt semantics of C04).                 *)
(*                                                                                                 *)
(* A plane's optical meaning is its EFFECTIVE OPD = residual OPD + ramp still in the OPD + ramp       *)
(* already moved into the recorded tilt list.  The caller can update the OPD (add a ramp, replace     *)
(* the residual), fit tilt in place, take a fitted copy, or deep-copy the plane.  Whatever sequence   *)
(* of such steps leads to a state, an observation (multiply + propagate) depends only on the          *)
(* effective OPD of the observed plane, and acting on one plane never changes another.                *)
(* A wavefront that PASSED a plane (Pass) is held by the caller: what it shows later (ObserveHeld) is   *)
(* the plane as it was then - whatever the caller has done to the plane since: trimmed the tilt that  *)
(* fit_tilt recorded on it (TrimTilt edits the recorded Tilt object in place), fitted again, fitted a   *)
(* shallow copy in place (ShallowFit, which concerns the copy only), replaced the OPD.                 *)
(* The same holds for a TILT ELEMENT the wavefront passes after the plane (PassVia): the element is    *)
(* steered by its owner (Steer: attributes assigned, coefficient arrays rebound) or, if it is a         *)
(* dispersive element, has its coefficient arrays edited in place (EditElem); a held wavefront keeps    *)
(* the displacement the element had when it passed.  An element's displacement is counted in the same   *)
(* ramp steps as the plane's tilt (C04: a tilt element is equivalent to the OPD ramp).                  *)
(* Ramps are integer steps (units of lambda/N per sample), so the effective state is exact.           *)
EXTENDS Integers, Sequences, TLC, Json, IOUtils

MaxLen == atoi(IOEnv.PH_LEN)
Ramps  == {<<1, 0>>, <<0, 2>>, <<-1, 1>>, <<2, -1>>}
Bases  == {0, 1}
Slots  == {"P", "Q"}
Bound  == 7                         \* |total ramp| stays below one sample (8 steps): no fix() tie is ever hit

\* nt = number of Tilt objects recorded on the plane (one per fit); tilt = their sum
Absent == [base |-> -1, ramp |-> <<0, 0>>, tilt |-> <<0, 0>>, nt |-> 0]
Fresh(b) == [base |-> b, ramp |-> <<0, 0>>, tilt |-> <<0, 0>>, nt |-> 0]
MaxHeld == 2
Plus(a, b) == <<a[1] + b[1], a[2] + b[2]>>
Total(p) == Plus(p.ramp, p.tilt)
Eff(p) == [base |-> p.base, total |-> Total(p)]
InBound(v) == v[1] \in -Bound..Bound /\ v[2] \in -Bound..Bound

VARIABLES pl, prog, held,       \* held: the effective states captured by the wavefronts the caller keeps
          el                    \* the tilt element: [kind |-> "ang" | "disp", v |-> displacement in ramp steps]
vars == <<pl, prog, held, el>>
Steps == Ramps \cup {<<0, 0>>}

Log(act, s, arg, exp) == Append(prog, [act |-> act, s |-> s, arg |-> arg, exp |-> exp])
Present(s) == pl[s] # Absent
More == Len(prog) < MaxLen

AddRamp(s, k) == /\ More /\ Present(s) /\ InBound(Plus(Total(pl[s]), k))
                 /\ pl' = [pl EXCEPT ![s].ramp = Plus(@, k)]
                 /\ prog' = Log("AddRamp", s, k, <<>>) /\ UNCHANGED <<held, el>>
\* the same update made by writing INTO the plane's OPD array (no attribute assignment): same meaning
AddRampIn(s, k) == /\ More /\ Present(s) /\ InBound(Plus(Total(pl[s]), k))
                   /\ pl' = [pl EXCEPT ![s].ramp = Plus(@, k)]
                   /\ prog' = Log("AddRampInplace", s, k, <<>>) /\ UNCHANGED <<held, el>>
SetBase(s, b) == /\ More /\ Present(s)
                 /\ pl' = [pl EXCEPT ![s].base = b, ![s].ramp = <<0, 0>>]     \* recorded tilt stays recorded
                 /\ prog' = Log("SetBase", s, b, <<>>) /\ UNCHANGED <<held, el>>
FitIn(s)      == /\ More /\ Present(s)
                 /\ pl' = [pl EXCEPT ![s].tilt = Plus(@, pl[s].ramp), ![s].ramp = <<0, 0>>, ![s].nt = @ + 1]
                 /\ prog' = Log("FitInplace", s, <<>>, <<>>) /\ UNCHANGED <<held, el>>
FitCopy(s, t) == /\ More /\ Present(s) /\ s # t
                 /\ pl' = [pl EXCEPT ![t] = [pl[s] EXCEPT !.tilt = Plus(@, pl[s].ramp), !.ramp = <<0, 0>>, !.nt = @ + 1]]
                 /\ prog' = Log("FitCopy", s, t, <<>>) /\ UNCHANGED <<held, el>>
Copy(s, t)    == /\ More /\ Present(s) /\ s # t
                 /\ pl' = [pl EXCEPT ![t] = pl[s]]
                 /\ prog' = Log("Copy", s, t, <<>>) /\ UNCHANGED <<held, el>>
Observe(s)    == /\ More /\ Present(s)
                 /\ UNCHANGED <<pl, held, el>>
                 /\ prog' = Log("Observe", s, <<>>, Eff(pl[s]))
\* the caller keeps the wavefront that passed plane s now
Pass(s)       == /\ More /\ Present(s) /\ Len(held) < MaxHeld
                 /\ held' = Append(held, Eff(pl[s]))
                 /\ UNCHANGED <<pl, el>>
                 /\ prog' = Log("Pass", s, <<>>, <<>>)
\* the caller trims the LAST Tilt object fit_tilt recorded on plane s, in place (plane.tilt[-1].x += ...)
TrimTilt(s, k) == /\ More /\ Present(s) /\ pl[s].nt > 0 /\ InBound(Plus(Total(pl[s]), k))
                  /\ pl' = [pl EXCEPT ![s].tilt = Plus(@, k)]
                  /\ UNCHANGED <<held, el>>
                  /\ prog' = Log("TrimTilt", s, k, <<>>)
\* copy.copy(plane).fit_tilt(inplace=True): an edit of the shallow copy, which is then dropped
ShallowFit(s) == /\ More /\ Present(s)
                 /\ UNCHANGED <<pl, held, el>>
                 /\ prog' = Log("ShallowFit", s, <<>>, <<>>)
\* the owner of the element steers it (attribute assignment / coefficient arrays replaced)
Steer(k)      == /\ More /\ k # el.v
                 /\ el' = [el EXCEPT !.v = k]
                 /\ UNCHANGED <<pl, held>>
                 /\ prog' = Log("Steer", "-", k, <<>>)
\* ... or writes into the arrays the element keeps its state in (the coefficient arrays of a dispersive element, the angles of an
\* angular one when they are held in arrays, e.g. 0-d views of a command vector)
EditElem(k)   == /\ More /\ k # el.v
                 /\ el' = [el EXCEPT !.v = k]
                 /\ UNCHANGED <<pl, held>>
                 /\ prog' = Log("EditElem", "-", k, <<>>)
ViaEff(s)     == [base |-> pl[s].base, total |-> Plus(Total(pl[s]), el.v)]
\* a wavefront passes plane s and then the element, and is kept
PassVia(s)    == /\ More /\ Present(s) /\ Len(held) < MaxHeld /\ InBound(ViaEff(s).total)
                 /\ held' = Append(held, ViaEff(s))
                 /\ UNCHANGED <<pl, el>>
                 /\ prog' = Log("PassVia", s, <<>>, <<>>)
ObserveVia(s) == /\ More /\ Present(s) /\ InBound(ViaEff(s).total)
                 /\ UNCHANGED <<pl, held, el>>
                 /\ prog' = Log("ObserveVia", s, <<>>, ViaEff(s))
\* what a held wavefront shows: the plane as it was when the wavefront passed
ObserveHeld(w) == /\ More /\ w \in 1..Len(held)
                  /\ UNCHANGED <<pl, held, el>>
                  /\ prog' = Log("ObserveHeld", "-", w, held[w])

Init == /\ pl = [s \in Slots |-> IF s = "P" THEN Fresh(0) ELSE Absent]
        /\ prog = <<>>
        /\ held = <<>>
        /\ el \in [kind : {"ang", "disp"}, v : {<<0, 0>>}]
DoAddRamp == \E s \in Slots, k \in Ramps : AddRamp(s, k)
DoAddRampIn == \E s \in Slots, k \in Ramps : AddRampIn(s, k)
DoSetBase == \E s \in Slots, b \in Bases : SetBase(s, b)
DoFitIn   == \E s \in Slots : FitIn(s)
DoFitCopy == \E s, t \in Slots : FitCopy(s, t)
DoCopy    == \E s, t \in Slots : Copy(s, t)
DoObserve == \E s \in Slots : Observe(s)
DoPass    == \E s \in Slots : Pass(s)
DoTrim    == \E s \in Slots, k \in Ramps : TrimTilt(s, k)
DoShallowFit == \E s \in Slots : ShallowFit(s)
DoObserveHeld == \E w \in 1..MaxHeld : ObserveHeld(w)
Next == DoAddRamp \/ DoAddRampIn \/ DoSetBase \/ DoFitIn \/ DoFitCopy \/ DoCopy \/ DoObserve
        \/ DoPass \/ DoTrim \/ DoShallowFit \/ DoObserveHeld
        \/ (\E k \in Steps : Steer(k)) \/ (\E k \in Steps : EditElem(k)) \/ (\E s \in Slots : PassVia(s)) \/ (\E s \in Slots : ObserveVia(s))
Spec == Init /\ [][Next]_vars

\* design-level properties
FitPreservesEffective == [][\A s \in Slots : (Present(s) /\ pl'[s].base = pl[s].base /\ pl'[s].ramp = <<0, 0>> /\ pl[s].ramp # <<0, 0>>
                                              /\ pl'[s].tilt = Plus(pl[s].tilt, pl[s].ramp)) => Eff(pl'[s]) = Eff(pl[s])]_vars
Independence == [][\A s \in Slots : (Len(prog') > Len(prog) /\ prog'[Len(prog')].s # s /\ ~(prog'[Len(prog')].act \in {"FitCopy", "Copy"}
                                     /\ prog'[Len(prog')].arg = s)) => pl'[s] = pl[s]]_vars
TypeOK == \A s \in Slots : pl[s] = Absent \/ (pl[s].base \in Bases /\ InBound(Total(pl[s])) /\ pl[s].nt >= 0)
\* a wavefront the caller holds never changes: whatever is done to planes afterwards, held entries stay what they were
HeldFrozen == [][\A w \in 1..Len(held) : w <= Len(held') /\ held'[w] = held[w]]_vars

\* complete behaviours for replay: the program and the effective state of every plane at its end
Emit == (Len(prog) = MaxLen) =>
            PrintT(<<"EMIT", ToJson([kind |-> el.kind, prog |-> prog, final |-> [s \in Slots |-> [present |-> Present(s), eff |-> Eff(pl[s])]], held |-> held])>>)
=============================================================================
