"""C03 finding 1: a segment that consists of a single sample is lost or smeared.

A 6x6 fully illuminated aperture is described (a) by one global mask and
(b) by a partition into two segments: the single sample (1, 4) and all the
other samples.  The two descriptions must give the same pupil field, the same
focal-plane field and the same intensity.  They do not:

  case A (one segmented plane): the one-sample segment is silently dropped,
          the pupil field of the segmented description has a hole at (1, 4).
  case B (the segmented plane is the 2nd plane of a chain): the phasor of the
          one-sample segment is broadcast over the *whole* incoming field
          instead of selecting one sample, so every sample of the aperture is
          counted twice except the one sample that ought to be.

exit code 1 = violation observed, 0 = not observed.
"""
import os
import sys

sys.path.insert(0, os.environ.get('LENTIL_REPO', '.'))

import numpy as np
import lentil

WL = 500e-9
N = 6
PIX = (1, 4)            # the one-sample segment (not the centre sample (3, 3))

rng = np.random.default_rng(0)
amp = np.ones((N, N))
opd = rng.normal(size=(N, N)) * 2e-8

seg = np.zeros((2, N, N), dtype=int)
seg[0][PIX] = 1                     # segment 0: one sample
seg[1] = 1 - seg[0]                 # segment 1: everything else
assert np.array_equal(seg.sum(axis=0), (amp != 0).astype(int))   # a partition


def pupil(mask, a=amp, o=opd):
    return lentil.Pupil(amplitude=a, opd=o, mask=mask, pixelscale=1e-3,
                        focal_length=1)


def propagate(w):
    return lentil.propagate_dft(w, pixelscale=5e-6, shape=16, oversample=2)


def report(tag, w_mono, w_seg, truth):
    o_mono, o_seg = propagate(w_mono), propagate(w_seg)
    e_mono = np.abs(w_mono.field - truth).max()
    e_seg = np.abs(w_seg.field - truth).max()
    e_img = np.abs(o_mono.field - o_seg.field).max()
    e_int = np.abs(o_mono.intensity - o_seg.intensity).max() / o_mono.intensity.max()
    print(f'{tag}')
    print(f'   pupil field, global mask   vs numpy truth : max abs err {e_mono:.3e}')
    print(f'   pupil field, segmented mask vs numpy truth: max abs err {e_seg:.3e}')
    print(f'   image field, global vs segmented          : max abs diff {e_img:.3e}')
    print(f'   image intensity, global vs segmented      : max rel diff {e_int:.3e}')
    print(f'   |pupil field| of the segmented description:')
    print(np.array2string(np.abs(w_seg.field), precision=2, suppress_small=True))
    return max(e_seg, e_img, e_int) > 1e-9 and e_mono < 1e-9


bad = False

# ---- case A: a single segmented plane -------------------------------------
truth = amp * np.exp(2j * np.pi * opd / WL)
w_mono = lentil.Wavefront(WL) * pupil(None)
w_seg = lentil.Wavefront(WL) * pupil(seg)
print('number of fields, segmented description:', len(w_seg.data),
      '(expected 2, one per segment)')
bad |= report('case A: Wavefront * Pupil(mask=partition)', w_mono, w_seg, truth)

# ---- case B: the segmented plane comes second in a chain -------------------
amp0 = np.ones((N, N))
opd0 = rng.normal(size=(N, N)) * 2e-8
first = pupil(None, amp0, opd0)
truth = amp0 * np.exp(2j * np.pi * opd0 / WL) * amp * np.exp(2j * np.pi * opd / WL)
w_mono = lentil.Wavefront(WL) * first * pupil(None)
w_seg = lentil.Wavefront(WL) * first * pupil(seg)
print()
print('shapes/offsets of the fields, segmented description:',
      [(f.shape, tuple(int(v) for v in f.offset)) for f in w_seg.data])
bad |= report('case B: Wavefront * Pupil(global) * Pupil(mask=partition)',
              w_mono, w_seg, truth)

if bad:
    print('\nVIOLATION: describing the aperture by a partition that contains a '
          'one-sample segment changes the field and the intensity.')
    sys.exit(1)
print('\nno violation observed')
sys.exit(0)
