"""C11 finding 1: high-order modes are NaN (not zero) outside a small mask.

zernike() zeroes the samples outside the mask by MULTIPLYING the polynomial,
evaluated on the whole array, with the boolean mask.  With the default
coordinates rho = 1 at the farthest masked sample, so for a small mask in a
larger array rho is in the hundreds or thousands at the far samples; the radial
polynomial overflows to +-inf there and inf * False = NaN.
"""
import os
import sys
import warnings

sys.path.insert(0, os.environ['LENTIL_REPO'])
import numpy as np
import lentil

warnings.simplefilter('ignore')

failures = []

cases = []
# two adjacent samples in a 1024 x 1024 array
m = np.zeros((1024, 1024), dtype=bool)
m[512, 512:514] = True
cases.append(('2 samples in 1024x1024', m, [4, 3000, 3917, 3918, 3919]))
# a plus-shaped 5-sample mask in a 512 x 512 array
m = np.zeros((512, 512), dtype=bool)
m[255:258, 256] = True
m[256, 255:258] = True
cases.append(('5-sample plus in 512x512', m, [4, 5887, 5888]))
# a 3 x 3 block near a corner of a 512 x 511 array (n = 110, m = 0 is j = 6106)
m = np.zeros((512, 511), dtype=bool)
m[10:13, 20:23] = True
cases.append(('3x3 block in 512x511', m, [4, 6106]))

for name, mask, indices in cases:
    for j in indices:
        for normalize in (True, False):
            z = lentil.zernike(mask, j, normalize=normalize)
            outside = z[~mask]
            inside = z[mask]
            n_bad = int(np.count_nonzero(outside != 0) )  # NaN != 0 is True
            print(f'{name}: j={j} normalize={normalize}: '
                  f'{n_bad} samples outside the mask are not zero '
                  f'(NaN: {int(np.isnan(outside).sum())}); '
                  f'inside finite: {bool(np.isfinite(inside).all())}')
            if n_bad:
                failures.append((name, j, normalize, n_bad))

if failures:
    print('\nVIOLATION: "values are zero outside the mask" - zernike() returns '
          'NaN outside the mask for', len(failures), 'of the cases above')
    sys.exit(1)
print('no violation observed')
sys.exit(0)
