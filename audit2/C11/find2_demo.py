"""C11 finding 2: zernike(mask, j, theta=<array>) with rho left at None silently
discards the caller's theta and evaluates the mode on the default angles.
Supplying only rho raises "Both rho and theta must be specified"; supplying
only theta does not - the check is one-sided."""
import os, sys
sys.path.insert(0, os.environ.get('LENTIL_REPO', '.'))
import numpy as np
import lentil

mask = lentil.circle((32, 32), 14, antialias=False)
rho, theta = lentil.zernike_coordinates(mask)
theta_rot = theta + np.pi/2          # caller wants the modes rotated by 90 degrees

default = lentil.zernike(mask, 2)
wanted = lentil.zernike(mask, 2, rho=rho, theta=theta_rot)   # cos(theta + 90deg) = -sin(theta)
assert np.abs(default - wanted).max() > 1.0

fail = False
for name, call in [
        ('zernike', lambda: lentil.zernike(mask, 2, theta=theta_rot)),
        ('zernike_basis', lambda: lentil.zernike_basis(mask, [2], theta=theta_rot)[0]),
        ('zernike_compose', lambda: lentil.zernike_compose(mask, [0, 1], theta=theta_rot))]:
    try:
        got = call()
    except ValueError as e:
        print(f"{name}: refused ({e}) - fine")
        continue
    if np.allclose(got, wanted):
        print(f"{name}: evaluated at the supplied theta - fine")
    else:
        fail = True
        print(f"VIOLATION {name}(mask, ..., theta=theta_rot): no error, result equals the DEFAULT-theta mode: "
              f"{np.allclose(got, default)}; max |got - mode at supplied theta| = {np.abs(got - wanted).max():.3f}")

# the opposite case is refused, which shows the intent
try:
    lentil.zernike(mask, 2, rho=rho)
    print("rho only: accepted")
except ValueError as e:
    print("rho only:", e)

if fail:
    print("lentil/zernike.py lines 60-64: `if rho is None: rho, theta = zernike_coordinates(mask)` "
          "overwrites a supplied theta; only the rho-without-theta case raises")
    sys.exit(1)
print("no violation observed")
sys.exit(0)
