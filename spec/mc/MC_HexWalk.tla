----------------------------- MODULE MC_HexWalk -----------------------------
EXTENDS Integers, Sequences, FiniteSets, TLC, Json
VARIABLES k, hex, i, j, results
INSTANCE HexWalk WITH KMax <- 6
\* every finished walk is printed with its centres: the harness compares lentil's hex_ring / hex_to_xy / hex_to_rc with it
Emit == Done => PrintT(<<"EMIT", ToJson([id |-> k, k |-> k, ring |-> results,
                                         xy |-> [rot \in {"n", "r"} |-> [n \in 1..Len(results) |-> XY2(results[n], rot = "r")]],
                                         rc |-> [rot \in {"n", "r"} |-> [n \in 1..Len(results) |-> RC2(results[n], rot = "r")]]])>>)
=============================================================================
