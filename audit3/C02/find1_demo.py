"""C02 finding 1: a tilt carried by a Field (Plane.fit_tilt, Tilt plane, Wavefront(tilt=))
moves the window that propagate_dft evaluates.

(a) monolithic pupil, default prop_shape (= shape): whole bands of the requested,
    centred output window are left at exactly zero although the Fraunhofer field
    there is not zero (the same plane WITHOUT fit_tilt reproduces the Fraunhofer
    sum on every sample).
(b) segmented pupil: a sample that IS evaluated only receives the contribution of
    the segments whose displaced window happens to cover it, so its value is not
    the Fraunhofer sum and it changes when only `shape` is changed.
"""
import os, sys
sys.path.insert(0, os.environ.get('LENTIL_REPO', '.'))
import numpy as np
import lentil

def fraunhofer(f, alpha, shape_out):
    m, n = f.shape
    M, N = shape_out
    R = np.arange(m) - m//2; S = np.arange(n) - n//2
    U = np.arange(M) - M//2; V = np.arange(N) - N//2
    E1 = np.exp(-2j*np.pi*alpha[0]*np.outer(U, R))
    E2 = np.exp(-2j*np.pi*alpha[1]*np.outer(S, V))
    return np.sqrt(alpha[0]*alpha[1]) * E1 @ f @ E2

wl, fl, dx, du, osamp = 500e-9, 1.0, 1e-3, 5e-6, 1
alpha = (dx*du/(wl*fl*osamp),)*2
n = 16
r, c = lentil.helper.mesh((n, n))
fail = False

# ---------------------------------------------------------------- (a)
theta = 3.0e-5                                  # -> 6 output samples of image motion
opd = theta * r * dx + 2e-8*np.cos(c)           # tilt + a little figure error
amp = np.ones((n, n))
f_in = amp*np.exp(2j*np.pi*opd/wl)
ref = fraunhofer(f_in, alpha, (n, n))

plain = lentil.Pupil(amplitude=amp, opd=opd, pixelscale=dx, focal_length=fl)
fitted = plain.fit_tilt()
out_plain = lentil.propagate_dft(lentil.Wavefront(wl)*plain, du, shape=n, oversample=osamp).field
out_fit = lentil.propagate_dft(lentil.Wavefront(wl)*fitted, du, shape=n, oversample=osamp).field

print('(a) plain plane      : max|out-ref|/max|ref| = %.2e' % (np.abs(out_plain-ref).max()/np.abs(ref).max()))
zero = (out_fit == 0)
print('(a) fit_tilt plane   : %d of %d samples of the centred %dx%d window are exactly 0; '
      'largest |Fraunhofer field| on them = %.3e (peak %.3e)'
      % (zero.sum(), zero.size, n, n, np.abs(ref[zero]).max() if zero.any() else 0, np.abs(ref).max()))
print('    rows left at zero:', sorted(set(np.nonzero(zero.all(axis=1))[0])))
if zero.any() and np.abs(ref[zero]).max() > 1e-6*np.abs(ref).max():
    fail = True

# ---------------------------------------------------------------- (b)
mask = np.zeros((2, n, n)); mask[0, :, :n//2] = 1; mask[1, :, n//2:] = 1
opd2 = np.where(mask[0] > 0, +theta*r*dx, -theta*r*dx)   # segment 0 -> one way, segment 1 -> the other
f_in2 = np.exp(2j*np.pi*opd2/wl)
seg_plain = lentil.Pupil(amplitude=np.ones((n, n)), opd=opd2, mask=mask, pixelscale=dx, focal_length=fl)
seg_fit = seg_plain.fit_tilt()

vals = {}
for shape in (8, 48):
    ref2 = fraunhofer(f_in2, alpha, (shape, shape))
    o_p = lentil.propagate_dft(lentil.Wavefront(wl)*seg_plain, du, shape=shape, oversample=osamp).field
    o_f = lentil.propagate_dft(lentil.Wavefront(wl)*seg_fit, du, shape=shape, oversample=osamp).field
    ctr = (shape//2 + 3, shape//2)             # 3 samples below the optical axis
    vals[shape] = o_f[ctr]
    print('(b) shape=%2d sample axis+(3,0): Fraunhofer %.6f%+.6fj | plain plane %.6f%+.6fj | fit_tilt plane %.6f%+.6fj'
          % (shape, ref2[ctr].real, ref2[ctr].imag, o_p[ctr].real, o_p[ctr].imag, o_f[ctr].real, o_f[ctr].imag))
    if abs(o_p[ctr]-ref2[ctr]) > 1e-10:
        print('unexpected: plain plane differs'); 
    if o_f[ctr] != 0 and abs(o_f[ctr]-ref2[ctr]) > 1e-6*np.abs(ref2).max():
        fail = True
if abs(vals[8]-vals[48]) > 1e-9:
    print('(b) the SAME evaluated sample changes value when only `shape` changes: %s -> %s' % (vals[8], vals[48]))
    fail = True

if fail:
    print('VIOLATION: fitted tilt changes which samples are evaluated and the value of evaluated samples')
    sys.exit(1)
print('no violation observed')
sys.exit(0)
