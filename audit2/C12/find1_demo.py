"""C12 finding 1: zernike_fit / zernike_remove silently drop a linearly
independent mode whose amplitude over the mask is < 1e-15 of the largest mode
(unscaled np.linalg.pinv cut-off), which happens with caller-supplied
(rho, theta) on a sub-aperture near the pupil centre.

exit code 1 = violation observed, 0 = not observed.
"""
import os
import sys

sys.path.insert(0, os.environ.get('LENTIL_REPO', '.'))

import numpy as np
import lentil

print('lentil from', lentil.__file__)

# Global (pupil) Zernike coordinates: pupil of radius 250 samples on a 512 grid.
pupil = lentil.circle((512, 512), 250, antialias=False)
rho, theta = lentil.zernike_coordinates(pupil)      # rho = 1 on the pupil edge

failed = False


def case(label, mask, modes):
    global failed
    modes = np.asarray(modes)
    B = lentil.zernike_basis(mask, modes, vectorize=True, rho=rho, theta=theta)
    rms = np.sqrt((B**2).sum(axis=1) / np.count_nonzero(mask))
    # linear independence on the mask: the Gram matrix of the unit-rms modes
    # is perfectly conditioned
    cond = np.linalg.cond((B / rms[:, None]).T)
    # coefficients such that every mode contributes an rms of exactly 1 to the OPD
    c = 1.0 / rms
    coeffs = np.zeros(modes.max())
    coeffs[modes - 1] = c
    opd = lentil.zernike_compose(mask, coeffs, rho=rho, theta=theta)

    fit = lentil.zernike_fit(opd, mask, modes, rho=rho, theta=theta)
    rel = np.abs(fit / c - 1)

    # reference: ordinary least squares on the same basis with scaled columns
    ref = np.linalg.lstsq((B / rms[:, None]).T, opd.ravel(), rcond=None)[0] / rms
    rel_ref = np.abs(ref / c - 1)

    res = lentil.zernike_remove(opd, mask, modes, rho=rho, theta=theta)
    inside = np.asarray(mask, dtype=bool)
    ratio = res[inside].std() / opd[inside].std()

    # each mode alone is fitted correctly
    alone = [abs(lentil.zernike_fit(opd_j, mask, [j], rho=rho, theta=theta)[0] / cj - 1)
             for j, cj, opd_j in ((j, cj, cj * lentil.zernike(mask, j, rho=rho, theta=theta))
                                  for j, cj in zip(modes, c))]

    print(f'--- {label}: modes {modes.tolist()}, max rho on mask '
          f'{(rho * inside).max():.4f}')
    print('   rms of each mode over the mask        :', rms)
    print('   cond. number of unit-rms modes        :', cond)
    print('   composed with coefficients            :', c)
    print('   zernike_fit returned                  :', fit)
    print('   relative error of zernike_fit         :', rel)
    print('   relative error of scaled lstsq (ref)  :', rel_ref)
    print('   relative error fitting each mode alone:', alone)
    print('   rms(zernike_remove(opd)) / rms(opd)   :', ratio, '(should be ~0)')
    if cond < 10 and rel_ref.max() < 1e-9 and (rel.max() > 1e-3 or ratio > 1e-3):
        failed = True


# (a) central hexagonal segment of a segmented pupil (radius 45 of 250)
seg = lentil.hexagon((512, 512), 45)
case('central hex segment', seg, [1, 300])          # Z300: n = 23, m = 23
case('central hex segment, other order', seg, [300, 1])

# (b) a small circular sub-aperture (radius 8 of 250) at the pupil centre
sub = lentil.circle((512, 512), 8, antialias=False)
case('small central sub-aperture', sub, [4, 78])     # Z78: n = 11, m = 11

if failed:
    print('\nVIOLATION of C12: the modes are linearly independent on the mask '
          '(unit-rms condition number ~1, a column-scaled least squares and the '
          'single-mode fits recover the coefficients to 1e-14), yet zernike_fit '
          'returns ~0 for the small-amplitude mode and zernike_remove leaves an OPD '
          'made only of the removed modes essentially untouched.')
    sys.exit(1)
print('no violation observed')
sys.exit(0)
