"""C13 - a Spectrum whose wavelength grid is held in extended precision (np.longdouble)
is refused as an operand of Spectrum-Spectrum arithmetic (TypeError from np.interp),
although it is a valid Spectrum (constructor, scalar arithmetic, sample() all accept it),
although the very same data held in float64 / float32 / float16 / integers is accepted,
and although s*s, s+s on such a grid worked before the repair 618b219 ("sampling is done
in double precision").

exit 1 + explanation when the violation is observed, exit 0 otherwise.
"""
import os
import sys

sys.path.insert(0, os.environ['LENTIL_REPO'])

import numpy as np
import lentil
from lentil.radiometry import Spectrum

print('lentil from', lentil.__file__)

wave = np.array([400., 450., 500., 550., 600., 650., 700.])
value = np.array([1., 2., 4., 3., 2., 5., 1.])

ref = Spectrum(wave, value)                               # float64 grid
ext = Spectrum(wave.astype(np.longdouble), value)         # the same grid, extended precision
inner = Spectrum([480., 530., 580.], [0.5, 0.25, 0.75])   # ordinary operand nested in the range

# the extended-precision spectrum is a perfectly usable Spectrum on its own
assert np.array_equal((ext * 2).value, (ref * 2).value)
assert np.array_equal(ext.sample(wave), ref.sample(wave))

failures = []
for name, op in [('add', lambda a, b: a + b), ('subtract', lambda a, b: a - b),
                 ('multiply', lambda a, b: a * b), ('divide', lambda a, b: a / b),
                 ('power', lambda a, b: a ** b)]:
    for label, left, right, rleft, rright in [
            ('ext (op) ext', ext, ext, ref, ref),
            ('ext (op) inner', ext, inner, ref, inner),
            ('inner (op) ext', inner, ext, inner, ref)]:
        expected = op(rleft, rright)          # same physical operands, float64 grid
        try:
            got = op(left, right)
        except Exception as e:                # noqa
            failures.append(f'{name:9s} {label:15s}: {type(e).__name__}: {e}')
            continue
        if not (got.wave.shape == expected.wave.shape
                and np.allclose(np.asarray(got.wave, float), expected.wave, rtol=1e-12)
                and np.allclose(np.asarray(got.value, float), expected.value, rtol=1e-12,
                                equal_nan=True)):
            failures.append(f'{name:9s} {label:15s}: result differs from the float64 result')

if failures:
    print('VIOLATION: a binary operation between two valid spectra gives no result when the '
          'wavelength grid of the operand that spans the union is np.longdouble:')
    for f in failures:
        print('   ', f)
    print('the same operands with a float64 grid give', (ref * inner).value)
    # acceptance even depends on the wavelength unit the operand is expressed in:
    ext_um = Spectrum((wave * 1e-3).astype(np.longdouble), value, 'um')
    try:
        r = inner * ext_um
        print('the same longdouble operand expressed in um IS accepted on the right '
              '(Spectrum.to demotes the copy):', r.value)
    except Exception as e:  # noqa
        print('inner * ext_um:', type(e).__name__, e)
    sys.exit(1)

print('no violation observed')
sys.exit(0)
