"""C10 / finding 1: a shallow copy of a Blackbody.vegamag source keeps sampling the ORIGINAL object.

Blackbody.vegamag stores `self.sample_fn = self.sample_vegamag`, a method bound to the
instance it was created on.  copy.copy() copies that attribute as it is, so the copy's
sample() (and therefore every Spectrum operation that resamples it: +, -, *, /, bin of a
product, collect_charge(qe=...)) evaluates band and mag of the *original* object, mixed
with the temperature and flux unit of the copy.  The result of copy.sample(wave)
therefore depends on the state/history of an object that is not an argument of the call,
and the copy's own `mag`/`band` are ignored.
"""
import os
import sys
import copy
import pickle

sys.path.insert(0, os.environ.get('LENTIL_REPO', '.'))

import numpy as np
import lentil
from lentil.radiometry import Blackbody, Spectrum

print('lentil from', lentil.__file__)

wave = np.arange(400., 900., 5.)
query = np.array([500., 600., 700.])

star = Blackbody.vegamag(wave, temp=5000, mag=3, band='V')
other = copy.copy(star)           # an independent-looking second source

bad = []

# (1) the result of other.sample(query) changes although neither `other` nor `query` changed:
before = other.sample(query)
flat = Spectrum(wave, np.ones(wave.size))          # unit transmission, unitless
before_prod = (other * flat).value.copy()
star.mag = 8                                        # update of a DIFFERENT object
after = other.sample(query)
after_prod = (other * flat).value
star.mag = 3
if not np.array_equal(before, after):
    bad.append('other.sample(query) changed from %r to %r after star.mag was updated '
               '(other.mag is still %r)' % (before, after, other.mag))
if not np.array_equal(before_prod, after_prod):
    bad.append('(other * transmission).value changed by a factor %.3g after star.mag was updated'
               % (after_prod[0] / before_prod[0]))

# (2) the copy's own attributes are not what its sample() uses
other.mag = 8
own = other.sample(query)
ref = Blackbody.vegamag(wave, temp=5000, mag=8, band='V').sample(query)
if not np.allclose(own, ref, rtol=1e-12):
    bad.append('other.mag = 8 is ignored: other.sample gives %r, a mag-8 source gives %r'
               % (own, ref))
other.mag = 3

# (3) ... while temp IS taken from the copy: the answer mixes the two objects
other.temp = 4000
mixed = other.sample(query)
ref = Blackbody.vegamag(wave, temp=4000, mag=3, band='V').sample(query)
star.mag = 8
mixed2 = other.sample(query)
star.mag = 3
if np.allclose(mixed, ref, rtol=1e-12) and not np.array_equal(mixed, mixed2):
    bad.append('other.sample uses other.temp together with star.mag')

# control: deep copies and pickles are bound to themselves
for name, c in (('deepcopy', copy.deepcopy(star)), ('Spectrum.copy', star.copy()),
                ('pickle', pickle.loads(pickle.dumps(star)))):
    b = c.sample(query)
    star.mag = 8
    a = c.sample(query)
    star.mag = 3
    print('control %-14s independent of the original: %s' % (name, np.array_equal(a, b)))

if bad:
    print('VIOLATION (C10: a result depends only on the current arguments):')
    for b in bad:
        print('  -', b)
    sys.exit(1)
print('ok')
sys.exit(0)
