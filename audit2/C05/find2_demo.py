"""C05 finding 2: a field that consists of one sample (a (1, 1) array) is
broadcast over the whole of the other operand when two fields are multiplied,
so a wavefront gains power on its way through a second plane and the image
carries more than the input power."""
import os, sys
sys.path.insert(0, os.environ['LENTIL_REPO'])
import numpy as np
import lentil

lam, fl, dx = 500e-9, 10.0, 1e-3
n, M, osamp = 6, 8, 2                 # one period = 16 samples >= 6 input samples
du = lam * fl / (dx * M)
rng = np.random.default_rng(0)
opd = rng.standard_normal((n, n)) * 50e-9
bad = []

def totals(w):
    d = lentil.propagate_dft(w, du, shape=M, oversample=osamp).intensity.sum()
    f = lentil.propagate_fft(w, du, oversample=osamp).intensity.sum()
    return d, f

# (a) aperture = one sample at the origin, normalised to power p = 1; then a
#     full-aperture wavefront-error plane (amplitude 1, sampled OPD)
amp = np.zeros((n, n)); amp[n//2, n//2] = 3.0
amp = lentil.normalize_power(amp, 1.0)
aperture = lentil.Pupil(amplitude=amp, pixelscale=dx, focal_length=fl)
wfe = lentil.Pupil(opd=opd, pixelscale=dx, focal_length=fl)          # |transmission| = 1 everywhere
field = amp * np.exp(2j*np.pi*opd/lam)                                  # the pupil field that is meant
P = np.sum(np.abs(field)**2)
w = lentil.Wavefront(lam) * aperture * wfe
Pw = np.sum(np.abs(w.field)**2)
d, f = totals(w)
print(f'(a) pinhole * wfe plane : input power {P:.6f}  wavefront power {Pw:.6f}  DFT total {d:.6f}  FFT total {f:.6f}')
if d > P*(1+1e-9) or f > P*(1+1e-9):
    bad.append(f'(a) amplitude normalised to p={P:.3f} images to {d:.3f} (DFT) / {f:.3f} (FFT) = n*n*p')

# (b) same thing the other way round: full aperture first, then a plane whose
#     mask is a single sample (off-centre): the whole aperture is transmitted
full = lentil.Pupil(amplitude=lentil.normalize_power(np.ones((n, n)), 1.0), opd=opd,
                    pixelscale=dx, focal_length=fl)
m = np.zeros((n, n)); m[1, 4] = 1
stop = lentil.Pupil(amplitude=m, pixelscale=dx, focal_length=fl)
field = full.amplitude * np.exp(2j*np.pi*opd/lam) * m
P = np.sum(np.abs(field)**2)
w = lentil.Wavefront(lam) * full * stop
Pw = np.sum(np.abs(w.field)**2)
d, f = totals(w)
print(f'(b) aperture * 1-sample stop: input power {P:.6f}  wavefront power {Pw:.6f}  DFT total {d:.6f}  FFT total {f:.6f}')
if d > P*(1+1e-9) or f > P*(1+1e-9):
    bad.append(f'(b) pupil field of power {P:.4f} images to {d:.4f} (DFT) / {f:.4f} (FFT)')

if bad:
    print('\nVIOLATION of C05 (total image intensity must equal / never exceed the input power sum|field|^2):')
    for b in bad:
        print('  -', b)
    print('cause: lentil/field.py _mul_broadcast broadcasts every operand with size == 1 (not only 0-d scalars) '
          'to the shape and offset of the other operand')
    sys.exit(1)
print('no violation observed')
sys.exit(0)
