"""X04 (beyond the twenty properties) - representation independence of the public API.

Every audit of the unmodified tree found the same kind of defect in a new place: arithmetic carried out in the storage type
of a caller's array (float16, float32, uint8, complex64) where the rest of the library works in double precision.  This sweep
states the requirement once, for the whole API:

    a public function called with the SAME VALUES held in another storage type returns the same result

("same values" is literal: a narrow twin is only used when every number converts back exactly; "same result" is 1e-9 relative -
a function may return its result in the type of its input, so results are compared as float64 / complex128 values).
It is a relational (metamorphic) statement over pairs of calls, decided numerically on the real library; it needs no oracle.
The specification side is the Memo clause of Purity.tla read over value-equal arguments; findings are filed under the property
whose function they concern, with that property's check extended, never here.
"""
import random
import warnings

import numpy as np

from harness.core import import_lentil

LEVEL = 'testing'


# one-line scalar helpers that return the arithmetic of their arguments: called with two float32 scalars they return the float32
# product (6e-8 relative).  No listed property speaks about them (Sampling.tla / X05 does, in double precision), nothing else in
# the library calls them, so there is no repair to file under a property; recorded here instead of being silently exempted.
NOTED = {'pixelscale_nyquist': 'f_number * wave / 2 evaluated in the precision of two float32 scalars',
         'min_sampling': 'wave * z / (q du n) evaluated in the precision of float32 scalars'}


def twins(x):
    """narrow-typed copies of x that hold exactly the same numbers"""
    x = np.asarray(x)
    out = []
    cands = (np.complex64,) if np.iscomplexobj(x) else (np.float32, np.float16, np.int16, np.uint8, np.int64)
    for dt in cands:
        with warnings.catch_warnings():
            warnings.simplefilter('ignore')
            try:
                y = x.astype(dt)
            except Exception:
                continue
        if y.dtype != x.dtype and np.array_equal(y.astype(x.dtype), x):
            out.append((np.dtype(dt).name, y))
    return out


def as_values(r):
    """result -> list of float/complex arrays (objects are looked into)"""
    if r is None:
        return []
    if isinstance(r, (tuple, list)):
        out = []
        for q in r:
            out += as_values(q)
        return out
    if hasattr(r, 'wave') and hasattr(r, 'value'):
        return [np.asarray(r.wave, dtype=float), np.asarray(r.value, dtype=complex)]
    if hasattr(r, 'field') and hasattr(r, 'wavelength'):
        return [np.asarray(r.field, dtype=complex)]
    if hasattr(r, 'amplitude') and hasattr(r, 'opd'):
        return [np.asarray(r.amplitude, dtype=complex), np.asarray(r.opd, dtype=float), np.asarray(r.mask, dtype=float)] + \
               [np.array([t.x, t.y], dtype=float) for t in getattr(r, 'tilt', [])]
    if hasattr(r, 'data') and hasattr(r, 'offset'):
        return [np.asarray(r.data, dtype=complex), np.asarray(r.offset, dtype=float)]
    a = np.asarray(r)
    if a.dtype == object:
        return [np.asarray(x, dtype=complex) for x in a.ravel()]
    return [a.astype(complex)]


def same(a, b):
    va, vb = as_values(a), as_values(b)
    if len(va) != len(vb):
        return False
    for x, y in zip(va, vb):
        if x.shape != y.shape:
            return False
        if x.size and not np.allclose(x, y, rtol=1e-9, atol=1e-12 * (float(np.abs(y[np.isfinite(y)]).max()) if np.isfinite(y).any() else 0.0), equal_nan=True):
            return False
    return True


def run(ctx):
    l = import_lentil()
    rng = random.Random(4040 + ctx.seed)
    nr = np.random.default_rng(4040 + ctx.seed)
    import sys
    d, u, r = l.detector, l.util, l.radiometry
    z = sys.modules['lentil.zernike']
    q = ctx.tier == 'quick'
    ncalls = nviol = 0
    for rep in range(3 if q else 12):
        m, n = rng.choice(((8, 8), (9, 8), (8, 12), (7, 9)))
        A = nr.integers(1, 24, size=(m, n)) / 8.0                        # amplitude-like, eighths
        A[0, :] = 0
        F = nr.integers(0, 200, size=(m, n)).astype(float)               # frame of counts
        O = nr.integers(-16, 16, size=(m, n)) * 2.0 ** -26               # OPD-like, dyadic metres (~1e-7)
        M = (nr.uniform(size=(m, n)) < 0.8).astype(float)
        M[m // 2, n // 2] = M[1, 1] = M[-2, -2] = 1.0
        Z = (nr.integers(-8, 8, size=(m, n)) + 1j * nr.integers(-8, 8, size=(m, n))) / 4.0
        C = nr.integers(0, 40, size=(3, m, n)).astype(float)
        CB = nr.integers(1000, 2000, size=(2, 8, 8)).astype(float) * 4.0          # large counts, exactly representable in half precision
        VI = nr.integers(1, 200, size=9).astype(float)                                # whole-number values (uint8 twins)
        W = 400.0 + 25.0 * np.arange(9)
        V = nr.integers(1, 16, size=9) / 8.0
        V2 = nr.integers(1, 16, size=9) / 8.0
        co = nr.integers(-8, 8, size=5) * 2.0 ** -24
        rho, theta = z.zernike_coordinates(M)
        rho_q, th_q = np.round(rho * 64) / 64, np.round(theta * 64) / 64
        S = lambda w_, v_, **kw: r.Spectrum(w_, v_, waveunit='nm', valueunit=kw.get('vu'))
        pup = lambda a_, o_, m_: l.Pupil(amplitude=a_, opd=o_, mask=m_, pixelscale=2.0 ** -9, focal_length=4.0)
        lam = 2.0 ** -21
        # (name, function of the varied array, the array)
        calls = [
            ('pad', lambda x: u.pad(x, (m + 3, n + 2)), A), ('window', lambda x: u.window(x, shape=(4, 4)), A),
            ('subarray', lambda x: u.subarray(x, (3, 3), shift=(1, 0)), A), ('rebin', lambda x: u.rebin(x[:8, :8], 2), F),
            ('rebin-cube', lambda x: u.rebin(x[:, :8, :8], 4), C), ('rebin-cube-large', lambda x: u.rebin(x, 4), CB), ('rebin-large', lambda x: u.rebin(x[0], 4), CB),
            ('centroid-large', lambda x: u.centroid(x[0]), CB), ('rescale', lambda x: u.rescale(x, 1.5), A),
            ('rescale-unitary-off', lambda x: u.rescale(x, 2, unitary=False, order=1), A), ('centroid', lambda x: u.centroid(x), F),
            ('boundary', lambda x: u.boundary(x), M),
            # (normalize_power hands its result back in the type of its input: a float16 amplitude is returned as float16 - the
            #  C05 check judges it at the precision of the returned type; it is not part of this menu)
            ('jitter', lambda x: l.jitter(x, 0.75, pixelscale=2.0, oversample=2), F), ('smear', lambda x: l.smear(x, 1.5, angle=30), F),
            ('pixel', lambda x: d.pixel(x, oversample=2), F), ('pixelate', lambda x: d.pixelate(x[:8, :8], oversample=2), F),
            ('charge_diffusion', lambda x: d.charge_diffusion(x, 0.5, oversample=1), F),
            ('adc', lambda x: d.adc(x, 0.5, saturation_capacity=150), F), ('adc-poly', lambda x: d.adc(x, [2.0 ** -8, 0.5]), F),
            ('adc-gain', lambda x: d.adc(F, x), np.full((m, n), 0.25)),
            ('shot_noise-poisson', lambda x: d.shot_noise(x, method='poisson', seed=3), F),
            ('shot_noise-gaussian', lambda x: d.shot_noise(x + 1500, method='gaussian', seed=3), F),
            ('read_noise', lambda x: d.read_noise(x, 10, seed=3), F),
            ('collect_charge', lambda x: d.collect_charge(x, [500, 600, 700], [0.5, 0.25, 0.75]), C),
            ('collect_charge-qe', lambda x: d.collect_charge(C, [500, 600, 700], x), np.array([0.5, 0.25, 0.75])),
            ('collect_charge-wave', lambda x: d.collect_charge(C, x, S(W, V)), np.array([450.0, 512.5, 600.0])),
            ('collect_charge_bayer', lambda x: d.collect_charge_bayer(x[:, :8, :8], [500, 600, 700], [.5, .25, .125], [.25, .5, .75], [.75, .5, .25], 'RGGB', oversample=2), C),
            ('zernike-coords', lambda x: z.zernike(M, 7, rho=x, theta=th_q), rho_q), ('zernike-theta', lambda x: z.zernike(M, 8, rho=rho_q, theta=x), th_q),
            ('zernike-mask', lambda x: z.zernike(x, 5), M), ('zernike_compose', lambda x: z.zernike_compose(M, x), co),
            ('zernike_fit', lambda x: z.zernike_fit(x, M, [1, 2, 3, 4]), O * M), ('zernike_remove', lambda x: z.zernike_remove(x, M, [2, 3]), O * M),
            ('zernike_basis-mask', lambda x: z.zernike_basis(x, [1, 3, 5]), M),
            ('power_spectrum-mask', lambda x: l.power_spectrum(x, 2.0 ** -6, 2.0 ** -24, 8, 3, seed=5), M),
            ('translation_defocus', lambda x: l.translation_defocus(x, 10, 2.0 ** -13), M),
            ('dft2', lambda x: l.fourier.dft2(x, 0.125, shape=(m, n)), Z), ('dft2-real', lambda x: l.fourier.dft2(x, (0.125, 0.25), unitary=True), A),
            ('idft2', lambda x: l.fourier.idft2(x, 0.125), Z),
            ('multiply-amplitude', lambda x: l.Wavefront(lam) * pup(x, O, M), A), ('multiply-opd', lambda x: l.Wavefront(lam) * pup(A, x, M), O),
            ('multiply-mask', lambda x: l.Wavefront(lam) * pup(A, O, x), M),
            ('propagate_dft-amplitude', lambda x: l.propagate_dft(l.Wavefront(lam) * pup(x, O, M), 2.0 ** -14, shape=6, oversample=2), A),
            ('propagate_dft-opd', lambda x: l.propagate_dft(l.Wavefront(lam) * pup(A, x, M), 2.0 ** -14, shape=(5, 6)), O),
            ('propagate_fft-amplitude', lambda x: l.propagate_fft(l.Wavefront(lam) * pup(x, O, M), 2.0 ** -14, oversample=1), A),
            ('fit_tilt-opd', lambda x: pup(A, x, M).fit_tilt(), O), ('fit_tilt-amplitude', lambda x: pup(x, O, M).fit_tilt(), A),
            ('rescale-plane-opd', lambda x: pup(A, x, M).rescale(1.5), O), ('rescale-plane-amplitude', lambda x: pup(x, O, M).rescale(2), A),
            ('rescale-plane-mask', lambda x: pup(A, O, x).rescale(1.5), M),
            ('field-mul', lambda x: l.field.Field(x, offset=[1, 0]) * l.field.Field(Z, offset=[0, 1]), Z),
            ('field-insert', lambda x: l.field.insert(l.field.Field(x, offset=[1, -1]), np.zeros((m + 1, n)), intensity=True, weight=0.5), Z),
            ('spectrum-add-values', lambda x: S(W, x) + S(W + 12.5, V2), V), ('spectrum-mul-wave', lambda x: S(x, V) * S(W, V2), W),
            ('spectrum-scalar', lambda x: S(W, x) * 3.0 + 0.5, V), ('spectrum-sample-values', lambda x: S(W, x).sample(np.array([412.5, 500.0, 587.5])), V),
            ('spectrum-sample-wave', lambda x: S(x, V).sample(np.array([412.5, 500.0, 587.5])), W),
            ('spectrum-sample-query', lambda x: S(W, V).sample(x), np.array([412.5, 500.0, 587.5])),
            ('spectrum-integrate-counts', lambda x: [S(W, x).integrate(method='trapz'), S(W, x).integrate(method='simps'), S(W, x).integrate(430.0, 580.0)], VI),
            ('spectrum-scalar-counts', lambda x: S(W, x) * 3 + 100, VI), ('spectrum-bin-counts', lambda x: S(W, x).bin(np.array([450.0, 475.0, 500.0, 525.0])), VI),
            ('spectrum-integrate-values', lambda x: [S(W, x).integrate(method=m_) for m_ in ('trapz', 'simps')], V),
            ('spectrum-integrate-wave', lambda x: [S(x, V).integrate(430.0, 580.0, method=m_) for m_ in ('trapz', 'simps')], W),
            ('spectrum-bin-centres', lambda x: S(W, V).bin(x, interp_method='trapz', preserve_power=False), np.array([450.0, 475.0, 500.0, 525.0])),
            ('spectrum-bin-values', lambda x: S(W, x).bin(np.array([450.0, 475.0, 500.0, 525.0])), V),
            ('spectrum-to-values', lambda x: (lambda s_: (s_.to('um', 'wlam'), s_)[1])(S(W, x, vu='photlam')), V),
            ('spectrum-to-wave', lambda x: (lambda s_: (s_.to('angstrom'), s_)[1])(S(x, V, vu='flam')), W),
            ('spectrum-crop-wave', lambda x: (lambda s_: (s_.crop(430.0, 580.0), s_)[1])(S(x, V)), W),
            ('spectrum-pad-values', lambda x: (lambda s_: (s_.pad((350.0, 650.0)), s_)[1])(S(W, x)), V),
            ('spectrum-resample-values', lambda x: (lambda s_: (s_.resample(np.array([412.5, 450.0, 587.5])), s_)[1])(S(W, x)), V),
            ('spectrum-trim-values', lambda x: (lambda s_: (s_.trim(0.3), s_)[1])(S(W, x)), V),
            ('planck-wave', lambda x: r.planck_radiance(x, 5000.0, waveunit='nm', valueunit='photlam'), W),
            ('planck-temp', lambda x: r.planck_exitance(W, x, waveunit='nm'), np.array(5000.0)),
            ('blackbody-wave', lambda x: r.Blackbody(x, 4000.0, waveunit='nm').sample(np.array([450.0, 512.5])), W),
            ('circle-shape', lambda x: l.circle(tuple(x), 3.5, shift=(1, 0)), np.array([9.0, 10.0])),
            # ---- SEVERAL scalar arguments of one call held in the same narrow type (x[k] of a float16 array is a float16 scalar): two
            #      narrow scalars are combined in their own precision before they meet a double (audit 6: extent / pixel scale in jitter)
            ('jitter-params', lambda x: l.jitter(F, x[0], pixelscale=x[1], oversample=x[2]), np.array([10.0, 5.5, 3.0])),
            ('smear-params', lambda x: l.smear(F, x[0], angle=x[3], pixelscale=x[1], oversample=x[2]), np.array([10.0, 5.5, 3.0, 30.0])),
            ('charge_diffusion-params', lambda x: d.charge_diffusion(F, x[0], oversample=x[1]), np.array([0.75, 3.0])),
            ('pixelscale_nyquist-params', lambda x: u.pixelscale_nyquist(x[0], x[1]), np.array([5.5 * 2.0 ** -20, 12.5])),
            ('min_sampling-params', lambda x: u.min_sampling(x[0], x[1], (x[2], x[2]), (8, 6), x[3]), np.array([5.5 * 2.0 ** -20, 3.0, 2.0 ** -17, 3.0])),
            ('planck-params', lambda x: [r.planck_radiance(x[0], x[1]), r.planck_exitance(x[0], x[1], valueunit='photlam')], np.array([550.0, 5500.0])),
            ('translation_defocus-params', lambda x: l.translation_defocus(M, x[0], x[1]), np.array([12.5, 3.0 * 2.0 ** -14])),
            ('rule07-params', lambda x: d.rule07_dark_current(x[0], x[1], x[2]), np.array([120.0, 5.5 * 2.0 ** -18, 18.0 * 2.0 ** -20])),
            ('dark_current-params', lambda x: d.dark_current(x[0], shape=(4, 4), fpn_factor=x[1], seed=11), np.array([12.5, 0.25])),
            ('power_spectrum-params', lambda x: l.power_spectrum(M, x[0], x[1], x[2], x[3], seed=5), np.array([3.0 * 2.0 ** -8, 3.0 * 2.0 ** -24, 6.0, 3.0])),
            ('circle-params', lambda x: l.circle((12, 13), x[0], shift=(x[1], x[2])), np.array([3.5, 1.0, 0.5])),
            ('hexagon-params', lambda x: l.hexagon((12, 13), x[0], shift=(x[1], x[2])), np.array([4.5, 1.0, 0.5])),
            ('rectangle-params', lambda x: l.rectangle((12, 13), x[0], x[1], shift=(x[3], 0), angle=x[2]), np.array([6.0, 3.0, 30.0, 1.0])),
            ('spider-params', lambda x: l.spider((12, 13), x[0], angle=x[1], shift=(x[2], 0)), np.array([1.5, 30.0, 1.0])),
            ('adc-params', lambda x: d.adc(F, x[0], saturation_capacity=x[1]), np.array([0.75, 150.0])),
            ('hex_segments-params', lambda x: l.hex_segments(1, x[0], x[1]), np.array([5.0, 1.0])),
            ('scratch_shape-params', lambda x: l.propagate.scratch_shape(x[0], (x[1], x[1]), (x[2], x[2]), x[3], 2), np.array([3.0 * 2.0 ** -22, 2.0 ** -9, 2.0 ** -17, 3.0])),
            ('propagation-params', lambda x: l.propagate_dft(l.Wavefront(x[0]) * l.Pupil(amplitude=A, opd=O, mask=M, pixelscale=x[1], focal_length=x[2]),
                                                             pixelscale=x[3], shape=(6, 7), oversample=2), np.array([3.0 * 2.0 ** -22, 2.0 ** -9, 3.0, 2.0 ** -17])),
            ('propagation-fft-params', lambda x: l.propagate_fft(l.Wavefront(x[0]) * l.Pupil(amplitude=A, opd=O, mask=M, pixelscale=x[1], focal_length=x[2]),
                                                                 pixelscale=x[3], oversample=1), np.array([3.0 * 2.0 ** -22, 2.0 ** -9, 3.0, 2.0 ** -17])),
            ('tilt-params', lambda x: l.propagate_dft((l.Wavefront(lam) * pup(A, O, M)) * l.Tilt(x=x[0], y=x[1]), 2.0 ** -14, shape=(6, 7)), np.array([3.0 * 2.0 ** -18, -5.0 * 2.0 ** -19])),
            ('spectrum-bounds-params', lambda x: [S(W, V).integrate(x[0], x[1]), (lambda s_: (s_.crop(x[0], x[1]), s_)[1])(S(W, V)),
                                                  (lambda s_: (s_.pad((x[2], x[3])), s_)[1])(S(W, V))], np.array([430.0, 580.5, 350.0, 660.0])),
            ('hexagon-radius', lambda x: l.hexagon((12, 12), x, shift=(0, 1)), np.array(4.5)),
            ('rectangle-size', lambda x: l.rectangle((12, 13), x[0], x[1], angle=30), np.array([6.0, 3.0])),
        ]
        # the '-params' calls a second time with full single-precision mantissas (exact as float32, not as float16): products and
        # quotients of two such numbers are inexact in single precision
        calls += [(name + '-24bit', fn, np.float32(np.asarray(arr) * 1.0123456789).astype(float)) for name, fn, arr in calls if name.endswith('-params')]
        for name, fn, arr in calls:
            with warnings.catch_warnings():
                warnings.simplefilter('ignore')
                try:
                    base = fn(np.array(arr, copy=True))
                except Exception:
                    continue                                   # (the call is refused for float64 already: nothing to compare)
                for tname, tw in twins(arr):
                    ncalls += 1
                    ctx.case((name, tname), nontrivial=True)
                    try:
                        got = fn(tw)
                        ok, err = same(got, base), None
                    except Exception as ex:
                        # a clean refusal of a storage type is not a wrong value (e.g. integer shapes required, uint8 OPD)
                        ok, err = True, type(ex).__name__
                        ctx.skip('refused for a narrow storage type: ' + name + ' / ' + tname + ' (' + err + ')')
                    if not ok and name.split('-')[0] in NOTED:
                        ctx.skip('noted, not counted: ' + name.split('-')[0] + ' - ' + NOTED[name.split('-')[0]])
                        continue
                    if not ok:
                        nviol += 1
                        ctx.violation({'kind': 'result-depends-on-the-storage-type-of-an-argument', 'call': name, 'dtype': tname},
                                      {'shape': list(np.shape(arr))}, case=None)
    ctx.traces += ncalls
    ctx.extra.update({'pairs_compared': ncalls, 'callables': len(calls)})
    ctx.rule = ('every callable of the menu is called with one of its array arguments held as float64 and as every narrower type that '
                'holds exactly the same numbers (float32, float16, int16, uint8, int64, complex64); results compared at 1e-9')
    ctx.assumptions += ['numeric relational sweep outside the TLA+ model (no oracle): a difference is a defect of the function or of the '
                        'narrow type handling upstream of it; refusals of a storage type are not counted']


def replay(ctx, rec):
    print('re-run ./check X04 with the same VERIF_SEED')
