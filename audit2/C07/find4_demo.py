"""C07 finding 4: with a float32 OPD map (e.g. read from a FITS file) the plane's
phasor is evaluated in single precision (complex64), so the field differs from
amplitude*exp(2*pi*i*OPD/wavelength) by ~1e-6 instead of ~1e-16
(lentil/plane.py, Plane.multiply: amp*np.exp(2*np.pi*1j*opd/wavelength)).

Expected (property C07): field == amplitude*exp(+2*pi*i*OPD/wavelength) for the OPD
values the plane holds, to floating point (double) rounding; |field| == amplitude.
"""
import os, sys
sys.path.insert(0, os.environ.get('LENTIL_REPO', '.'))
import numpy as np
import lentil

wl = 5e-7
rng = np.random.default_rng(1)
opd32 = (rng.normal(size=(16, 16)) * 2e-6).astype(np.float32)   # a few waves of OPD
opd64 = opd32.astype(np.float64)                                # the SAME values
assert np.array_equal(opd32, opd64)

w32 = lentil.Wavefront(wl) * lentil.Plane(opd=opd32)
w64 = lentil.Wavefront(wl) * lentil.Plane(opd=opd64)
exact = np.exp(2j * np.pi * opd64 / wl)

e64 = np.abs(w64.field - exact).max()
e32 = np.abs(w32.field - exact).max()
m32 = np.abs(np.abs(w32.field) - 1).max()
print(f'float64 OPD: max |field - exp(2 pi i OPD/wl)| = {e64:.3g}')
print(f'float32 OPD (identical values): max |field - exp(2 pi i OPD/wl)| = {e32:.3g}, '
      f'max ||field| - 1| = {m32:.3g}, max |intensity - 1| = {np.abs(w32.intensity-1).max():.3g}')

if e32 > 1e-9:
    print('VIOLATION: the plane phasor is computed in the dtype of the OPD array '
          '(2*np.pi*1j*opd is complex64 for a float32 opd), the result is then stored in a '
          'complex128 Field; field and intensity are off by ~1e-6 / ~1e-7 relative.')
    sys.exit(1)
print('no violation observed')
sys.exit(0)
