"""C04 finding 1: fit_tilt on a segmented plane whose segment masks share samples.

Closely packed segments (lentil.hex_segments with a gap of about one sample,
default antialias=True) have masks that overlap on their edge samples once the
masks are binarised by Plane.  fit_tilt removes a different tilt for every
segment but stores ONE opd array, so on a shared sample it stores the average
of (opd - tilt_a) and (opd - tilt_b).  For neither segment is
"OPD + recorded tilt" equal to the OPD that went in, and the propagated field
of plane.fit_tilt() differs from the field of the plane itself.
"""
import os
import sys

sys.path.insert(0, os.environ.get('LENTIL_REPO', '.'))

import numpy as np
import lentil


def ramp(shape, dx, tx, ty):
    # OPD of an angular tilt (tx about x, ty about y), lentil's convention
    # (same as Plane.ptt_vector): +x tilt grows with the row index, +y tilt
    # decreases with the column index
    r, c = lentil.helper.mesh(shape)
    return tx * r * dx - ty * c * dx


def coverage(w):
    cov = np.zeros(w.shape)
    for f in w.data:
        one = lentil.field.Field(np.ones(f.shape), offset=f.offset)
        cov += lentil.field.insert(one, np.zeros(w.shape, dtype=complex)).real
    return cov


def run(seg_gap):
    wl, fl = 650e-9, 10.
    mask = lentil.hex_segments(rings=2, seg_radius=16, seg_gap=seg_gap)  # antialias=True
    nseg, shape = mask.shape[0], mask.shape[1:]
    amp = np.clip(np.sum(mask, axis=0), 0, 1)
    dx = 1 / shape[0]
    r, c = lentil.helper.mesh(shape)
    # one smooth global OPD (defocus, 1000 nm at the edge of a 1 m aperture):
    # every segment sees a different local slope
    opd = 1000e-9 * ((r * dx) ** 2 + (c * dx) ** 2) / 0.25

    p = lentil.Pupil(amplitude=amp, opd=opd, mask=mask, pixelscale=dx, focal_length=fl)
    pf = p.fit_tilt()

    nshared = int(np.sum(np.sum(mask != 0, axis=0) > 1))

    # clause: OPD-plus-recorded-tilt is unchanged on every segment
    worst_opd = 0.
    for s in range(nseg):
        t = pf.tilt[s]          # Tilt stores x<->y swapped: t.y is the x tilt
        rec = pf.opd + ramp(shape, dx, t.y, t.x)
        sel = mask[s] != 0
        worst_opd = max(worst_opd, float(np.abs(rec - opd)[sel].max()))

    # clause: the propagated complex field agrees sample for sample
    kw = dict(pixelscale=5e-6, shape=64, oversample=2)
    a = lentil.propagate_dft(lentil.Wavefront(wl) * p, **kw)
    b = lentil.propagate_dft(lentil.Wavefront(wl) * pf, **kw)
    both = (coverage(a) == nseg) & (coverage(b) == nseg)   # all segments evaluated
    fa, fb = a.field, b.field
    err = float(np.abs(fa - fb)[both].max() / np.abs(fa).max())
    return nshared, worst_opd, err, int(both.sum())


if __name__ == '__main__':
    bad = False
    for gap in (3, 1, 0):
        nshared, worst_opd, err, n = run(gap)
        print(f'seg_gap={gap}: samples shared by two masks = {nshared:4d}   '
              f'max |opd_fit + recorded tilt - opd| on a segment = {worst_opd:.3e} m   '
              f'max |field(p) - field(p.fit_tilt())| / max|field| = {err:.3e} '
              f'(over {n} samples evaluated by all segments)')
        if worst_opd > 1e-15 or err > 1e-9:
            bad = True
    if bad:
        print('VIOLATION: with segment masks that share edge samples, fit_tilt does not '
              'leave OPD-plus-recorded-tilt unchanged and the propagated field changes '
              '(the control with seg_gap=3, no shared samples, agrees to rounding).')
        sys.exit(1)
    print('no violation observed')
    sys.exit(0)
