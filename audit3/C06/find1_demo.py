"""C06 finding 1: Field.extent is a construction-time snapshot while Field.offset
is kept by reference; insert()/__mul__ read .offset, merge()/reduce()/overlap()/
boundary() read .extent.  Once the offset object changes the two disagree and
merge/reduce are no longer the sum of the embeddings."""
import os, sys
sys.path.insert(0, os.environ.get('LENTIL_REPO', '.'))
import numpy as np
import lentil
from lentil.field import Field, insert, merge, reduce, overlap

def plane(fields, shape=(9, 41)):
    out = np.zeros(shape, dtype=complex)
    for f in fields:
        insert(f, out)
    return out

fail = []

# --- scenario A: caller reuses one offset list for several fields ------------
off = [0, 0]
fields = []
for k in range(3):
    off[1] = 10 * k                       # columns 0, 10, 20
    fields.append(Field(np.full((2, 2), k + 1.0), offset=off))

print('offsets:', [list(f.offset) for f in fields])
print('extents:', [f.extent for f in fields])

total = plane(fields)                     # sum of the embeddings (via insert)
red = reduce(fields)
total_red = plane(red)
if not np.allclose(total, total_red):
    fail.append('A: reduce(fields) does not have the same total as the fields: '
                'sum(insert(f)) has %d non-zero samples summing to %g, '
                'sum(insert(reduce)) has %d non-zero samples summing to %g'
                % (np.count_nonzero(total), total.sum().real,
                   np.count_nonzero(total_red), total_red.sum().real))
# the field that was constructed at offset [0, 0] is inserted 20 columns away,
# whereas merge() still places it at the origin
first = plane([fields[0]]); first_m = plane([merge(fields[0], fields[0])]) / 2
if not np.allclose(first, first_m):
    fail.append('A: field constructed with offset [0, 0]: insert() puts it at columns %s, '
                'merge(f, f)/2 puts it at columns %s'
                % (sorted(set(np.argwhere(first)[:, 1] - 20)), sorted(set(np.argwhere(first_m)[:, 1] - 20))))
# all three fields now sit at the same offset, i.e. they cover the same pixels,
# yet reduce leaves them as three "disjoint" fields and overlap says False
same_pixels = all(list(f.offset) == list(fields[0].offset) and f.shape == fields[0].shape
                  for f in fields)
if same_pixels and (len(red) != 1 or not overlap(fields[:2])):
    fail.append('A: three fields with identical shape and offset %s: reduce returns %d '
                'fields, overlap(first two) = %s'
                % (list(fields[0].offset), len(red), overlap(fields[:2])))

# --- scenario B: public attribute assigned after construction ----------------
a = Field(np.ones((2, 2)), offset=[0, 0])
b = Field(np.ones((2, 2)), offset=[0, 1])
a.offset = [0, 10]                        # move a
m = merge(a, b, enforce_overlap=False)
lhs = plane([m]); rhs = plane([a, b])
if not np.allclose(lhs, rhs):
    fail.append('B: after a.offset = [0, 10]: insert(merge(a, b)) != insert(a) + insert(b); '
                'merge put a at columns %s, insert puts it at columns %s'
                % (sorted(set(np.argwhere(lhs)[:, 1] - 20)), sorted(set(np.argwhere(plane([a]))[:, 1] - 20))))
# multiply agrees with insert (uses .offset), merge/overlap do not (use .extent)
p = a * b
if (p.size == 0) != (not overlap((a, b))):
    fail.append('B: a*b is %s but overlap((a, b)) = %s'
                % ('empty' if p.size == 0 else 'non-empty', overlap((a, b))))

if fail:
    print('VIOLATION (lentil at %s):' % os.path.dirname(lentil.__file__))
    for f in fail:
        print(' -', f)
    sys.exit(1)
print('ok')
sys.exit(0)
