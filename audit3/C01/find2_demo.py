"""Unitary factor sqrt(|alpha_row*alpha_col|) under/overflows although the factor itself is representable.

MARGINAL - needs |alpha_row*alpha_col| < ~1e-308 or > ~1e308.
"""
import os, sys
sys.path.insert(0, os.environ.get("LENTIL_REPO", "."))
import numpy as np
import lentil
from lentil.fourier import dft2

rng = np.random.default_rng(0)
f = rng.normal(size=(3, 4)) + 1j * rng.normal(size=(3, 4))
bad = []
for alpha in [(1e-170, 1e-170), (1e-150, 1e-170), (1e170, 1e170)]:
    with np.errstate(all="ignore"):
        G = dft2(f, alpha, shape=(2, 2), unitary=False)
        F = dft2(f, alpha, shape=(2, 2), unitary=True)
        want = G * (np.sqrt(abs(alpha[0])) * np.sqrt(abs(alpha[1])))   # representable: 1e-170, 1e-160, 1e170
        rel = np.max(np.abs(F - want)) / np.max(np.abs(want))
    if not (rel < 1e-9):
        bad.append((alpha, F[0, 0], want[0, 0], rel))
if bad:
    print("VIOLATION: unitary result != non-unitary result * sqrt(|alpha_row*alpha_col|)")
    for alpha, got, want, rel in bad:
        print(f"  alpha={alpha}: got {got}, expected {want}, rel.err {rel}")
    print("alpha_row*alpha_col is formed before the square root and under/overflows.")
    sys.exit(1)
print("ok")
sys.exit(0)
