#!/bin/sh
# usage: tools/run_on_seeded.sh <seeded dir name> <check ids...>   - runs quick checks against a filed seeded change
# (scratch worktree of /repo at HEAD with the patch applied; /repo itself is not touched; the worktree is removed afterwards)
d=/verif/seeded/$1; shift
wt=/tmp/wt_seeded_$$
git -C /repo worktree add -q --detach $wt HEAD || exit 2
( cd $wt && git apply $d/patch.diff ) || { echo "PATCH DOES NOT APPLY"; git -C /repo worktree remove --force $wt; exit 2; }
cd /verif
for id in "$@"; do
  LENTIL_REPO=$wt VERIF_NO_EVIDENCE=1 ./check $id --tier quick > /tmp/seeded_run_$$_$id.log 2>&1; rc=$?
  echo "check $id rc=$rc violations=$(grep -c '^VIOLATION' /tmp/seeded_run_$$_$id.log)"; grep 'sig=' /tmp/seeded_run_$$_$id.log | sort | uniq -c | sort -rn | head -4
done
rm -f /tmp/seeded_run_$$_*.log
git -C /repo worktree remove --force $wt
