------------------------------- MODULE Optics -------------------------------
(* Wavefronts, planes, tilt and far-field propagation of lentil as exact mathematics                *)
(* (properties C02 C03 C04 C05 C07 C09; the plane sub-model is reused by C10).                      *)
(*                                                                                                 *)
(* The specification never speaks of sub-arrays, slices, offsets or windows-as-index-ranges: a       *)
(* wavefront is a list of BEAMS, each a complex function on a canvas centred on the optical axis     *)
(* (index floor(n/2), Grid!C) with its own list of tilt elements; its observable field is the sum.   *)
(* Physical quantities (wavelength, focal length, pixel scales, angles) are exact rationals (Rat);   *)
(* complex values are elements of Z[zeta_N] (Cyclo) with one rational "norm tag" nsq per wavefront:   *)
(* value = sqrt(nsq) * ring part.                                                                    *)
EXTENDS Grid, Rat
CONSTANTS N, PhiN
INSTANCE DFT

None == <<>>                                  \* JSON [] : absent / infinite / shapeless

-----------------------------------------------------------------------------
(* Tilt elements and the displacement they cause (C04) *)
\* angular element  [kind |-> "ang", x, y]  (radians about the x and y axes)
\* dispersive element [kind |-> "disp", t1, t0, d0, d1, root]  first-order trace y = t1 x + t0,
\*    dispersion lambda = d0 s + d1, root = sqrt(1 + t1^2) (rational by choice of t1)
\* Displacement in OUTPUT SAMPLES <<rows, cols>> at focal length z, output pixel du = <<du_r, du_c>>,
\* oversampling os:  a positive x tilt moves the image toward increasing row index, a positive y tilt
\* toward decreasing column index; focal-plane metres (x, y) map to samples (row, col) = (-y/du_r, x/du_c)*os.
ElemXY(t, z, lam) ==        \* displacement in metres on the focal plane, <<x, y>>
    IF t.kind = "ang" THEN <<RNeg(RMul(z, t.y)), RNeg(RMul(z, t.x))>>
    ELSE LET s == RDiv(RSub(lam, t.d1), t.d0)          \* arc length along the trace
             x == RDiv(s, t.root)
         IN <<x, RAdd(RMul(t.t1, x), t.t0)>>
RECURSIVE SumXY(_, _, _, _, _)
SumXY(acc, ts, k, z, lam) == IF k > Len(ts) THEN acc
                             ELSE LET e == ElemXY(ts[k], z, lam) IN
                                  SumXY(<<RAdd(acc[1], e[1]), RAdd(acc[2], e[2])>>, ts, k + 1, z, lam)
ShiftOf(ts, z, lam, du, os) ==
    LET xy == SumXY(<<R(0), R(0)>>, ts, 1, z, lam) IN
    <<RMul(RNeg(RDiv(xy[2], du[1])), R(os)), RMul(RDiv(xy[1], du[2]), R(os))>>

-----------------------------------------------------------------------------
(* Planes *)
IsArr(a) == a.k = "a"
PlaneShape(P) == IF P.mask.k = "2d" THEN <<Len(P.mask.m), Len(P.mask.m[1])>>
                 ELSE IF P.mask.k = "3d" THEN <<Len(P.mask.m[1]), Len(P.mask.m[1][1])>>
                 ELSE IF IsArr(P.amp) THEN <<Len(P.amp.v), Len(P.amp.v[1])>>
                 ELSE IF IsArr(P.opd) THEN <<Len(P.opd.v), Len(P.opd.v[1])>>      \* a sampled OPD gives the plane its shape as well
                 ELSE None
\* segment masks: the documented rule "if no mask is given it is created from the amplitude"
NSeg(P) == IF P.mask.k = "3d" THEN Len(P.mask.m) ELSE 1
\* (a sample that several segment masks contain - shared edge samples of closely packed segments - belongs to the FIRST of them:
\*  the plane transmits every sample once, whatever the way its aperture is cut into segments)
InSeg(P, k, i, j) == IF P.mask.k = "2d" THEN P.mask.m[i][j] # 0
                     ELSE IF P.mask.k = "3d" THEN P.mask.m[k][i][j] # 0 /\ \A k2 \in 1..(k - 1) : P.mask.m[k2][i][j] = 0
                     ELSE IF IsArr(P.amp) THEN Len(P.amp.v[i][j]) > 0
                     ELSE TRUE
AmpAt(P, i, j) == IF IsArr(P.amp) THEN PixVal(P.amp.v[i][j]) ELSE PixVal(P.amp.v)
OpdAt(P, i, j) == IF IsArr(P.opd) THEN P.opd.v[i][j] ELSE P.opd.v        \* in units of lambda / N
\* pointwise phasor  amplitude * exp(+2 pi i OPD / lambda)  inside segment k, zero outside, kept as a short list
\* of terms <<coef, exp>> (a Gaussian-integer amplitude has at most two) so that multiplying costs O(N)
ShiftTerms(ts, e) == [t \in 1..Len(ts) |-> <<ts[t][1], ts[t][2] + e>>]
PhasorTerms(P, k, i, j) == IF InSeg(P, k, i, j)
                           THEN ShiftTerms(IF IsArr(P.amp) THEN P.amp.v[i][j] ELSE P.amp.v, OpdAt(P, i, j))
                           ELSE <<>>
ConstPhasorTerms(P) == ShiftTerms(P.amp.v, P.opd.v)                   \* shapeless plane
RECURSIVE MulSparseAcc(_, _, _, _)
MulSparseAcc(acc, a, ts, t) == IF t > Len(ts) THEN acc
                               ELSE MulSparseAcc(Add(acc, Scale(ts[t][1], Rot(a, ts[t][2]))), a, ts, t + 1)
MulSparse(a, ts) == MulSparseAcc(Zero, a, ts, 1)                      \* a * SUM_t coef_t zeta^exp_t

\* value of a beam at canvas coordinate <<r, c>> relative to the optical axis
BeamAt(b, r, c) == IF b.sh = None THEN b.d
                   ELSE IF r \in Range(b.sh[1], 0) /\ c \in Range(b.sh[2], 0)
                        THEN b.d[Idx(b.sh[1], 0, r)][Idx(b.sh[2], 0, c)] ELSE Zero

OwnTilt(P) == IF P.cls = "Tilt" THEN <<[kind |-> "ang", x |-> P.tx, y |-> P.ty]>>
              ELSE IF P.cls \in {"DispersiveTilt", "Grism"} THEN <<[kind |-> "disp", t1 |-> P.disp.t1, t0 |-> P.disp.t0,
                                                        d0 |-> P.disp.d0, d1 |-> P.disp.d1, root |-> P.disp.root]>>
              ELSE <<>>
FittedTilt(P, k) == IF P.fitted = None THEN <<>>
                    ELSE <<[kind |-> "ang", x |-> P.fitted[k][1], y |-> P.fitted[k][2]]>>

MulBeam(b, P, k) ==
    LET sh == PlaneShape(P) IN
    [sh |-> IF sh = None THEN b.sh ELSE sh,
     d  |-> IF sh = None
            THEN (IF b.sh = None THEN MulSparse(b.d, ConstPhasorTerms(P))
                  ELSE TLCEval([i \in 1..b.sh[1] |-> TLCEval([j \in 1..b.sh[2] |-> MulSparse(b.d[i][j], ConstPhasorTerms(P))])]))
            ELSE TLCEval([i \in 1..sh[1] |-> TLCEval([j \in 1..sh[2] |->
                     MulSparse(BeamAt(b, Coord(sh[1], 0, i), Coord(sh[2], 0, j)), PhasorTerms(P, k, i, j))])]),
     tilts |-> b.tilts \o FittedTilt(P, k) \o OwnTilt(P)]

\* Precondition under which the least-squares tip/tilt of an OPD is known without solving: the OPD is
\*   base + kr * row + kc * col  on every segment, with (base - mean(base)) orthogonal to {row, col} over the
\* segment's samples and the samples not collinear.  Then the least-squares plane through the OPD has
\* exactly the slopes (kr, kc) whatever the piston.  Checked by TLC for every plane that claims `fitted`.
SegPix(P, k) == LET sh == PlaneShape(P) IN {ij \in (1..sh[1]) \X (1..sh[2]) : InSeg(P, k, ij[1], ij[2])}
RECURSIVE SetSum(_, _)
SetSum(F(_), S) == IF S = {} THEN 0 ELSE LET x == CHOOSE y \in S : TRUE IN F(x) + SetSum(F, S \ {x})
FitPreSeg(P, k) ==
    LET sh == PlaneShape(P)
        S == SegPix(P, k)
        n == Cardinality(S)
        Rr(ij) == Coord(sh[1], 0, ij[1])
        Cc(ij) == Coord(sh[2], 0, ij[2])
        B(ij) == OpdAt(P, ij[1], ij[2])
        sb == SetSum(B, S)   sr == SetSum(Rr, S)   sc == SetSum(Cc, S)
        srr == SetSum(LAMBDA ij : Rr(ij) * Rr(ij), S)  scc == SetSum(LAMBDA ij : Cc(ij) * Cc(ij), S)
        src == SetSum(LAMBDA ij : Rr(ij) * Cc(ij), S)
    IN /\ n * SetSum(LAMBDA ij : B(ij) * Rr(ij), S) = sb * sr
       /\ n * SetSum(LAMBDA ij : B(ij) * Cc(ij), S) = sb * sc
       \* Gram determinant of {1, row, col} non-zero (samples not collinear)
       /\ n * (srr * scc - src * src) - sr * (sr * scc - src * sc) + sc * (sr * src - srr * sc) # 0
FitPre(P) == P.fitted = None \/ \A k \in 1..NSeg(P) : FitPreSeg(P, k)

PxConflict(a, b) == a # None /\ b # None /\ a # b
PxMerge(a, b) == IF a = None THEN b ELSE a

Seq2(F(_, _), n1, n2) ==      \* <<F(1,1), ..., F(1,n2), F(2,1), ...>>
    TLCEval([q \in 1..(n1 * n2) |-> F(((q - 1) \div n2) + 1, ((q - 1) % n2) + 1)])

MulPlane(w, P) ==
    LET px == PxMerge(P.px, w.px) IN
    IF PxConflict(P.px, w.px) THEN [w EXCEPT !.err = "ValueError"]
    ELSE [w EXCEPT !.px = px, !.evald = None, !.evalall = None,
                   !.shape = IF PlaneShape(P) = None THEN w.shape ELSE PlaneShape(P),
                   !.z = IF P.cls = "Pupil" THEN P.z ELSE w.z,
                   !.ptype = IF P.cls = "Pupil" THEN "pupil" ELSE IF P.cls = "Image" THEN "image" ELSE w.ptype,
                   !.beams = Seq2(LAMBDA bi, k : MulBeam(w.beams[bi], P, k), Len(w.beams), NSeg(P))]

-----------------------------------------------------------------------------
(* Far-field propagation (C02) *)
Alpha(w, c) == LET den == RMul(RMul(w.lam, w.z), R(c.os)) IN
               <<RDiv(RMul(w.px[1], c.du[1]), den), RDiv(RMul(w.px[2], c.du[2]), den)>>

\* region of the output plane that may be evaluated: the whole output array or the mask's bounding box
OutShape(c) == <<c.shape[1] * c.os, c.shape[2] * c.os>>
MaskPix(c) == LET os == OutShape(c) IN
              {<<Coord(os[1], 0, i), Coord(os[2], 0, j)>> : <<i, j>> \in
                  {ij \in (1..os[1]) \X (1..os[2]) : c.mask.m[ij[1]][ij[2]] # 0}}
OutRegion(c) == IF c.mask.k = "none" THEN Pix(OutShape(c), <<0, 0>>) ELSE ExtPix(BBox(MaskPix(c)))
\* evaluated window of one beam: the centred propagation window, moved by the integer part
\* (truncation toward zero) of the beam's displacement, clipped to the output region
Window(c, s) == Pix(<<c.pshape[1] * c.os, c.pshape[2] * c.os>>, <<RFix(s[1]), RFix(s[2])>>) \cap OutRegion(c)

Geom(a, s, osh) ==
    LET sq == Lcm(s[1][2], s[2][2]) IN
    [pr |-> a[1][1], qr |-> a[1][2], pc |-> a[2][1], qc |-> a[2][2],
     sr |-> s[1][1] * (sq \div s[1][2]), sc |-> s[2][1] * (sq \div s[2][2]), sq |-> sq,
     or |-> 0, oc |-> 0, M |-> osh[1], K |-> osh[2]]

PropBeam(w, c, b) ==
    LET s == ShiftOf(b.tilts, w.z, w.lam, c.du, c.os)
        osh == OutShape(c)
        g == Geom(Alpha(w, c), s, osh)
        win == Window(c, s)
    IN  TLCEval([u \in 1..osh[1] |-> TLCEval([v \in 1..osh[2] |->
              IF <<Coord(osh[1], 0, u), Coord(osh[2], 0, v)>> \in win THEN Sample(b.d, g, u, v) ELSE Zero])])

RECURSIVE MatSum(_, _, _)
MatAdd(a, b) == TLCEval([u \in 1..Len(a) |-> TLCEval([v \in 1..Len(a[u]) |-> Add(a[u][v], b[u][v])])])
MatSum(ms, k, acc) == IF k > Len(ms) THEN acc ELSE MatSum(ms, k + 1, MatAdd(acc, ms[k]))
ZeroMat(sh) == TLCEval([u \in 1..sh[1] |-> TLCEval([v \in 1..sh[2] |-> Zero])])

Flip(t) == IF t = "pupil" THEN "image" ELSE IF t = "image" THEN "pupil" ELSE "bad"

PropGeomOK(w, c) == \A bi \in 1..Len(w.beams) :
    GeomOK(Geom(Alpha(w, c), ShiftOf(w.beams[bi].tilts, w.z, w.lam, c.du, c.os), OutShape(c)))

PropagateDft(w, c) ==
    IF Flip(w.ptype) = "bad" THEN [w EXCEPT !.err = "TypeError"]
    ELSE IF \E bi \in 1..Len(w.beams) : w.beams[bi].sh = None THEN [w EXCEPT !.err = "Undefined"]   \* no sampled plane yet
    \* an output mask says which samples OF THE OUTPUT ARRAY to evaluate: a mask of any other shape (on either axis) is refused
    ELSE IF c.mask.k # "none" /\ <<Len(c.mask.m), Len(c.mask.m[1])>> # OutShape(c) THEN [w EXCEPT !.err = "ValueError"]
    ELSE IF ~PropGeomOK(w, c) THEN [w EXCEPT !.err = "RingTooSmall"]     \* machinery: N chosen too small by the driver
    ELSE LET a == Alpha(w, c)
             osh == OutShape(c)
             parts == TLCEval([bi \in 1..Len(w.beams) |-> PropBeam(w, c, w.beams[bi])])
         IN [w EXCEPT !.ptype = Flip(w.ptype),
                      !.px = <<RDiv(c.du[1], R(c.os)), RDiv(c.du[2], R(c.os))>>,
                      !.shape = osh,
                      !.nsq = RMul(w.nsq, RAbs(RMul(a[1], a[2]))),
                      !.evald = TLCEval([u \in 1..osh[1] |-> TLCEval([v \in 1..osh[2] |->
                                    \E bi \in 1..Len(w.beams) : <<Coord(osh[1], 0, u), Coord(osh[2], 0, v)>> \in
                                        Window(c, ShiftOf(w.beams[bi].tilts, w.z, w.lam, c.du, c.os))])]),
                      !.evalall = TLCEval([u \in 1..osh[1] |-> TLCEval([v \in 1..osh[2] |->
                                    \A bi \in 1..Len(w.beams) : <<Coord(osh[1], 0, u), Coord(osh[2], 0, v)>> \in
                                        Window(c, ShiftOf(w.beams[bi].tilts, w.z, w.lam, c.du, c.os))])]),
                      !.beams = <<[sh |-> osh, d |-> MatSum(parts, 1, ZeroMat(osh)), tilts |-> <<>>]>>]

-----------------------------------------------------------------------------
(* FFT propagation (C09): the DFT semantics on the padded grid K = round(1/alpha) at the wavelength   *)
(* the function reports, lambda' = min over axes of K dx du / (os z).                                 *)
FftGrid(w, c) == LET a == Alpha(w, c) IN <<RRound(RDiv(R(1), a[1])), RRound(RDiv(R(1), a[2]))>>
FftTie(w, c)  == LET a == Alpha(w, c) IN RTie(RDiv(R(1), a[1])) \/ RTie(RDiv(R(1), a[2]))
FftLam(w, c)  == LET K == FftGrid(w, c)
                     l1 == RDiv(RMul(RMul(R(K[1]), w.px[1]), c.du[1]), RMul(R(c.os), w.z))
                     l2 == RDiv(RMul(RMul(R(K[2]), w.px[2]), c.du[2]), RMul(R(c.os), w.z))
                 IN <<l1, l2>>
HasTilt(w) == \E bi \in 1..Len(w.beams) : w.beams[bi].tilts # <<>>
PropagateFft(w, c) ==      \* c.shape = None means "default"
    IF HasTilt(w) THEN [w EXCEPT !.err = "NotImplementedError"]
    ELSE IF Flip(w.ptype) = "bad" THEN [w EXCEPT !.err = "TypeError"]
    ELSE LET K == FftGrid(w, c)
             ll == FftLam(w, c)
             lam2 == IF RLe(ll[1], ll[2]) THEN ll[1] ELSE ll[2]
             shape == IF c.shape = None THEN <<K[1] \div c.os, K[2] \div c.os>> ELSE c.shape
         IN IF shape[1] * c.os > K[1] \/ shape[2] * c.os > K[2] THEN [w EXCEPT !.err = "ValueError"]
            ELSE LET w2 == [w EXCEPT !.lam = lam2]
                     c2 == [du |-> c.du, shape |-> shape, pshape |-> shape, os |-> c.os, mask |-> [k |-> "none"]]
                 IN PropagateDft(w2, c2)

-----------------------------------------------------------------------------
(* Programs *)
InitBeam(wf) == [sh |-> None, d |-> One,
                 tilts |-> IF wf.tilt = None THEN <<>> ELSE <<[kind |-> "ang", x |-> wf.tilt[1], y |-> wf.tilt[2]]>>]
InitW(wf) == [ptype |-> wf.ptype, lam |-> wf.lam, z |-> wf.z, px |-> wf.px, shape |-> None,
              nsq |-> R(1), beams |-> <<InitBeam(wf)>>, err |-> "none", evald |-> None, evalall |-> None]

StepW(w, st) == IF w.err # "none" THEN w
                ELSE IF st.op = "mul" THEN MulPlane(w, st)
                ELSE IF st.op = "dft" THEN PropagateDft(w, st)
                ELSE PropagateFft(w, st)

\* what is observable of a wavefront: metadata and the field (sum of the beams on the canvas)
FieldOf(w) == IF w.shape = None THEN None
              ELSE MatSum(TLCEval([bi \in 1..Len(w.beams) |->
                       TLCEval([i \in 1..w.shape[1] |-> TLCEval([j \in 1..w.shape[2] |->
                           BeamAt(w.beams[bi], Coord(w.shape[1], 0, i), Coord(w.shape[2], 0, j))])])]), 1, ZeroMat(w.shape))
Observe(w) == [ptype |-> w.ptype, lam |-> w.lam, z |-> w.z, px |-> w.px, shape |-> w.shape, nsq |-> w.nsq,
               err |-> w.err, nbeams |-> Len(w.beams), evald |-> w.evald, evalall |-> w.evalall,
               field |-> IF w.err = "none" THEN FieldOf(w) ELSE None]

RECURSIVE RunFrom(_, _, _, _)
RunFrom(w, steps, k, obs) == IF k > Len(steps) THEN obs
                             ELSE LET w2 == StepW(w, steps[k]) IN
                                  RunFrom(w2, steps, k + 1, Append(obs, Observe(w2)))
Run(c) == RunFrom(InitW(c.wf), c.steps, 1, <<>>)
FinalW(c) == LET RECURSIVE F(_, _)
                 F(w, k) == IF k > Len(c.steps) THEN w ELSE F(StepW(w, c.steps[k]), k + 1)
             IN F(InitW(c.wf), 1)

-----------------------------------------------------------------------------
(* Theorems on programs (checked by TLC on flagged cases) *)
\* C03: the sum of the separately propagated beams equals the propagation of the summed beam
\* (all beams without tilt): segmentation cannot change the result, and addition is coherent
ThmSegments(w, c) ==
    LET whole == [sh |-> w.shape, d |-> FieldOf(w), tilts |-> <<>>] IN
    (\A bi \in 1..Len(w.beams) : w.beams[bi].tilts = <<>>) =>
        MatSame(PropagateDft(w, c).beams[1].d, PropBeam(w, c, whole))
\* C05: Parseval on a zero-padded full period.  When 1/alpha = K is an integer on each axis, the canvas is not
\* larger than K and the output covers the K x K period, SUM |F|^2 = K_r K_c SUM |f|^2 in the ring, so with the
\* unitary factor |alpha_r alpha_c| = 1/(K_r K_c) the total intensity equals the input power exactly.
ThmEnergy(w, c) ==
    LET a == Alpha(w, c)
        osh == OutShape(c)
        whole == FieldOf(w)
        g == Geom(a, <<R(0), R(0)>>, osh)
    IN (a[1][1] = 1 /\ a[2][1] = 1 /\ osh = <<a[1][2], a[2][2]>> /\ w.shape[1] <= osh[1] /\ w.shape[2] <= osh[2]) =>
          Eq(Energy(Forward(whole, g)), Scale(osh[1] * osh[2], Energy(whole)))

\* C02 / C09: a plane with MORE samples than the period K = 1/alpha of the transform (an output pixel coarser than lambda F#).
\* Samples K apart carry the same phase at every output sample, so the transform of the plane FOLDED onto K_r x K_c samples
\* (samples a multiple of K apart added up, origin on origin) IS the transform of the plane: this is what an FFT on the K grid
\* has to be given in order to return the Fraunhofer sum of the whole plane (cropping the plane to the grid is something else).
Fold(fr, K) ==
    LET m == Len(fr)  n == Len(fr[1])
        RECURSIVE S(_, _, _, _, _)
        S(acc, i, j, p, q) == IF i > m THEN acc
                              ELSE IF j > n THEN S(acc, i + 1, 1, p, q)
                              ELSE S(IF (Coord(m, 0, i) - Coord(K[1], 0, p)) % K[1] = 0 /\ (Coord(n, 0, j) - Coord(K[2], 0, q)) % K[2] = 0
                                     THEN Add(acc, fr[i][j]) ELSE acc, i, j + 1, p, q)
    IN TLCEval([p \in 1..K[1] |-> TLCEval([q \in 1..K[2] |-> S(Zero, 1, 1, p, q)])])
ThmFold(w, c) ==
    LET a == Alpha(w, c)
        osh == OutShape(c)
        whole == FieldOf(w)
        g == Geom(a, <<R(0), R(0)>>, osh)
    IN (a[1][1] = 1 /\ a[2][1] = 1) => MatEq(Forward(whole, g), Forward(Fold(whole, <<a[1][2], a[2][2]>>), g))

\* C04: a tilt element is the same as the corresponding linear phase ramp in the beam
\* ramp with integer exponent steps (kr, kc) per sample  <=>  displacement (kr/(N alpha_r), kc/(N alpha_c)) samples
RampBeam(b, kr, kc) == [b EXCEPT !.d = TLCEval([i \in 1..b.sh[1] |-> TLCEval([j \in 1..b.sh[2] |->
                               Rot(b.d[i][j], kr * Coord(b.sh[1], 0, i) + kc * Coord(b.sh[2], 0, j))])])]
ThmShift(w, c, b, kr, kc) ==
    LET a == Alpha(w, c)
        s == <<RDiv(R(kr), RMul(R(N), a[1])), RDiv(R(kc), RMul(R(N), a[2]))>>
        osh == OutShape(c)
        g0 == Geom(a, <<R(0), R(0)>>, osh)
        gs == Geom(a, s, osh)
    IN GeomOK(gs) => \A u \in 1..osh[1], v \in 1..osh[2] :
            Sample(RampBeam(b, kr, kc).d, g0, u, v) = Sample(b.d, gs, u, v)
=============================================================================
