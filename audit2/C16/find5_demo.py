"""C16 finding 5: a single (scalar) wavelength works with a scalar or vector QE
but not with a Spectrum QE."""
import os, sys
sys.path.insert(0, os.environ.get('LENTIL_REPO', '.'))
import numpy as np
import lentil
from lentil.radiometry import Spectrum

print('lentil from', lentil.__file__)
frame = np.full((3, 3), 100.0)          # one wavelength slice, 2-D (accepted: img.ndim == 2 branch)
qe = Spectrum([400., 500., 600.], [0.4, 0.5, 0.6])
a = lentil.detector.collect_charge(frame, 500., 0.5)
b = lentil.detector.collect_charge(frame, 500., [0.5])
print('scalar QE:', a[0, 0], ' vector QE:', b[0, 0])
bad = False
for name, f in [('collect_charge', lambda: lentil.detector.collect_charge(frame, 500., qe)),
                ('collect_charge_bayer', lambda: lentil.detector.collect_charge_bayer(np.full((2, 2), 100.), 500., qe, qe, qe, 'RGGB'))]:
    try:
        c = f()
        print(name, 'Spectrum QE:', c[0, 0])
        bad |= not np.allclose(c, 50.0)
    except Exception as ex:
        print(name, 'Spectrum QE: %r' % ex)
        bad = True
if bad:
    print('VIOLATION: with wave given as a scalar the Spectrum form of the QE fails (0-d result of '
          'Spectrum.sample fed to einsum) while the scalar and vector forms give 50 e-')
    sys.exit(1)
print('ok')
sys.exit(0)
