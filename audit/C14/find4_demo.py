"""C14 finding 4 (low severity): with waveunit='m' an integer wavelength array is
not promoted to float (Meter.to('m') returns the int 1), so wave**5 is evaluated
in int64/int32 and silently wraps around for long wavelengths; the same
wavelengths given as floats, as a Python int, or in any other unit give the
right radiance."""
import os, sys
sys.path.insert(0, os.environ.get('LENTIL_REPO', '.'))
import warnings
import numpy as np
import lentil.radiometry as R

T = 300.
bad = False
for wave_m in (np.array([7000]), np.array([100], dtype=np.int32)):
    with warnings.catch_warnings():
        warnings.simplefilter('ignore')
        as_int = R.planck_radiance(wave_m, T, 'm', 'wlam')                       # W m^-2 sr^-1 m^-1
        as_float = R.planck_radiance(wave_m.astype(float), T, 'm', 'wlam')
        in_um = R.planck_radiance(wave_m * 1e6, T, 'um', 'wlam') * 1e6           # per um -> per m
        ex_int = R.planck_exitance(wave_m, T, 'm', 'photlam')
        ex_float = R.planck_exitance(wave_m.astype(float), T, 'm', 'photlam')
    print(f"wave = {wave_m!r} m: radiance int-array {as_int}, float-array {as_float}, "
          f"same wavelength in um {in_um}")
    print(f"     exitance(photlam) int-array {ex_int}, float-array {ex_float}")
    if not np.allclose(as_int, as_float, rtol=1e-9) or not np.allclose(ex_int, ex_float, rtol=1e-9):
        bad = True
if bad:
    print("VIOLATION: planck_radiance/planck_exitance depend on the dtype of the wavelength "
          "array when waveunit='m' (integer overflow of wave**5; the int64 case is even negative).")
    sys.exit(1)
print("ok")
sys.exit(0)
