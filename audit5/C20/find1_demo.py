"""C20 / finding 1: helper.slice_offset wraps around for unsigned-integer inputs.

The offset of a bounding slice relative to the origin sample (index n//2) of the
containing array is a signed quantity.  slice_offset forms it as

    np.array((start_r + h_r, start_c + h_c)) - shape//2

in the integer type of the caller's slice bounds and shape array.  When both are
unsigned NumPy integers (e.g. ROI bounds read from a uint16 table and
shape = np.array(img.shape, dtype=np.uint16)) every negative offset wraps around
(-3 -> 253 / 65533 / 4294967293 / 18446744073709551613) without any warning or error.
"""
import os
import sys

sys.path.insert(0, os.environ.get('LENTIL_REPO', '.'))

import numpy as np
import lentil
from lentil.helper import slice_offset, boundary_slice

print('lentil from', lentil.__file__)

failed = False

# a 5 x 4 block in the upper-left part of a 9 x 12 array
a = np.zeros((9, 12))
a[2:7, 1:5] = 1
ref_slice = boundary_slice(a)                       # (slice(2, 7), slice(1, 5))
ref = tuple(int(v) for v in slice_offset(ref_slice, a.shape))   # (0, -3)

# independent statement of the convention: origin sample of the sub-array
# (index m//2) sits at start + m//2 in the big array whose origin is n//2
expect = (2 + 5//2 - 9//2, 1 + 4//2 - 12//2)
assert ref == expect == (0, -3), (ref, expect)

for dt in (np.uint8, np.uint16, np.uint32, np.uint64):
    s = (slice(dt(2), dt(7)), slice(dt(1), dt(5)))  # the same slice, unsigned bounds
    assert np.array_equal(a[s], a[ref_slice])       # a perfectly valid numpy index
    shape = np.array(a.shape, dtype=dt)             # the same shape, unsigned array
    off = slice_offset(s, shape)
    ok = tuple(int(v) for v in off) == expect
    print(f'{dt.__name__:7s} slice/shape -> offset {tuple(off)}  expected {expect}  '
          f'{"ok" if ok else "WRONG"}')
    failed |= not ok

# signed types of the same width are handled correctly (control)
for dt in (np.int8, np.int16, np.int32, np.int64):
    s = (slice(dt(2), dt(7)), slice(dt(1), dt(5)))
    off = slice_offset(s, np.array(a.shape, dtype=dt))
    assert tuple(int(v) for v in off) == expect, (dt, off)

if failed:
    print('VIOLATION: slice_offset returns a wrapped-around (huge positive) offset for a '
          'bounding slice that lies left of / above the array origin when slice bounds and '
          'shape are unsigned integers; the offset is not consistent with the n//2 convention.')
    sys.exit(1)
print('no violation observed')
sys.exit(0)
