"""C09 finding 1: with non-uniform (2,) sampling propagate_fft does not equal
the DFT propagation at the wavelength it reports.

propagate_fft / propagate_dft both document `pixelscale : float or (2,) float`
and Plane pixelscale may also be (2,).  _fft_shape rounds the FFT grid
independently per axis, so each axis corresponds to its own effective
wavelength, but only np.min of the two is reported.
"""
import os, sys
sys.path.insert(0, os.environ.get('LENTIL_REPO', '.'))
import numpy as np
import lentil


def brute_force(f, dx, du, wl, z, oversample, shape_out):
    # direct evaluation of the unitary far-field DFT with lentil's centre
    # convention (origin at index n//2 in both planes)
    m, n = f.shape
    M, N = shape_out
    ar = dx[0]*du[0]/(wl*z*oversample)
    ac = dx[1]*du[1]/(wl*z*oversample)
    R = np.arange(m) - m//2
    S = np.arange(n) - n//2
    U = np.arange(M) - M//2
    V = np.arange(N) - N//2
    E1 = np.exp(-2j*np.pi*ar*np.outer(U, R))
    E2 = np.exp(-2j*np.pi*ac*np.outer(S, V))
    return E1 @ f @ E2 * np.sqrt(ar*ac)


def case(label, dx, du, wl=500e-9, fl=0.2, oversample=1, npix=(9, 8)):
    rng = np.random.default_rng(0)
    amp = rng.uniform(0.5, 1, npix)
    pupil = lentil.Pupil(amplitude=amp, pixelscale=dx, focal_length=fl)
    w = lentil.Wavefront(wavelength=wl) * pupil

    grid = lentil.scratch_shape(wl, dx, du, fl, oversample)
    assert npix[0] <= grid[0] and npix[1] <= grid[1], 'pupil must fit the FFT grid'
    shape = (grid[0]//oversample, grid[1]//oversample)

    out = lentil.propagate_fft(w, pixelscale=du, shape=shape, oversample=oversample)
    wl_rep = out.wavelength

    # DFT propagation of the same field at the reported wavelength
    w_ref = lentil.Wavefront(wavelength=wl_rep) * pupil
    ref = lentil.propagate_dft(w_ref, pixelscale=du, shape=shape, oversample=oversample)

    dxx = np.broadcast_to(dx, (2,)); duu = np.broadcast_to(du, (2,))
    bf = brute_force(w.field, dxx, duu, wl_rep, fl, oversample, out.shape)

    nrm = np.max(np.abs(bf))
    e_dft = np.max(np.abs(out.field - ref.field))/nrm
    e_bf = np.max(np.abs(out.field - bf))/nrm
    e_dft_bf = np.max(np.abs(ref.field - bf))/nrm
    wl_axes = np.asarray(grid)/oversample*dxx*duu/fl
    print(f'{label}: dx={dx} du={du} oversample={oversample} FFT grid={grid}')
    print(f'   reported wavelength {wl_rep:.6e}; per-axis effective wavelengths {wl_axes}')
    print(f'   |FFT - propagate_dft(reported wl)| / max = {e_dft:.3e}')
    print(f'   |FFT - brute force DFT(reported wl)| / max = {e_bf:.3e}')
    print(f'   |propagate_dft - brute force| / max = {e_dft_bf:.3e} (sanity)')
    return e_dft, e_bf


bad = False
# control: uniform sampling agrees to rounding
e = case('control (uniform)', 1e-3, 5e-6)
assert max(e) < 1e-10
# non-uniform output sampling
e = case('non-uniform output pixelscale', 1e-3, (5e-6, 7.3e-6))
bad |= max(e) > 1e-6
# non-uniform pupil sampling, uniform output sampling
e = case('non-uniform pupil pixelscale', (1e-3, 1.3e-3), 5e-6, oversample=2)
bad |= max(e) > 1e-6

if bad:
    print('VIOLATION: propagate_fft differs from the DFT propagation at the '
          'wavelength it reports by far more than rounding when the two axes '
          'have different sampling (no single wavelength describes both axes).')
    sys.exit(1)
print('no violation observed')
sys.exit(0)
