------------------------------ MODULE Rescale ------------------------------
(* Bookkeeping of Plane.rescale / Plane.resample (property C17): what changes is the sampling, not     *)
(* the optics.  Scale factors and pixel scales are exact rationals.                                     *)
EXTENDS Integers, Sequences, FiniteSets, TLC, Rat

\* a plane, as far as resampling is concerned: array shape, pixel scale (rational or <<>>), number of segments
Rescaled(p, s) == [shape |-> <<RCeil(RMul(R(p.shape[1]), s)), RCeil(RMul(R(p.shape[2]), s))>>,
                   px |-> IF p.px = <<>> THEN <<>> ELSE <<RDiv(p.px[1], s), RDiv(p.px[2], s)>>,
                   nseg |-> p.nseg]
\* resample to a new (uniform) pixel scale q is rescale by px/q; refused for non-uniform or missing sampling
ResampleScale(p, q) == RDiv(p.px[1], q)
ResampleOK(p) == p.px # <<>> /\ p.px[1] = p.px[2]

\* physical extent (pixel scale times samples) is preserved to within one NEW sample
ThmExtent(n, px, s) == LET n2 == RCeil(RMul(R(n), s))
                           px2 == RDiv(px, s)
                           d == RSub(RMul(R(n2), px2), RMul(R(n), px))
                       IN RLe(R(0), d) /\ RLt(d, px2)
\* identity and composition of the bookkeeping
ThmIdentity(p) == Rescaled(p, R(1)) = p
\* two rescalings change the pixel scale like one rescaling by the product (the sample count may differ by rounding up)
ThmCompose(p, s, t) == p.px # <<>> => Rescaled(Rescaled(p, s), t).px = Rescaled(p, RMul(s, t)).px
=============================================================================
