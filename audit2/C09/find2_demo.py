"""C09 finding 2 (minor): a single-precision complex scratch buffer (a "complex
ndarray", as the docstring asks for) is accepted silently and changes the
result: the pupil field is rounded to complex64 when it is written into the
buffer and the FFT is then carried out in single precision.  Real and integer
buffers are refused (numpy casting error); complex64 is not.
"""
import os, sys
sys.path.insert(0, os.environ.get('LENTIL_REPO', '.'))
import numpy as np
import lentil

print('lentil from', lentil.__file__)

z, dx, du, os_ = 10.0, 1e-3, 5e-6, 2
wl = 16.2 * dx * du / (os_ * z)            # FFT grid 16 x 16
rng = np.random.default_rng(0)
amp = rng.uniform(0.5, 1.0, size=(8, 8))
opd = rng.normal(size=(8, 8)) * 5e-11
w = lentil.Wavefront(wl) * lentil.Pupil(amplitude=amp, opd=opd, pixelscale=dx,
                                        focal_length=z)

grid = lentil.scratch_shape(wl, dx, du, z, os_)
ref = lentil.propagate_fft(w, du, shape=(4, 4), oversample=os_).field
s128 = lentil.propagate_fft(w, du, shape=(4, 4), oversample=os_,
                            scratch=np.zeros(grid, dtype=np.complex128)).field
s64 = lentil.propagate_fft(w, du, shape=(4, 4), oversample=os_,
                           scratch=np.zeros(grid, dtype=np.complex64)).field

e128 = np.max(np.abs(s128 - ref)) / np.max(np.abs(ref))
e64 = np.max(np.abs(s64 - ref)) / np.max(np.abs(ref))
print('scratch shape', grid)
print('complex128 scratch: relative change of the result %.3e' % e128)
print('complex64  scratch: relative change of the result %.3e' % e64)

assert e128 < 1e-12
if e64 > 1e-10:
    print('VIOLATION: supplying a (complex64) scratch buffer of the advertised '
          'shape changes the propagated field by %.1e relative - far above '
          'rounding of the double-precision result - and is not refused.' % e64)
    sys.exit(1)
print('no violation')
sys.exit(0)
