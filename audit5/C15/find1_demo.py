"""C15 finding 1: Spectrum.bin computes the bin edges in the storage type of the
caller's array of centres (float32 / float16), so the bins are not exact for a
spectrum that is linear across each bin.

exit 1 = violation observed, exit 0 = not observed.
"""
import os, sys
sys.path.insert(0, os.environ.get('LENTIL_REPO', '.'))
import warnings
warnings.simplefilter('ignore')
import numpy as np
import lentil
from lentil.radiometry import Spectrum

print('lentil from', lentil.__file__)

# f(x) = x, piecewise linear (in fact linear) everywhere, held in float64 on a
# uniform float64 grid: every quadrature rule of bin() is exact for it.
grid = np.arange(400.0, 1300.0, 0.05)
s = Spectrum(grid, grid.copy())


def exact_bins(c, ends):
    """Exact integral of f(x)=x over the documented bins of the centres c."""
    c = np.asarray(c, dtype=np.float64)          # the centres, exactly
    mid = (c[:-1] + c[1:]) / 2
    if ends == 'symmetric':
        e = np.concatenate([[c[0] - (c[1]-c[0])/2], mid, [c[-1] + (c[-1]-c[-2])/2]])
    else:
        e = np.concatenate([[c[0]], mid, [c[-1]]])
    return (e[1:]**2 - e[:-1]**2) / 2


failed = False

# (a) single precision centres, uniformly spaced by 0.1 nm (every centre is an
#     exactly representable number; the float64 copy holds the SAME numbers)
c32b = np.array([500.1, 500.2, 500.3, 500.4, 500.5], dtype=np.float32)

for name, c in (('float32 [500.1 .. 500.5]', c32b),):
    for method in ('trapz', 'simps'):
        for ends in ('symmetric', 'inside'):
            got = s.bin(c, interp_method=method, ends=ends, preserve_power=False)
            ref = s.bin(c.astype(np.float64), interp_method=method, ends=ends,
                        preserve_power=False)
            ex = exact_bins(c, ends)
            rel = np.max(np.abs(got - ex) / ex)
            rel_ref = np.max(np.abs(ref - ex) / ex)
            # (simps with these centres is only uniform to float32 rounding: the
            #  float64 reference shows how little that matters)
            print(f'{name:26s} {method:5s} {ends:9s}: max rel. error of bins = {rel:.2e}'
                  f'   (same centres as float64: {rel_ref:.2e})')
            if rel > 1e-6 and rel_ref < 1e-6:
                failed = True

# (b) half precision centres 1100, 1101, 1102, 1103 nm (all exactly representable;
#     the mid-points 1100.5 ... are not, and are rounded to a centre)
c16 = np.array([1100, 1101, 1102, 1103], dtype=np.float16)
for method in ('trapz', 'simps'):
    for pp in (False, True):
        got = s.bin(c16, interp_method=method, ends='symmetric', preserve_power=pp)
        ref = s.bin(c16.astype(np.float64), interp_method=method, ends='symmetric',
                    preserve_power=pp)
        print(f'float16 [1100..1103] {method:5s} symmetric preserve_power={pp}:')
        print('      bins         =', got)
        print('      same, float64 =', ref)
        if not np.allclose(got, ref, rtol=1e-6):
            failed = True

if failed:
    print('\nVIOLATION: the bins of a spectrum that is linear across every bin depend on the\n'
          'storage type of the array of centres: off by 1e-4 (relative) for float32 centres,\n'
          'and empty / doubled bins for float16 centres, although the float64 array holding\n'
          'exactly the same centres is binned exactly.')
    sys.exit(1)
print('no violation observed')
sys.exit(0)
