SPECIFICATION Spec
INVARIANT Lemmas
CONSTRAINT Emit
